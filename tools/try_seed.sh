#!/bin/bash
# usage: tools/try_seed.sh <patch.diff> <Cxx> [tier]   — apply a seeded change to /repo, run the check, undo.
set -u
P=$1; ID=$2; TIER=${3:-quick}
cd /repo || exit 2
git diff --quiet || { echo "/repo dirty"; exit 2; }
git apply "$P" || { echo "patch does not apply"; exit 2; }
cd /verif
export VERIF_EVIDENCE_DIR=/verif/.cache/seed-evidence; mkdir -p $VERIF_EVIDENCE_DIR   # never overwrite the evidence of the unchanged tree
./check "$ID" --tier "$TIER" 2>&1 | grep -E "VIOLATION|KNOWN|BUILD-ERROR|^C[0-9]+ " | cut -c1-300
rc=${PIPESTATUS[0]}
git -C /repo checkout -- .
echo "exit=$rc"
