#!/bin/bash
# usage: tools/sweep.sh [tier] [seed] — run every registered check once, print one summary line per property
TIER=${1:-quick}; export VERIF_SEED=${2:-1}
cd /verif
for id in C01 C02 C03 C04 C05 C06 C07 C08 C09 C10 C11 C12 C13 C14 C15 C16 C17 C18 C19 C20; do
  s=$(date +%s)
  out=$(./check $id --tier $TIER 2>&1); rc=$?
  echo "$id rc=$rc $(( $(date +%s) - s ))s | $(echo "$out" | grep -E "VIOLATION|BUILD-ERROR|Traceback" | head -3 | tr '\n' ' ') | $(echo "$out" | grep -c KNOWN-FINDING) known | $(echo "$out" | tail -1 | cut -c1-150)"
done
