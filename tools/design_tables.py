#!/usr/bin/env python3
"""regenerates the seeded-change table of DESIGN.md §12.6 from seeded/*/meta.json"""
import glob, json, os, re
root = os.path.dirname(os.path.dirname(os.path.abspath(__file__)))
rows = ["| seed | written against | confirmed on its base tree | check run | patch | result |", "|---|---|---|---|---|---|"]
for d in sorted(glob.glob(os.path.join(root, "seeded", "*"))):
    try:
        m = json.load(open(os.path.join(d, "meta.json")))
    except Exception:
        continue
    c = m.get("confirmation", {})
    det = m.get("detection", {})
    res = "not run"
    if det:
        res = ("detected" + (" (proof/correspondence only, no failing input)" if det.get("violation_lines") == det.get("no_failing_input_lines") and det.get("violation_lines") else "")) \
            if det.get("detected") else f"NOT detected (exit {det.get('exit_code')})"
    rows.append(f"| {os.path.basename(d)} | {m.get('breaks', m.get('property', '?'))} | {'yes' if c.get('confirmed') else 'no'} | {det.get('check', '-')} {det.get('tier', '')} | "
                f"{os.path.basename(det.get('patch', 'patch.diff'))} | {res} |")
p = os.path.join(root, "DESIGN.md")
s = open(p).read()
s = re.sub(r"<!-- SEED-TABLE-BEGIN -->.*<!-- SEED-TABLE-END -->", "<!-- SEED-TABLE-BEGIN -->\n" + "\n".join(rows) + "\n<!-- SEED-TABLE-END -->", s, flags=re.S)
open(p, "w").write(s)
print(len(rows) - 2, "seeds")
