#!/usr/bin/env python3
"""usage: tools/confirm_seed.py <ID> <n>   (reads /tmp/seed/<ID>/out/<n>, writes /verif/seeded/<ID>-<n>/)
Confirms a seeded change in a scratch worktree of the pinned commit: it applies, the library builds, the 28 pinned
tests pass, and the demonstration fails with the change and passes without it. Removes the worktree afterwards."""
import json, os, re, shutil, subprocess, sys
ID, N = sys.argv[1], sys.argv[2]
ROOT = os.environ.get("SEED_ROOT", "/tmp/seed")          # where the sub-agent delivered
BASE = os.environ.get("SEED_BASE", "32497ec")            # commit the change was written against
SUFFIX = os.environ.get("SEED_SUFFIX", "")               # e.g. "b" for second-round seeds
src = f"{ROOT}/{ID}/out/{N}"
dst = f"/verif/seeded/{ID}{SUFFIX}-{N}"
os.makedirs(dst, exist_ok=True)
for f in os.listdir(src):
    if os.path.isfile(os.path.join(src, f)) and os.path.getsize(os.path.join(src, f)) < 300_000 and (f.endswith((".cpp", ".json", ".diff", ".nif", ".txt", ".hpp", ".h", ".sh")) ):
        shutil.copy(os.path.join(src, f), dst)
meta = json.load(open(os.path.join(dst, "meta.json")))
wt = f"/tmp/confirm/{ID}{SUFFIX}-{N}"
def fix(s):
    s = s.replace(src, dst).replace(f"{ROOT}/{ID}/wt", wt)
    s = re.split(r"\s{2,}\(|\s+#|\s\(the |\s\(optional", s)[0]
    return s.strip()
build, run = fix(meta["build"]), fix(meta["run"])
def sh(cmd, cwd, log, timeout=1800):
    with open(log, "w") as f:
        try:
            return subprocess.run(cmd, shell=True, cwd=cwd, stdout=f, stderr=subprocess.STDOUT, timeout=timeout).returncode
        except subprocess.TimeoutExpired:
            return 124
os.makedirs("/tmp/confirm", exist_ok=True)
subprocess.run(["git", "-C", "/repo", "worktree", "remove", "--force", wt], capture_output=True)
subprocess.run(["git", "-C", "/repo", "worktree", "add", "-q", "--detach", wt, BASE], check=True)
L = f"/tmp/confirm/{ID}{SUFFIX}-{N}"
r = {}
CM = "cmake -G Ninja -S . -B _build -DCMAKE_BUILD_TYPE=RelWithDebInfo -DCMAKE_CXX_FLAGS=-Wno-error >/dev/null && cmake --build _build -j6"
needs_lib = "_build" in build        # demos that link the cmake-built library need it built first (clean, then patched)
if needs_lib:
    sh(CM, wt, L + ".cm0.log")
r["demo_build_clean"] = sh(build, wt, L + ".cb.log")
r["demo_clean_rc"] = sh(run, wt, L + ".cr.log", 600)
r["applies"] = subprocess.run(["git", "apply", os.path.join(dst, "patch.diff")], cwd=wt).returncode
if needs_lib:
    sh(CM, wt, L + ".cm1.log")
r["demo_build_patched"] = sh(build, wt, L + ".pb.log")
r["demo_patched_rc"] = sh(run, wt, L + ".pr.log", 600)
r["cmake"] = sh(CM, wt, L + ".cm.log")
r["ctest"] = sh("ctest --test-dir _build -j8 --timeout 900", wt, L + ".ct.log")
r["tests_passed"] = open(L + ".ct.log").read().count("Passed")
subprocess.run(["git", "-C", "/repo", "worktree", "remove", "--force", wt], capture_output=True)
ok = (r["applies"] == 0 and r["cmake"] == 0 and r["ctest"] == 0 and r["tests_passed"] == 28 and r["demo_build_clean"] == 0
      and r["demo_clean_rc"] == 0 and r["demo_build_patched"] == 0 and r["demo_patched_rc"] != 0)
r["confirmed"] = ok
meta["build"], meta["run"] = build.replace(wt, "<worktree>"), run.replace(wt, "<worktree>")
meta["breaks"] = ID
meta["confirmation"] = r
meta["base_commit"] = BASE
meta["what_i_ran"] = (f"tools/confirm_seed.py: scratch worktree of {BASE}; demo built+run on the clean tree (must exit 0); patch applied; "
                      "demo rebuilt+run (must exit non-zero); cmake build + ctest (28 tests must pass)")
json.dump(meta, open(os.path.join(dst, "meta.json"), "w"), indent=1)
print(f"{ID}-{N}", "CONFIRMED" if ok else "NOT-CONFIRMED", r, flush=True)
