#!/bin/bash
# usage: tools/run_seeds.sh [ids…] — apply every kept seeded change to /repo in turn, run the check of the property it was
# written against (quick tier), undo, and record the outcome in seeded/<id>/meta.json ("detection").
cd /verif
export VERIF_EVIDENCE_DIR=/verif/.cache/seed-evidence; mkdir -p $VERIF_EVIDENCE_DIR   # never overwrite the evidence of the unchanged tree
ids=${@:-$(ls seeded)}
for d in $ids; do
  id=${d%-*}; id=${id%[bc]}
  p=seeded/$d/patch.diff
  [ -f seeded/$d/patch_on_current.diff ] && p=seeded/$d/patch_on_current.diff
  git -C /repo diff --quiet || { echo "/repo dirty"; exit 2; }
  if ! git -C /repo apply --check /verif/$p 2>/dev/null; then echo "$d patch-does-not-apply"; continue; fi
  git -C /repo apply /verif/$p
  s=$(date +%s)
  out=$(./check $id --tier quick 2>&1); rc=$?
  mkdir -p /verif/.cache/seed-logs; echo "$out" > /verif/.cache/seed-logs/$d.log
  git -C /repo checkout -- .
  viol=$(echo "$out" | grep -c "^VIOLATION")
  noin=$(echo "$out" | grep -c "no-failing-input-found")
  echo "$d rc=$rc violations=$viol no-input=$noin $(( $(date +%s) - s ))s"
  python3 - "$d" "$id" "$p" "$rc" "$viol" "$noin" "$(git -C /repo rev-parse --short HEAD)" <<'PY'
import json, sys
d, pid, patch, rc, viol, noin, commit = sys.argv[1:]
f = f"/verif/seeded/{d}/meta.json"
m = json.load(open(f))
m["detection"] = dict(check=pid, tier="quick", patch=patch, repo_commit=commit, exit_code=int(rc), violation_lines=int(viol),
                      no_failing_input_lines=int(noin), detected=(int(rc) == 1 and int(viol) > 0),
                      how="tools/run_seeds.sh: git -C /repo apply <patch>; ./check %s --tier quick; git -C /repo checkout -- ." % pid)
json.dump(m, open(f, "w"), indent=1)
PY
done
