#!/usr/bin/env python3
"""development helper: run only the dynamic part of a property module and print all failure classes
usage: tools/dyn.py <cXX> [seed] [tier]"""
import collections
import importlib
import os
import re
import sys
import time
sys.path.insert(0, os.path.dirname(os.path.dirname(os.path.abspath(__file__))))
from vlib import common as C
mod = importlib.import_module("props." + sys.argv[1].lower())
class Ctx: pass
ctx = Ctx(); ctx.res = C.Result(sys.argv[1].upper()); ctx.seed = int(sys.argv[2]) if len(sys.argv) > 2 else 1
ctx.tier = sys.argv[3] if len(sys.argv) > 3 else "quick"; ctx.replay = None
ctx.known = [k for k in C.known_findings() if k.get("property") == sys.argv[1].upper() and k.get("status") == "known"]
ctx.harness = C.build_harness("san"); ctx.driver = C.driver_path()
t = time.time()
mod.run(ctx)
cov = ctx.res.coverage
print(round(time.time() - t, 1), cov.get("evaluations"), cov.get("distinct_nontrivial"), cov.get("oracle_failures"))
cl = collections.Counter(); ex = {}
for b in getattr(ctx, "allbad", []):
    w = re.sub(r"\d+", "N", b[2])[:170]
    cl[w] += 1; ex.setdefault(w, b[1])
for w, n in cl.most_common(80):
    print(n, w, "||", ex[w])
for k in ctx.res.known:
    print("KNOWN", k[:200])
