"""Translator (C02): every statement inside a wire function (Sync / Put / Write / SyncSize / …) that mutates a data member —
assignment, compound assignment, ++/--, resize/clear/erase/push_back/… on a member — together with the conditions it is
nested under. Sites under an explicit "reading" test are dropped (they cannot run while saving)."""
import hashlib
import os
import re
import sys

sys.path.insert(0, os.path.dirname(os.path.dirname(os.path.abspath(__file__))))
from translator import astdump  # noqa: E402
from translator.reftables import strip  # noqa: E402
from vlib import common as C  # noqa: E402

WIRE = {"Sync", "Put", "Write", "SyncSize", "SyncData", "SyncByteArray", "SyncHalf", "SyncUDEC3", "SyncLine", "SyncString", "CleanInvalidRefs"}
MUTATORS = {"resize", "clear", "erase", "push_back", "emplace_back", "insert", "swap", "assign", "pop_back", "SetSize", "SetIndex", "Clear"}


def text(n):
    """compact source-like rendering of an expression"""
    n = strip(n)
    k = n.get("kind")
    if k == "MemberExpr":
        inner = text(n["inner"][0]) if n.get("inner") else ""
        return (inner + "." if inner not in ("", "this") else "") + n.get("name", "?")
    if k == "CXXThisExpr":
        return "this"
    if k == "DeclRefExpr":
        return n.get("referencedDecl", {}).get("name", "?")
    if k in ("IntegerLiteral", "FloatingLiteral"):
        return str(n.get("value"))
    if k == "CXXBoolLiteralExpr":
        return str(n.get("value")).lower()
    if k in ("BinaryOperator", "CompoundAssignOperator"):
        return "(" + text(n["inner"][0]) + n.get("opcode", "?") + text(n["inner"][1]) + ")"
    if k == "UnaryOperator":
        return n.get("opcode", "?") + text(n["inner"][0])
    if k in ("CXXMemberCallExpr", "CallExpr", "CXXOperatorCallExpr"):
        return text(n["inner"][0]) + "(" + ",".join(text(a) for a in n["inner"][1:]) + ")"
    if k in ("CXXStaticCastExpr", "CStyleCastExpr", "CXXFunctionalCastExpr", "CXXReinterpretCastExpr"):
        return text(n["inner"][0]) if n.get("inner") else "?"
    if k == "ArraySubscriptExpr":
        return text(n["inner"][0]) + "[" + text(n["inner"][1]) + "]"
    inner = [text(c) for c in n.get("inner", []) or [] if isinstance(c, dict)]
    return (k or "?") + ("(" + ",".join(inner) + ")" if inner else "")


def rooted_at_member(e, refparams):
    e = strip(e)
    k = e.get("kind")
    if k == "MemberExpr":
        if not e.get("inner"):
            return True
        b = strip(e["inner"][0])
        return b.get("kind") == "CXXThisExpr" or rooted_at_member(b, refparams)
    if k in ("ArraySubscriptExpr", "CXXOperatorCallExpr"):
        inner = e.get("inner", [])
        return rooted_at_member(inner[1] if k == "CXXOperatorCallExpr" and len(inner) > 1 else inner[0], refparams) if inner else False
    if k == "DeclRefExpr":
        return e.get("referencedDecl", {}).get("name") in refparams
    if k == "UnaryOperator" and e.get("opcode") == "*":
        return rooted_at_member(e["inner"][0], refparams)
    return False


def is_reading(cond):
    t = text(cond)
    return ("Reading" in t and "==" in t) or t.startswith("stream.asRead") or "asRead()" == t[-8:]


def is_writing(cond):
    t = text(cond)
    return "Writing" in t and "==" in t


def sites(repo):
    """member mutations in wire functions, in source order: (class, function, statement text, [condition texts])"""
    d = astdump.load(repo)
    out = []
    for m in d["methods"]:
        if m["name"] not in WIRE or m["body"] is None:
            continue
        refparams = set()
        ty = m.get("type") or ""

        def is_ref_local(e):
            e = strip(e)
            if e.get("kind") != "DeclRefExpr":
                return True
            return "&" in (e.get("referencedDecl", {}).get("type", {}).get("qualType", ""))

        def walk(n, conds, reading):
            k = n.get("kind")
            if k == "IfStmt":
                inner = n.get("inner", [])
                c = inner[0]
                r = is_reading(c)
                w = is_writing(c)
                if len(inner) > 1:
                    walk(inner[1], conds + [text(c)], reading or r)
                if len(inner) > 2:
                    walk(inner[2], conds + ["!" + text(c)], reading or w)
                return
            if k == "CXXForRangeStmt":
                for c in n.get("inner", []):
                    if c.get("kind") == "DeclStmt":
                        for v in c.get("inner", []):
                            if v.get("kind") == "VarDecl" and not v["name"].startswith("__") and "&" in v["type"]["qualType"] \
                                    and "const" not in v["type"]["qualType"]:
                                refparams.add(v["name"])
            if not reading:
                if k in ("BinaryOperator", "CompoundAssignOperator") and (n.get("opcode", "").endswith("=") and n.get("opcode") not in ("==", "!=", "<=", ">=")):
                    lhs = n["inner"][0]
                    if rooted_at_member(lhs, refparams):
                        out.append((m["cls"], m["name"], text(n), tuple(conds)))
                if k == "UnaryOperator" and n.get("opcode") in ("++", "--") and rooted_at_member(n["inner"][0], refparams) \
                        and is_ref_local(n["inner"][0]):
                    out.append((m["cls"], m["name"], text(n), tuple(conds)))
                if k == "CXXMemberCallExpr":
                    callee = strip(n["inner"][0])
                    if callee.get("kind") == "MemberExpr" and callee.get("name") in MUTATORS and callee.get("inner") \
                            and rooted_at_member(callee["inner"][0], refparams):
                        out.append((m["cls"], m["name"], text(n), tuple(conds)))
            for c in n.get("inner", []) or []:
                if isinstance(c, dict):
                    walk(c, conds, reading)
        if m["name"] in ("SyncHalf", "SyncUDEC3", "SyncString"):
            refparams |= {"fl", "vec", "str"}
        walk(m["body"], [], False)
    seen, res = set(), []
    for s_ in out:
        if s_ not in seen:
            seen.add(s_)
            res.append(s_)
    return res


TOKEN = re.compile(r"[A-Za-z_][A-Za-z_0-9]*(?:\.[A-Za-z_][A-Za-z_0-9]*)*")
NOT_MEMBER = re.compile(r"^(stream(\..*)?|operator|V\d+(_\d+)*|[A-Z][A-Z0-9_]+|true|false|i|j|k|f|Writing|Reading|GetVersion|GetMode|File|User|Stream|size|length)$")


def toks(e):
    r = []
    for t in TOKEN.findall(e):
        t = t.split(".size")[0] if t.endswith(".size") else t
        if not NOT_MEMBER.match(t) and not t.startswith("stream.") and t not in r:
            r.append(t)
    return r


def classify(site):
    """-> (kind, target, reads)   kinds: 0 resize to a count expression, 1 resize to a constant, 2 clear, 3 assignment whose
    right-hand side does not mention the target, 9 anything else"""
    cls, fn, t, conds = site
    if "CXXDependent" in t or "?" in t:
        return 9, t, []
    m = re.match(r"^(.*)\.(resize|SetSize)\((.*)\)$", t)
    if m:
        arg = m.group(3)
        return (1 if re.fullmatch(r"\d+", arg) else 0), m.group(1), toks(arg)
    m = re.match(r"^(.*)\.clear\(\)$", t)
    if m:
        return 2, m.group(1), []
    m = re.match(r"^\(([A-Za-z_][\w.]*)=(.*)\)$", t)
    if m and not m.group(2).startswith("="):
        rhs = toks(m.group(2))
        if m.group(1) not in rhs:
            return 3, m.group(1), rhs
    return 9, t, []


def structured(repo=None):
    ss = sites(repo or C.REPO)
    rows = []
    k = 0
    while k < len(ss):
        s_ = ss[k]
        kind, target, reads = classify(s_)
        txt = s_[2]
        # peephole: a.clear(); a.resize(n)  ==  refill (kind 5)
        if kind == 2 and k + 1 < len(ss) and ss[k + 1][:2] == s_[:2] and ss[k + 1][3] == s_[3]:
            k2, t2, r2 = classify(ss[k + 1])
            if k2 in (0, 1) and t2 == target:
                kind, reads, txt = 5, r2, txt + "; " + ss[k + 1][2]
                k += 1
        greads = []
        for c in s_[3]:
            for t in toks(c):
                if t not in greads:
                    greads.append(t)
        rows.append(dict(cls=s_[0], fn=s_[1], text=txt, conds=list(s_[3]), kind=kind, target=target, reads=reads, greads=greads))
        k += 1
    # ids: per class, scalars and arrays share one name space (kept apart by the kind of the op)
    names = {}
    def nid(cls, n):
        return names.setdefault((cls, n), len(names))
    for r in rows:
        r["tid"] = nid(r["cls"], r["target"])
        r["rids"] = [nid(r["cls"], n) for n in r["reads"]]
        r["gids"] = [nid(r["cls"], n) for n in r["greads"]]
        r["sig"] = int(hashlib.sha256("|".join([r["cls"], r["fn"], r["text"], " && ".join(r["conds"])]).encode()).hexdigest()[:15], 16)
    # paths: per function, every choice of polarity for the conditions that occur both plain and negated
    paths = []
    byfn = {}
    for i, r in enumerate(rows):
        byfn.setdefault((r["cls"], r["fn"]), []).append(i)
    for key, idx in byfn.items():
        atoms = set()
        for i in idx:
            for c in rows[i]["conds"]:
                atoms.add(c.lstrip("!"))
        both = sorted(a for a in atoms if any(a in rows[i]["conds"] for i in idx) and any("!" + a in rows[i]["conds"] for i in idx))
        if len(both) > 6:
            both = both[:6]
        for mask in range(1 << len(both)):
            val = {a: bool(mask >> b & 1) for b, a in enumerate(both)}
            sel = [i for i in idx if all(val.get(c.lstrip("!"), not c.startswith("!")) == (not c.startswith("!")) for c in rows[i]["conds"])]
            if len(sel) > 0 and sel not in paths:
                paths.append(sel)
    return rows, paths


def generate(repo=None, out=None):
    rows, paths = structured(repo)
    L = ["/- GENERATED by translator/writemut.py from the C++ sources on every run. DO NOT EDIT. -/",
         "namespace Nifly.Generated", "",
         "/-- one member mutation a wire function can perform while writing.",
         "kind: 0 resize to a count expression, 1 resize to a constant, 2 clear, 3 assignment (target not on the right-hand",
         "side), 5 clear followed by resize, 9 anything else.  target / reads / greads: member ids (per class); reads = members",
         "in the count or right-hand side, greads = members in the enclosing conditions; sig: 60-bit signature of",
         "(class, function, statement, conditions) -/",
         "structure WSite where", "  kind : Nat", "  target : Nat", "  reads : List Nat", "  greads : List Nat", "  sig : Nat",
         "  deriving DecidableEq, Repr", "",
         "def writeSites : List WSite := ["]
    L.append(",\n".join(f"  ⟨{r['kind']}, {r['tid']}, {r['rids']}, {r['gids']}, {r['sig']}⟩" for r in rows))
    L += ["]", "", "/-- per wire function, the mutually consistent sets of sites (indices into `writeSites`, source order) -/",
          "def writePaths : List (List Nat) := ["]
    L.append(",\n".join(f"  {p}" for p in paths))
    L += ["]", "", "def writeSiteText : List String := ["]
    L.append(",\n".join('  "' + " :: ".join([r["cls"], r["fn"], r["text"], " && ".join(r["conds"])]).replace("\\", "\\\\").replace('"', "'") + '"' for r in rows))
    L += ["]", "", "end Nifly.Generated", ""]
    out = out or os.path.join(C.LEAN_DIR, "NiflyVerif", "Generated", "WriteMutations.lean")
    txt = "\n".join(L)
    if not os.path.exists(out) or open(out).read() != txt:
        open(out, "w").write(txt)
    return rows, paths


if __name__ == "__main__":
    rows, paths = generate()
    for r in rows:
        if r["kind"] in (3, 5, 9):
            print(r["kind"], r["cls"], r["fn"], r["text"], r["conds"], r["reads"])
    print(len(rows), "sites", len(paths), "paths")
