"""Translator (C01): wire schemas. For every registered block class the chain of `Sync(NiStreamReversible&)` bodies (base
classes first, as NiCloneableStreamable::Get/Put run them) is translated into the statement language of
lean/NiflyVerif/Wire/Schema.lean: scalars of fixed width at member locations, version/member dependent branches, counted
loops. Anything the walker does not understand makes the whole class *opaque* (listed with the reason), never a silently
wrong schema; the translation is validated on every run by decoding real blocks with it (props/c01.py).
"""
import hashlib
import json
import os
import re
import subprocess
import sys

sys.path.insert(0, os.path.dirname(os.path.dirname(os.path.abspath(__file__))))
from translator import astdump  # noqa: E402
from translator.reftables import strip, tname  # noqa: E402
from vlib import common as C  # noqa: E402

VERNAMES = ["File", "User", "Stream", "IsOB", "IsFO3", "IsSK", "IsSSE", "IsFO4", "IsFO76", "IsSF", "IsSpecial"]
BINOPS = {"+": 0, "-": 1, "*": 2, "<": 3, "<=": 4, "==": 5, "&&": 6, "||": 7, "&": 8, "!=": 9, "/": 10, ">>": 11, "<<": 12, "|": 13}


class Opaque(Exception):
    pass


def lit(n):
    return ("lit", int(n))


def bin_(op, a, b):
    if op == ">":
        return ("bin", 3, b, a)
    if op == ">=":
        return ("bin", 4, b, a)
    if op not in BINOPS:
        raise Opaque("operator " + op)
    return ("bin", BINOPS[op], a, b)


def not_(a):
    return ("bin", 5, a, lit(0))


class Walker:
    """translates one Sync body; `prefix` = member path of the object whose Sync this is, `uses` = loop variables that path
    is indexed by (all enclosing loops at the call site)"""

    def __init__(self, tr, cls, prefix, uses):
        self.tr, self.cls, self.prefix, self.uses = tr, cls, prefix, list(uses)
        self.file = tr.syncs[cls]["file"] if cls in tr.syncs else None
        self.loops = list(uses)          # enclosing loop ids, outermost first
        self.vars = {}                   # C++ variable name -> ("elem", name, uses) | ("expr", Expr) | ("idx", loop id)
        self.sizes = {}                  # member name -> Expr (value given to resize)
        self.ltypes = {}                 # local variable -> type
        self.in_cond_on = None
        self.member_alias = {}           # member -> location of its narrowed wire view

    # ---- lvalues
    def lval(self, e):
        """-> (name, uses, qualType) of a member lvalue"""
        e = strip(e)
        k = e.get("kind")
        if k == "CXXThisExpr":
            return self.prefix, list(self.uses), None
        if k == "MemberExpr":
            if not e.get("inner"):
                return (self.prefix + "." if self.prefix else self.cls + "::") + e["name"], list(self.uses), e["type"]["qualType"]
            raw = e["inner"][0]
            b = self.lval(raw)
            if b[0] == "" and strip(raw).get("kind") == "CXXThisExpr":
                # a direct member of the object being synced: qualified by the class that declares it
                decl = self.cls
                r = raw
                while r.get("kind") in ("ImplicitCastExpr", "ParenExpr") and r.get("inner"):
                    if r.get("castKind") in ("UncheckedDerivedToBase", "DerivedToBase") and r.get("path"):
                        decl = r["path"][-1]["name"]
                    r = r["inner"][0]
                return decl + "::" + e["name"], b[1], e["type"]["qualType"]
            return (b[0] + "." if b[0] else "") + e["name"], b[1], e["type"]["qualType"]
        if k == "DeclRefExpr":
            n = e.get("referencedDecl", {}).get("name")
            v = self.vars.get(n)
            if v and v[0] == "elem":
                return v[1], list(v[2]), e["type"]["qualType"]
            raise Opaque("lvalue variable " + str(n))
        if k in ("CXXOperatorCallExpr", "ArraySubscriptExpr"):
            inner = e.get("inner", [])
            if k == "CXXOperatorCallExpr":
                obj, idx = inner[1], inner[2] if len(inner) > 2 else None
            else:
                obj, idx = inner[0], inner[1]
            b = self.lval(obj)
            if idx is None:
                raise Opaque("operator call")
            ie = strip(idx)
            if ie.get("kind") == "DeclRefExpr":
                v = self.vars.get(ie.get("referencedDecl", {}).get("name"))
                if v and v[0] == "idx":
                    return b[0] + "[]", b[1] + [v[1]], e["type"]["qualType"]
            if ie.get("kind") == "IntegerLiteral":
                return b[0] + "[" + ie["value"] + "]", b[1], e["type"]["qualType"]
            raise Opaque("subscript by a non-loop variable")
        raise Opaque("lvalue " + str(k))

    # ---- expressions
    def expr(self, e):
        e = strip(e)
        k = e.get("kind")
        if k == "IntegerLiteral":
            return lit(e["value"])
        if k == "CXXBoolLiteralExpr":
            return lit(1 if e.get("value") else 0)
        if k == "ParenExpr":
            return self.expr(e["inner"][0])
        if k == "UnaryOperator":
            if e.get("opcode") == "!":
                return not_(self.expr(e["inner"][0]))
            if e.get("opcode") == "~":
                return ("bin", 1, lit(0xFFFFFFFF), self.expr(e["inner"][0]))
            raise Opaque("unary " + str(e.get("opcode")))
        if k == "BinaryOperator":
            return bin_(e["opcode"], self.expr(e["inner"][0]), self.expr(e["inner"][1]))
        if k == "DeclRefExpr":
            rd = e.get("referencedDecl", {})
            n = rd.get("name", "")
            if rd.get("kind") == "EnumConstantDecl":
                m = re.match(r"V(\d+)_(\d+)_(\d+)_(\d+)$", n)
                if m:
                    return lit(int(m.group(1)) << 24 | int(m.group(2)) << 16 | int(m.group(3)) << 8 | int(m.group(4)))
                ety = tname(e["type"].get("desugaredQualType", e["type"]["qualType"]))
                self.tr.enums.add((ety, n))
                return ("enum", ety, n)
            v = self.vars.get(n)
            if v and v[0] == "expr":
                return v[1]
            if v and v[0] == "elem":
                return ("var", v[1], list(v[2]))
            if v and v[0] == "alias":
                return ("var", v[1] + "#as:" + v[3], list(v[2]))
            raise Opaque("variable " + n)
        if k == "MemberExpr":
            name, uses, _ = self.lval(e)
            if name in self.tr.binds:
                return self.tr.binds[name]
            if name in self.member_alias:
                return ("var", self.member_alias[name], uses)
            base = name.split(".")[-1].split("::")[-1]
            if base in self.tr.classconst:
                return lit(1 if self.tr.derives(self.tr.concrete, self.tr.classconst[base]) else 0)
            return ("var", name, uses)
        if k == "CXXMemberCallExpr":
            callee = strip(e["inner"][0])
            cn = callee.get("name")
            if cn in VERNAMES:
                # stream.GetVersion().File() etc.
                return ("ver", VERNAMES.index(cn))
            if cn == "HasType":
                txt = self.tr.source_text(self.file, callee)
                m = re.search(r"HasType<\s*([\w:]+)\s*>", txt or "")
                if not m:
                    raise Opaque("HasType with unreadable argument")
                return lit(1 if self.tr.derives(self.tr.concrete, m.group(1)) else 0)
            if cn == "empty" and callee.get("inner"):
                o = strip(callee["inner"][0])
                if o.get("kind") == "DeclRefExpr":
                    v = self.vars.get(o.get("referencedDecl", {}).get("name"))
                    if v and v[0] == "strlen":
                        return bin_("==", v[1], lit(0))
            if cn in ("size",) and callee.get("inner"):
                name, uses, _ = self.lval(callee["inner"][0])
                if name in self.sizes:
                    return self.sizes[name]
                raise Opaque("size() of a vector whose length is not fixed by a resize: " + name)
            raise Opaque("call " + str(cn))
        if k in ("CXXOperatorCallExpr", "ArraySubscriptExpr"):
            name, uses, _ = self.lval(e)
            return ("var", name, uses)
        if k == "ConditionalOperator":
            c, a, b = (self.expr(x) for x in e["inner"][:3])
            return ("bin", 0, ("bin", 2, ("bin", 9, c, lit(0)), a), ("bin", 2, ("bin", 5, c, lit(0)), b))
        if k == "UnaryExprOrTypeTraitExpr" and e.get("name") == "sizeof":
            at = e.get("argType", {}).get("qualType") or (strip(e["inner"][0])["type"]["qualType"] if e.get("inner") else None)
            if at:
                self.tr.types.add(tname(at))
                return ("sizeofE", tname(at))
            raise Opaque("sizeof")
        if k == "CallExpr":
            cal = strip(e["inner"][0])
            if cal.get("referencedDecl", {}).get("name") == "ToFile" or cal.get("name") == "ToFile":
                a = [strip(x) for x in e["inner"][1:]]
                if len(a) == 4 and all(x.get("kind") == "IntegerLiteral" for x in a):
                    v = [int(x["value"]) for x in a]
                    return lit(v[0] << 24 | v[1] << 16 | v[2] << 8 | v[3])
            raise Opaque("free function call")
        raise Opaque("expression " + str(k))

    # ---- statements
    def block(self, stmts, cont=None):
        """statements followed by the continuation `cont` (a thunk giving the translated rest of the function); a `return`
        anywhere inside nested ifs cuts the continuation on that path"""
        cont = cont or (lambda: [])
        if not stmts:
            return cont()
        s, rest = stmts[0], stmts[1:]
        k = s.get("kind")
        if k == "ReturnStmt":
            return []
        if k == "CompoundStmt":
            return self.block(self.body_of(s) + rest, cont)
        if k == "IfStmt" and self.has_return(s) and not self.is_reading_copyback(s):
            inner = s["inner"]
            c = self.expr(inner[0])
            saved = (dict(self.vars), dict(self.sizes))
            tb, bb = set(self.tr.transferred), dict(self.tr.binds)
            t = self.lazy(lambda: self.block(self.body_of(inner[1]), lambda: self.block(rest, cont)))
            self.vars, self.sizes = dict(saved[0]), dict(saved[1])
            self.tr.transferred, self.tr.binds = set(tb), dict(bb)
            e = self.lazy(lambda: self.block(self.body_of(inner[2]) if len(inner) > 2 else [], lambda: self.block(rest, cont)))
            self.tr.transferred, self.tr.binds = set(tb), dict(bb)
            return [("ite", c, t, e)]
        am = self.assigned_member(s)
        if am and rest and self.synced_member(rest[0]) == am:
            # `length = palette.length(); stream.Sync(length);`: the value written is computed from the model first; reading
            # overwrites it with what the file says
            self.tr.normalisers.add(f"{self.cls}: {am} modified before it is transferred")
            return self.block(rest, cont)
        head = self.stmt(s)
        return head + self.block(rest, cont)

    def assigned_member(self, s):
        s = strip(s)
        if s.get("kind") != "BinaryOperator" or s.get("opcode") != "=":
            return None
        lhs = strip(s["inner"][0])
        if lhs.get("kind") != "MemberExpr":
            return None
        try:
            return self.lval(lhs)[0]
        except Opaque:
            return None

    def synced_member(self, s):
        s = strip(s)
        if s.get("kind") != "CXXMemberCallExpr" or len(s.get("inner", [])) != 2:
            return None
        callee = strip(s["inner"][0])
        obj = strip(callee["inner"][0]) if callee.get("inner") else None
        if callee.get("name") != "Sync" or obj is None or obj.get("referencedDecl", {}).get("name") != "stream":
            return None
        a0 = strip(s["inner"][1])
        if a0.get("kind") != "MemberExpr":
            return None
        try:
            return self.lval(a0)[0]
        except Opaque:
            return None

    def has_return(self, n):
        if n.get("kind") == "ReturnStmt":
            return True
        if n.get("kind") in ("ForStmt", "CXXForRangeStmt", "WhileStmt", "SwitchStmt", "LambdaExpr"):
            return False
        return any(isinstance(c, dict) and self.has_return(c) for c in n.get("inner", []) or [])

    @staticmethod
    def body_of(n):
        return [c for c in n.get("inner", []) or [] if isinstance(c, dict)] if n.get("kind") == "CompoundStmt" else [n]

    def ends_with_return(self, n):
        b = self.body_of(n)
        return bool(b) and b[-1].get("kind") == "ReturnStmt"

    def stmt(self, s):
        k = s.get("kind")
        if k == "CompoundStmt":
            return self.block(self.body_of(s))
        if k == "NullStmt":
            return []
        if k == "IfStmt" and self.is_reading_copyback(s):
            return []
        if k == "IfStmt" and self.writing_alias(s):
            return []
        if k == "IfStmt" and self.is_pure_mode_block(s):
            self.tr.normalisers.add(f"{self.cls}: mode-dependent block without transfers")
            return []
        if k == "IfStmt":
            inner = s["inner"]
            c = self.expr(inner[0])
            before = dict(self.vars)
            # `if (m > k) m = k;` : remember which single member the condition is about
            cv = set()

            def cvars(x):
                if isinstance(x, tuple):
                    if x and x[0] == "var":
                        cv.add(x[1])
                    for y in x:
                        cvars(y)
            cvars(c)
            saved_cond = self.in_cond_on
            self.in_cond_on = next(iter(cv)) if len(cv) == 1 else None
            tb, bb = set(self.tr.transferred), dict(self.tr.binds)
            try:
                t = self.lazy(lambda: self.stmt(inner[1]))
            finally:
                self.in_cond_on = saved_cond
            vt = self.vars
            self.vars = dict(before)
            tt, bt = self.tr.transferred, self.tr.binds
            self.tr.transferred, self.tr.binds = set(tb), dict(bb)
            e = self.lazy(lambda: self.stmt(inner[2])) if len(inner) > 2 else []
            ve = self.vars
            # transferred on both paths / bound to the same value on both paths
            self.tr.transferred = tt & self.tr.transferred
            self.tr.binds = {k_: v_ for k_, v_ in bt.items() if self.tr.binds.get(k_) == v_}
            # locals assigned in a branch: their value afterwards depends on the condition
            merged = dict(before)
            for n in set(vt) | set(ve):
                a, b = vt.get(n, before.get(n)), ve.get(n, before.get(n))
                if n not in before:
                    continue                      # declared inside a branch: out of scope afterwards
                if a == b:
                    merged[n] = a
                elif a and b and a[0] == "expr" and b[0] == "expr":
                    merged[n] = ("expr", ("bin", 0, ("bin", 2, ("bin", 9, c, lit(0)), a[1]), ("bin", 2, ("bin", 5, c, lit(0)), b[1])))
                else:
                    raise Opaque("a local is re-bound differently in the branches of an if: " + n)
            self.vars = merged
            return [("ite", c, t, e)]
        if k == "DeclStmt":
            for v in s.get("inner", []):
                if v.get("kind") != "VarDecl":
                    raise Opaque("declaration " + str(v.get("kind")))
                self.ltypes[v["name"]] = tname(v["type"].get("desugaredQualType", v["type"]["qualType"]))
                init = [c for c in v.get("inner", []) or [] if isinstance(c, dict)]
                if not init:
                    raise Opaque("local without initialiser: " + v["name"])
                i0 = strip(init[0])
                if i0.get("kind") == "CXXMemberCallExpr" and strip(i0["inner"][0]).get("name") in ("Sync", "SyncSize") and len(i0["inner"]) == 2:
                    # uint32_t n = vec.Sync(stream);
                    pre = self.call(i0)
                    o = strip(strip(i0["inner"][0])["inner"][0])
                    name, uses, _ = self.lval(o)
                    self.vars[v["name"]] = ("expr", ("var", name + "#n", list(uses)))
                    self.pending = getattr(self, "pending", []) + pre
                    continue
                gs = self.string_by_id(init[0])
                if gs is None and i0.get("kind") == "MemberExpr" and "&" not in v["type"]["qualType"] and v.get("init") == "c":
                    # `auto x = static_cast<T>(member)`: a narrower wire view of a member (synced below, copied back when reading)
                    name, uses, _ = self.lval(i0)
                    self.vars[v["name"]] = ("alias", name, uses, tname(v["type"].get("desugaredQualType", v["type"]["qualType"])))
                    continue
                if gs is not None:
                    self.vars[v["name"]] = ("strlen", gs)
                elif "&" in v["type"]["qualType"]:
                    name, uses, _ = self.lval(init[0])
                    self.vars[v["name"]] = ("elem", name, uses)
                else:
                    self.vars[v["name"]] = ("expr", self.expr(init[0]))
            pre, self.pending = getattr(self, "pending", []), []
            return pre
        if k == "SwitchStmt":
            return self.switch_stmt(s)
        if k == "ForStmt":
            return self.for_stmt(s)
        if k == "CXXForRangeStmt":
            return self.range_for(s)
        if k in ("CXXMemberCallExpr", "ExprWithCleanups"):
            return self.call(strip(s))
        if k in ("BinaryOperator", "CompoundAssignOperator") and s.get("opcode", "").endswith("=") and s.get("opcode") not in ("==", "!=", "<=", ">="):
            lhs = strip(s["inner"][0])
            if lhs.get("kind") == "DeclRefExpr":
                n = lhs.get("referencedDecl", {}).get("name")
                v = self.vars.get(n)
                r0 = strip(s["inner"][1])
                if v and s.get("opcode") == "=" and r0.get("kind") == "CXXMemberCallExpr" and strip(r0["inner"][0]).get("name") in ("Sync", "SyncSize"):
                    pre = self.call(r0)
                    nm, us, _ = self.lval(strip(strip(r0["inner"][0])["inner"][0]))
                    self.vars[n] = ("expr", ("var", nm + "#n", list(us)))
                    return pre
                if v and v[0] == "expr":
                    rhs = self.expr(s["inner"][1])
                    op = s["opcode"][:-1]
                    self.vars[n] = ("expr", rhs if op == "" else bin_(op, v[1], rhs))
                    return []
                if v and v[0] == "alias":
                    self.tr.normalisers.add(f"{self.cls}: {n} modified before it is transferred")
                    return []
                r0 = strip(s["inner"][1])
                if v and s.get("opcode") == "=" and r0.get("kind") == "CXXMemberCallExpr" and strip(r0["inner"][0]).get("name") in ("Sync", "SyncSize"):
                    pre = self.call(r0)
                    nm, us, _ = self.lval(strip(strip(r0["inner"][0])["inner"][0]))
                    self.vars[n] = ("expr", ("var", nm + "#n", list(us)))
                    return pre
            try:
                name, _, _ = self.lval(lhs)
                rhs = self.expr(s["inner"][1])
            except Opaque:
                raise Opaque("assignment to a member")
            if rhs[0] == "lit" and self.in_cond_on == name:
                self.tr.normalisers.add(f"{self.cls}: {name} clamped to {rhs[1]}")
                return []
            if s.get("opcode") == "=" and rhs[0] == "lit" and name in self.tr.transferred:
                # `numEntities = 2;` after the member was transferred: what follows reads the constant
                self.tr.binds[name] = rhs
                self.tr.normalisers.add(f"{self.cls}: {name} set to {rhs[1]} after it was transferred")
                return []
            if s.get("opcode") == "=" and name.endswith(".type") and re.match(r"NiAnimationKey<", self.member_class(lhs) or ""):
                # `key.type = interpolation`: a member that is never transferred ("no IO, used for Sync condition only") takes the
                # value of a transferred one; conditions on it read that value (valid until the enclosing loop body ends)
                self.tr.binds[name] = rhs
                self.tr.normalisers.add(f"{self.cls}: the keys' untransferred `type` takes the value of the group's interpolation")
                return []
            raise Opaque("assignment to a member")
        if k == "ReturnStmt":
            raise Opaque("return in an unsupported position")
        raise Opaque("statement " + str(k))

    def string_by_id(self, e):
        """`stream.GetHeader().GetStringById(X.GetIndex())` -> expression for the length of that header string"""
        def find(n, kind, name):
            n = strip(n)
            if n.get("kind") == kind and strip(n["inner"][0]).get("name") == name:
                return n
            for c in n.get("inner", []) or []:
                if isinstance(c, dict):
                    r = find(c, kind, name)
                    if r is not None:
                        return r
            return None
        g = find(e, "CXXMemberCallExpr", "GetStringById")
        if g is None:
            return None
        gi = find(g, "CXXMemberCallExpr", "GetIndex")
        if gi is None:
            raise Opaque("GetStringById of something else than a string reference index")
        name, uses, _ = self.lval(strip(gi["inner"][0])["inner"][0])
        return ("tbl", ("var", name + "#idx", uses))

    def is_reading_copyback(self, s):
        """`if (stream.GetMode() == Reading) member = aliasLocal;` — the read half of a narrowed wire view"""
        inner = s["inner"]
        if len(inner) != 2:
            return False
        txt = json.dumps(inner[0])
        if '"GetMode"' not in txt or '"Reading"' not in txt or '"opcode": "=="' not in txt:
            return False
        body = self.body_of(inner[1])
        if len(body) != 1:
            return False
        b = strip(body[0])
        if b.get("kind") != "BinaryOperator" or b.get("opcode") != "=":
            return False
        r = strip(b["inner"][1])
        if r.get("kind") != "DeclRefExpr":
            return False
        v = self.vars.get(r.get("referencedDecl", {}).get("name"))
        try:
            name, _, _ = self.lval(b["inner"][0])
        except Opaque:
            return False
        return bool(v) and v[0] == "alias" and v[1] == name

    def writing_alias(self, s):
        """`if (stream.GetMode() == Writing) local = (T) member;` — the write half of a narrowed wire view"""
        inner = s["inner"]
        if len(inner) != 2:
            return False
        c = json.dumps(inner[0])
        if '"GetMode"' not in c or '"Writing"' not in c or '"opcode": "=="' not in c:
            return False
        body = self.body_of(inner[1])
        if len(body) != 1:
            return False
        b = strip(body[0])
        if b.get("kind") != "BinaryOperator" or b.get("opcode") != "=":
            return False
        l = strip(b["inner"][0])
        if l.get("kind") != "DeclRefExpr":
            return False
        n = l.get("referencedDecl", {}).get("name")
        if n not in self.vars or self.vars[n][0] != "expr" or n not in self.ltypes:
            return False
        try:
            name, uses, _ = self.lval(b["inner"][1])
        except Opaque:
            return False
        self.vars[n] = ("alias", name, uses, self.ltypes[n])
        return True

    def is_pure_mode_block(self, s):
        """`if (stream.GetMode() == Reading|Writing) { …no transfer… }` : post-processing of what was read / normalisation of
        what is written; the identity on bytes the library itself wrote (checked by the validation run)"""
        inner = s["inner"]
        c = json.dumps(inner[0])
        if '"GetMode"' not in c or '"opcode": "=="' not in c or ('"Reading"' not in c and '"Writing"' not in c):
            return False
        body = json.dumps(inner[1:])
        return '"name": "Sync' not in body and '"stream"' not in body

    def switch_stmt(self, s):
        inner = [c for c in s.get("inner", []) if isinstance(c, dict) and c.get("kind")]
        sel = self.expr(inner[0])
        seq = []

        def flat(n):
            k = n.get("kind")
            if k == "CaseStmt":
                ch = [c for c in n.get("inner", []) if isinstance(c, dict) and c.get("kind")]
                seq.append(("label", self.expr(ch[0])))
                flat(ch[-1])
            elif k == "DefaultStmt":
                ch = [c for c in n.get("inner", []) if isinstance(c, dict) and c.get("kind")]
                seq.append(("label", None))
                flat(ch[-1])
            else:
                seq.append(("stmt", n))
        for c in self.body_of(inner[-1]):
            flat(c)
        # groups: labels, statements, terminated by break (fall-through into another label group is not supported)
        cases, labels, body, default = [], [], [], None
        for kind, x in seq + [("end", None)]:
            if kind == "label":
                if body:
                    raise Opaque("switch case falls through")
                labels.append(x)
            elif kind == "stmt" and x.get("kind") == "BreakStmt" or kind == "end":
                if labels:
                    tb, bb = set(self.tr.transferred), dict(self.tr.binds)
                    tr = self.block(body)
                    self.tr.transferred, self.tr.binds = tb, bb
                    for l in labels:
                        if l is None:
                            default = tr
                        else:
                            cases.append((l, tr))
                labels, body = [], []
            else:
                body.append(x)
        out = default or []
        for l, tr in reversed(cases):
            out = [("ite", bin_("==", sel, l), tr, out)]
        return out

    def lazy(self, thunk):
        """a branch the walker cannot translate becomes an `opaque` node: the class is only outside the fragment for the
        versions in which that branch can be reached (decided when the conditions are specialised)"""
        saved = (dict(self.vars), dict(self.sizes), list(self.loops))
        try:
            return thunk()
        except Opaque as ex:
            self.vars, self.sizes, self.loops = saved
            return [("opaque", str(ex))]

    def new_loop(self):
        self.tr.loopctr += 1
        return self.tr.loopctr

    def for_stmt(self, s):
        init, _, cond, inc, body = (s["inner"] + [None] * 5)[:5]
        if not init or init.get("kind") != "DeclStmt":
            raise Opaque("for without a loop variable declaration")
        vd = init["inner"][0]
        iv = vd["name"]
        i0 = [c for c in vd.get("inner", []) or [] if isinstance(c, dict)]
        if not i0 or strip(i0[0]).get("kind") != "IntegerLiteral" or strip(i0[0])["value"] != "0":
            raise Opaque("loop does not start at 0")
        c = strip(cond)
        if c.get("kind") != "BinaryOperator" or c.get("opcode") != "<":
            raise Opaque("loop condition")
        l = strip(c["inner"][0])
        if l.get("kind") != "DeclRefExpr" or l.get("referencedDecl", {}).get("name") != iv:
            raise Opaque("loop condition")
        n = self.expr(c["inner"][1])
        lid = self.new_loop()
        saved = dict(self.vars)
        self.vars[iv] = ("idx", lid)
        self.loops.append(lid)
        binds = dict(self.tr.binds)
        b = self.stmt(body)
        self.tr.binds = binds
        self.loops.pop()
        self.vars = saved
        return [("rep", n, lid, b)]

    def range_for(self, s):
        inner = [c for c in s.get("inner", []) if isinstance(c, dict) and c.get("kind")]
        # the range initialiser is the first DeclStmt (__range), the loop variable the last one before the body
        rng_decl = inner[0]["inner"][0]
        rng_init = [c for c in rng_decl.get("inner", []) or [] if isinstance(c, dict)][0]
        name, uses, rty = self.lval(rng_init)
        if name not in self.sizes:
            m = re.search(r"\[(\d+)\]\s*$", rty or "") or re.search(r"std::array<.*,\s*(\d+)\s*>", rty or "")
            if m:
                self.sizes[name] = lit(int(m.group(1)))
            else:
                raise Opaque("range-for over a vector whose length is not fixed by a resize: " + name)
        var = [c for c in inner if c.get("kind") == "DeclStmt"][-1]["inner"][0]
        body = inner[-1]
        lid = self.new_loop()
        saved = dict(self.vars)
        self.vars[var["name"]] = ("elem", name + "[]", uses + [lid])
        self.loops.append(lid)
        b = self.stmt(body)
        self.loops.pop()
        self.vars = saved
        return [("rep", self.sizes[name], lid, b)]

    @staticmethod
    def member_class(e):
        """class of the object a member expression selects from"""
        e = strip(e)
        if e.get("kind") != "MemberExpr" or not e.get("inner"):
            return None
        t = strip(e["inner"][0]).get("type", {})
        return tname(t.get("desugaredQualType", t.get("qualType", ""))).replace("nifly::", "")

    def sc(self, ty, name, uses):
        if name in self.tr.binds:
            raise Opaque(f"{name} is transferred although a condition value was bound to it")
        self.tr.transferred.add(name)
        if ty[0] == "sizeof":
            self.tr.types.add(ty[1])
        if uses != self.loops:
            raise Opaque(f"{name} is synced inside a loop that does not index it")
        return [("sc", ty, name)]

    def call(self, e):
        if e.get("kind") != "CXXMemberCallExpr":
            raise Opaque("statement expression " + str(e.get("kind")))
        callee = strip(e["inner"][0])
        cn = callee.get("name")
        args = e["inner"][1:]
        obj = strip(callee["inner"][0]) if callee.get("inner") else None
        is_stream = obj is not None and obj.get("kind") == "DeclRefExpr" and obj.get("referencedDecl", {}).get("name") == "stream"
        if is_stream and cn == "Sync" and len(args) == 1:
            a0 = strip(args[0])
            if a0.get("kind") == "DeclRefExpr":
                v = self.vars.get(a0.get("referencedDecl", {}).get("name"))
                if v and v[0] == "alias":
                    self.member_alias[v[1]] = v[1] + "#as:" + v[3]
                    return self.sc(("sizeof", v[3]), v[1] + "#as:" + v[3], v[2])
                if v and v[0] == "expr" and a0["referencedDecl"]["name"] in self.ltypes:
                    # a local is transferred: a wire value of its own (when writing it was computed from the model just before,
                    # when reading the statements that follow copy it into the model)
                    n = a0["referencedDecl"]["name"]
                    loc = (self.prefix + "." if self.prefix else self.cls + "::") + "$" + n
                    self.vars[n] = ("elem", loc, list(self.loops))
                    self.tr.normalisers.add(f"{self.cls}: local {n} is transferred (its value when writing is computed from the model)")
                    return self.sc(("sizeof", self.ltypes[n]), loc, list(self.loops))
            name, uses, ty = self.lval(args[0])
            return self.sc(("sizeof", tname(strip(args[0])["type"].get("desugaredQualType", strip(args[0])["type"]["qualType"]))), name, uses)
        if is_stream and cn == "SyncHalf" and len(args) == 1:
            name, uses, _ = self.lval(args[0])
            return self.sc(("w", 2), name + "#half", uses)
        if is_stream and cn == "SyncUDEC3" and len(args) == 1:
            name, uses, _ = self.lval(args[0])
            return self.sc(("w", 4), name + "#udec3", uses)
        if is_stream and cn == "Sync" and len(args) == 2:
            # stream.Sync(reinterpret_cast<char*>(&x), n)
            a0 = strip(args[0])
            while a0.get("kind") in ("CXXReinterpretCastExpr",) and a0.get("inner"):
                a0 = strip(a0["inner"][0])
            while a0.get("kind") in ("CStyleCastExpr", "ImplicitCastExpr") and a0.get("inner"):
                a0 = strip(a0["inner"][0])
            if a0.get("kind") == "UnaryOperator" and a0.get("opcode") == "&":
                name, uses, _ = self.lval(a0["inner"][0])
                n = self.expr(args[1])
                if n[0] == "lit":
                    return self.sc(("w", n[1]), name, uses)
                # a size built from sizeof()s: constant once the compiler has been asked
                return self.sc(("wexpr", n), name + "#raw", uses)
            if a0.get("kind") == "MemberExpr" and re.search(r"\[\d+\]$", a0.get("type", {}).get("qualType", "")):
                # stream.Sync(reinterpret_cast<char*>(byteArrayMember), n): n bytes of a fixed array member
                name, uses, _ = self.lval(a0)
                n = self.expr(args[1])
                if n[0] == "lit":
                    return self.sc(("w", n[1]), name, uses)
            if a0.get("kind") == "CXXMemberCallExpr" and strip(a0["inner"][0]).get("name") == "data":
                # stream.Sync((char*) vec.data(), n * sizeof(T)): n*sizeof(T) bytes of the vector's storage
                name, uses, _ = self.lval(strip(a0["inner"][0])["inner"][0])
                if uses != self.loops:
                    raise Opaque(f"{name} is synced inside a loop that does not index it")
                n = self.expr(args[1])
                lid = self.new_loop()
                if n[0] == "bin" and n[1] == 2 and n[3][0] == "sizeofE":
                    self.sizes[name] = n[2]
                    return [("rep", n[2], lid, [("sc", ("sizeof", n[3][1]), name + "[]")])]
                if n[0] == "bin" and n[1] == 2 and n[2][0] == "sizeofE":
                    self.sizes[name] = n[3]
                    return [("rep", n[3], lid, [("sc", ("sizeof", n[2][1]), name + "[]")])]
                return [("rep", n, lid, [("sc", ("w", 1), name + "#bytes[]")])]
            raise Opaque("raw Sync of a computed size")
        if cn in ("SetKeepEmptyRefs", "SetSize"):
            # flags / a pre-sizing of a reference array that the following Sync overrides with the count it transfers
            return []
        if cn == "resize" and obj is not None and len(args) >= 1:
            name, uses, _ = self.lval(obj)
            self.sizes[name] = self.expr(args[0])
            return []
        if cn == "Sync" and obj is not None and len(args) == 2:
            name, uses, _ = self.lval(obj)
            t = tname(strip(obj)["type"].get("desugaredQualType", strip(obj)["type"]["qualType"]))
            n = self.expr(args[1])
            if t == "NiString" and n[0] == "lit" and n[1] in (1, 2, 4):
                # sized string: length prefix of n bytes, then the characters as they are on the wire
                if uses != self.loops:
                    raise Opaque(f"{name} is synced inside a loop that does not index it")
                lid = self.new_loop()
                return [("sc", ("w", n[1]), name + "#len"), ("rep", ("var", name + "#len", list(uses)), lid, [("sc", ("w", 1), name + "#chr[]")])]
            tt = t.replace("nifly::", "")
            if tt in self.tr.syncs and len(self.tr.syncs[tt].get("params", [])) == 2 and uses == self.loops:
                # elem.Sync(stream, n): the by-value parameter reads the argument's value
                w = Walker(self.tr, tt, name, uses)
                w.vars[self.tr.syncs[tt]["params"][1]] = ("expr", n)
                return w.block(Walker.body_of(self.tr.syncs[tt]["body"]))
            raise Opaque("two-argument Sync of member type " + t)
        if cn == "SyncSize" and obj is not None and len(args) == 1:
            name, uses, _ = self.lval(obj)
            t = tname(strip(obj)["type"].get("desugaredQualType", strip(obj)["type"]["qualType"]))
            m = re.match(r"Ni(?:Sync)?Vector<\s*([\w:<> ]+?)\s*(?:,\s*([\w ]+))?>$", t)
            if not m or uses != self.loops:
                raise Opaque("SyncSize of " + t)
            self.sizes[name] = ("var", name + "#n", list(uses))
            return [("sc", ("sizeof", m.group(2) or "unsigned int"), name + "#n")]
        if cn == "SyncData" and obj is not None and len(args) == 2:
            name, uses, _ = self.lval(obj)
            t = tname(strip(obj)["type"].get("desugaredQualType", strip(obj)["type"]["qualType"]))
            n = self.expr(args[1])
            m = re.match(r"NiVector<\s*([\w:<> ]+?)\s*(?:,\s*([\w ]+))?>$", t)
            if uses != self.loops:
                raise Opaque(f"{name} is synced inside a loop that does not index it")
            lid = self.new_loop()
            if m:
                self.sizes[name] = n
                return [("rep", n, lid, [("sc", ("sizeof", m.group(1)), name + "[]")])]
            m = re.match(r"NiSyncVector<\s*([\w:]+)\s*(?:,\s*([\w ]+))?>$", t)
            if m:
                self.sizes[name] = n
                saved = self.loops
                self.loops = self.loops + [lid]
                try:
                    sub = self.member_sync(name + "[]", uses + [lid], m.group(1))
                finally:
                    self.loops = saved
                return [("rep", n, lid, sub)]
            if t.startswith("NiStringRefVector"):
                saved = self.loops
                self.loops = self.loops + [lid]
                b = self.string_ref(name + "[]", uses + [lid])
                self.loops = saved
                return [("rep", n, lid, b)]
            raise Opaque("SyncData of " + t)
        if cn == "SyncByteArray" and obj is not None and len(args) == 1:
            name, uses, _ = self.lval(obj)
            t = tname(strip(obj)["type"].get("desugaredQualType", strip(obj)["type"]["qualType"]))
            m = re.match(r"NiVector<\s*([\w:<> ]+?)\s*(?:,\s*([\w ]+))?>$", t)
            if m and uses == self.loops:
                lid = self.new_loop()
                return [("sc", ("sizeof", m.group(2) or "unsigned int"), name + "#n"),
                        ("rep", ("var", name + "#n", list(uses)), lid, [("sc", ("w", 1), name + "[]")])]
            raise Opaque("SyncByteArray of " + t)
        if cn == "Sync" and obj is not None and len(args) == 1:
            # member.Sync(stream)
            name, uses, ty = self.lval(obj)
            return self.member_sync(name, uses, tname(strip(obj)["type"].get("desugaredQualType", strip(obj)["type"]["qualType"])))
        raise Opaque("call " + str(cn))

    def member_sync(self, name, uses, ty):
        if uses != self.loops:
            raise Opaque(f"{name} is synced inside a loop that does not index it")
        t = ty.replace("nifly::", "")
        if re.match(r"NiBlock(Ref|Ptr)<", t):
            return [("sc", ("w", 4), name)]
        m = re.match(r"NiBlock(Ref|Ptr)(Short)?Array<", t)
        if m:
            w = 2 if m.group(2) else 4
            lid = self.new_loop()
            return [("sc", ("w", w), name + "#n"), ("rep", ("var", name + "#n", list(uses)), lid, [("sc", ("w", 4), name + "[]")])]
        if t == "NiStringRef":
            return self.string_ref(name, uses)
        if t == "NiStringRefVector<unsigned int>" or t.startswith("NiStringRefVector"):
            lid = self.new_loop()
            saved = self.loops
            self.loops = self.loops + [lid]
            b = self.string_ref(name + "[]", uses + [lid])
            self.loops = saved
            self.sizes[name] = ("var", name + "#n", list(uses))
            return [("sc", ("w", 4), name + "#n"), ("rep", ("var", name + "#n", list(uses)), lid, b)]
        m = re.match(r"NiVector<\s*([\w:<> ,]+?)\s*,\s*([\w ]+)>$", t) or re.match(r"NiVector<\s*([\w:<> ]+?)\s*>$", t)
        if m:
            st = m.group(2) if m.lastindex and m.lastindex >= 2 else "unsigned int"
            lid = self.new_loop()
            self.sizes[name] = ("var", name + "#n", list(uses))
            return [("sc", ("sizeof", st), name + "#n"),
                    ("rep", ("var", name + "#n", list(uses)), lid, [("sc", ("sizeof", m.group(1)), name + "[]")])]
        m = re.match(r"NiSyncVector<\s*([\w:]+(?:<[\w:<> ,]+>)?)\s*(?:,\s*([\w ]+))?>$", t)
        if m:
            st = m.group(2) or "unsigned int"
            elem = m.group(1)
            lid = self.new_loop()
            saved = self.loops
            self.loops = self.loops + [lid]
            try:
                sub = self.member_sync(name + "[]", uses + [lid], elem)
            finally:
                self.loops = saved
            self.sizes[name] = ("var", name + "#n", list(uses))
            return [("sc", ("sizeof", st), name + "#n"), ("rep", ("var", name + "#n", list(uses)), lid, sub)]
        m = re.match(r"NiStringVector<\s*([\w ]+)\s*,\s*(\d+)\s*>$", t)
        if m:
            # count, then sized strings with a length prefix of <stringSize> bytes
            lid, lid2 = self.new_loop(), self.new_loop()
            self.sizes[name] = ("var", name + "#n", list(uses))
            return [("sc", ("sizeof", m.group(1)), name + "#n"),
                    ("rep", ("var", name + "#n", list(uses)), lid,
                     [("sc", ("w", int(m.group(2))), name + "[]#len"),
                      ("rep", ("var", name + "[]#len", list(uses) + [lid]), lid2, [("sc", ("w", 1), name + "[]#chr[]")])])]
        if t in self.tr.syncs:
            return self.tr.sub_schema(t, name, uses)
        raise Opaque("Sync of member type " + t)

    def string_ref(self, name, uses):
        # index into the header string table from 20.1.0.3 on, inline sized string before
        lid = self.new_loop()
        inline = [("sc", ("w", 4), name + "#len"), ("rep", ("var", name + "#len", list(uses)), lid, [("sc", ("w", 1), name + "#chr[]")])]
        return [("ite", bin_("<", ("ver", 0), lit(0x14010003)), inline, [("sc", ("w", 4), name + "#idx")])]


class Translator:
    def __init__(self, repo=None):
        self.repo = repo or C.REPO
        self.d = astdump.load(self.repo)
        self.classes = self.d["classes"]
        self.syncs = {}
        for m in self.d["methods_spec"]:
            if m["name"] == "Sync" and m["body"] is not None and "NiStreamReversible" in (m.get("type") or ""):
                self.syncs.setdefault(m["spec"], m)
        self.loopctr = 0
        self.transferred = set()         # member locations transferred so far in the class being translated
        self.binds = {}                  # untransferred member -> expression it was assigned (see Walker.stmt)
        self.enumvals = {}
        # members that are never synced and act as per-class constants in conditions
        self.classconst = {"bBSLightingShaderProperty": "BSLightingShaderProperty", "isPSys": "NiParticlesData"}
        self.types = set()
        self.enums = set()
        self.normalisers = set()
        self.concrete = None
        self._src = {}

    def source_text(self, file, node):
        r = node.get("range", {})
        b, e = r.get("begin", {}), r.get("end", {})
        if "offset" not in b or "offset" not in e or not file or "file" in b.get("includedFrom", {}) or b.get("file"):
            return None
        if file not in self._src:
            self._src[file] = open(file, "rb").read().decode("utf8", "replace")
        return self._src[file][b["offset"]: e["offset"] + e.get("tokLen", 1) + 40]

    def ancestors(self, cls):
        out, c, seen = [], cls, set()
        while c and c in self.classes and c not in seen:
            seen.add(c)
            out.append(c)
            nxt = None
            for b in self.classes[c]["bases"]:
                b = b.replace("nifly::", "")
                m = re.match(r"Ni(?:CloneableStreamable|Cloneable|Streamable)<\s*([\w:]+)\s*,\s*([\w:<>, ]+)>$", b)
                nxt = m.group(2).strip() if m else b
                break
            c = nxt
        return out

    def derives(self, cls, base):
        return base.replace("nifly::", "") in self.ancestors(cls)

    def chain(self, cls):
        """classes with a Sync body from the root down to `cls`"""
        out = []
        c = cls
        seen = set()
        while c and c in self.classes and c not in seen:
            seen.add(c)
            rec = self.classes[c]
            nxt = None
            for b in rec["bases"]:
                b = b.replace("nifly::", "")
                m = re.match(r"NiCloneableStreamable<\s*([\w:]+)\s*,\s*([\w:<>, ]+)>$", b) or re.match(r"NiCloneable<\s*([\w:]+)\s*,\s*([\w:<>, ]+)>$", b) \
                    or re.match(r"NiStreamable<\s*([\w:]+)\s*,\s*([\w:<>, ]+)>$", b)
                if m:
                    if b.startswith(("NiCloneableStreamable", "NiStreamable")) and c in self.syncs:
                        out.append(c)
                    nxt = m.group(2).strip()
                    break
                nxt = b
            c = nxt
        return list(reversed(out))

    def sub_schema(self, cls, prefix, uses):
        cls = cls.replace("nifly::", "")
        if cls not in self.syncs:
            raise Opaque("no Sync body for " + cls)
        w = Walker(self, cls, prefix, uses)
        return w.block(Walker.body_of(self.syncs[cls]["body"]))

    def schema_of(self, cls):
        # block type names are the C++ class names, except that "::" is dropped in the class name (BSSkin::Instance)
        cls = cls if cls in self.classes else cls.replace("::", "")
        if cls not in self.classes:
            raise Opaque("no class of that name in the translation units")
        self.concrete = cls
        self.binds, self.transferred = {}, set()
        out = []
        for c in self.chain(cls):
            out += self.sub_schema(c, "", [])
        return out


def main():
    tr = Translator()
    types = [l.strip() for l in open(sys.argv[1])] if len(sys.argv) > 1 else sorted(tr.syncs)
    ok, bad = {}, {}
    for t in types:
        try:
            ok[t] = tr.schema_of(t)
        except Opaque as e:
            bad[t] = str(e)
        except Exception as e:       # translator bug: count as opaque with the python error
            bad[t] = "translator error: " + repr(e)[:120]
    import collections
    print(len(ok), "translated;", len(bad), "opaque")
    for r, n in collections.Counter(re.sub(r": .*", "", v) for v in bad.values()).most_common(40):
        print(n, r)
    return ok, bad


if __name__ == "__main__" and not (len(sys.argv) > 1 and sys.argv[1] == "--generate"):
    main()


# ------------------------------------------------------------------------------------------------------------------
# sizes / enum values from the compiler, specialisation per version, lowering to the Lean statement language

def probe(repo, types, enums):
    """sizeof of every type and value of every enum constant met by the walker, asked of g++ (cached)"""
    key = hashlib.sha256((C.repo_hash(repo) + json.dumps([sorted(types), sorted(enums)])).encode()).hexdigest()[:16]
    cache = os.path.join(C.CACHE, f"schema-probe-{key}.json")
    if os.path.exists(cache):
        return json.load(open(cache))
    types, enums = set(types), set(enums)
    wd = os.path.join(C.CACHE, "work")
    os.makedirs(wd, exist_ok=True)
    cpp = os.path.join(wd, f"probe-{key}.cpp")
    exe = os.path.join(wd, f"probe-{key}")
    for attempt in range(8):
        hdrs = sorted(f for f in os.listdir(os.path.join(repo, "include")) if f.endswith(".hpp"))
        src = ["\n".join(f"#include \"{h}\"" for h in hdrs) + "\n#include <cstdio>", "using namespace nifly;", "int main() {"]
        first = len(hdrs) + 4
        for t in sorted(types):
            src.append(f"  printf(\"T\\t%s\\t%zu\\n\", {json.dumps(t)}, sizeof({t}));")
        for ty, n in sorted(enums):
            src.append(f"  printf(\"E\\t%s\\t%lld\\n\", {json.dumps(ty + '::' + n)}, (long long)({ty}::{n}));")
        src.append("  return 0; }")
        open(cpp, "w").write("\n".join(src))
        r = subprocess.run(["g++", "-std=c++17", "-fno-access-control", "-w", "-I" + os.path.join(repo, "include"), "-I" + os.path.join(repo, "external"),
                            cpp, "-o", exe], capture_output=True, text=True)
        if r.returncode == 0:
            break
        # names the compiler does not know (nested or template-dependent types) are dropped: classes needing them become opaque
        badlines = {int(m.group(1)) for m in re.finditer(r"probe-[0-9a-f]+\.cpp:(\d+):\d+: error", r.stderr)}
        if not badlines:
            raise RuntimeError("schema probe does not compile:\n" + r.stderr[-3000:])
        keep_t, keep_e = set(), set()
        for ln, t in enumerate(sorted(types), start=first):
            if ln not in badlines:
                keep_t.add(t)
        for ln, e in enumerate(sorted(enums), start=first + len(types)):
            if ln not in badlines:
                keep_e.add(e)
        types, enums = keep_t, keep_e
    else:
        raise RuntimeError("schema probe does not compile:\n" + r.stderr[-3000:])
    out = subprocess.run([exe], capture_output=True, text=True).stdout
    res = dict(T={}, E={})
    for l in out.splitlines():
        k, n, v = l.split("\t")
        res[k][n] = int(v)
    json.dump(res, open(cache, "w"))
    for f in (cpp, exe):
        try:
            os.remove(f)
        except OSError:
            pass
    return res


M32 = (1 << 64) - 1


def binop(op, a, b):
    """same function as Nifly.Schema.binop (naturals)"""
    if op == 0: return a + b
    if op == 1: return max(0, a - b)
    if op == 2: return a * b
    if op == 3: return 1 if a < b else 0
    if op == 4: return 1 if a <= b else 0
    if op == 5: return 1 if a == b else 0
    if op == 6: return 1 if a != 0 and b != 0 else 0
    if op == 7: return 1 if a != 0 or b != 0 else 0
    if op == 8: return a & b
    if op == 9: return 1 if a != b else 0
    if op == 10: return a // b if b else 0
    if op == 11: return a >> b
    if op == 12: return a << b
    if op == 13: return a | b
    return 0


def spec_expr(e, env, pr):
    k = e[0]
    if k == "lit":
        return e
    if k == "ver":
        return ("lit", env[e[1]])
    if k == "enum":
        return ("lit", pr["E"][e[1] + "::" + e[2]])
    if k == "sizeofE":
        return ("lit", pr["T"][e[1]])
    if k == "var":
        return e
    if k == "tbl":
        return ("tbl", spec_expr(e[1], env, pr))
    if k == "bin":
        a, b = spec_expr(e[2], env, pr), spec_expr(e[3], env, pr)
        if a[0] == "lit" and b[0] == "lit":
            return ("lit", binop(e[1], a[1], b[1]))
        # short circuits that do not depend on the other side
        if e[1] == 6 and ((a[0] == "lit" and a[1] == 0) or (b[0] == "lit" and b[1] == 0)):
            return ("lit", 0)
        if e[1] == 7 and ((a[0] == "lit" and a[1] != 0) or (b[0] == "lit" and b[1] != 0)):
            return ("lit", 1)
        if e[1] == 6 and a[0] == "lit" and a[1] != 0:
            return ("bin", 9, b, ("lit", 0))
        if e[1] == 6 and b[0] == "lit" and b[1] != 0:
            return ("bin", 9, a, ("lit", 0))
        return ("bin", e[1], a, b)
    raise Opaque("expression form " + str(k))


def spec(stmts, env, pr):
    out = []
    for s in stmts:
        k = s[0]
        if k == "sc":
            ty = s[1]
            if ty[0] == "wexpr":
                we = spec_expr(ty[1], env, pr)
                if we[0] != "lit":
                    raise Opaque("raw Sync whose size is not a constant")
                w = we[1]
            else:
                w = ty[1] if ty[0] == "w" else pr["T"][ty[1]]
            out.append(("sc", w, s[2]))
        elif k == "ite":
            c = spec_expr(s[1], env, pr)
            if c[0] == "lit":
                out += spec(s[2] if c[1] != 0 else s[3], env, pr)
            else:
                out.append(("ite", c, spec(s[2], env, pr), spec(s[3], env, pr)))
        elif k == "rep":
            n = spec_expr(s[1], env, pr)
            body = spec(s[3], env, pr)
            if body and not (n[0] == "lit" and n[1] == 0):
                out.append(("rep", n, s[2], body))
        elif k == "opaque":
            raise Opaque(s[1])
        else:
            raise Opaque("statement form " + str(k))
    return out


def names_in(ss):
    """(synced location names, names read by expressions) of a specialised schema"""
    sc, rd = set(), set()

    def ex(e):
        if e[0] == "var":
            rd.add(e[1])
        elif e[0] == "tbl":
            ex(e[1])
        elif e[0] == "bin":
            ex(e[2]); ex(e[3])

    def st(xs):
        for x in xs:
            if x[0] == "sc":
                sc.add(x[2])
            elif x[0] == "ite":
                ex(x[1]); st(x[2]); st(x[3])
            elif x[0] == "rep":
                ex(x[1]); st(x[2] if isinstance(x[2], list) else x[3])
    st(ss)
    return sc, rd


def subst_consts(ss, consts):
    """replace reads of never-transferred members by their construction-time value"""
    def ex(e):
        if e[0] == "var" and e[1] in consts:
            return ("lit", consts[e[1]])
        if e[0] == "tbl":
            return ("tbl", ex(e[1]))
        if e[0] == "bin":
            return ("bin", e[1], ex(e[2]), ex(e[3]))
        return e
    out = []
    for x in ss:
        if x[0] == "sc":
            out.append(x)
        elif x[0] == "ite":
            out.append(("ite", ex(x[1]), subst_consts(x[2], consts), subst_consts(x[3], consts)))
        elif x[0] == "rep":
            out.append(("rep", ex(x[1]), x[2], subst_consts(x[3], consts)))
        else:
            out.append(x)
    return out


def probe_defaults(repo, items):
    """value of never-transferred control members in a default-constructed object of the concrete class"""
    items = sorted(set(items))
    if not items:
        return {}
    key = hashlib.sha256((C.repo_hash(repo) + json.dumps(items)).encode()).hexdigest()[:16]
    cache = os.path.join(C.CACHE, f"schema-defaults-{key}.json")
    if os.path.exists(cache):
        return {tuple(k.split("|")): v for k, v in json.load(open(cache)).items()}
    wd = os.path.join(C.CACHE, "work")
    os.makedirs(wd, exist_ok=True)
    cpp, exe = os.path.join(wd, f"dflt-{key}.cpp"), os.path.join(wd, f"dflt-{key}")
    hdrs = sorted(f for f in os.listdir(os.path.join(repo, "include")) if f.endswith(".hpp"))
    live = list(items)
    res = {}
    for attempt in range(8):
        src = ["\n".join(f"#include \"{h}\"" for h in hdrs) + "\n#include <cstdio>", "using namespace nifly;", "int main() {"]
        first = len(hdrs) + 4
        for k, (cls, mem) in enumerate(live):
            src.append(f"  {{ {cls} o{k}; printf(\"%d\\t%lld\\n\", {k}, (long long)(o{k}.{mem})); }}")
        src.append("  return 0; }")
        open(cpp, "w").write("\n".join(src))
        flags, inc, objs = C.repo_objects("san", repo)
        r = subprocess.run(["g++"] + flags + ["-fno-access-control"] + inc + [cpp] + objs + ["-o", exe], capture_output=True, text=True)
        if r.returncode == 0:
            for l in subprocess.run([exe], capture_output=True, text=True).stdout.splitlines():
                k, v = l.split("\t")
                res[live[int(k)]] = int(v)
            break
        badlines = {int(m.group(1)) for m in re.finditer(r"dflt-[0-9a-f]+\.cpp:(\d+):\d+: error", r.stderr)}
        if not badlines:
            break
        live = [it for k, it in enumerate(live) if (first + k) not in badlines]
    json.dump({"|".join(k): v for k, v in res.items()}, open(cache, "w"))
    for f in (cpp, exe):
        try:
            os.remove(f)
        except OSError:
            pass
    return res


class Lowering:
    def __init__(self):
        self.names = {}

    def nid(self, n):
        return self.names.setdefault(n, len(self.names))

    def expr(self, e, loops):
        k = e[0]
        if k == "lit":
            return ("lit", e[1])
        if k == "var":
            uses = e[2]
            if uses != loops[:len(uses)]:
                raise Opaque(f"{e[1]} is read at a loop nesting that does not contain its own")
            return ("var", self.nid(e[1]), len(loops) - len(uses))
        if k == "tbl":
            return ("tbl", self.expr(e[1], loops))
        if k == "bin":
            return ("bin", e[1], self.expr(e[2], loops), self.expr(e[3], loops))
        raise Opaque("expression form " + str(k))

    def stmts(self, ss, loops):
        out = []
        for s in ss:
            if s[0] == "sc":
                out.append(("sc", s[1], self.nid(s[2])))
            elif s[0] == "ite":
                out.append(("ite", self.expr(s[1], loops), self.stmts(s[2], loops), self.stmts(s[3], loops)))
            elif s[0] == "rep":
                out.append(("rep", self.expr(s[1], loops), self.stmts(s[3], loops + [s[2]])))
        return out


def wf_py(ss, d, D, W):
    """mirror of Nifly.Schema.wf on the lowered form (lists of statements = right-nested seq); returns (D', W') or raises Opaque"""
    def expr_ok(e):
        if e[0] == "lit":
            return True
        if e[0] == "var":
            return e[2] <= d and (e[1], d - e[2]) in D
        if e[0] == "tbl":
            return expr_ok(e[1])
        return expr_ok(e[2]) and expr_ok(e[3])
    for s in ss:
        if s[0] == "sc":
            if (s[2], d) in W:
                raise Opaque(f"location {s[2]} synced twice on one path")
            D = D | {(s[2], d)}
            W = W | {(s[2], d)}
        elif s[0] == "ite":
            if not expr_ok(s[1]):
                raise Opaque("a condition reads a location that is not fixed at that point")
            _, wt = wf_py(s[2], d, D, W)
            _, we = wf_py(s[3], d, D, W)
            W = wt | we
        elif s[0] == "rep":
            if not expr_ok(s[1]):
                raise Opaque("a loop count reads a location that is not fixed at that point")
            _, W = wf_py(s[2], d + 1, D, W)
    return D, W


def wfw_py(ss, d, W):
    """mirror of Nifly.Schema.wfw: single assignment, conditions and counts read only names that may have been synced before"""
    def expr_ok(e):
        if e[0] == "lit":
            return True
        if e[0] == "var":
            return e[2] <= d and (e[1], d - e[2]) in W
        if e[0] == "tbl":
            return expr_ok(e[1])
        return expr_ok(e[2]) and expr_ok(e[3])
    for s in ss:
        if s[0] == "sc":
            if (s[2], d) in W:
                raise Opaque(f"location {s[2]} synced twice on one path")
            W = W | {(s[2], d)}
        elif s[0] == "ite":
            if not expr_ok(s[1]):
                raise Opaque("a condition reads a location that nothing before it transfers")
            W = wfw_py(s[2], d, W) | wfw_py(s[3], d, W)
        elif s[0] == "rep":
            if not expr_ok(s[1]):
                raise Opaque("a loop count reads a location that nothing before it transfers")
            W = wfw_py(s[2], d + 1, W)
    return W


def lean_expr(e):
    if e[0] == "lit":
        return f"(.lit {e[1]})"
    if e[0] == "var":
        return f"(.var {e[1]} {e[2]})"
    if e[0] == "tbl":
        return f"(.tbl {lean_expr(e[1])})"
    return f"(.bin {e[1]} {lean_expr(e[2])} {lean_expr(e[3])})"


def lean_stmts(ss):
    if not ss:
        return ".skip"
    s = ss[0]
    if s[0] == "sc":
        h = f"(.sc {s[1]} {s[2]})"
    elif s[0] == "ite":
        h = f"(.ite {lean_expr(s[1])} {lean_stmts(s[2])} {lean_stmts(s[3])})"
    else:
        h = f"(.rep {lean_expr(s[1])} {lean_stmts(s[2])})"
    if len(ss) == 1:
        return h
    return f"(.seq {h} {lean_stmts(ss[1:])})"


def subst_as_generic(ss):
    """a specialised schema back in the generic form `spec` accepts (so that constant conditions fold again)"""
    out = []
    for x in ss:
        if x[0] == "sc":
            out.append(("sc", ("w", x[1]), x[2]))
        elif x[0] == "ite":
            out.append(("ite", x[1], subst_as_generic(x[2]), subst_as_generic(x[3])))
        elif x[0] == "rep":
            out.append(("rep", x[1], x[2], subst_as_generic(x[3])))
    return out


def generate(repo=None, out=None, types=None, verenv=None):
    """-> dict(index={(type, version): schema number}, opaque={(type, version) or type: reason}, names=[...], schemas=[...])"""
    repo = repo or C.REPO
    tr = Translator(repo)
    h = C.build_harness("san") if (types is None or verenv is None) else None
    if types is None:
        types = C.run_lines(h, ["gen.types"])[0].split(",")
    if verenv is None:
        verenv = {}
        for part in C.run_lines(h, ["gen.verenv"])[0].split(";"):
            n, vals = part.split(":")
            verenv[n] = [int(x) for x in vals.split(",")]
    generic, opaque = {}, {}
    for t in types:
        try:
            generic[t] = tr.schema_of(t)
        except Opaque as e:
            opaque[t] = str(e)
        except Exception as e:
            opaque[t] = "translator error: " + repr(e)[:100]
    def collect(x):
        if isinstance(x, (list, tuple)):
            if len(x) == 2 and x[0] in ("sizeof", "sizeofE") and isinstance(x[1], str):
                tr.types.add(x[1])
            for y in x:
                collect(y)
    collect(list(generic.values()))
    pr = probe(repo, tr.types, tr.enums)
    # control members that are never transferred in a version keep their construction-time value: ask the compiler for it
    wanted = set()
    for t, g in generic.items():
        for vn, env in verenv.items():
            try:
                sc_, rd_ = names_in(spec(g, env, pr))
            except (Opaque, KeyError):
                continue
            for n in rd_ - sc_:
                if "::" in n and "[" not in n and "#" not in n:
                    wanted.add((t, n))
    defaults = probe_defaults(repo, wanted)
    unsynced = {}
    low = Lowering()
    uniq, index = {}, {}
    uniq_weak, index_weak, weak_reason = {}, {}, {}
    for t, g in generic.items():
        for vn, env in verenv.items():
            try:
                sp = spec(g, env, pr)
                sc_, rd_ = names_in(sp)
                consts = {n: defaults[(t, n)] for n in rd_ - sc_ if (t, n) in defaults}
                if consts:
                    unsynced.setdefault(t, set()).update(consts)
                    sp = spec(subst_as_generic(subst_consts(sp, consts)), env, pr)
                ss = low.stmts(sp, [])
                try:
                    wf_py(ss, 0, frozenset(), frozenset())
                except Opaque as e_strong:
                    # the weaker discipline (fixed point only) may still hold
                    wfw_py(ss, 0, frozenset())
                    key = json.dumps(ss)
                    index_weak[(t, vn)] = uniq_weak.setdefault(key, len(uniq_weak))
                    weak_reason[(t, vn)] = str(e_strong)
                    continue
            except Opaque as e:
                opaque[t + "@" + vn] = str(e)
                continue
            except KeyError as e:
                opaque[t + "@" + vn] = "size or enum value unknown: " + str(e)
                continue
            except Exception as e:      # a translator bug must never pass for a schema
                opaque[t + "@" + vn] = "translator error: " + repr(e)[:100]
                continue
            key = json.dumps(ss)
            index[(t, vn)] = uniq.setdefault(key, len(uniq))
    schemas = [json.loads(k) for k in uniq]
    names = [n for n, _ in sorted(low.names.items(), key=lambda kv: kv[1])]
    vnames = list(verenv)
    L = ["/- GENERATED by translator/schema.py from the C++ sources on every run. DO NOT EDIT. -/",
         "import NiflyVerif.Wire.Schema", "namespace Nifly.Generated", "open Nifly.Schema", ""]
    for i, ss in enumerate(schemas):
        L.append(f"def schema{i} : Stmt := {lean_stmts(ss)}")
    CH = 40
    nch = max(1, (len(schemas) + CH - 1) // CH)
    for c in range(nch):
        L.append(f"def schemaChunk{c} : List Stmt := [" + ", ".join(f"schema{i}" for i in range(c * CH, min(len(schemas), (c + 1) * CH))) + "]")
    weak = [json.loads(k) for k in uniq_weak]
    for i, ss in enumerate(weak):
        L.append(f"def schemaW{i} : Stmt := {lean_stmts(ss)}")
    L += ["", "/-- schemas that obey only the weaker discipline `wfw` (fixed point direction) -/",
          "def schemasWeak : List Stmt := [" + ", ".join(f"schemaW{i}" for i in range(len(weak))) + "]",
          "def schemaIndexWeak : List (String × String × Nat) := [" + ", ".join(f"({json.dumps(t)}, {json.dumps(v)}, {i})" for (t, v), i in sorted(index_weak.items())) + "]"]
    L += ["", "def schemaChunks : List (List Stmt) := [" + ", ".join(f"schemaChunk{c}" for c in range(nch)) + "]", "",
          "/-- the distinct wire schemas of the in-fragment (block type, version) pairs -/",
          "def schemas : List Stmt := schemaChunks.flatten", "",
          ]
    items = [f"({json.dumps(t)}, {json.dumps(v)}, {i})" for (t, v), i in sorted(index.items())]
    chunks = [items[k:k + 150] for k in range(0, len(items), 150)] or [[]]
    for k, ch in enumerate(chunks):
        L.append(f"def schemaIndex{k} : List (String × String × Nat) := [" + ", ".join(ch) + "]")
    L += ["", "/-- (block type, version name, index into `schemas`) -/",
          "def schemaIndex : List (String × String × Nat) := " + " ++ ".join(f"schemaIndex{k}" for k in range(len(chunks))), "",
          "def schemaLocNamesDummy : List String := ["]
    L += ["]", "", "/-- member location names by id (for messages) -/", "def schemaLocNames : List String := ["]
    L.append(",\n".join("  " + json.dumps(n) for n in names))
    L += ["]", "", "/-- (block type or type@version, reason) outside the fragment -/", "def schemaOpaque : List (String × String) := ["]
    L.append(",\n".join(f"  ({json.dumps(k)}, {json.dumps(v[:160])})" for k, v in sorted(opaque.items())))
    L += ["]", "", "def schemaVersions : List (String × List Nat) := ["]
    L.append(",\n".join(f"  ({json.dumps(v)}, {verenv[v]})" for v in vnames))
    L += ["]", "", "end Nifly.Generated", ""]
    out = out or os.path.join(C.LEAN_DIR, "NiflyVerif", "Generated", "Schemas.lean")
    txt = "\n".join(L)
    if not os.path.exists(out) or open(out).read() != txt:
        open(out, "w").write(txt)
    # well-formedness is decided chunk by chunk in separate modules (built in parallel) and assembled in SchemasWf.lean
    gdir = os.path.dirname(out)
    keep = set()
    for c in range(nch):
        f = os.path.join(gdir, f"SchemasWf{c}.lean")
        keep.add(os.path.basename(f))
        t = ("/- GENERATED by translator/schema.py. DO NOT EDIT. -/\nimport NiflyVerif.Generated.Schemas\nnamespace Nifly.Generated\nopen Nifly.Schema\n\n"
             f"theorem wf_chunk{c} : ∀ s ∈ schemaChunk{c}, (wf 0 s [] []).isSome = true := by decide +kernel\n\nend Nifly.Generated\n")
        if not os.path.exists(f) or open(f).read() != t:
            open(f, "w").write(t)
    for f in os.listdir(gdir):
        if re.match(r"SchemasWf\d+\.lean$", f) and f not in keep:
            os.remove(os.path.join(gdir, f))
    alts = " | ".join(["rfl"] * nch)
    firsts = " | ".join(f"exact wf_chunk{c} s hs" for c in range(nch))
    t = ("/- GENERATED by translator/schema.py. DO NOT EDIT. -/\nimport NiflyVerif.Wire.SchemaWeak\n" + "".join(f"import NiflyVerif.Generated.SchemasWf{c}\n" for c in range(nch)) +
         "namespace Nifly.Generated\nopen Nifly.Schema\n\n"
         "/-- every generated schema obeys the static discipline (assembled from the per-chunk kernel evaluations) -/\n"
         "theorem schemas_wf : ∀ s ∈ schemas, (wf 0 s [] []).isSome = true := by\n"
         "  intro s hs\n  unfold schemas at hs\n  obtain ⟨l, hl, hs⟩ := List.mem_flatten.1 hs\n"
         "  simp only [schemaChunks, List.mem_cons, List.not_mem_nil, or_false] at hl\n"
         f"  rcases hl with {alts}\n  all_goals first | {firsts}\n\n"
         "theorem schemasWeak_wfw : ∀ s ∈ schemasWeak, (wfw 0 s []).isSome = true := by decide +kernel\n\nend Nifly.Generated\n")
    f = os.path.join(gdir, "SchemasWf.lean")
    if not os.path.exists(f) or open(f).read() != t:
        open(f, "w").write(t)
    return dict(index=index, index_weak=index_weak, weak_reason={f"{t}@{v}": r for (t, v), r in weak_reason.items()}, opaque=opaque, names=names, schemas=schemas, types=types, versions=vnames, normalisers=sorted(tr.normalisers),
                unsynced_control={t: sorted(v) for t, v in sorted(unsynced.items())})


if __name__ == "__main__" and len(sys.argv) > 1 and sys.argv[1] == "--generate":
    r = generate()
    print(len(r["schemas"]), "distinct schemas for", len(r["index"]), "(type, version) pairs;", len(r["opaque"]), "opaque entries")
