"""clang-14 JSON AST of every translation unit of /repo (namespace nifly), cached by content hash.
Returns a merged table of classes (fields, bases, methods with bodies) — the raw material of the translators."""
import hashlib
import json
import os
import pickle
import subprocess
import sys
from concurrent.futures import ProcessPoolExecutor

sys.path.insert(0, os.path.dirname(os.path.dirname(os.path.abspath(__file__))))
from vlib import common as C  # noqa: E402

CLANG = "clang++-14"


def _dump_one(args):
    repo, src = args
    cmd = [CLANG, "-std=gnu++17", "-fsyntax-only", "-w", "-I" + os.path.join(repo, "include"), "-I" + os.path.join(repo, "external"),
           "-Xclang", "-ast-dump=json", "-Xclang", "-ast-dump-filter=nifly", src]
    r = subprocess.run(cmd, stdout=subprocess.PIPE, stderr=subprocess.PIPE)
    if r.returncode != 0:
        raise RuntimeError("clang failed on " + src + ": " + r.stderr.decode()[-2000:])
    s = r.stdout.decode()
    dec = json.JSONDecoder()
    i, objs = 0, []
    n = len(s)
    while i < n:
        while i < n and s[i].isspace():
            i += 1
        if i >= n:
            break
        o, i = dec.raw_decode(s, i)
        objs.append(o)
    return extract(objs, src)


def _walk(node, fn, parents=()):
    fn(node, parents)
    for c in node.get("inner", []) or []:
        if isinstance(c, dict):
            _walk(c, fn, parents + (node,))


def extract(objs, src):
    """-> dict(classes={name: {...}}, methods=[...])"""
    classes = {}      # id -> record
    methods = []      # out-of-line and inline method definitions with bodies
    idname = {}

    def visit(node, parents):
        k = node.get("kind")
        if k in ("CXXRecordDecl", "ClassTemplateSpecializationDecl") and node.get("completeDefinition"):
            name = node.get("name")
            if not name:
                return
            base = name
            if k == "ClassTemplateSpecializationDecl":
                # an instantiation is its own class: NiAnimationKeyGroup<float>
                targs = [a.get("type", {}).get("qualType", "?").replace("nifly::", "") for a in node.get("inner", []) or []
                         if a.get("kind") == "TemplateArgument"]
                name = name + "<" + ", ".join(targs) + ">"
            # qualified with enclosing records (nested structs)
            q = [p.get("name") for p in parents if p.get("kind") in ("CXXRecordDecl", "ClassTemplateSpecializationDecl", "ClassTemplateDecl") and p.get("name")]
            if q and q[-1] == base:
                q = q[:-1]
            qn = "::".join(dict.fromkeys(q + [base]))           # the name every translator keys classes by
            spec = "::".join(dict.fromkeys(q + [name]))         # instantiations told apart (schema translator only)
            rec = dict(id=node["id"], name=qn, spec=spec, bases=[b["type"]["qualType"] for b in node.get("bases", [])], fields=[],
                       template=any(p.get("kind") == "ClassTemplateDecl" for p in parents), methods={})
            for c in node.get("inner", []) or []:
                if c.get("kind") == "FieldDecl":
                    t = c["type"]
                    rec["fields"].append((c["name"], t.get("qualType"), t.get("desugaredQualType", t.get("qualType"))))
            classes[node["id"]] = rec
            idname[node["id"]] = qn
        if k == "CXXMethodDecl":
            body = [c for c in node.get("inner", []) or [] if c.get("kind") == "CompoundStmt"]
            methods.append(dict(id=node["id"], name=node.get("name"), parent=node.get("parentDeclContextId"),
                                prev=node.get("previousDecl"), body=body[0] if body else None,
                                params=[c.get("name") for c in node.get("inner", []) or [] if c.get("kind") == "ParmVarDecl"],
                                enclosing=[p["id"] for p in parents if p.get("kind") in ("CXXRecordDecl", "ClassTemplateSpecializationDecl")][-1:],
                                file=src, type=node.get("type", {}).get("qualType")))

    for o in objs:
        _walk(o, visit)
    return dict(classes=classes, methods=methods)


def load(repo=None):
    repo = repo or C.REPO
    key = C.repo_hash(repo)
    os.makedirs(C.CACHE, exist_ok=True)
    tag = hashlib.sha256(os.path.realpath(repo).encode()).hexdigest()[:6]
    cache = os.path.join(C.CACHE, f"ast-{tag}-{key}-v5.pkl")
    if os.path.exists(cache):
        return pickle.load(open(cache, "rb"))
    srcs = sorted(os.path.join(repo, "src", f) for f in os.listdir(os.path.join(repo, "src")) if f.endswith(".cpp"))
    with ProcessPoolExecutor(min(C.JOBS, len(srcs))) as ex:
        parts = list(ex.map(_dump_one, [(repo, s) for s in srcs]))
    # merge: classes by qualified name (first definition wins, they are identical across TUs); methods with bodies
    by_id = {}
    cls_by_name = {}
    meth = []
    for p in parts:
        for cid, rec in p["classes"].items():
            by_id[(id(p), cid)] = rec
            cls_by_name.setdefault(rec["name"], rec)
        decl_parent = {}
        for m in p["methods"]:
            par = m["enclosing"][0] if m["enclosing"] else m["parent"]
            decl_parent[m["id"]] = par
        for m in p["methods"]:
            par = m["enclosing"][0] if m["enclosing"] else (m["parent"] or decl_parent.get(m["prev"]))
            if m["body"] is None or par is None or par not in p["classes"]:
                continue
            cname = p["classes"][par]["name"]
            meth.append(dict(cls=cname, spec=p["classes"][par]["spec"], name=m["name"], body=m["body"], file=m["file"], type=m["type"],
                             params=m.get("params", []),
                             ids={mm["id"]: p["classes"][decl_parent[mm["id"]]]["name"] for mm in p["methods"]
                                  if decl_parent.get(mm["id"]) in p["classes"]}))
    # method bodies: keep one per (class, name, type)
    seen, seen_spec = {}, {}
    for m in meth:
        seen.setdefault((m["cls"], m["name"], m["type"]), m)
        seen_spec.setdefault((m["spec"], m["name"], m["type"]), m)
    # `methods`: one body per (class, name, type) with template instantiations under the template's name (what the reference,
    # write-mutation, stream and signature translators work from); `methods_spec`: one per instantiation (wire schemas)
    out = dict(classes=cls_by_name, methods=list(seen.values()), methods_spec=list(seen_spec.values()))
    pickle.dump(out, open(cache, "wb"))
    old = sorted((os.path.join(C.CACHE, f) for f in os.listdir(C.CACHE) if f.startswith("ast-")), key=os.path.getmtime)
    for f in old[:-3]:
        try:
            os.remove(f)
        except OSError:
            pass
    return out


if __name__ == "__main__":
    import time
    t0 = time.time()
    d = load()
    print(len(d["classes"]), "classes", len(d["methods"]), "method bodies", f"{time.time() - t0:.1f}s")
    import collections
    print(collections.Counter(m["name"] for m in d["methods"]).most_common(12))
