"""Translator stage 1 (C05): regenerates lean/NiflyVerif/Generated/RefTables.lean from the C++ source.

Per class level (every class/struct with a `Sync`, `GetChildRefs`, `GetPtrs` or `GetStringRefs` body):
  * the reference / pointer / string-reference members that pass through `Sync` (by the member's declared type:
    NiBlockRef/NiBlockPtr/NiBlockRefArray/NiBlockPtrArray/NiBlockRefShortArray/NiBlockPtrShortArray, NiStringRef,
    NiStringRefVector; nested structs and NiSyncVector<U> elements are expanded through U's own table),
  * the members inserted by each enumerator, and which base-class enumerators it calls,
  * members inserted under a condition are NOT counted as enumerated (listed in `conditional`).
Anything the walker does not understand inside those bodies is listed in `unknown` (never dropped silently).
"""
import os
import re
import sys

sys.path.insert(0, os.path.dirname(os.path.dirname(os.path.abspath(__file__))))
from translator import astdump  # noqa: E402
from vlib import common as C  # noqa: E402

INF = 1 << 40
REF_T = re.compile(r"\bNiBlock(Ref|Ptr)(Array|ShortArray)?<")
STR_T = re.compile(r"\bNiStringRef(Vector)?\b")
SYNCVEC_T = re.compile(r"\bNiSyncVector<\s*(?:nifly::)?([\w:]+)")
VEC_T = re.compile(r"\b(?:std::vector|std::array|NiVector)<\s*(?:nifly::)?([\w:]+)")
ENUMS = {"GetChildRefs": "ref", "GetPtrs": "ptr", "GetStringRefs": "str"}


def strip(e):
    while e.get("kind") in ("ImplicitCastExpr", "ParenExpr", "MaterializeTemporaryExpr", "ExprWithCleanups", "CXXBindTemporaryExpr",
                            "CXXFunctionalCastExpr", "CXXStaticCastExpr", "CStyleCastExpr", "ConstantExpr") and e.get("inner"):
        e = e["inner"][0]
    return e


def tname(t):
    """element / struct type name out of a qualType string"""
    t = t.replace("const ", "").replace("&", "").replace("*", "").strip()
    t = re.sub(r"^(struct|class)\s+", "", t)
    return t.replace("nifly::", "")


class Walker:
    def __init__(self, cls, classes):
        self.cls, self.classes = cls, classes
        self.vars = {}     # loop variable name -> (path, element type)
        self.unknown = []

    def path_of(self, e):
        """(path tuple, type string) of an lvalue expression rooted at `this` (or a loop variable); None if not"""
        e = strip(e)
        k = e.get("kind")
        if k == "CXXThisExpr":
            return (), tname(e["type"]["qualType"])
        if k == "MemberExpr":
            base = self.path_of(e["inner"][0]) if e.get("inner") else None
            if base is None:
                return None
            return base[0] + (e["name"],), e["type"]["qualType"]
        if k == "DeclRefExpr":
            n = e.get("referencedDecl", {}).get("name")
            if n in self.vars:
                return self.vars[n]
            return None
        if k in ("CXXOperatorCallExpr",):
            inner = e.get("inner", [])
            # operator[] / operator* : the object is the first argument after the callee
            if len(inner) >= 2:
                return self.path_of(inner[1])
            return None
        if k == "ArraySubscriptExpr":
            return self.path_of(e["inner"][0])
        if k == "UnaryOperator" and e.get("opcode") in ("*", "&"):
            return self.path_of(e["inner"][0])
        if k == "CXXMemberCallExpr":
            # x.at(i), x.get(), x.back() ... : treat as the object itself
            callee = strip(e["inner"][0])
            if callee.get("kind") == "MemberExpr" and callee.get("name") in ("at", "back", "front", "get", "data"):
                return self.path_of(callee["inner"][0])
        return None


def elem_type(t):
    m = SYNCVEC_T.search(t) or VEC_T.search(t)
    return m.group(1) if m else None


def analyse(d):
    classes = d["classes"]
    bodies = {}
    for m in d["methods"]:
        if m["name"] in ("Sync", "GetChildRefs", "GetPtrs", "GetStringRefs") and m["body"] is not None:
            bodies.setdefault(m["cls"], {})[m["name"]] = m
    levels = {}
    for cls, ms in bodies.items():
        lv = dict(cls=cls, synced=[], enum={}, conditional=[], unknown=[])
        for name, m in ms.items():
            w = Walker(cls, classes)
            items = []   # (path, type, callee name, conditional?)

            def file_guard(c):
                """(lo, hi) file-version interval implied by a condition, or None"""
                c = strip(c)
                if c.get("kind") == "BinaryOperator" and c.get("opcode") == "&&":
                    a, b = file_guard(c["inner"][0]), file_guard(c["inner"][1])
                    if a and b:
                        return (max(a[0], b[0]), min(a[1], b[1]))
                    return a or b
                if c.get("kind") == "BinaryOperator" and c.get("opcode") in ("<", "<=", ">", ">=", "=="):
                    l, r = strip(c["inner"][0]), strip(c["inner"][1])

                    def is_file(e):
                        return e.get("kind") == "CXXMemberCallExpr" and strip(e["inner"][0]).get("name") == "File"

                    def const(e):
                        n = e.get("referencedDecl", {}).get("name", "") if e.get("kind") == "DeclRefExpr" else ""
                        m = re.match(r"V(\d+)_(\d+)_(\d+)_(\d+)$", n)
                        return (int(m.group(1)) << 24 | int(m.group(2)) << 16 | int(m.group(3)) << 8 | int(m.group(4))) if m else None
                    op = c["opcode"]
                    if is_file(r) and const(l) is not None:
                        l, r = r, l
                        op = {"<": ">", "<=": ">=", ">": "<", ">=": "<=", "==": "=="}[op]
                    if is_file(l) and const(r) is not None:
                        v = const(r)
                        return {"<": (0, v), "<=": (0, v + 1), ">": (v + 1, INF), ">=": (v, INF), "==": (v, v + 1)}[op]
                return None

            def negate(g):
                if g is None:
                    return None
                lo, hi = g
                if lo == 0 and hi < INF:
                    return (hi, INF)
                if hi == INF and lo > 0:
                    return (0, lo)
                return None

            def meet(a, b):
                if b is None:
                    return a
                return (max(a[0], b[0]), min(a[1], b[1]))

            def walk(node, cond, rng=(0, 1 << 40)):
                k = node.get("kind")
                if k == "IfStmt" and name == "Sync":
                    inner = node.get("inner", [])
                    g = file_guard(inner[0]) if inner else None
                    walk(inner[0], cond, rng)
                    if len(inner) > 1:
                        walk(inner[1], cond, meet(rng, g))
                    if len(inner) > 2:
                        walk(inner[2], cond, meet(rng, negate(g)))
                    return
                if k == "CXXForRangeStmt":
                    rexpr = None
                    var = None
                    for c in node.get("inner", []):
                        if c.get("kind") == "DeclStmt":
                            for v in c.get("inner", []):
                                if v.get("kind") == "VarDecl":
                                    if v["name"].startswith("__range"):
                                        rexpr = w.path_of(v["inner"][0]) if v.get("inner") else None
                                    elif not v["name"].startswith("__"):
                                        var = v
                    if var is not None and rexpr is not None:
                        et = elem_type(rexpr[1]) or tname(var["type"]["qualType"])
                        w.vars[var["name"]] = (rexpr[0], et)
                    body = node["inner"][-1]
                    walk(body, cond, rng)
                    return
                if k in ("IfStmt", "SwitchStmt", "ConditionalOperator") and name != "Sync":
                    for c in node.get("inner", []):
                        walk(c, True, rng)
                    return
                if k == "CXXMemberCallExpr":
                    callee = strip(node["inner"][0])
                    if callee.get("kind") == "MemberExpr":
                        obj = callee["inner"][0] if callee.get("inner") else None
                        items.append((callee.get("name"), obj, node["inner"][1:], cond, rng))
                for c in node.get("inner", []) or []:
                    if isinstance(c, dict):
                        walk(c, cond, rng)
            walk(m["body"], False)
            if name == "Sync":
                for callee, obj, args, cond, rng in items:
                    if callee not in ("Sync",):
                        continue
                    p = w.path_of(obj) if obj else None
                    if p is None:
                        continue
                    path, ty = p
                    if not path:
                        continue
                    lv["synced"].append((path, ty, rng))
            else:
                kind = ENUMS[name]
                ins, calls = [], []
                for callee, obj, args, cond, rng in items:
                    o = strip(obj) if obj else None
                    if callee == name:
                        # base-class call on `this`, or a nested enumerator on a member / loop variable
                        p = w.path_of(obj)
                        if p is not None and p[0] == ():
                            # outermost cast type = the class whose enumerator is called
                            t = obj
                            target = None
                            while t.get("kind") == "ImplicitCastExpr":
                                target = target or tname(t["type"]["qualType"])
                                t = t["inner"][0]
                            calls.append(target or "?")
                        elif p is not None:
                            (lv["conditional"] if cond else ins).append((p[0], p[1], "nested"))
                        else:
                            lv["unknown"].append(f"{name}: call on unknown object")
                    elif callee in ("insert", "push_back", "emplace_back"):
                        for a in args:
                            p = w.path_of(a)
                            if p is not None and p[0]:
                                (lv["conditional"] if cond else ins).append((p[0], p[1], "direct"))
                    elif callee in ("GetIndexPtrs",):
                        p = w.path_of(obj)
                        if p is not None and p[0]:
                            (lv["conditional"] if cond else ins).append((p[0], p[1], "direct"))
                lv["enum"][kind] = (ins, calls)
        levels[cls] = lv
    return levels


def crtp_base(rec):
    """next class in the Get/Put chain"""
    for b in rec["bases"]:
        m = re.match(r"Ni(?:Cloneable)?Streamable<\s*(?:nifly::)?[\w:]+\s*,\s*(?:nifly::)?([\w:]+)\s*>", b) or \
            re.match(r"NiCloneable<\s*(?:nifly::)?[\w:]+\s*,\s*(?:nifly::)?([\w:]+)\s*>", b)
        if m:
            return m.group(1)
        return tname(b)
    return None


def expand(levels, classes):
    """flatten nested struct paths; returns per class: synced_ref, synced_str, enum[kind] = (paths, calls)"""
    def kind_of(ty):
        if REF_T.search(ty):
            return "ref"
        if STR_T.search(ty):
            return "str"
        return None

    def nested_type(ty):
        et = elem_type(ty)
        t = et or tname(ty)
        return t if t in levels else None

    memo = {}

    def synced_of(cls, depth=0):
        if cls in memo:
            return memo[cls]
        out = []
        if cls in levels and depth < 8:
            for path, ty, rng in levels[cls]["synced"]:
                k = kind_of(ty)
                if k:
                    out.append((k, ".".join(path), rng))
                else:
                    nt = nested_type(ty)
                    if nt and nt != cls:
                        for k2, p2, r2 in synced_of(nt, depth + 1):
                            out.append((k2, ".".join(path) + "." + p2, (max(rng[0], r2[0]), min(rng[1], r2[1]))))
        memo[cls] = out
        return out

    def full_chain_enum(cls, kind, depth=0):
        """paths the enumerator `kind` of struct type cls reports (nested structs have no CRTP chain to speak of, but
        may call their base)"""
        out = []
        if cls in levels and kind in levels[cls]["enum"] and depth < 8:
            ins, calls = levels[cls]["enum"][kind]
            out += enum_paths(cls, kind, depth)
            for c in calls:
                out += full_chain_enum(c, kind, depth + 1)
        return out

    def enum_paths(cls, kind, depth=0):
        out = []
        ins, calls = levels[cls]["enum"][kind]
        for path, ty, how in ins:
            if how == "direct":
                out.append(".".join(path))
            else:
                nt = nested_type(ty)
                if nt:
                    for k in ([kind] if kind == "str" else ["ref", "ptr"]) if False else [kind]:
                        for p2 in full_chain_enum(nt, k, depth + 1):
                            out.append(".".join(path) + "." + p2)
        return out

    table = {}
    for cls, lv in levels.items():
        s = synced_of(cls)
        ent = dict(cls=cls, base=crtp_base(classes[cls]) if cls in classes else None,
                   synced_ref=sorted(set((p, r) for k, p, r in s if k == "ref")),
                   synced_str=sorted(set((p, r) for k, p, r in s if k == "str")),
                   enum={}, conditional=[".".join(p) for p, _, _ in lv["conditional"]], unknown=lv["unknown"])
        for kind in ("ref", "ptr", "str"):
            if kind in lv["enum"]:
                ent["enum"][kind] = (sorted(set(enum_paths(cls, kind))), lv["enum"][kind][1])
        table[cls] = ent
    # classes without any body of their own still take part in the chain
    for cls, rec in classes.items():
        if cls not in table and not rec["template"]:
            table[cls] = dict(cls=cls, base=crtp_base(rec), synced_ref=[], synced_str=[], enum={}, conditional=[], unknown=[])
    return table


def registered(repo):
    src = open(os.path.join(repo, "src", "Factory.cpp")).read()
    return re.findall(r"RegisterFactory<\s*([\w:]+)\s*>\(\)", src)


def generate(repo=None, out=None):
    repo = repo or C.REPO
    d = astdump.load(repo)
    levels = analyse(d)
    table = expand(levels, d["classes"])
    regs = registered(repo)
    # intern names
    cid = {n: i + 1 for i, n in enumerate(sorted(table))}
    paths = sorted(set(p for e in table.values() for p, _ in e["synced_ref"] + e["synced_str"]) |
                   set(p for e in table.values() for k in e["enum"] for p in e["enum"][k][0]))
    pid = {p: i for i, p in enumerate(paths)}
    L = []
    L.append("/- GENERATED by translator/reftables.py from the C++ sources of /repo on every run. DO NOT EDIT. -/")
    L.append("namespace Nifly.Generated")
    L.append("")
    L.append("structure Lvl where")
    L.append("  cls : Nat")
    L.append("  base : Nat                              -- next class in the Get/Put chain (0 = none)")
    L.append("  syncedRef : List (Nat × Nat × Nat)      -- (member, lo, hi): reference/pointer member passing through this level's Sync")
    L.append("                                          --   under file-version guards lo ≤ File() < hi")
    L.append("  syncedStr : List (Nat × Nat × Nat)      -- string references passing through this level's Sync")
    L.append("  refEnum : Option (List Nat × List Nat)  -- GetChildRefs override: (inserted members, base enumerators called)")
    L.append("  ptrEnum : Option (List Nat × List Nat)  -- GetPtrs override")
    L.append("  strEnum : Option (List Nat × List Nat)  -- GetStringRefs override")
    L.append("")

    def lst(xs):
        return "[" + ", ".join(str(x) for x in xs) + "]"

    def opt(e, kind):
        if kind not in e["enum"]:
            return "none"
        ins, calls = e["enum"][kind]
        return f"some ({lst(pid[p] for p in ins)}, {lst(cid.get(c, 0) for c in calls)})"
    L.append("def levels : List Lvl := [")
    rows = []
    for n in sorted(table):
        e = table[n]
        def trip(xs):
            return lst("(%d, %d, %d)" % (pid[p], r[0], r[1]) for p, r in xs)
        rows.append("  ⟨%d, %d, %s, %s, %s, %s, %s⟩" % (cid[n], cid.get(e["base"], 0), trip(e["synced_ref"]), trip(e["synced_str"]),
                                                      opt(e, "ref"), opt(e, "ptr"), opt(e, "str")))
    L.append(",\n".join(rows))
    L.append("]")
    L.append("")
    L.append("/-- the registered (concrete) block types, from src/Factory.cpp -/")
    L.append("def registered : List Nat := " + lst(cid[r] for r in regs if r in cid))
    L.append("")
    L.append("def classNames : List String := " + "[" + ", ".join('"' + n + '"' for n in [""] + sorted(table)) + "]")
    L.append("def pathNames : List String := " + "[" + ", ".join('"' + p + '"' for p in paths) + "]")
    L.append("")
    cond = sorted((n, p) for n, e in table.items() for p in e["conditional"])
    unk = sorted((n, u) for n, e in table.items() for u in e["unknown"])
    L.append("/-- members inserted by an enumerator only under a condition (not counted as enumerated) -/")
    L.append("def conditionalEnum : List (Nat × String) := [" + ", ".join(f'({cid[n]}, "{p}")' for n, p in cond) + "]")
    L.append("/-- constructs the translator did not understand inside enumerator bodies -/")
    L.append("def unknownConstructs : List (Nat × String) := [" + ", ".join(f'({cid[n]}, "{u}")' for n, u in unk) + "]")
    L.append("")
    L.append("end Nifly.Generated")
    out = out or os.path.join(C.LEAN_DIR, "NiflyVerif", "Generated", "RefTables.lean")
    os.makedirs(os.path.dirname(out), exist_ok=True)
    txt = "\n".join(L) + "\n"
    if not os.path.exists(out) or open(out).read() != txt:
        open(out, "w").write(txt)
    missing = [r for r in regs if r not in cid]
    return dict(table=table, registered=regs, missing=missing, cid=cid, pid=pid, conditional=cond, unknown=unk)


if __name__ == "__main__":
    r = generate()
    t = r["table"]
    print(len(t), "levels;", len(r["registered"]), "registered; missing:", r["missing"][:5], "conditional:", r["conditional"][:5],
          "unknown:", r["unknown"][:5])
    for n in ("NiSkinInstance", "NiGeomMorpherController", "NiNode", "NiAVObject", "NiObjectNET", "MorphWeight", "NiTexturingProperty"):
        if n in t:
            print(n, {k: v for k, v in t[n].items() if k != "cls"})
