"""Shared machinery of the /verif checks (see DESIGN.md §2.3).

Every check
  1. hashes /repo/{src,include,external} (cache key; nothing built from another tree state is reused),
  2. (T-tied properties) runs the translator,
  3. builds the Lean proof obligations (lake build of the property module),
  4. audits them (forbidden tokens, `#print axioms`-equivalent over every theorem of the module),
  5. builds the C++ harness against the current tree and the Lean driver,
  6. runs the correspondence (same op lines through implementation and model),
  7. runs the property oracle on the implementation's outputs,
  8. writes evidence/<id>.json.
"""
import hashlib
import json
import os
import random
import re
import shutil
import subprocess
import sys
import time
from concurrent.futures import ThreadPoolExecutor

VERIF = os.path.dirname(os.path.dirname(os.path.abspath(__file__)))
REPO = os.environ.get("NIFLY_REPO", "/repo")
LEAN_DIR = os.path.join(VERIF, "lean")
CACHE = os.path.join(VERIF, ".cache")
REPLAYS = os.path.join(VERIF, "replays")
EVIDENCE = os.environ.get("VERIF_EVIDENCE_DIR") or os.path.join(VERIF, "evidence")   # seeded-change runs write their evidence elsewhere
GUARD = "NIFLY_VERIF"
JOBS = int(os.environ.get("VERIF_JOBS", str(os.cpu_count() or 4)))

ALLOWED_AXIOMS = {"propext", "Classical.choice", "Quot.sound"}
FORBIDDEN = re.compile(r"\bsorry\b|\badmit\b|^\s*axiom\s|\bnative_decide\b|\bbv_decide\b|\bimplemented_by\b|\bunsafe\s|maxHeartbeats\s+0\b", re.M)

TRUSTED_BASE = [
    "Lean 4.33.0 kernel; axioms allowed: propext, Classical.choice, Quot.sound (audited per theorem on every run; no native_decide, no bv_decide, no sorry/admit, no own axioms)",
    "hand-written Lean models under lean/NiflyVerif (tied to /repo only by the correspondence run of this check)",
    "the C++ harness (harness/*.cpp), its canonicalisation and the generators' reach as counted in this file",
]


def log(*a):
    print(*a, file=sys.stderr, flush=True)


def sh(cmd, **kw):
    return subprocess.run(cmd, stdout=subprocess.PIPE, stderr=subprocess.STDOUT, text=True, **kw)


# ---------------------------------------------------------------------------------------------
# hashing / caching

def _hash_tree(paths, extra=b""):
    h = hashlib.sha256()
    h.update(extra)
    for root in paths:
        if os.path.isfile(root):
            files = [root]
        else:
            files = []
            for d, dn, fn in os.walk(root):
                dn.sort()
                for f in sorted(fn):
                    files.append(os.path.join(d, f))
        for f in sorted(files):
            h.update(f.encode())
            with open(f, "rb") as fh:
                h.update(fh.read())
    return h.hexdigest()[:20]


def repo_hash(repo=None):
    repo = repo or REPO
    return _hash_tree([os.path.join(repo, d) for d in ("src", "include", "external")])


CXXFLAGS_SAN = ["-std=c++17", "-O1", "-g1", "-fsanitize=address,undefined", "-fno-sanitize-recover=all", "-fno-sanitize=alignment,bool,enum",
                "-fno-omit-frame-pointer", "-D" + GUARD, "-w"]
CXXFLAGS_FAST = ["-std=c++17", "-O2", "-g0", "-D" + GUARD, "-w"]


def _prune_cache(keep_prefix, keep=3):
    """keep the `keep` most recently used cache dirs of a kind"""
    if not os.path.isdir(CACHE):
        return
    ds = [os.path.join(CACHE, d) for d in os.listdir(CACHE) if d.startswith(keep_prefix)]
    ds.sort(key=lambda d: os.path.getmtime(d), reverse=True)
    for d in ds[keep:]:
        shutil.rmtree(d, ignore_errors=True)


def _file_hash(path, _memo={}):
    st = os.stat(path)
    k = (path, st.st_mtime_ns, st.st_size)
    if k not in _memo:
        with open(path, "rb") as fh:
            _memo[k] = hashlib.sha256(fh.read()).hexdigest()
    return _memo[k]


def _tu_key(src, flags, inc):
    """content hash of a translation unit: the source, every header it includes (g++ -MM), and the flags"""
    r = subprocess.run(["g++"] + flags + inc + ["-MM", src], stdout=subprocess.PIPE, stderr=subprocess.PIPE, text=True)
    if r.returncode != 0:
        raise BuildError("dependency scan failed for " + src + ":\n" + r.stderr[-3000:])
    deps = r.stdout.replace("\\\n", " ").split(":", 1)[1].split()
    h = hashlib.sha256(" ".join(flags).encode())
    for d in sorted(set(os.path.realpath(x) for x in deps)):
        h.update(d.encode())
        h.update(_file_hash(d).encode())
    return h.hexdigest()[:24]


def repo_objects(kind="san", repo=None):
    """(compiler flags, include flags, object files of `repo`'s own sources) after making sure they are built — for small
    generated programs that need the library linked in (translator probes)"""
    repo = repo or REPO
    build_harness(kind, repo, tag="ref" if os.path.realpath(repo) != os.path.realpath(REPO) else "cur")
    flags = CXXFLAGS_SAN if kind == "san" else CXXFLAGS_FAST
    hsrc = os.path.join(VERIF, "harness")
    inc = ["-I" + os.path.join(repo, "include"), "-I" + os.path.join(repo, "external"), "-I" + hsrc]
    srcs = [os.path.join(repo, "src", f) for f in sorted(os.listdir(os.path.join(repo, "src"))) if f.endswith(".cpp")]
    objs = [os.path.join(CACHE, "obj", f"{os.path.basename(s_)[:-4]}-{kind}-{_tu_key(s_, flags, inc)}.o") for s_ in srcs]
    return flags, inc, objs


def build_harness(kind="san", repo=None, tag="cur"):
    """Compile the sources of `repo` with -DNIFLY_VERIF and link them with harness/*.cpp.
    Objects are cached per translation unit by the content hash of the source and all headers it
    includes (so only what a change touches is rebuilt, and nothing stale is ever linked)."""
    repo = repo or REPO
    flags = CXXFLAGS_SAN if kind == "san" else CXXFLAGS_FAST
    hsrc = os.path.join(VERIF, "harness")
    objdir = os.path.join(CACHE, "obj")
    bindir = os.path.join(CACHE, "bin")
    os.makedirs(objdir, exist_ok=True)
    os.makedirs(bindir, exist_ok=True)
    inc = ["-I" + os.path.join(repo, "include"), "-I" + os.path.join(repo, "external"), "-I" + hsrc]
    srcs = [os.path.join(repo, "src", f) for f in sorted(os.listdir(os.path.join(repo, "src"))) if f.endswith(".cpp")]
    srcs += [os.path.join(hsrc, f) for f in sorted(os.listdir(hsrc)) if f.endswith(".cpp")]
    t0 = time.time()
    with ThreadPoolExecutor(JOBS) as ex:
        keys = list(ex.map(lambda s_: _tu_key(s_, flags, inc), srcs))
    objs = [os.path.join(objdir, f"{os.path.basename(s_)[:-4]}-{kind}-{k}.o") for s_, k in zip(srcs, keys)]
    jobs = [(["g++"] + flags + inc + ["-c", s_, "-o", o + f".tmp{os.getpid()}"], o) for s_, o in zip(srcs, objs)
            if not os.path.exists(o)]
    if jobs:
        log(f"[build] compiling {len(jobs)}/{len(srcs)} translation units ({kind}) ...")

        def comp(j):
            r = sh(j[0])
            if r.returncode != 0:
                return (j, r.stdout)
            os.replace(j[0][-1], j[1])
            return None
        with ThreadPoolExecutor(JOBS) as ex:
            errs = [e for e in ex.map(comp, jobs) if e]
        if errs:
            raise BuildError("harness build failed:\n" + errs[0][1][-4000:])
        log(f"[build] compiled in {time.time() - t0:.0f}s")
    bkey = hashlib.sha256(("".join(keys) + tag).encode()).hexdigest()[:20]
    binp = os.path.join(bindir, f"nvharness-{kind}-{bkey}")
    if not os.path.exists(binp):
        tmp = binp + f".tmp{os.getpid()}"
        r = sh(["g++"] + flags + objs + ["-o", tmp])
        if r.returncode != 0:
            raise BuildError("harness link failed:\n" + r.stdout[-4000:])
        os.replace(tmp, binp)
    now = time.time()
    for o in objs + [binp]:
        os.utime(o, (now, now))
    # eviction: keep the cache below ~3 GB, dropping least recently used files
    ents = []
    for d in (objdir, bindir):
        for f in os.listdir(d):
            fp = os.path.join(d, f)
            try:
                st = os.stat(fp)
                ents.append((st.st_mtime, st.st_size, fp))
            except OSError:
                pass
    total = sum(e[1] for e in ents)
    for mt, sz, fp in sorted(ents):
        if total < 3 * 2**30:
            break
        try:
            os.remove(fp)
            total -= sz
        except OSError:
            pass
    return binp


class BuildError(Exception):
    pass


def build_lean(targets):
    """lake build of the given targets; returns (ok, output)."""
    t0 = time.time()
    r = sh(["lake", "build"] + list(targets), cwd=LEAN_DIR)
    log(f"[lean] lake build {' '.join(targets)}: rc={r.returncode} in {time.time() - t0:.0f}s")
    return r.returncode == 0, r.stdout


def driver_path():
    return os.path.join(LEAN_DIR, ".lake", "build", "bin", "nvdriver")


def strip_lean_comments(src):
    out = []
    i = 0
    depth = 0
    n = len(src)
    while i < n:
        if src.startswith("/-", i):
            depth += 1
            i += 2
        elif depth and src.startswith("-/", i):
            depth -= 1
            i += 2
        elif depth:
            i += 1
        elif src.startswith("--", i):
            j = src.find("\n", i)
            i = n if j < 0 else j
        else:
            out.append(src[i])
            i += 1
    return "".join(out)


def lean_sources(roots=("NiflyVerif", "NiflyXform", "Driver")):
    fs = []
    for r in roots:
        p = os.path.join(LEAN_DIR, r)
        for d, dn, fn in os.walk(p):
            for f in fn:
                if f.endswith(".lean"):
                    fs.append(os.path.join(d, f))
        if os.path.exists(p + ".lean"):
            fs.append(p + ".lean")
    return sorted(fs)


def audit(modules):
    """forbidden-token grep over all Lean sources + axiom audit of every theorem in `modules`.
    returns dict(theorems=[(name, axioms)], bad_tokens=[...], bad_axioms=[...], ok=bool)"""
    bad_tokens = []
    for f in lean_sources():
        src = strip_lean_comments(open(f).read())
        for m in FORBIDDEN.finditer(src):
            bad_tokens.append(f"{os.path.relpath(f, LEAN_DIR)}: {m.group(0).strip()}")
    r = sh(["lake", "env", "lean", "--run", "audit/Audit.lean"] + list(modules), cwd=LEAN_DIR)
    thms = []
    for line in r.stdout.splitlines():
        m = re.match(r"THEOREM (\S+) AXIOMS (\S+)", line)
        if m:
            axs = [] if m.group(2) == "-" else m.group(2).split(",")
            thms.append((m.group(1), axs))
    bad_axioms = [(n, [a for a in axs if a not in ALLOWED_AXIOMS]) for n, axs in thms]
    bad_axioms = [x for x in bad_axioms if x[1]]
    ok = r.returncode == 0 and not bad_tokens and not bad_axioms and len(thms) > 0
    return dict(theorems=thms, bad_tokens=bad_tokens, bad_axioms=bad_axioms, ok=ok, output=r.stdout[-3000:])


def leanchecker(module):
    r = sh(["lake", "env", "leanchecker", module], cwd=LEAN_DIR)
    return r.returncode == 0, r.stdout[-2000:]


# ---------------------------------------------------------------------------------------------
# running op lines through implementation and model

class Crash(Exception):
    def __init__(self, index, line, output, rc, binary=None):
        self.index, self.line, self.output, self.rc, self.binary = index, line, output, rc, binary


def run_lines(binary, lines, env=None, timeout=3600, cwd=None):
    """feed `lines` to a line-protocol process; returns list of output lines.
    If the process dies, raises Crash naming the first line without an answer."""
    e = dict(os.environ)
    e.setdefault("ASAN_OPTIONS", "detect_leaks=0:abort_on_error=0:allocator_may_return_null=1:exitcode=86:hard_rss_limit_mb=4096:max_allocation_size_mb=2048")
    e.setdefault("UBSAN_OPTIONS", "print_stacktrace=1:exitcode=86")
    if env:
        e.update(env)
    data = "\n".join(lines) + "\n"
    try:
        p = subprocess.run([binary], input=data, stdout=subprocess.PIPE, stderr=subprocess.PIPE, text=True,
                           env=e, timeout=timeout, cwd=cwd, errors="replace")
    except subprocess.TimeoutExpired as ex:
        out = (ex.stdout or b"")
        if isinstance(out, bytes):
            out = out.decode(errors="replace")
        got = out.split("\n")[:-1]
        raise Crash(len(got), lines[len(got)] if len(got) < len(lines) else "", "timeout", -9)
    out = p.stdout.split("\n")
    if out and out[-1] == "":
        out.pop()
    if p.returncode != 0 or len(out) < len(lines):
        idx = min(len(out), len(lines) - 1)
        raise Crash(idx, lines[idx], p.stderr[:3000], p.returncode, binary)
    return out


def run_lines_parallel(binary, lines, chunk=None, **kw):
    """split the op list in chunks run by parallel processes (ops must be independent)."""
    n = len(lines)
    if n == 0:
        return []
    chunk = chunk or max(1, (n + JOBS - 1) // JOBS)
    parts = [lines[i:i + chunk] for i in range(0, n, chunk)]
    with ThreadPoolExecutor(JOBS) as ex:
        futs = [ex.submit(run_lines, binary, p, **kw) for p in parts]
        out = []
        off = 0
        for f, p in zip(futs, parts):
            try:
                out.extend(f.result())
            except Crash as c:
                c.index += off
                raise
            off += len(p)
    return out


# ---------------------------------------------------------------------------------------------
# known findings, replays, evidence

def known_findings():
    p = os.path.join(VERIF, "KNOWN_FINDINGS.jsonl")
    out = []
    if os.path.exists(p):
        for l in open(p):
            l = l.strip()
            if l and not l.startswith("#"):
                out.append(json.loads(l))
    return out


def write_replay(prop, name, obj):
    os.makedirs(REPLAYS, exist_ok=True)
    p = os.path.join(REPLAYS, f"{prop}-{name}.json")
    with open(p, "w") as f:
        json.dump(obj, f, indent=1, default=str)
    return p


class Result:
    """what a property module returns"""

    def __init__(self, prop):
        self.prop = prop
        self.violations = []     # list of (replay_path, no_input_found: bool, what)
        self.known = []          # list of str
        self.coverage = {}
        self.assumptions = []

    def violation(self, name, obj, no_input=False):
        obj = dict(obj)
        obj.setdefault("property", self.prop)
        p = write_replay(self.prop, name, obj)
        self.violations.append((p, no_input, obj.get("what", "")))
        return p


def write_evidence(prop, tier, seed, level, coverage, assumptions, wall, violations):
    os.makedirs(EVIDENCE, exist_ok=True)
    ev = dict(property_id=prop, tier=tier, seed=seed, level=level, coverage=coverage,
              assumptions=assumptions, wall_s=round(wall, 2), violations=violations)
    p = os.path.join(EVIDENCE, f"{prop}.json")
    with open(p + ".tmp", "w") as f:
        json.dump(ev, f, indent=1, default=str)
    os.replace(p + ".tmp", p)
    return p


def mkrng(seed, stream):
    return random.Random(f"{seed}/{stream}")
