"""C19 — texture path clean-up: Lean model of the cleaner vs the real TrimTexturePaths through every slot kind,
plus the canonical-form / idempotence predicates of the property evaluated on the implementation's outputs."""
import itertools
import json

from vlib import common as C

LEAN_MODULES = ["NiflyVerif.Props.C19"]
ASSUMPTIONS = [
    "is_relative_path() is true for every string without a leading '/' on this platform (std::filesystem on Linux); after the "
    "separator step no '/' remains, so the model uses `true`",
    "the 'special' version 10.0.1.0 cannot be produced through NifFile::Create + Save and is represented by Oblivion (same branch)",
    "std::regex stack depth/exceptions are exercised up to 4 kB paths, not modelled",
]
TOK = ["/", "\\", " ", "\n", ".", "a", "T", "textures", "data", "Textures", "Data", "\t"]
WS = b" \t\n\r\x0b\x0c"
OBLIKE = {"ob"}
VERS = ["ob", "fo3", "sk", "sse", "fo4", "fo76", "sf"]


def hx(b):
    return b.hex() or "-"


def unhx(s):
    return b"" if s == "-" else bytes.fromhex(s)


def lower(b):
    return bytes(c + 32 if 65 <= c <= 90 else c for c in b)


def canonical(once, notex, terrain, inp):
    """the property's canonical-form predicate; returns list of reasons"""
    why = []
    if inp.strip(WS) == b"":
        if once != b"":
            why.append("blank path did not become empty")
        return why
    if once != once.strip(WS):
        why.append("surrounding whitespace")
    if b"/" in once or b"\\\\" in once:
        why.append("separator not a single backslash")
    lo = lower(once)
    if not notex:
        want = b"data\\" if terrain else b"textures\\"
        if not lo.startswith(want):
            why.append("missing prefix")
    body = lo
    if body.find(b"\\textures\\") > 0 and not notex and not terrain and not lo.startswith(b"textures\\"):
        why.append("something before the textures folder")
    return why


def classify_known(notex, terrain, inp, once, twice):
    """fingerprints of KNOWN_FINDINGS.jsonl (exact, decidable on a replay)"""
    lo1, lo2 = lower(once), lower(twice)
    if terrain and not notex and once != twice:
        return "terrain-second-pass"
    if notex and not terrain and (b"\\textures\\" in lo1 or once[:1].strip(WS) == b"" and once != b""):
        return "ob-residual-segment-or-space"
    if notex and terrain:
        return "ob-terrain"
    return None


def gen_strings(tier, rng):
    k = 5 if tier == "thorough" else 4
    out = []
    for n in range(0, k + 1):
        for t in itertools.product(TOK[:11], repeat=n):
            out.append("".join(t).encode())
    # random: arbitrary bytes incl. non-UTF-8, drive and UNC prefixes, long
    nrand = 3000 if tier == "thorough" else 400
    for i in range(nrand):
        kind = i % 5
        if kind == 0:
            n = rng.choice([1, 2, 5, 17, 200, 1000, 4096])
            b = bytes(rng.randrange(1, 256) for _ in range(n))
        elif kind == 1:
            b = rng.choice([b"C:\\", b"c:/", b"\\\\server\\share\\", b"//x/", b"D:"]) + "".join(rng.choice(TOK) for _ in range(rng.randrange(0, 9))).encode()
        elif kind == 2:
            b = "".join(rng.choice(TOK + ["b", "x.dds", "\r", "\x0b", "\x0c", "TEXTURES", "tExtures"]) for _ in range(rng.randrange(0, 14))).encode()
        elif kind == 3:
            b = bytes(rng.choice(b"/\\ tT\n.ae") for _ in range(rng.randrange(0, 30)))
        else:
            b = (b"data\\" * rng.randrange(0, 3)) + (b"textures/" * rng.randrange(0, 3)) + bytes(rng.randrange(32, 127) for _ in range(rng.randrange(0, 40)))
        out.append(b.replace(b"\x00", b"\x01"))
    return out


def run(ctx):
    res = ctx.res
    rng = C.mkrng(ctx.seed, "c19")
    if ctx.replay:
        rp = json.load(open(ctx.replay))
        strings = [bytes.fromhex(rp["input_hex"])]
    else:
        strings = gen_strings(ctx.tier, rng)
    # cases: (ver, terrain, kind, slot, string)
    cases = []
    sample = strings if len(strings) < 50 else rng.sample(strings, 250 if ctx.tier == "quick" else 1500)
    for ter in (0, 1):
        for s in strings:
            cases.append(("ob", ter, 1, 0, s, "trim"))
            cases.append(("sse", ter, 1, 0, s, "trim"))
        for ver in VERS:
            for kind in (1, 2, 3, 4):
                if kind == 2 and ver in ("ob", "fo3"):
                    continue
                if kind in (3, 4) and ver not in ("ob", "fo3"):
                    continue        # 4 = a NiTexturingProperty as the shape's only property (no material, no shader)
                if kind == 1 and ver == "sf":
                    continue        # CreateShapeFromData builds no texture-set shader for Starfield
                slots = {1: [0, 3], 2: [0, 1, 3, 4, 5], 3: [0], 4: [0]}[kind]
                if kind == 2 and ver in ("sk", "sse"):
                    slots = [0, 3]      # the other effect-shader paths are only serialised from FO4 on
                for j, s in enumerate(sample):
                    cases.append((ver, ter, kind, slots[j % len(slots)], s, "trim" if j % 3 else "load"))
    impl_lines, model_lines = [], []
    for ver, ter, kind, slot, s, how in cases:
        impl_lines.append(f"c19.{how} {ver} {ter} {kind} {slot} {hx(s)}")
        model_lines.append(f"c19.clean {1 if ver in OBLIKE else 0} {ter} {hx(s)}")
    model = C.run_lines_parallel(ctx.driver, model_lines) if ctx.driver else None
    try:
        impl = C.run_lines_parallel(ctx.harness, impl_lines)
    except C.Crash as c:
        res.violation("crash", dict(what="clean-up crashed / threw / hung", line=c.line, stderr=c.output, rc=c.rc))
        res.coverage.update(evaluations=len(cases), distinct_nontrivial=0, rule="aborted by crash")
        return
    mism, bad, known = [], [], {}
    nontrivial = set()
    for i, (ver, ter, kind, slot, s, how) in enumerate(cases):
        notex = ver in OBLIKE
        o = impl[i]
        if o.startswith("exception") or o in ("save-failed", "load-failed", "no-shape", "no-slot", "bad-op"):
            bad.append((i, "failed: " + o, None))
            continue
        parts = o.split(" ")
        once = unhx(parts[0])
        twice = unhx(parts[1]) if how == "trim" else None
        if model is not None:
            m = model[i].split(" ")
            if m[0] != parts[0] or (how == "trim" and m[1] != parts[1]):
                mism.append((i, model[i], o))
        why = canonical(once, notex, bool(ter), s)
        if twice is not None and twice != once:
            why.append("not idempotent")
        if why:
            k = classify_known(notex, bool(ter), s, once, twice if twice is not None else once)
            # a recorded finding only covers the pinned behaviour: the implementation's output must be the model's
            if k and model is not None and model[i].split(" ")[:len(parts)] != parts:
                k = None
            if k and any(f.get("fingerprint", "").startswith(k) for f in ctx.known):
                known[k] = known.get(k, 0) + 1
            else:
                bad.append((i, "; ".join(why), (once, twice)))
        if once != s:
            nontrivial.add((ver in OBLIKE, ter, s))
    for k, n in sorted(known.items()):
        f = [f for f in ctx.known if f["fingerprint"].startswith(k)][0]
        res.known.append(f"{f['what']} ({n} generated cases in this run)")
    for j, (i, why, oo) in enumerate(sorted(bad, key=lambda b: len(cases[b[0]][4]))[:3]):
        ver, ter, kind, slot, s, how = cases[i]
        res.violation(f"oracle-{j}", dict(what=why, line=impl_lines[i], input_hex=s.hex(), input=repr(s), version=ver,
                                          terrain=ter, slot_kind=kind, slot=slot, how=how,
                                          observed=[repr(x) for x in oo] if oo else None))
    if mism and not bad:
        i, m, o = sorted(mism, key=lambda b: len(cases[b[0]][4]))[0]
        ver, ter, kind, slot, s, how = cases[i]
        res.violation("correspondence", dict(
            what="correspondence NiflyVerif/TexPath.lean <-> NifFile::TrimTexturePaths no longer checks (model and implementation "
                 "disagree; the canonical-form oracle accepts the implementation's outputs on all explored inputs)",
            broken="correspondence c19 path cleaner", line=impl_lines[i], input_hex=s.hex(), input=repr(s), model=m, observed=o,
            mismatches=len(mism)), no_input=True)
    res.coverage.update(
        evaluations=len(cases), distinct_nontrivial=len(nontrivial),
        traces_validated_against_impl=len(cases) if model is not None else 0,
        rule="exhaustive: every string of ≤4 (quick) / ≤5 (thorough) tokens over {/ \\ space \\n . a T textures data Textures Data} × "
             "{OB, SSE} × terrain flag through the texture-set slot; a sample of them plus random byte strings (≤4 kB, non-UTF-8, "
             "drive/UNC prefixes) × all 7 creatable versions × slot kinds (texture set, effect shader slots, NiSourceTexture) "
             "both by explicit TrimTexturePaths (twice) and at Load. non-trivial = distinct (config, input) the cleaner changes",
        exhaustive=True, strings=len(strings), model_vs_impl_mismatches=len(mism), oracle_failures=len(bad),
        known_finding_cases=known,
        samples=[dict(line=impl_lines[i][:160], out=impl[i][:120]) for i in range(0, len(cases), max(1, len(cases) // 6))][:6])
