"""C06 — block-graph edits: Lean index-level model vs the real NiHeader, plus an independent
uid-level abstract specification (Python) and header-consistency predicates as the oracle."""
import glob
import itertools
import json
import os

from vlib import common as C

LEAN_MODULES = ["NiflyVerif.Props.C06"]
TYPES = ["NiNode", "BSFadeNode", "NiStringExtraData", "NiSkinInstance", "BSLightingShaderProperty"]
ASSUMPTIONS = [
    "operations whose C++ behaviour is undefined (delete/replace of an index >= numBlocks other than NPOS, SetBlockOrder with a "
    "non-permutation of the right length) are excluded from generated sequences; the model returns `ub` for them",
    "references are observed as the sorted multiset of non-empty targets over GetChildRefs ∪ GetPtrs",
]


# ------------------------------------------------------------------------------- abstract spec
class Spec:
    """reference graph by logical identity: blocks = [[uid, ty, [target uid|None]]]"""

    def __init__(self, blocks=None):
        self.b = blocks or []

    def clone(self):
        return Spec([[u, t, list(r)] for u, t, r in self.b])

    def n(self):
        return len(self.b)

    def add(self, uid, ty, refs):
        self.b.append([uid, ty, []])
        self.b[-1][2] = [self.b[r][0] if r is not None and r < len(self.b) else None for r in refs]

    def delete(self, i):
        if i is None:
            return
        u = self.b[i][0]
        del self.b[i]
        for blk in self.b:
            blk[2] = [None if t == u else t for t in blk[2]]

    def replace(self, i, uid, ty, refs):
        if i is None:
            return
        old = self.b[i][0]
        self.b[i] = [uid, ty, []]
        for blk in self.b:
            blk[2] = [uid if t == old else t for t in blk[2]]
        self.b[i][2] = [self.b[r][0] if r is not None and r < len(self.b) else None for r in refs]

    def set_order(self, p):
        if len(p) != len(self.b):
            return
        nb = [None] * len(p)
        for i, k in enumerate(p):
            nb[k] = self.b[i]
        self.b = nb

    def referenced(self, i):
        u = self.b[i][0]
        return any(u in blk[2] for blk in self.b)

    def delete_by_type(self, ty, orphaned):
        idx = [i for i, blk in enumerate(self.b) if blk[1] == ty]
        for i in reversed(idx):
            if not orphaned or not self.referenced(i):
                self.delete(i)

    def prune(self, root):
        if root is None:
            return
        ru = self.b[root][0]
        while True:
            cand = [i for i, blk in enumerate(self.b) if blk[0] != ru and not self.referenced(i)]
            if not cand:
                return
            self.delete(cand[0])

    def apply(self, op):
        k = op[0]
        if k == "add":
            self.add(op[1], op[2], op[3])
        elif k == "del":
            self.delete(op[1])
        elif k == "rep":
            self.replace(op[1], op[2], op[3], op[4])
        elif k == "ord":
            self.set_order(op[1])
        elif k == "dbt":
            self.delete_by_type(op[1], op[2])
        elif k == "prune":
            self.prune(op[1])

    def sig(self):
        return [(u, t, sorted(x for x in r if x is not None)) for u, t, r in self.b]


def fmt_refs(refs):
    return ",".join("x" if r is None else str(r) for r in refs) if refs else "-"


def fmt_op(op):
    k = op[0]
    ix = lambda i: "x" if i is None else str(i)
    if k == "add":
        return f"add:{op[1]}:{op[2]}:{fmt_refs(op[3])}"
    if k == "del":
        return f"del:{ix(op[1])}"
    if k == "rep":
        return f"rep:{ix(op[1])}:{op[2]}:{op[3]}:{fmt_refs(op[4])}"
    if k == "ord":
        return "ord:" + (",".join(map(str, op[1])) if op[1] else "-")
    if k == "dbt":
        return f"dbt:{op[1].replace('::', '~~')}:{1 if op[2] else 0}"      # ':' separates fields
    if k == "prune":
        return f"prune:{ix(op[1])}"


def parse_state(s):
    """N=.. T=.. I=.. S=.. B=..  ->  dict"""
    d = {}
    for f in s.split(" "):
        k, _, v = f.partition("=")
        d[k] = v
    st = dict(n=int(d["N"]))
    st["types"] = [] if d["T"] == "-" else d["T"].split(",")
    st["tidx"] = [] if d["I"] == "-" else [int(x) for x in d["I"].split(",")]
    st["sizes"] = None if d["S"] == "none" else ([] if d["S"] == "-" else [int(x) for x in d["S"].split(",")])
    st["blocks"] = []
    if d["B"] != "-":
        for b in d["B"].split(";"):
            if b == "null":
                st["blocks"].append(None)
                continue
            u, t, r = b.split("/")
            st["blocks"].append((int(u), t, [] if r == "-" else [int(x) for x in r.split(",")]))
    return st


def state_to_spec(st):
    sp = Spec()
    for u, t, r in st["blocks"]:
        sp.b.append([u, t, []])
    for blk, (u, t, r) in zip(sp.b, st["blocks"]):
        blk[2] = [st["blocks"][x][0] if x < len(st["blocks"]) else None for x in r]
    return sp


def check_state(st, spec):
    """the property predicate on one observed state; returns None or a reason"""
    n = st["n"]
    if len(st["blocks"]) != n:
        return "block count differs from numBlocks"
    if any(b is None for b in st["blocks"]):
        return "empty block slot"
    uids = [b[0] for b in st["blocks"]]
    if len(set(uids)) != len(uids):
        return "two slots hold the same block"
    if len(st["tidx"]) != n:
        return "type-index table length differs from block count"
    for i, b in enumerate(st["blocks"]):
        ti = st["tidx"][i]
        if ti >= len(st["types"]) or st["types"][ti] != b[1]:
            return f"type table does not name block {i}'s type ({b[1]})"
    if len(set(st["types"])) != len(st["types"]):
        return "duplicate type name"
    if set(range(len(st["types"]))) != set(st["tidx"]):
        return "unused type name in the header"
    if st["sizes"] is not None and len(st["sizes"]) != n:
        return "size table length differs from block count"
    # references by logical identity
    obs = []
    for u, t, r in st["blocks"]:
        tg = []
        for x in r:
            if x >= n:
                return f"reference {x} out of range"
            tg.append(st["blocks"][x][0])
        obs.append((u, t, sorted(tg)))
    if obs != spec.sig():
        return f"references/blocks differ from the abstract graph: observed {obs} expected {spec.sig()}"
    return None


# ------------------------------------------------------------------------------- generators
def slots_for(ty, rng, n_targets, allow_self):
    hi = n_targets + (1 if allow_self else 0)

    def pick():
        if hi == 0 or rng.random() < 0.2:
            return None
        return rng.randrange(hi)
    if ty in ("NiNode", "BSFadeNode"):
        return [pick() for _ in range(rng.randrange(0, 4))]
    if ty == "NiStringExtraData":
        return []
    if ty == "BSLightingShaderProperty":
        return [pick()]
    return [pick() for _ in range(3 + rng.randrange(0, 3))]


def random_op(rng, spec, uidc):
    n = spec.n()
    r = rng.random()
    if n == 0 or r < 0.35:
        ty = rng.choice(TYPES)
        return ("add", next(uidc), ty, slots_for(ty, rng, n, True))
    if r < 0.55:
        return ("del", rng.randrange(n) if rng.random() < 0.95 else None)
    if r < 0.67:
        ty = rng.choice(TYPES)
        return ("rep", rng.randrange(n) if rng.random() < 0.95 else None, next(uidc), ty, slots_for(ty, rng, n, False))
    if r < 0.80:
        p = list(range(n))
        rng.shuffle(p)
        if rng.random() < 0.05:
            p = p[:-1]
        return ("ord", p)
    if r < 0.90:
        tys = sorted(set(b[1] for b in spec.b)) + ["NiAlphaProperty"]
        return ("dbt", rng.choice(tys), rng.random() < 0.5)
    return ("prune", rng.randrange(n) if rng.random() < 0.95 else None)


def menu(spec, uidc):
    """finite op menu for the exhaustive enumeration on small graphs"""
    n = spec.n()
    ops = []
    for ty in ("NiNode", "NiStringExtraData", "BSLightingShaderProperty"):
        shapes = [[]] if ty == "NiStringExtraData" else ([[None], [n]] + ([[0]] if n else [])) if ty != "NiNode" else \
            [[], [n]] + ([[0], [n - 1, 0]] if n else [])
        for refs in shapes:
            ops.append(("add", uidc, ty, refs))
    for i in list(range(n)) + [None]:
        ops.append(("del", i))
    for i in range(n):
        ops.append(("rep", i, uidc, "NiNode", [0] if n else []))
        ops.append(("rep", i, uidc, "NiStringExtraData", []))
    if n <= 3:
        for p in itertools.permutations(range(n)):
            if list(p) != list(range(n)) or n == 0:
                ops.append(("ord", list(p)))
    else:
        ops.append(("ord", list(reversed(range(n)))))
    for ty in ("NiNode", "NiStringExtraData", "BSLightingShaderProperty"):
        for o in (False, True):
            ops.append(("dbt", ty, o))
    for i in list(range(n)) + [None]:
        ops.append(("prune", i))
    return ops


def gen_exhaustive(depth):
    """all op sequences of length <= depth from the empty model and two small seeds"""
    seeds = [[], [("add", 1, "NiNode", [None]), ("add", 2, "NiNode", [0]), ("add", 3, "NiStringExtraData", [])],
             [("add", 1, "NiNode", [0]), ("add", 2, "BSLightingShaderProperty", [0])]]
    out = []
    for seed in seeds:
        sp0 = Spec()
        for op in seed:
            sp0.apply(op)

        def rec(sp, ops, d):
            if ops:
                out.append(list(seed) + ops)
            if d == 0:
                return
            for op in menu(sp, 100 + len(ops)):
                sp2 = sp.clone()
                sp2.apply(op)
                rec(sp2, ops + [op], d - 1)
        rec(sp0, [], depth)
    return out


def run(ctx):
    res = ctx.res
    rng = C.mkrng(ctx.seed, "c06")
    cases = []  # (src, ops, init_state_or_None)
    if ctx.replay:
        rp = json.load(open(ctx.replay))
        cases.append((rp["src"], [tuple(o) for o in rp["ops"]], None))
    else:
        depth = 3 if ctx.tier == "thorough" else 2
        for ops in gen_exhaustive(depth):
            cases.append(("new:sse", ops, None))
        nrand = 6000 if ctx.tier == "thorough" else 600
        for k in range(nrand):
            uidc = itertools.count(1)
            sp = Spec()
            ops = []
            for _ in range(rng.randrange(1, 40 if ctx.tier == "thorough" else 25)):
                op = random_op(rng, sp, uidc)
                ops.append(op)
                sp.apply(op)
            cases.append(("new:sse" if k % 4 else "new:ob", ops, None))
    # file-based starts
    files = sorted(glob.glob(os.path.join(C.REPO, "tests/input/*.nif")))
    if not ctx.replay:
        dumps = C.run_lines(ctx.harness, [f"c06.dump file:{f}" for f in files])
        per_file = 12 if ctx.tier == "thorough" else 3
        for f, d in zip(files, dumps):
            if d == "load-failed":
                continue
            st = parse_state(d)
            for k in range(per_file):
                sp = state_to_spec(st)
                uidc = itertools.count(100000)
                ops = []
                for _ in range(rng.randrange(1, 12)):
                    # keep to blocks the harness can build; avoid deleting everything of a loaded model via dbt on root types
                    op = random_op(rng, sp, uidc)
                    ops.append(op)
                    sp.apply(op)
                cases.append((f"file:{f}", ops, d))
    impl_lines, model_lines = [], []
    for src, ops, init in cases:
        o = "|".join(fmt_op(x) for x in ops) if ops else "-"
        impl_lines.append(f"c06.run {src} {o}")
        msrc = src if init is None else "state:" + init.replace(" ", "~")
        model_lines.append(f"c06.run {msrc} {o}")
    model = C.run_lines_parallel(ctx.driver, model_lines) if ctx.driver else None
    send = [i for i in range(len(cases)) if not (model and model[i] == "ub")]
    try:
        impl_part = C.run_lines_parallel(ctx.harness, [impl_lines[i] for i in send])
    except C.Crash as c:
        res.violation("crash", dict(what="implementation crashed (sanitizer/abort) during an op sequence", line=c.line,
                                    stderr=c.output, rc=c.rc))
        res.coverage.update(evaluations=len(cases), distinct_nontrivial=0, rule="aborted by crash")
        return
    impl = dict(zip(send, impl_part))
    mism, bad = [], []
    nontrivial = set()
    opkinds = {}
    known_hits = {}
    for i, (src, ops, init) in enumerate(cases):
        if i not in impl:
            continue
        out = impl[i]
        if out.startswith(("fail rc=", "crash signal=")):
            # the sequence died in its child: fetch the sanitizer report by running it once more in-process
            report = out
            try:
                C.run_lines(ctx.harness, [impl_lines[i]], env=dict(os.environ, VH_C06_NOFORK="1"))
            except C.Crash as c:
                report = out + "\n" + (c.output or "")
            kf = next((k for k in ctx.known if all(tok in report for tok in k["fingerprint"].split("|"))), None)
            if kf:
                known_hits[kf["fingerprint"]] = (kf, known_hits.get(kf["fingerprint"], (None, 0))[1] + 1)
            else:
                bad.append((i, "the implementation crashed during the sequence or the save after it: " + report[:1500]))
            continue
        if model is not None and model[i] != out:
            mism.append((i, model[i], out))
        segs = out.split(" # ")
        if len(segs) != len(ops) + 2:
            bad.append((i, f"unexpected output shape: {out[:200]}"))
            continue
        st0 = parse_state(segs[0])
        sp = state_to_spec(st0)
        why = None
        for k, op in enumerate(ops):
            sp.apply(op)
            opkinds[op[0]] = opkinds.get(op[0], 0) + 1
            why = check_state(parse_state(segs[k + 1]), sp)
            if why:
                why = f"after op {k} ({fmt_op(op)}): {why}"
                break
        if not why and segs[-1] not in ("reload=ok", "reload=skip"):
            why = "save/reload: " + segs[-1][:300]
        if why:
            bad.append((i, why))
        if len(ops) >= 2 and any(o[0] in ("del", "dbt", "prune", "rep", "ord") for o in ops):
            nontrivial.add(impl_lines[i])
    for fp, (k, n) in known_hits.items():
        res.known.append(f"{k['what']} [{n} sequences]")
    for j, (i, why) in enumerate(sorted(bad, key=lambda b: len(cases[b[0]][1]))[:3]):
        src, ops, init = cases[i]
        res.violation(f"oracle-{j}", dict(what=why, src=src, ops=[list(o) for o in ops], line=impl_lines[i],
                                          observed=impl[i][:4000]))
    if mism and not bad:
        i, m, o = sorted(mism, key=lambda b: len(cases[b[0]][1]))[0]
        src, ops, init = cases[i]
        res.violation("correspondence", dict(
            what="correspondence NiflyVerif/Graph/Header.lean <-> NiHeader no longer checks (model and implementation "
                 "disagree; the uid-level oracle accepts the implementation's behaviour on all explored sequences)",
            broken="correspondence c06 header model", src=src, ops=[list(x) for x in ops], line=impl_lines[i],
            model=m[:4000], observed=o[:4000], mismatches=len(mism)), no_input=True)
    res.coverage.update(
        evaluations=len(cases), distinct_nontrivial=len(nontrivial),
        traces_validated_against_impl=len(impl) if model is not None else 0,
        rule="exhaustive: every op sequence of length ≤ 2 (quick) / 3 (thorough) over a finite op menu from the empty model and two "
             "small seed graphs; random sequences of length ≤ 25/40 from empty models (SSE with size table, OB without) and "
             "from every sample file. non-trivial = distinct sequences with ≥ 2 ops including a delete/replace/reorder/prune",
        ops_executed=opkinds, skipped_model_ub=len(cases) - len(send),
        model_vs_impl_mismatches=len(mism), oracle_failures=len(bad),
        samples=[impl_lines[i][:300] for i in range(0, len(cases), max(1, len(cases) // 6))][:6])
