"""C04 — default save only permutes blocks and prunes unreferenced ones.
D: real models (samples, constructed, generated graphs) are sorted / optimised / given explicit shape orders by the real
   library; the block graph is dumped by logical identity before and after. Oracle (the property itself): bijection on
   survivors, every reference keeps its logical target, child sets kept and no child listed more often, only unreferenced
   blocks disappear, a parentless root ends up first, sorting twice changes nothing. Correspondence: the Lean model of
   SortGraph's child rebuild must predict every node's new child list exactly."""
import json
import os

from props import filecamp
from vlib import common as C

LEAN_MODULES = ["NiflyVerif.Props.C04"]
ASSUMPTIONS = [
    "the traversal order of the sorter is not modelled (the theorems hold for every traversal); what is compared exactly with "
    "the implementation is the child-list rebuild of SortGraph and, through C06, SetBlockOrder and the prune recursion",
    "raw-save equality of sorted vs unsorted model under renumbering is not checked (bounding spheres are recomputed)",
]


def parse_state(s):
    f = s.strip().split(" ")
    st = dict(n=int(f[0][2:]), root=int(f[1][5:]), blocks=[])
    for b in f[2:]:
        if b == "null":
            st["blocks"].append(None)
            continue
        uid, ty, refs, ch, ks, kind = b.split("/")
        st["blocks"].append(dict(uid=int(uid), type=ty, refs=[] if refs == "-" else [int(x) for x in refs.split(",")],
                                 children=None if ch == "." else ([] if ch == "-" else ch.split(",")),
                                 kinds=None if ks == "." else ([] if ks == "-" else ks.split(",")), ordered=kind == "ordered"))
    return st


def check_transition(op, S, T, order_ids, first):
    """property predicates for one operation; returns list of reasons"""
    why = []
    if any(b is None for b in T["blocks"]):
        return ["an empty block slot after " + op]
    su = [b["uid"] for b in S["blocks"]]
    tu = [b["uid"] for b in T["blocks"]]
    if len(set(tu)) != len(tu):
        why.append("a block appears twice")
    if not set(tu) <= set(su):
        why.append("a block appeared from nowhere")
    deleted = set(su) - set(tu)
    if op != "opt" and deleted:
        why.append(f"{op} lost blocks {sorted(deleted)[:5]}")
    sb = {b["uid"]: b for b in S["blocks"]}
    root_uid = S["blocks"][S["root"]]["uid"] if 0 <= S["root"] < len(S["blocks"]) else None
    for d in deleted:
        if d == root_uid:
            why.append("the root was deleted")
        for b in T["blocks"]:
            if d in sb[b["uid"]]["refs"]:
                why.append(f"block {d} was deleted although surviving block {b['uid']} references it")
                break
    for b in T["blocks"]:
        o = sb[b["uid"]]
        nr, orf = [r for r in b["refs"] if r >= 0], [r for r in o["refs"] if r >= 0]
        if o["children"] is not None:
            # a node may lose repeated listings of a child ("none listed more often than before"); everything else stays
            if set(nr) != set(orf) or any(nr.count(x) > orf.count(x) for x in set(nr)):
                why.append(f"references of node {b['uid']} ({b['type']}) changed: {o['refs']} -> {b['refs']}")
        elif nr != orf:
            why.append(f"references of block {b['uid']} ({b['type']}) changed: {o['refs']} -> {b['refs']}")
        if o["children"] is not None and b["children"] is not None:
            oc = [c for c in o["children"] if c not in ("x",) and not c.startswith("d")]
            nc = [c for c in b["children"] if c not in ("x",) and not c.startswith("d")]
            if set(oc) != set(nc) and not order_ids:
                why.append(f"child set of node {b['uid']} changed: {o['children']} -> {b['children']}")
            for c in set(nc):
                if nc.count(c) > oc.count(c):
                    why.append(f"node {b['uid']} lists child {c} more often than before: {o['children']} -> {b['children']}")
    if op == "sort" and first and root_uid is not None and T["blocks"] and T["blocks"][0]["uid"] != root_uid:
        # only when the root has no parent node
        has_parent = any(o["children"] and str(root_uid) in o["children"] for o in S["blocks"] if o is not None)
        if not has_parent:
            why.append(f"the parentless root (block {root_uid}) is not first after sorting")
    return why


def model_children(ctx, S, T, obfo3, order_ids):
    """driver predictions for every plain node of S; returns list of (uid, old, predicted, observed)"""
    lines, meta = [], []
    tb = {b["uid"]: b for b in T["blocks"] if b}
    for i, b in enumerate(S["blocks"]):
        if not b or b["children"] is None or b["ordered"] or not b["children"] or b["uid"] not in tb:
            continue
        if any(c.startswith("d") for c in b["children"]):
            continue
        is_root = 1 if i == 0 else 0
        ch = ",".join(b["children"])
        ks = ",".join(b["kinds"])
        order = ",".join(str(x) for x in order_ids) if (order_ids and is_root) else "-"
        lines.append(f"c04.rebuild {1 if obfo3 else 0} {is_root} {order} {ch} {ks}")
        meta.append((b["uid"], b["children"], tb[b["uid"]]["children"]))
    pred = C.run_lines_parallel(ctx.driver, lines) if lines else []
    out = []
    for (uid, old, obs), p in zip(meta, pred):
        pl = [] if p == "-" else p.split(",")
        if pl != obs and obs != old:
            out.append((uid, old, pl, obs))
    return out


def run(ctx):
    res = ctx.res
    wd = filecamp.workdir(ctx, "c04")
    try:
        rng = C.mkrng(ctx.seed, "c04")
        sources = [f"load:{f}" for f in filecamp.sample_files()]
        con = filecamp.constructed_inputs(ctx, wd)
        sources += [f"load:{p}" for _, p in con]
        types = C.run_lines(ctx.harness, ["gen.types"])[0].split(",")
        # generated graphs: node-like and collision/controller types, several instances referencing each other
        graphy = [t for t in types if any(k in t for k in ("Node", "bhk", "Controller", "Sequence", "Shape", "TriStrips", "Particle", "Skin"))]
        nsyn = 600 if ctx.tier == "thorough" else 120
        for k in range(nsyn):
            t = rng.choice(graphy)
            if t in filecamp.SKIP_SYNTH:
                continue
            v = rng.choice(["ob", "fo3", "sk", "sse", "fo4", "fo76"])
            sources.append(f"synth:{t}:{v}:{rng.randrange(1, 10**6)}:{rng.choice([2, 4, 6])}:3")
        mixes = ["NiNode+bhkCollisionObject+bhkRigidBody+bhkBreakableConstraint+bhkMalleableConstraint",
                 "NiNode+bhkCollisionObject+bhkRigidBodyT+bhkRagdollConstraint+bhkListShape+bhkBallSocketConstraintChain",
                 "NiNode+NiTriShape+NiControllerManager+NiControllerSequence+NiMultiTargetTransformController+NiTransformInterpolator",
                 "BSFadeNode+NiNode+bhkNiCollisionObject+bhkRigidBody+bhkHingeConstraint+bhkMoppBvTreeShape",
                 "NiNode+BSTriShape+BSLightingShaderProperty+BSShaderTextureSet+NiAlphaProperty+NiStringExtraData"]
        for k in range(nsyn):
            v = rng.choice(["ob", "fo3", "sk", "sse", "fo4"])
            sources.append(f"synth:{rng.choice(mixes)}:{v}:{rng.randrange(1, 10**6)}:{rng.choice([6, 8, 10])}:3")
        # phase 1: learn shape names / initial graph
        probe = C.run_lines_parallel(ctx.harness, [f"c04.run {s}" for s in sources])
        lines, meta = [], []
        for s, p in zip(sources, probe):
            if " | " not in p and not p.startswith("ver="):
                continue
            head = p.split(" | ")[0]
            shapes = head.split("shapes=")[1].strip()
            shp = [] if shapes == "-" else [(int(x.split(":")[0]), x.split(":")[1]) for x in shapes.split(",")]
            for ops in (["sort", "sort"], ["opt", "sort", "sort"], ["sort", "opt"], ["rootlast", "opt", "sort"]):
                lines.append(f"c04.run {s} " + " ".join(ops))
                meta.append((s, ops, shp, None))
            if shp:
                names = [n for _, n in shp]
                orders = [list(reversed(names)), names[:]]
                sh = names[:]
                rng.shuffle(sh)
                orders.append(sh)
                if ctx.tier == "thorough":
                    for _ in range(3):
                        sh = names[:]
                        rng.shuffle(sh)
                        orders.append(sh)
                if len(names) >= 2:
                    orders.append([names[0]] * len(names))                 # duplicates
                    orders.append(names[:-1] + ["6e6f6e65"])                # a missing name ("none")
                    orders.append(names[:-1])                               # too short: ignored
                for o in orders:
                    spec = ",".join(o) if o else "-"
                    lines.append(f"c04.run {s} order:{spec} sort")
                    meta.append((s, [f"order:{spec}", "sort"], shp, o))
                # the same with the root moved away from index 0 first
                spec = ",".join(orders[0])
                lines.append(f"c04.run {s} swap01 order:{spec} sort")
                meta.append((s, ["swap01", f"order:{spec}", "sort"], shp, orders[0]))
        if ctx.replay:
            rp = json.load(open(ctx.replay))
            lines, meta = [rp["line"]], [(rp["source"], rp["ops"], [tuple(x) for x in rp["shapes"]], rp.get("order"))]
        out = C.run_lines_parallel(ctx.harness, lines)
        bad, mism, known = [], [], {}
        nontrivial = 0
        for (src, ops, shp, order), line, o in zip(meta, lines, out):
            if o in ("load-failed", "has-unknown", "unknown-type", "save-failed"):
                continue
            if " | " not in o:
                bad.append((line, src, ops, shp, order, "operation crashed or hung: " + o[:200]))
                continue
            parts = o.split(" | ")
            obfo3 = parts[0].startswith("ver=obfo3")
            states = [parse_state(p) for p in parts[1:]]
            if len(states) != len(ops) + 1:
                bad.append((line, src, ops, shp, order, "unexpected output"))
                continue
            changed = False
            for k, op in enumerate(ops):
                S, T = states[k], states[k + 1]
                opn = op.split(":")[0]
                order_ids = None
                dup_or_missing = False
                if opn == "order":
                    # SetShapeOrder: names -> first shape block with that name; ignored unless one name per shape
                    byname = {}
                    for idx, nm in shp:
                        if "swap01" in ops:          # indices 0 and 1 were exchanged
                            idx = {0: 1, 1: 0}.get(idx, idx)
                        byname.setdefault(nm, idx)
                    if order is not None and len(order) == len(shp):
                        order_ids = [byname[n] for n in order if n in byname]
                        dup_or_missing = len(set(order_ids)) != len(shp)
                if opn in ("swap01", "rootlast"):
                    continue
                why = check_transition(opn, S, T, order_ids, k == 0)
                if opn == "sort" and k > 0 and ops[k - 1] == "sort":
                    if [b["uid"] for b in S["blocks"]] != [b["uid"] for b in T["blocks"]] or \
                            any(a["children"] != b["children"] for a, b in zip(S["blocks"], T["blocks"])):
                        why.append("sorting an already sorted model changed it")
                if k == 0 and opn in ("sort", "order") and ctx.driver:
                    for uid, old, pl, obs in model_children(ctx, S, T, obfo3, order_ids):
                        mism.append((line, f"node {uid}: children {old} -> observed {obs}, model predicts {pl}"))
                if [b["uid"] for b in S["blocks"]] != [b["uid"] for b in T["blocks"]]:
                    changed = True
                if why:
                    key = None
                    if opn == "order" and dup_or_missing:
                        key = "shape-order-not-a-permutation"
                    if opn == "order" and S["root"] > 0:
                        key = "shape-order-root-not-first"
                    if key and any(f.get("fingerprint", "").startswith(key) for f in ctx.known):
                        known[key] = known.get(key, 0) + 1
                    else:
                        bad.append((line, src, ops, shp, order, f"after op {k} ({op}): " + "; ".join(why[:3])))
                    break
            if changed:
                nontrivial += 1
        for k_, n_ in sorted(known.items()):
            f = [f for f in ctx.known if f["fingerprint"].startswith(k_)][0]
            res.known.append(f"{f['what']} ({n_} generated cases in this run)")
        for j, (line, src, ops, shp, order, why) in enumerate(sorted(bad, key=lambda b: len(b[0]))[:3]):
            res.violation(f"oracle-{j}", dict(what=why, line=line, source=src, ops=ops, shapes=shp, order=order))
        if mism and not bad:
            res.violation("correspondence", dict(
                what="correspondence NiflyVerif/Graph/Sort.lean (rebuildChildren) <-> NifFile::SortGraph no longer checks: " + mism[0][1],
                broken="correspondence c04 child rebuild", line=mism[0][0], mismatches=len(mism)), no_input=True)
        res.coverage.update(
            evaluations=len(lines), distinct_nontrivial=nontrivial, traces_validated_against_impl=len(lines),
            rule="sources: 26 samples, constructed models (loose chains), generated graphs of node / collision / controller / "
                 "shape types (2-6 instances with random references, 6 versions); operation scripts: sort·sort, optimise·sort·sort, "
                 "sort·optimise, explicit shape orders (reversed, identity, shuffled, duplicate names, a missing name, too short) "
                 "followed by sort. non-trivial = scripts that changed the block order",
            model_vs_impl_mismatches=len(mism), oracle_failures=len(bad), known_finding_cases=known,
            samples=[l[:200] for l in lines[:: max(1, len(lines) // 5)]][:5])
    finally:
        filecamp.cleanup(wd)
