"""C10 — skin partitions cover the shape's triangles exactly once.
D: constructed skinned shapes (OB/FO3/SK/SSE; 1..120 bones, 1..6 influences per vertex) and the skinned sample shapes; operations:
   UpdateSkinPartitions, SetShapePartitions (labels incl. -1 and out-of-range ids), default partition, partition deletion,
   empty-partition removal, save+reload. Oracle = the property on the raw partition structures."""
import json
import struct
from fractions import Fraction as Fr

from props import filecamp
from props import shapeparse as SP
from vlib import common as C

LEAN_MODULES = ["NiflyVerif.Props.C10"]
ASSUMPTIONS = ["weights are floats: non-negativity is exact, 'sum to one' is judged as |sum - 1| <= 4e-6 (or all zero)",
               "top-4 selection among equal weights is implementation-defined (std::sort); generated weights are distinct per vertex"]
LIMIT = {"ob": 18, "fo3": 18, "sk": 65535, "sse": 80, "other": 65535}


def rot(t):
    a, b, c = t
    if b < a and b < c:
        return (b, c, a)
    if c < a:
        return (c, a, b)
    return t


def fl(h):
    return struct.unpack("<f", bytes.fromhex(h)[::-1])[0]


def check(o, ver, after_update):
    why = []
    P = o["PARTS"]
    if P is None:
        return ["no skin partition"]
    if P["numPartitions"] != P["n"]:
        why.append("numPartitions disagrees with the partition list")
    nv = o["nv"]
    shape = sorted(rot(t) for t in o["T"])
    covered = []
    for k, p in enumerate(P["parts"]):
        true = p["trueTriangles"]
        mapped = p["triangles"]
        vm = p["vertexMap"]
        if mapped and P["mapped"] and vm:
            if any(x >= len(vm) for t in mapped for x in t):
                why.append(f"partition {k}: mapped triangle index beyond the vertex map")
                continue
            back = [rot(tuple(vm[x] for x in t)) for t in mapped]
            if true and [rot(t) for t in true] != back:
                why.append(f"partition {k}: mapped triangles do not translate back to the true triangles")
            tl = back
        elif true:
            tl = [rot(t) for t in true]
        elif mapped and not P["mapped"]:
            tl = [rot(t) for t in mapped]
        else:
            tl = []
            if p["strips"]:
                continue        # strip partitions (loaded files): not rebuilt yet
        covered += tl
        if p["flags"][0] == "1" and (true or mapped):
            used = sorted(set(x for t in tl for x in t))
            if vm != used:
                why.append(f"partition {k}: vertex map {vm[:8]}… is not exactly the sorted set of vertices its triangles use {used[:8]}…")
            if p["numVertices"] != len(vm):
                why.append(f"partition {k}: numVertices != vertex map size")
        if p["numBones"] != len(p["bones"]):
            why.append(f"partition {k}: numBones != bone list size")
        if after_update and len(p["bones"]) > LIMIT[ver]:
            why.append(f"partition {k} uses {len(p['bones'])} bones, the limit is {LIMIT[ver]}")
        if any(b >= len(o["BONES"]) for b in p["bones"]):
            why.append(f"partition {k}: bone id beyond the shape's bone list")
        for vi, wq in enumerate(p["weights"]):
            ws = [fl(wq[i:i + 8]) for i in range(0, 32, 8)]
            if any(w < 0 for w in ws):
                why.append(f"partition {k}: negative weight")
                break
            s = sum(Fr(w) for w in ws)
            if s != 0 and abs(s - 1) > Fr(4, 10**6):
                why.append(f"partition {k} vertex {vi}: weights sum to {float(s)}")
                break
        for bi in p["boneIndices"]:
            if any(x >= max(1, len(p["bones"])) for x in bi):
                why.append(f"partition {k}: bone slot {bi} beyond its {len(p['bones'])} bones")
                break
    if sorted(covered) != shape and not any(p["strips"] for p in P["parts"]):
        from collections import Counter
        cs, cc = Counter(shape), Counter(covered)
        miss = [t for t in cs if cc[t] < cs[t]][:3]
        extra = [t for t in cc if cc[t] > cs[t]][:3]
        why.append(f"partitions do not cover the shape's triangles exactly once: not covered {miss}, covered too often/foreign {extra}")
    if o["DISMEMBER"] is not None and len(o["DISMEMBER"]) != P["n"]:
        why.append(f"dismember list has {len(o['DISMEMBER'])} entries for {P['n']} partitions")
    if o["TRIPARTS"] is not None and o["TRIPARTS"][1] and len(o["TRIPARTS"][1]) == len(o["T"]):
        for t, lab in zip(o["T"], o["TRIPARTS"][1]):
            if not (0 <= lab < P["n"]):
                why.append(f"triangle {t} has partition label {lab} outside 0..{P['n'] - 1}")
                break
    return why


def run(ctx):
    res = ctx.res
    rng = C.mkrng(ctx.seed, "c10")
    lines = []
    if ctx.replay:
        lines = [json.load(open(ctx.replay))["line"]]
    else:
        n = 400 if ctx.tier == "thorough" else 80
        for k in range(n):
            ver = rng.choice(["ob", "fo3", "sk", "sse"])
            nv = rng.choice([3, 4, 8, 30, 120, 600])
            nt = rng.choice([1, 2, nv, 2 * nv])
            nb = rng.choice([1, 2, 3, 5, 17, 18, 19, 30, 60, 81, 120])
            infl = rng.choice([1, 2, 4, 6])
            sd, ws = rng.randrange(1, 10**6), rng.randrange(1, 10**6)
            base = f"c10.run mesh:{ver}:{nv}:{nt}:{sd}:n {nb} {ws} {infl}"
            lines.append(base + " update reload")
            npi = rng.choice([1, 2, 3])
            labels = [rng.choice(list(range(npi)) + [-1, npi, npi + 1]) if rng.random() < 0.3 else rng.randrange(npi) for _ in range(nt)]
            lines.append(base + f" setparts:{npi}:{','.join(map(str, labels))} update reload")
            lines.append(base + f" update setparts:{npi}:{','.join(str(rng.randrange(npi)) for _ in range(nt))} update removeempty")
            lines.append(base + " update default update")
            lines.append(base + f" setparts:3:{','.join(str(rng.randrange(3)) for _ in range(nt))} update delparts:1 update")
        for f in filecamp.sample_files():
            if "Skinned" in f or "Optimize" in f:
                for k in range(3):
                    lines.append(f"c10.run load:{f}:{k} 0 0 0 update reload")
    out = C.run_lines_parallel(ctx.harness, lines)
    bad = []
    nontrivial = 0
    for line, o in zip(lines, out):
        if o in ("load-failed", "no-such-shape", "no-shape"):
            continue
        if " | " not in o:
            bad.append((line, "crashed / failed: " + o[:200]))
            continue
        parts = o.split(" | ")
        ver = parts[0].split(" ")[0][4:]
        updated = False
        deleted_parts = False
        for p in parts[1:]:
            tag, _, obs = p.partition(" ")
            if tag in ("save-failed", "reload-failed", "reload-no-shape"):
                bad.append((line, tag))
                break
            st = SP.parse(obs)
            if st["PARTS"] is None:
                continue
            if tag == "update":
                updated = True
            if tag in ("update", "SAVED", "RELOADED") or tag in ("setparts", "default", "delparts", "removeempty"):
                why = check(st, ver, updated and tag in ("update", "SAVED", "RELOADED"))
                if tag in ("setparts", "default", "delparts", "removeempty"):
                    # before the partitions are rebuilt only the cover / label statements apply
                    why = [w for w in why if "cover" in w or "label" in w or "dismember" in w]
                    updated = False
                if tag == "delparts":
                    deleted_parts = True
                if deleted_parts:
                    # deleting a partition that still holds triangles leaves them unassigned by design
                    why = [w for w in why if "cover" not in w and "label" not in w]
                if why:
                    bad.append((line, f"after {tag}: " + "; ".join(why[:3])))
                    break
                if st["PARTS"]["n"] > 1:
                    nontrivial += 1
    for j, (line, why) in enumerate(sorted(bad, key=lambda b: len(b[0]))[:3]):
        res.violation(f"oracle-{j}", dict(what=why, line=line))
    res.coverage.update(
        evaluations=len(lines), distinct_nontrivial=nontrivial, traces_validated_against_impl=len(lines),
        rule="constructed skinned shapes (OB/FO3/SK/SSE, 3..600 vertices, 1..120 bones incl. 17/18/19 and 81 around the bone limits, "
             "1..6 influences per vertex) × scripts {update; setparts(labels incl. -1 and out-of-range)·update; update·setparts·update·"
             "removeempty; default; delparts}, save+reload; skinned sample shapes. non-trivial = observed states with more than one partition",
        oracle_failures=len(bad), samples=[l[:160] for l in lines[:: max(1, len(lines) // 5)]][:5])
