"""C16 — truncated files never crash the loader.
Lean: Wire/Truncated.lean models a stream that ends early (short read copies the bytes that exist, then the stream is failed for
good); Props/C16.lean proves that a field read across the cut never exceeds the value of the whole file, that later fields keep
their defaults, and that a count-prefixed array read from a prefix allocates no more than the whole file does.
D: (a) correspondence: the model's reads against NiIStream on random byte strings, cut points and field widths; (b) truncation
   sweep under ASan/UBSan: prefixes of every sample file (every byte of the first 400 and last 64, strided in between;
   thorough: every byte of files below 16 KB), of constructed NiTriStrips models (every byte) and of generated instances of every
   block type; each prefix is loaded, the result
   queried (battery), saved, copied and destroyed."""
import json
import os

from props import filecamp
from vlib import common as C

LEAN_MODULES = ["NiflyVerif.Props.C16"]
ASSUMPTIONS = ["the Lean model assumes zero-initialised destination variables; locals that are read into without initialisation are covered "
               "by the sweep only (ASan does not flag uninitialised reads; their effect shows as oversized allocations or crashes)",
               "allocation failures (std::bad_alloc / std::length_error under the allocator limit of the harness) count as error returns"]


def run(ctx):
    res = ctx.res
    rng = C.mkrng(ctx.seed, "c16")
    lines, labels = [], []
    if ctx.replay:
        rp = json.load(open(ctx.replay))
        lines, labels = [rp["line"]], [rp.get("label", "replay")]
    else:
        for f in filecamp.sample_files():
            size = os.path.getsize(f)
            if ctx.tier == "thorough":
                spec = "all" if size < 16384 else f"stride:{max(1, size // 6000)}"
            else:
                spec = f"stride:{max(1, size // 400) + rng.randrange(0, 3)}"
            lines.append(f"c16.run load:{f} {spec}")
            labels.append(os.path.basename(f))
        # strip geometry (no sample carries any): a NiTriStrips shape with a few strips, built by the library itself, every cut
        cdir = os.path.join(C.CACHE, "constructed")
        os.makedirs(cdir, exist_ok=True)
        jobs = [(v, n, os.path.join(cdir, f"c16-strips-{v}-{n}.nif")) for v in ("ob", "fo3", "sk") for n in (1, 3)]
        built = C.run_lines_parallel(ctx.harness, [f"fs new:{v} stripshape:{n} save:{p}:raw" for v, n, p in jobs])
        for (v, n, p), o in zip(jobs, built):
            if all(x.startswith("ok") for x in o.split(" ")):
                lines.append(f"c16.run load:{p} all")
                labels.append(f"strips/{v}/{n}")
        types = C.run_lines(ctx.harness, ["gen.types"])[0].split(",")
        gvers = C.run_lines(ctx.harness, ["gen.versions"])[0].split(",")
        for t in types:
            if t in filecamp.SKIP_SYNTH:
                continue
            for v in (gvers if ctx.tier == "thorough" else rng.sample(gvers, 2)):
                spec = "all" if ctx.tier == "thorough" else f"stride:{rng.choice([3, 5, 7])}:90"
                lines.append(f"c16.run synth:{t}:{v}:{rng.randrange(1, 10**6)}:2:{rng.choice([3, 9])} {spec}")
                labels.append(f"{t}/{v}")
    out = C.run_lines_parallel(ctx.harness, lines, timeout=20000)
    bad, skipped, points, nontrivial, reruns = [], 0, 0, 0, 0
    for line, label, o in zip(lines, labels, out):
        if o.startswith(("unloadable-synth", "unusable-source")):
            skipped += 1
            continue
        if not o.startswith("n="):
            bad.append((label, line, "sweep failed: " + o[:200]))
            continue
        kv = dict(f.split("=", 1) for f in o.split(" ") if "=" in f)
        points += int(kv["n"])
        nontrivial += 1
        if kv["bad"] != "-":
            # findings are deterministic: the failing cut points are run once more on their own before they are believed
            src = line.split(" ")[1]
            cuts = ",".join(x.split(":")[0] for x in kv["bad"].split(";"))
            again = C.run_lines(ctx.harness, [f"c16.run {src} {cuts}"], timeout=6000)[0]
            kv2 = dict(f.split("=", 1) for f in again.split(" ") if "=" in f) if again.startswith("n=") else {"bad": kv["bad"]}
            if kv2.get("bad", "-") == "-":
                reruns += 1
                continue
            kv["bad"] = kv2["bad"]
            first = kv["bad"].split(";")[0]
            cut, what = first.split(":")
            bad.append((label, f"c16.run {src} {cut}",
                        f"prefix of {cut} bytes (of {kv['size']}): {'hang' if what == 'hang' else 'memory error / UB / fault (' + what + ')'}; "
                        f"{len(kv['bad'].split(';'))} failing cut points in this sweep"))
    # correspondence: the truncated-stream model against NiIStream on random byte strings, cut points and field widths
    corr, rl = [], []
    if not ctx.replay and ctx.driver:
        for _ in range(2000 if ctx.tier == "quick" else 20000):
            n = rng.randrange(0, 14)
            b = bytes(rng.randrange(0, 256) for _ in range(n))
            ws = [rng.choice([1, 2, 4, 8]) for _ in range(rng.randrange(1, 5))]
            rl.append(f"c16.read {b.hex() or '-'} {rng.randrange(0, n + 1)} {','.join(map(str, ws))}")
        impl = C.run_lines_parallel(ctx.harness, rl)
        model = C.run_lines_parallel(ctx.driver, rl)
        for l, i, m in zip(rl, impl, model):
            if i != m:
                corr.append((l, i, m))
        for j, (l, i, m) in enumerate(corr[:2]):
            res.violation(f"correspondence-{j}", dict(what=f"short-read model disagrees with NiIStream: library [{i}], model [{m}]", line=l,
                                                       broken="correspondence Wire/Truncated.lean rdInto vs NiIStream::read"), no_input=True)
    ctx.allbad = bad
    for j, (label, line, why) in enumerate(sorted(bad, key=lambda b: len(b[1]))[:4]):
        res.violation(f"oracle-{j}", dict(what=why, label=label, line=line))
    res.coverage.update(
        evaluations=points, distinct_nontrivial=nontrivial, traces_validated_against_impl=points,
        rule="prefixes of every sample file (first 400 and last 64 bytes densely, stride ≈ size/400 in between; thorough: every byte below "
             "16 KB, about 6000 cut points above) and of generated instances of every block type × 2 (quick) / 12 versions (quick: stride 3..7, "
             "thorough: every byte); per prefix: Load, query battery, raw Save, copy, destruction in one sanitised process that reports the "
             "cut point before starting it",
        files=len(lines), skipped=skipped, failures_not_reproduced_on_rerun=reruns, oracle_failures=len(bad), short_read_cases=len(rl), short_read_mismatches=len(corr),
        samples=[f"{l} -> {o[:120]}" for l, o in list(zip(lines, out))[:: max(1, len(lines) // 5)]][:5])
