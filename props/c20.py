"""C20 — transform algebra: the Lean definitions evaluated exactly (Rat) vs the float results of the real code
(within a magnitude-scaled tolerance), and the geometric laws themselves evaluated exactly on the implementation's
outputs (oracle): compose/inverse, apply∘compose, rotation-vector round trips, orthonormality, matrix inverses,
averages/medians of identical transforms, bounding spheres as checked certificates."""
import json
import math
import struct
from fractions import Fraction as Fr

from vlib import common as C

LEAN_MODULES = ["NiflyXform.C20"]
LEAN_TARGETS = ["NiflyXform"]
TRUSTED_EXTRA = ["Mathlib v4.33.0 modules Tactic.Ring/FieldSimp/LinearCombination/Linarith, Algebra.Order.Field.Basic (proof side only)"]
ASSUMPTIONS = [
    "float rounding is not modelled: implementation results are compared with exact rational evaluation of the same formulas within "
    "tol = 3e-5 * (1 + magnitude of the operands/result), and the laws are judged with tolerances stated in props/c20.py",
    "inputs are finite, well-conditioned transforms: rotation = a rotation matrix rounded to float, scale in [0.05, 20], "
    "|translation| <= 4000; rotation-vector round trips are judged for angles < pi - 0.05",
    "Miniball's algorithm and std::sqrt/sin/cos/asin/acos are not modelled; bounding spheres are checked as certificates",
]
EPS = 3e-5


def f32(x):
    return struct.unpack("<f", struct.pack("<f", x))[0]


def hexf(x):
    return struct.pack("<f", x)[::-1].hex()


def unhex(h):
    return struct.unpack("<f", bytes.fromhex(h)[::-1])[0]


def hexes(v):
    return ",".join(hexf(x) for x in v) if v else "-"


def unhexes(s):
    return [] if s == "-" else [unhex(h) for h in s.split(",")]


def rats(v):
    out = []
    for x in v:
        f = Fr(x)
        out.append(f"{f.numerator}/{f.denominator}")
    return ",".join(out) if out else "-"


def unrats(s):
    return [] if s == "-" else [Fr(x) for x in s.split(",")]


def rot_from_axis_angle(ax, ang):
    n = math.sqrt(sum(a * a for a in ax)) or 1.0
    x, y, z = (a / n for a in ax)
    c, s = math.cos(ang), math.sin(ang)
    o = 1 - c
    return [x * x * o + c, x * y * o + z * s, z * x * o - y * s,
            x * y * o - z * s, y * y * o + c, y * z * o + x * s,
            z * x * o + y * s, y * z * o - x * s, z * z * o + c]


def rand_xf(rng, rotation_only=False):
    ax = [rng.uniform(-1, 1) for _ in range(3)]
    ang = rng.choice([0.0, rng.uniform(-math.pi, math.pi), rng.uniform(-0.01, 0.01), math.pi / 2, math.pi - 1e-3])
    r = rot_from_axis_angle(ax, ang)
    if rotation_only:
        t, s = [0.0, 0.0, 0.0], 1.0
    else:
        t = [rng.choice([0.0, rng.uniform(-4000, 4000), rng.uniform(-1, 1)]) for _ in range(3)]
        s = rng.choice([1.0, rng.uniform(0.05, 20), rng.uniform(0.5, 2)])
    return [f32(v) for v in t + r + [s]]


def close(a, b, scale, factor=1.0):
    return abs(Fr(a) - Fr(b)) <= Fr(EPS * factor) * (1 + Fr(scale))


def vec_close(a, b, scale, factor=1.0):
    return len(a) == len(b) and all(math.isfinite(x) for x in a) and all(close(x, y, scale, factor) for x, y in zip(a, b))


def mag(v):
    return max([abs(x) for x in v] + [0.0])


def matmul3(a, b):
    return [sum(Fr(a[3 * i + k]) * Fr(b[3 * k + j]) for k in range(3)) for i in range(3) for j in range(3)]


IDENT = [0.0, 0.0, 0.0, 1.0, 0.0, 0.0, 0.0, 1.0, 0.0, 0.0, 0.0, 1.0, 1.0]


def gen_cases(tier, rng):
    n = 3000 if tier == "thorough" else 400
    cases = []
    for i in range(n):
        a, b = rand_xf(rng), rand_xf(rng)
        v = [f32(rng.uniform(-500, 500)) for _ in range(3)]
        cases.append(("compose", (a, b)))
        cases.append(("inverse", (a,)))
        cases.append(("apply", (a, v)))
        cases.append(("tomatrix", (a, v)))
        cases.append(("compinv", (a,)))
        cases.append(("applycomp", (a, b, v)))
        m = a[3:12]
        if i % 3 == 0:   # general (not orthonormal) well-conditioned matrix
            m = [f32(x * rng.uniform(0.5, 2) + rng.uniform(-0.1, 0.1)) for x in m]
        cases.append(("mat3inv", (m,)))
        ang = rng.choice([0.0, rng.uniform(0, math.pi - 0.05), rng.uniform(0, 0.02), 1.0, 2.0, 2.09, 2.1, 1.5707964, 3.0])
        ax = [rng.uniform(-1, 1) for _ in range(3)]
        nn = math.sqrt(sum(x * x for x in ax)) or 1.0
        rv = [f32(x / nn * ang) for x in ax]
        cases.append(("rotvec", (rv,)))
        cases.append(("avg", (rng.choice([1, 2, 3, 4, 7, 10]), a)))
        npts = rng.choice([1, 2, 3, 4, 5, 8, 20, 60])
        kind = i % 5
        pts = []
        base = [rng.uniform(-100, 100) for _ in range(3)]
        d1 = [rng.uniform(-1, 1) for _ in range(3)]
        d2 = [rng.uniform(-1, 1) for _ in range(3)]
        for k in range(npts):
            if kind == 0:
                p = [rng.uniform(-100, 100) for _ in range(3)]
            elif kind == 1:      # duplicates
                p = base if k % 2 else [rng.uniform(-100, 100) for _ in range(3)]
            elif kind == 2:      # collinear
                t = rng.uniform(-50, 50)
                p = [base[j] + t * d1[j] for j in range(3)]
            elif kind == 3:      # coplanar
                t, u = rng.uniform(-50, 50), rng.uniform(-50, 50)
                p = [base[j] + t * d1[j] + u * d2[j] for j in range(3)]
            else:
                p = [base[j] + rng.uniform(-1e-3, 1e-3) for j in range(3)]
            pts += [f32(x) for x in p]
        cases.append(("bsphere", (pts,)))
        if i % 4 == 0:
            m4 = a[3:6] + [a[0]] + a[6:9] + [a[1]] + a[9:12] + [a[2]] + [0.0, 0.0, 0.0, 1.0]
            m4 = [f32(x * a[12]) if k % 4 != 3 and k < 12 else x for k, x in enumerate(m4)]
            cases.append(("mat4inv", (m4,)))
            n4 = [f32(rng.uniform(-3, 3)) for _ in range(16)] if i % 8 else [f32(x) for x in m4[::-1]]
            cases.append(("mat4mul", (m4, n4)))
        if i % 8 == 0:
            nv = rng.choice([3, 4, 10, 40])
            v1 = [f32(rng.uniform(-50, 50)) for _ in range(3 * nv)]
            off = [rng.uniform(-300, 300) for _ in range(3)]
            k = rng.uniform(0.5, 8)
            v2 = [f32(v1[j] * k + off[j % 3]) for j in range(3 * nv)]
            cases.append(("bounds", (rng.choice(["sk", "sse", "fo4", "ob"]), v1, v2)))
    return cases


def lines_for(kind, p):
    """(impl line, model line or None)"""
    if kind == "compose":
        return f"c20.compose {hexes(p[0])} {hexes(p[1])}", f"c20.compose {rats(p[0])} {rats(p[1])}"
    if kind == "inverse":
        return f"c20.inverse {hexes(p[0])}", f"c20.inverse {rats(p[0])}"
    if kind == "apply":
        return f"c20.apply {hexes(p[0])} {hexes(p[1])}", f"c20.apply {rats(p[0])} {rats(p[1])}"
    if kind == "tomatrix":
        return f"c20.tomatrix {hexes(p[0])} {hexes(p[1])}", f"c20.tomatrix {rats(p[0])} {rats(p[1])}"
    if kind == "mat3inv":
        return f"c20.mat3inv {hexes(p[0])}", f"c20.mat3inv {rats(p[0])}"
    if kind == "compinv":
        return f"c20.compinv {hexes(p[0])}", None
    if kind == "applycomp":
        return f"c20.applycomp {hexes(p[0])} {hexes(p[1])} {hexes(p[2])}", None
    if kind == "rotvec":
        v = p[0]
        ang = math.sqrt(sum(float(x) * float(x) for x in v))
        c, s = math.cos(ang), math.sin(ang)
        omc = s * s / (1 + c) if c > .5 else 1 - c
        n = [x / f32(ang) for x in v] if ang != 0 else [1.0, 0.0, 0.0]
        return f"c20.rotvec {hexes(v)}", f"c20.rodrigues {rats(n)} {rats([c])} {rats([s])} {rats([omc])}"
    if kind == "avg":
        return f"c20.avg {p[0]} {hexes(p[1])}", None
    if kind == "bsphere":
        return f"c20.bsphere {hexes(p[0])}", None
    if kind == "mat4inv":
        return f"c20.mat4inv {hexes(p[0])}", f"c20.mat4inv {rats(p[0])}"
    if kind == "mat4mul":
        return f"c20.mat4mul {hexes(p[0])} {hexes(p[1])}", f"c20.mat4mul {rats(p[0])} {rats(p[1])}"
    if kind == "bounds":
        return f"c20.bounds {p[0]} {hexes(p[1])} {hexes(p[2])}", None


def sphere_ok(c4, pts, what):
    """certificate check: every point inside, radius no larger than the bounding-box half diagonal"""
    cx, cy, cz, r = (Fr(x) for x in c4)
    if not all(math.isfinite(x) for x in c4):
        return f"{what}: non-finite sphere"
    P = [(Fr(pts[i]), Fr(pts[i + 1]), Fr(pts[i + 2])) for i in range(0, len(pts), 3)]
    if not P:
        return None
    scale = 1 + max(max(abs(x) for x in p) for p in P)
    tol = Fr(1e-4) * scale
    lim = (r + tol) ** 2
    for p in P:
        d2 = (p[0] - cx) ** 2 + (p[1] - cy) ** 2 + (p[2] - cz) ** 2
        if d2 > lim:
            return f"{what}: point {tuple(float(x) for x in p)} outside sphere centre {tuple(float(x) for x in (cx, cy, cz))} r={float(r)}"
    lo = [min(p[j] for p in P) for j in range(3)]
    hi = [max(p[j] for p in P) for j in range(3)]
    half2 = sum((hi[j] - lo[j]) ** 2 for j in range(3)) / 4
    if r > 0 and (r - tol) > 0 and (r - tol) ** 2 > half2:
        return f"{what}: radius {float(r)} larger than half the bounding-box diagonal {math.sqrt(float(half2))}"
    return None


def judge(kind, p, out, model):
    """returns (oracle failure reason or None, correspondence mismatch reason or None)"""
    parts = out.split(" ")
    bad = mis = None
    if kind in ("compose", "inverse", "apply"):
        got = unhexes(parts[0])
        if model and model != "singular":
            exact = unrats(model)
            scale = mag(p[0]) * (1 + (mag(p[1]) if len(p) > 1 else 0)) if kind != "inverse" else mag(p[0]) * (1 + 1 / abs(p[0][12]))
            if not vec_close(got, exact, scale, 4):
                mis = f"{kind}: implementation {got} vs exact {[float(x) for x in exact]}"
    elif kind == "tomatrix":
        m16, mv = unhexes(parts[0]), unhexes(parts[1])
        if model:
            e16, ev = (unrats(x) for x in model.split(" "))
            if not vec_close(m16, e16, mag(p[0])) or not vec_close(mv, ev, mag(p[0]) * (1 + mag(p[1])), 4):
                mis = "tomatrix differs from exact evaluation"
    elif kind == "mat3inv":
        ok, inv, prod, det = parts[0], unhexes(parts[1]), unhexes(parts[2]), unhexes(parts[3])
        if ok == "1":
            # law: m * m^-1 = 1  (judged exactly on the returned inverse)
            pr = matmul3(p[0], inv)
            ident = [1, 0, 0, 0, 1, 0, 0, 0, 1]
            if not all(abs(a - b) <= Fr(2e-4) * (1 + Fr(mag(p[0])) * Fr(mag(inv))) for a, b in zip(pr, ident)):
                bad = f"mat3: m * inverse(m) != identity: {[float(x) for x in pr]}"
            if model and model != "singular":
                einv, edet = model.split(" ")
                if not vec_close(inv, unrats(einv), mag(unrats(einv)), 8) or not close(det[0], unrats(edet)[0], mag(p[0]) ** 3, 4):
                    mis = "mat3 inverse/determinant differs from exact evaluation"
    elif kind == "compinv":
        for got in (unhexes(parts[0]), unhexes(parts[1])):
            sc = mag(p[0][:3]) * (1 + 1 / abs(p[0][12]))
            if not vec_close(got[:3], IDENT[:3], sc, 8) or not vec_close(got[3:], IDENT[3:], 1, 8):
                bad = f"compose(t, inverse(t)) is not the identity: {got}"
    elif kind == "applycomp":
        a, b = unhexes(parts[0]), unhexes(parts[1])
        sc = (mag(p[0][:3]) + abs(p[0][12]) * (mag(p[1][:3]) + abs(p[1][12]) * mag(p[2])))
        if not vec_close(a, b, sc, 8):
            bad = f"apply(compose(a,b),v) {a} != apply(a,apply(b,v)) {b}"
    elif kind == "rotvec":
        m, back, again = unhexes(parts[0]), unhexes(parts[1]), unhexes(parts[2])
        mt = [m[0], m[3], m[6], m[1], m[4], m[7], m[2], m[5], m[8]]
        pr = matmul3(m, mt)
        if not all(abs(a - b) <= Fr(2e-5) for a, b in zip(pr, [1, 0, 0, 0, 1, 0, 0, 0, 1])):
            bad = "RotVecToMat result is not orthonormal"
        ang = math.sqrt(sum(x * x for x in p[0]))
        if ang < math.pi - 0.05 and not vec_close(back, p[0], 1, 40):
            bad = f"RotMatToVec(RotVecToMat(v)) = {back} differs from v = {p[0]} (angle {ang})"
        if not vec_close(again, m, 1, 40):
            bad = bad or "RotVecToMat(RotMatToVec(m)) differs from m"
        if model:
            if not vec_close(m, unrats(model), 1, 4):
                mis = "RotVecToMat differs from the Rodrigues formula evaluated exactly"
    elif kind == "avg":
        for nm, got in (("average", unhexes(parts[0])), ("median", unhexes(parts[1]))):
            if not vec_close(got[:3], p[1][:3], mag(p[1][:3]), 8) or not vec_close(got[3:12], p[1][3:12], 1, 40) \
                    or not close(got[12], p[1][12], abs(p[1][12]), 8):
                bad = f"{nm} of {p[0]} identical transforms differs from the transform: {got} vs {p[1]}"
    elif kind == "bsphere":
        bad = sphere_ok(unhexes(parts[0]), p[0], "BoundingSphere")
    elif kind == "mat4inv":
        inv, prod, det = unhexes(parts[0]), unhexes(parts[1]), unhexes(parts[2])
        ident = [1.0 if i % 5 == 0 else 0.0 for i in range(16)]
        sc = mag(p[0]) * mag(inv)
        if not vec_close(prod, ident, sc, 20):
            bad = f"mat4: m * inverse(m) != identity: {prod}"
        if model and model != "singular":
            einv, edet = model.split(" ")
            if not vec_close(inv, unrats(einv), mag(unrats(einv)), 20):
                mis = "mat4 inverse differs from exact evaluation"
    elif kind == "mat4mul":
        prod, acc = unhexes(parts[0]), unhexes(parts[1])
        if prod != acc:
            bad = f"mat4: operator* and operator*= disagree: {prod} vs {acc}"
        if model:
            if not vec_close(prod, unrats(model), mag(p[0]) * mag(p[1]), 8):
                mis = f"mat4 product differs from exact evaluation: {prod} vs {[float(x) for x in unrats(model)]}"
    elif kind == "bounds":
        if out == "no-shape":
            return "CreateShapeFromData failed", None
        b1, g1, b2, g2 = (unhexes(x) for x in parts)
        bad = sphere_ok(b1, g1, "shape bounds after create") or sphere_ok(b2, g2, "shape bounds after moving the vertices")
    return bad, mis


def run(ctx):
    res = ctx.res
    rng = C.mkrng(ctx.seed, "c20")
    if ctx.replay:
        rp = json.load(open(ctx.replay))
        cases = [(rp["kind"], tuple(rp["payload"]))]
    else:
        cases = gen_cases(ctx.tier, rng)
    impl_lines, model_lines, midx = [], [], {}
    for i, (kind, p) in enumerate(cases):
        il, ml = lines_for(kind, p)
        impl_lines.append(il)
        if ml is not None:
            midx[i] = len(model_lines)
            model_lines.append(ml)
    model = C.run_lines_parallel(ctx.driver, model_lines) if ctx.driver else None
    try:
        impl = C.run_lines_parallel(ctx.harness, impl_lines)
    except C.Crash as c:
        res.violation("crash", dict(what="implementation crashed (sanitizer/abort)", line=c.line, stderr=c.output, rc=c.rc))
        res.coverage.update(evaluations=len(cases), distinct_nontrivial=0, rule="aborted by crash")
        return
    bad, mism, kinds = [], [], {}
    for i, (kind, p) in enumerate(cases):
        kinds[kind] = kinds.get(kind, 0) + 1
        m = model[midx[i]] if (model is not None and i in midx) else None
        if impl[i].startswith("exception"):
            bad.append((i, impl[i]))
            continue
        b, ms = judge(kind, p, impl[i], m)
        if b:
            bad.append((i, b))
        if ms:
            mism.append((i, ms))
    for j, (i, why) in enumerate(bad[:3]):
        res.violation(f"oracle-{j}", dict(what=why, kind=cases[i][0], payload=list(cases[i][1]), line=impl_lines[i], observed=impl[i][:2000]))
    if mism and not bad:
        i, why = mism[0]
        res.violation("correspondence", dict(
            what="correspondence NiflyVerif/Xform/Defs.lean <-> Object3d no longer checks: " + why +
                 " (the geometric laws evaluated on the implementation's outputs hold on all explored inputs)",
            broken="correspondence c20 transform formulas", kind=cases[i][0], payload=list(cases[i][1]), line=impl_lines[i],
            observed=impl[i][:2000], model=(model[midx[i]][:2000] if i in midx else None), mismatches=len(mism)), no_input=True)
    res.coverage.update(
        evaluations=len(cases), distinct_nontrivial=len(set(impl_lines)),
        traces_validated_against_impl=len(midx) if model is not None else 0,
        rule="random finite well-conditioned transforms (rotation about random axes incl. angle 0, tiny, pi/2, near pi; scale 0.05..20; "
             "translation up to 4000), points up to 500, point sets incl. single, duplicates, collinear, coplanar, near-coincident; "
             "shapes of 4 versions whose vertices are moved before bounds are recomputed. non-trivial = distinct op lines",
        by_kind=kinds, model_vs_impl_mismatches=len(mism), oracle_failures=len(bad),
        samples=[impl_lines[i][:200] for i in range(0, len(cases), max(1, len(cases) // 6))][:6])
