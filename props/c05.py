"""C05 — every serialised block/string reference is enumerated by its owner.
T: translator/reftables.py regenerates Generated/RefTables.lean from the typed clang AST; Props/C05.lean decides the
   coverage statements over all 304 registered types.
D: populated instances of every registered type (generator mode of the NIFLY_VERIF hook) in every version; the set of
   NiRef*/NiStringRef* objects that pass through Sync during Get and Put (pointer identity, hook) must be a subset of
   what GetChildRefs ∪ GetPtrs / GetStringRefs return."""
import json
import os
import re

from translator import reftables
from vlib import common as C

LEAN_MODULES = ["NiflyVerif.Props.C05"]
TRUSTED_EXTRA = ["translator/reftables.py + clang-14 typed JSON AST (its output is cross-checked by the dynamic hook run: the classes "
                 "the static tables flag and the classes the hook flags must coincide)"]
ASSUMPTIONS = [
    "a reference serialised as a plain integer (not through NiBlockRef / NiStringRef) is invisible to both the translator and the hook",
    "conditions other than File() comparisons around a Sync site are over-approximated as 'may hold'; a member inserted by an "
    "enumerator under a condition is treated as not enumerated",
    "BSGeometry cannot be synthesised (its reader indexes meshes[] out of range for generated slot patterns, DESIGN.md §8 #12); it is "
    "covered by the static tables only",
]
GEN_CRASH_ALLOW = {"BSGeometry", "NiSkinPartition"}


def translate(ctx):
    ctx.tables = reftables.generate()


def failing_classes_static():
    """ask Lean (evaluation, not proof) which classes fail the coverage predicates on the regenerated tables"""
    src = os.path.join(C.CACHE, "c05_eval.lean")
    open(src, "w").write(
        "import NiflyVerif.Graph.RefEnum\nopen Nifly.Generated\n"
        "#eval (registered.filter (fun c => !refsCovered c)).map (fun c => (classNames.getD c \"?\", missingRefs c))\n"
        "#eval (registered.filter (fun c => !strsCovered c)).map (fun c => (classNames.getD c \"?\", missingStrs c))\n"
        "#eval conditionalEnum\n#eval unknownConstructs\n")
    ok, out = C.build_lean(["NiflyVerif.Graph.RefEnum"])
    if not ok:
        return None, out
    r = C.sh(["lake", "env", "lean", src], cwd=C.LEAN_DIR)
    names = re.findall(r'\("([\w:]+)",\s*\[([^\]]*)\]\)', r.stdout, re.S)
    return [(n, m) for n, m in names], r.stdout


def run(ctx):
    res = ctx.res
    rng = C.mkrng(ctx.seed, "c05")
    types = C.run_lines(ctx.harness, ["gen.types"])[0].split(",")
    vers = C.run_lines(ctx.harness, ["gen.versions"])[0].split(",")
    static_fail = []
    if not ctx.proof_ok:
        static_fail, raw = failing_classes_static()
        static_fail = static_fail or []
    focus = sorted(set(n for n, _ in static_fail))
    # also chase the classes that inherit from a flagged level
    cases = []
    if ctx.replay:
        rp = json.load(open(ctx.replay))
        cases.append((rp["type"], rp["version"], rp["seed"], rp["max_count"]))
    else:
        nseed = 6 if ctx.tier == "thorough" else 2
        for t in types:
            for v in vers:
                for k in range(nseed):
                    cases.append((t, v, rng.randrange(1, 10**6), 3))
                cases.append((t, v, rng.randrange(1, 10**6), 10 if ctx.tier == "quick" else 12))
                if ctx.tier == "thorough":
                    cases.append((t, v, rng.randrange(1, 10**6), 1))
                    cases.append((t, v, rng.randrange(1, 10**6), 7))
        for t in focus:            # focused search on what the static obligation flags
            for v in vers:
                for k in range(40):
                    cases.append((t, v, rng.randrange(1, 10**6), rng.choice([1, 2, 3, 7, 10, 12])))
    lines = [f"c05.check {t} {v} {s} {mc}" for t, v, s, mc in cases]
    out = C.run_lines_parallel(ctx.harness, lines)
    missing, genfail, nontrivial, kinds = [], {}, set(), {}
    for (t, v, s, mc), o in zip(cases, out):
        w = o.split(" ")[0]
        kinds[w] = kinds.get(w, 0) + 1
        if w == "missing":
            missing.append(((t, v, s, mc), o))
        elif w != "ok":
            genfail.setdefault(t, set()).add(o)
        m = re.search(r"refs=(\d+) strs=(\d+)", o)
        if m and (int(m.group(1)) + int(m.group(2))) > 0:
            nontrivial.add((t, v, s, mc))
    dyn_types = sorted(set(c[0] for c, _ in missing))
    for j, ((t, v, s, mc), o) in enumerate(sorted(missing, key=lambda x: (x[0][3], x[0][0]))[:3]):
        res.violation(f"missing-{j}", dict(
            what=f"{t} ({v}): a reference that passes through Sync is not reported by GetChildRefs/GetPtrs/GetStringRefs: {o}",
            type=t, version=v, seed=s, max_count=mc, line=f"c05.check {t} {v} {s} {mc}", observed=o,
            static_tables_flag=[f for f in static_fail if f[0] == t]))
    if not ctx.proof_ok and not missing:
        res.violation("static", dict(
            what="a coverage obligation of Props/C05.lean over the regenerated RefTables no longer checks and the focused dynamic "
                 "search found no populated instance on which a serialised reference is missing from the enumeration",
            broken="NiflyVerif.Props.C05 (refs_enumerated / strings_enumerated / enumerators_unconditional / all_registered_present)",
            static_failures=static_fail, lean_errors=getattr(ctx, "lean_errors", [])), no_input=True)
    unexpected = {t: sorted(v) for t, v in genfail.items() if t not in GEN_CRASH_ALLOW}
    res.coverage.update(
        evaluations=len(cases), distinct_nontrivial=len(nontrivial), traces_validated_against_impl=len(cases),
        rule="every registered block type × 12 versions × seeds × count bounds {3,10/12,(1,7)}; one case = one generated instance "
             "(Get in generator mode, then Put) whose hook-observed NiRef*/NiStringRef* sets are compared with the enumerators; "
             "non-trivial = the instance serialised at least one reference or string reference",
        types=len(types), versions=vers, outcomes=kinds, static_flagged=static_fail, dynamic_flagged=dyn_types,
        generator_failures_expected={t: sorted(v) for t, v in genfail.items() if t in GEN_CRASH_ALLOW},
        generator_failures_unexpected=unexpected,
        translator=dict(levels=len(ctx.tables["table"]), registered=len(ctx.tables["registered"]),
                        conditional=ctx.tables["conditional"], unknown=ctx.tables["unknown"]),
        samples=[dict(line=l, out=o[:160]) for l, o in list(zip(lines, out))[:: max(1, len(lines) // 6)]][:6])
