"""C09 / C17 — correspondence for the segment re-fit after a vertex deletion (Lean: Mesh/SegRefit.lean, Props/SegRefit.lean).
The harness builds FO4/FO76 BSSubIndexTriShapes with a segmentation, calls BSSubIndexTriShape::notifyVerticesDelete and reports the
raw ranges before and after and the removed-triangle list (`deletedTris`) the re-fit worked from; the Lean model `refit` runs on
the same ranges and list. Besides equality of the two results, the hypotheses of the theorems are checked on what the library
produced: the list is strictly descending (the order BSTriShape::notifyVerticesDelete sorts it into) and the ranges before tiled
the triangle list — if they stop holding the theorems say nothing about the code any more."""
from vlib import common as C

INFS = [[(0, [])], [(0, []), (1, [])], [(0, [1, 2]), (3, [])], [(7, [9, 0]), (2, []), (4, [])], [(2, [1]), (0, [])],
        [(0, []), (1, [2, 3, 4]), (5, [])], [(3, []), (2, []), (1, []), (0, [])]]


def fmt_inf(inf):
    return ";".join(f"{p}:{','.join(map(str, s))}" for p, s in inf) if inf else "-"


def parse_segs(s):
    if s == "-":
        return []
    out = []
    for g in s.split(";"):
        a, b, c = g.split(":")
        subs = [] if c == "-" else [tuple(int(y) for y in x.split(".")) for x in c.split(",")]
        out.append((int(a), int(b), subs))
    return out


def tiles(segs, nt):
    """the ranges tile [0, nt): contiguous from 0, sizes sum to nt, sub-segments tile the tail of their segment"""
    pos = 0
    for st, n, subs in segs:
        if st != 3 * pos:
            return f"segment starts at {st}, expected {3 * pos}"
        tot = sum(k for _, k in subs)
        if tot > n:
            return f"sub-segments hold {tot} triangles, their segment {n}"
        sp = st + 3 * (n - tot)
        for sst, k in subs:
            if sst != sp:
                return f"sub-segment starts at {sst}, expected {sp}"
            sp += 3 * k
        pos += n
    if segs and pos != nt:
        return f"ranges sum to {pos} for {nt} triangles"
    return None


def campaign(ctx, rng, ncases, only=None):
    """-> (violations [(kind, what, line)], stats); `only` = the line of a replay"""
    lines = []
    for _ in range(0 if only else ncases):
        inf = rng.choice(INFS)
        ids = [p for p, s in inf] + [x for p, s in inf for x in s]
        nt = rng.choice([3, 5, 9, 30, 120, 400])
        keep = ids if rng.random() < 0.7 else ids[: max(1, len(ids) // 2)]
        labels = [rng.choice(keep + ([-1] if rng.random() < 0.2 else [])) for _ in range(nt)]
        nv = max(4, min(nt + 3, 900)) if rng.random() < 0.5 else max(4, nt // 2 + 3)
        k = rng.randrange(1, max(2, nv // 4))
        dele = sorted(rng.sample(range(nv), k))
        ver = rng.choice(["fo4", "fo4", "fo76"])
        lines.append(f"c17.refit mesh:{ver}:{nv}:{nt}:{rng.randrange(1, 10**6)}:n 0 {fmt_inf(inf)} {','.join(map(str, labels))} "
                     f"{','.join(map(str, dele))}")
    # the SSE-style segment array (no sub-segments) goes through the same loops
    for _ in range(0 if only else max(10, ncases // 5)):
        nt = rng.choice([3, 7, 30, 120])
        nv = max(4, nt // 2 + 3)
        dele = sorted(rng.sample(range(nv), rng.randrange(1, max(2, nv // 4))))
        lines.append(f"c17.refit mesh:{rng.choice(['fo4', 'fo76'])}:{nv}:{nt}:{rng.randrange(1, 10**6)}:n 0 sseg:{rng.randrange(1, 6)} - "
                     f"{','.join(map(str, dele))}")
    from props import filecamp
    if only:
        lines = [only]
    for f in ([] if only else filecamp.sample_files()):
        if "FO4" in f or "FO76" in f:
            for si in range(3):
                lines.append(f"c17.refit load:{f} {si} keep - {','.join(str(rng.randrange(0, 40)) for _ in range(rng.randrange(1, 6)))}")
    impl = C.run_lines_parallel(ctx.harness, lines)
    ml, mi = [], []
    viol, st = [], dict(cases=0, with_removed_triangles=0, with_subsegments=0, removed_triangles=0, hypothesis_failures=0, mismatches=0,
                        partition_failures=0)
    for i, o in enumerate(impl):
        if o in ("not-a-subindex-shape", "no-such-shape", "load-failed"):
            continue
        if not o.startswith("nt="):
            viol.append(("oracle", "the re-fit after a vertex deletion crashed or failed: " + o[:200], lines[i]))
            continue
        kv = dict(x.split("=", 1) for x in o.split(" "))
        nt0, nt1 = (int(x) for x in kv["nt"].split("/"))
        ids = [] if kv["ids"] == "-" else [int(x) for x in kv["ids"].split(",")]
        pre, post = parse_segs(kv["pre"]), parse_segs(kv["post"])
        st["cases"] += 1
        st["with_removed_triangles"] += bool(ids)
        st["removed_triangles"] += len(ids)
        st["with_subsegments"] += any(s for _, _, s in pre)
        # the property itself on the outcome
        w = tiles(post, nt1) if pre else None
        if w:
            st["partition_failures"] += 1
            viol.append(("oracle", f"after the vertex deletion the segments no longer partition the {nt1} triangles: {w} "
                                   f"(ranges before {kv['pre'][:120]}, removed triangles {kv['ids'][:80]}, after {kv['post'][:120]})", lines[i]))
        sse_pre, sse_post = parse_segs(kv.get("ssepre", "-")), parse_segs(kv.get("ssepost", "-"))
        if sse_pre:
            st["with_sse_segments"] = st.get("with_sse_segments", 0) + 1
            w2 = tiles(sse_post, nt1) if not tiles(sse_pre, nt0) else None
            if w2:
                st["partition_failures"] += 1
                viol.append(("oracle", f"after the vertex deletion the SSE segment array no longer partitions the {nt1} triangles: {w2} "
                                       f"(before {kv['ssepre'][:120]}, removed triangles {kv['ids'][:80]}, after {kv['ssepost'][:120]})", lines[i]))
        # hypotheses of Props/SegRefit.lean on what the library produced
        hyp = None
        if any(a <= b for a, b in zip(ids, ids[1:])):
            hyp = "the removed-triangle list is not strictly descending: " + kv["ids"][:100]
        elif ids and ids[0] >= nt0 or nt0 - len(ids) != nt1:
            hyp = f"the removed-triangle list {kv['ids'][:80]} does not account for the triangle count {nt0} -> {nt1}"
        elif pre and tiles(pre, nt0):
            hyp = "the ranges before the deletion did not tile the triangle list: " + tiles(pre, nt0)
        if hyp:
            st["hypothesis_failures"] += 1
            viol.append(("hypothesis", "a hypothesis of refit_partitions / shrink_add no longer holds of the code: " + hyp, lines[i]))
        ml.append(f"c17.refit {kv['pre']} {kv['ids']}")
        mi.append((i, kv["post"]))
        if kv.get("ssepre", "-") != "-":
            ml.append(f"c17.refit {kv['ssepre']} {kv['ids']}")
            mi.append((i, kv["ssepost"]))
    if ctx.driver:
        model = C.run_lines_parallel(ctx.driver, ml)
        for (i, got), m in zip(mi, model):
            if got != m:
                st["mismatches"] += 1
                viol.append(("correspondence", f"BSSubIndexTriShape::notifyVerticesDelete leaves {got[:160]}, the model refit {m[:160]}", lines[i]))
    return viol, st


def report(res, viol, prop):
    """violations with a failing input first; a broken hypothesis / correspondence alone is reported as no-failing-input-found"""
    orc = [v for v in viol if v[0] == "oracle"]
    oth = [v for v in viol if v[0] != "oracle"]
    for j, (k, what, line) in enumerate(sorted(orc, key=lambda v: len(v[2]))[:2]):
        res.violation(f"refit-oracle-{j}", dict(what=what, line=line))
    for j, (k, what, line) in enumerate(sorted(oth, key=lambda v: len(v[2]))[:2]):
        res.violation(f"refit-{k}-{j}", dict(what=what, line=line, broken="Props/SegRefit.lean (refit_partitions, shrink_add) vs "
                                             "BSSubIndexTriShape::notifyVerticesDelete"), no_input=not orc)
