"""C09 — deleting vertices keeps a shape and its skin data consistent.
D: every shape of every loadable sample (all geometry kinds, skinned and unskinned) and constructed meshes × sorted index subsets
   (single, prefix, suffix, random, all) × repeated deletions; the real DeleteVertsForShape is run and everything is observed
   before/after and after save+reload. Oracle = the property; correspondence = Lean deleteVerts predicts survivors/triangles."""
import json
import os

from props import filecamp
from props import segrefit
from props import shapeparse as SP
from vlib import common as C

LEAN_MODULES = ["NiflyVerif.Props.C09", "NiflyVerif.Props.SegRefit", "NiflyVerif.Props.PartDelete"]
ASSUMPTIONS = ["strip-based shapes are exempt from the exact triangle statement (as the property says); their indices must stay in range",
               "float attributes are opaque payload compared by bit pattern"]
TRI_LIST_TYPES = {"NiTriShape", "BSTriShape", "BSSubIndexTriShape", "BSMeshLODTriShape", "BSDynamicTriShape", "BSSegmentedTriShape", "BSLODTriShape"}


def rot_norm(t):
    """a triangle up to rotation of its corners (the winding is kept)"""
    t = list(t)
    while t[0] > t[1] or t[0] > t[2]:
        t = t[1:] + t[:1]
    return tuple(t)


def remap(D, nv):
    s = set(D)
    m, k = {}, 0
    for i in range(nv):
        if i not in s:
            m[i] = k
            k += 1
    return m


def check_delete(B, A, D):
    why = []
    nv = B["nv"]
    Dv = [d for d in D if d < nv]
    m = remap(Dv, nv)
    surv = [i for i in range(nv) if i in m]
    if A["nv"] != len(surv):
        why.append(f"vertex count {A['nv']} != {len(surv)}")
    for k in ("V", "UV", "N", "C", "TG", "BT"):
        if B[k] is None or len(B[k]) != nv:
            continue
        if A[k] is None:
            if len(surv) > 0:
                why.append(f"attribute {k} disappeared")
            continue
        if A[k] != [B[k][i] for i in surv]:
            why.append(f"attribute {k}: survivors' values changed or reordered")
    nvp = A["nv"]
    if B["type"] in TRI_LIST_TYPES and B["STRIPS"] is None:
        exp = [tuple(m[p] for p in t) for t in B["T"] if all(p in m for p in t)]
        if A["T"] != exp:
            why.append(f"triangles: expected {len(exp)} re-indexed survivors in order, got {len(A['T'])} (first diff at "
                       f"{next((i for i, (x, y) in enumerate(zip(A['T'], exp)) if x != y), min(len(A['T']), len(exp)))})")
        if A["nt"] != len(A["T"]):
            why.append("triangle counter disagrees with the triangle list")
    for t in A["T"]:
        if any(p >= nvp for p in t):
            why.append(f"triangle {t} refers to a vertex >= {nvp}")
            break
    if A["STRIPS"]:
        for s in A["STRIPS"]:
            if any(p >= nvp for p in s):
                why.append("a strip refers to a vertex that does not exist")
                break
    # skin weights through the API
    if B["W"] and len(A["W"]) == len(B["W"]):
        for b, (wb, wa) in enumerate(zip(B["W"], A["W"])):
            exp = {m[v]: w for v, w in wb.items() if v in m}
            if wa != exp:
                why.append(f"bone {b}: weights of surviving vertices changed")
                break
    elif B["W"] and A["nv"] > 0 and A["nt"] > 0:
        why.append("bone list changed")
    if A["SKINDATA"]:
        for b, (n, idx) in enumerate(A["SKINDATA"]):
            if n != len(idx):
                why.append(f"NiSkinData bone {b}: numVertices {n} != {len(idx)} weights")
            if any(i >= nvp for i in idx):
                why.append(f"NiSkinData bone {b}: weight refers to a vertex >= {nvp}")
    P = A["PARTS"]
    if P:
        if P["numPartitions"] != P["n"]:
            why.append("numPartitions disagrees with the partition list")
        for k, p in enumerate(P["parts"]):
            if p["flags"][0] == "1" and p["numVertices"] != len(p["vertexMap"]):
                why.append(f"partition {k}: numVertices {p['numVertices']} != vertex map size {len(p['vertexMap'])}")
            if any(v >= nvp for v in p["vertexMap"]):
                why.append(f"partition {k}: vertex map entry >= {nvp}")
            lim = len(p["vertexMap"]) if (P["mapped"] and p["vertexMap"]) else nvp
            for t in p["triangles"]:
                if any(x >= lim for x in t):
                    why.append(f"partition {k}: mapped triangle {t} out of range {lim}")
                    break
            for t in p["trueTriangles"]:
                if any(x >= nvp for x in t):
                    why.append(f"partition {k}: true triangle {t} refers to a vertex >= {nvp}")
                    break
            for s in p["strips"]:
                if any(x >= lim for x in s):
                    why.append(f"partition {k}: strip point out of range")
                    break
            if p["numStrips"] == 0 and p["flags"][2] == "1" and p["numTriangles"] != len(p["triangles"]):
                why.append(f"partition {k}: numTriangles {p['numTriangles']} != {len(p['triangles'])}")
            if p["flags"][1] == "1" and p["nVertexWeights"] != p["numVertices"]:
                why.append(f"partition {k}: {p['nVertexWeights']} vertex weights for {p['numVertices']} vertices")
            if p["flags"][3] == "1" and p["nBoneIndices"] != p["numVertices"]:
                why.append(f"partition {k}: {p['nBoneIndices']} bone index tuples for {p['numVertices']} vertices")
        if A["DISMEMBER"] is not None and len(A["DISMEMBER"]) != P["n"]:
            why.append(f"dismember partition list has {len(A['DISMEMBER'])} entries for {P['n']} partitions")
    # per-triangle partition / segment labels follow their triangles (partition labels are found by looking the triangle up by
    # its corners: with two equal triangles in one shape they are not defined per triangle, such shapes are left out)
    nrm = [rot_norm(t) for t in B["T"]]
    has_dup = len(set(nrm)) != len(nrm)
    if B["type"] in TRI_LIST_TYPES and B["STRIPS"] is None:
        keep = [k for k, t in enumerate(B["T"]) if all(p in m for p in t)]
        for key in ("TRIPARTS", "SEGTRI"):
            if key == "TRIPARTS" and has_dup:
                continue
            b = B[key][1] if key == "TRIPARTS" and B[key] else B[key]
            a = A[key][1] if key == "TRIPARTS" and A[key] else A[key]
            if b is None or a is None or len(b) != len(B["T"]):
                continue
            if len(a) != len(A["T"]):
                why.append(f"{key}: {len(a)} labels for {len(A['T'])} triangles")
                continue
            eb = [b[k] for k in keep]
            # same grouping (partitions may be renumbered when empty ones are removed)
            rel = {}
            okk = True
            for x, y in zip(eb, a):
                if rel.setdefault(x, y) != y:
                    okk = False
            if not okk or len(set(rel.values())) != len(rel):
                why.append(f"{key}: surviving triangles changed their partition/segment")
    so = SP.segments_ok(A)
    if so:
        why += ["segments: " + x for x in so[:2]]
    if B["LOCKEDNORM"] is not None and A["LOCKEDNORM"] is not None:
        exp = sorted(m[v] for v in B["LOCKEDNORM"] if v in m)
        if sorted(A["LOCKEDNORM"]) != exp:
            why.append("LOCKEDNORM list not re-indexed to the survivors")
    return why


def gen_subsets(rng, nv, tier):
    out = [[0], [nv - 1], list(range(0, max(1, nv // 3))), list(range(nv - max(1, nv // 4), nv)),
           sorted(rng.sample(range(nv), max(1, min(nv, rng.randrange(1, 8))))),
           sorted(rng.sample(range(nv), max(1, nv // 2)))]
    if nv <= 3000:
        out.append(list(range(nv)))
    if tier == "thorough":
        for _ in range(4):
            out.append(sorted(rng.sample(range(nv), rng.randrange(1, nv + 1))))
    return [s for s in out if s and s[-1] < nv]


def run(ctx):
    res = ctx.res
    rng = C.mkrng(ctx.seed, "c09")
    lines = []
    if ctx.replay and json.load(open(ctx.replay))["line"].startswith("c17.refit"):
        viol, st = segrefit.campaign(ctx, rng, 0, only=json.load(open(ctx.replay))["line"])
        segrefit.report(res, viol, "C09")
        res.coverage.update(evaluations=1, distinct_nontrivial=1, refit=st)
        return
    if ctx.replay:
        lines = [json.load(open(ctx.replay))["line"]]
    else:
        files = filecamp.sample_files()
        info = C.run_lines_parallel(ctx.harness, [f"c09.shapes {f}" for f in files])
        for f, inf in zip(files, info):
            if inf in ("load-failed", "-") or inf.startswith("fail") or inf.startswith("crash"):
                continue
            for s in inf.split(" "):
                k, ty, nv, nt = s.split(":")[0], s.split(":")[1], int(s.split(":")[-2]), int(s.split(":")[-1])
                if nv == 0:
                    continue
                subs = gen_subsets(rng, nv, ctx.tier)
                for sub in subs:
                    lines.append(f"c09.run load:{f} {k} {','.join(map(str, sub))} reload")
                # repeated deletions
                a = sorted(rng.sample(range(nv), max(1, nv // 5)))
                nv2 = nv - len(a)
                if nv2 > 2:
                    b = sorted(rng.sample(range(nv2), max(1, nv2 // 5)))
                    lines.append(f"c09.run load:{f} {k} {','.join(map(str, a))};{','.join(map(str, b))} reload")
        meshes = [("ob", "n"), ("fo3", "nc"), ("sk", "n"), ("sse", "nc"), ("fo4", "n"), ("fo76", "")]
        sizes = [1, 2, 3, 4, 5, 17, 300] + ([65535] if ctx.tier == "thorough" else [3000])
        for ver, fl in meshes:
            for nv in sizes:
                nt = 0 if nv < 3 else min(2 * nv, 4000)
                sd = rng.randrange(1, 10**6)
                for sub in gen_subsets(rng, nv, ctx.tier):
                    lines.append(f"c09.run mesh:{ver}:{nv}:{nt}:{sd}:{fl} 0 {','.join(map(str, sub))} reload")
        # skinned meshes whose NiSkinPartition holds several partitions: through the bone limit (18 bones per partition for OB/FO3:
        # 40 bones) or as explicit partitions of consecutive triangles (LE / SSE)
        for ver, fl, nb, parts in [("ob", "n", 40, 1), ("fo3", "nc", 40, 1), ("fo3", "n", 6, 3), ("sk", "n", 6, 3), ("sse", "nc", 6, 4),
                                   ("sse", "n", 100, 1)]:
            for nv in (12, 60, 300):
                nt = 2 * nv
                sd = rng.randrange(1, 10**6)
                for sub in gen_subsets(rng, nv, ctx.tier):
                    lines.append(f"c09.run mesh:{ver}:{nv}:{nt}:{sd}:{fl}:{nb}:{parts} 0 {','.join(map(str, sub))} reload")
                a = sorted(rng.sample(range(nv), max(1, nv // 5)))
                b = sorted(rng.sample(range(nv - len(a)), max(1, (nv - len(a)) // 5)))
                lines.append(f"c09.run mesh:{ver}:{nv}:{nt}:{sd}:{fl}:{nb}:{parts} 0 {','.join(map(str, a))};{','.join(map(str, b))} reload")
        # strip geometry (no sample carries any): NiTriStrips shapes built by the library itself
        cdir = os.path.join(C.CACHE, "constructed")
        os.makedirs(cdir, exist_ok=True)
        jobs = [(v, n, os.path.join(cdir, f"c09-strips-{v}-{n}.nif")) for v in ("ob", "fo3", "sk") for n in (1, 4)]
        built = C.run_lines_parallel(ctx.harness, [f"fs new:{v} stripshape:{n} save:{p}:raw" for v, n, p in jobs])
        for (v, n, p), o in zip(jobs, built):
            if all(x.startswith("ok") for x in o.split(" ")):
                nv = sum(3 + k % 3 for k in range(n))
                for sub in gen_subsets(rng, nv, ctx.tier):
                    lines.append(f"c09.run load:{p} 0 {','.join(map(str, sub))} reload")
        # exhaustive: every subset of a 5-vertex mesh
        for mask in range(1, 32):
            sub = [i for i in range(5) if mask >> i & 1]
            lines.append(f"c09.run mesh:sse:5:6:77:n 0 {','.join(map(str, sub))} reload")
            lines.append(f"c09.run mesh:sk:5:6:77:n 0 {','.join(map(str, sub))} reload")
    out = C.run_lines_parallel(ctx.harness, lines, timeout=3000)
    bad, mlines, mmeta, plines, pmeta = [], [], [], [], []
    nontrivial = 0
    for line, o in zip(lines, out):
        if o in ("load-failed", "no-such-shape", "no-shape"):
            continue
        if " | " not in o:
            bad.append((line, "crashed / hung / failed: " + o[:200]))
            continue
        parts = o.split(" | ")
        idxs = [[int(x) for x in l.split(",")] for l in line.split(" ")[3].split(";")]
        B = SP.parse(parts[0])
        ok = True
        k = 1
        for D in idxs:
            if k >= len(parts) or " " not in parts[k]:
                bad.append((line, "the deletion produced no observation: " + " | ".join(x[:60] for x in parts[1:])))
                ok = False
                break
            A = SP.parse(parts[k].split(" ", 1)[1])
            why = check_delete(B, A, D)
            if B["type"] in TRI_LIST_TYPES and B["STRIPS"] is None and len(B["T"]) <= 20000:
                mlines.append("c09.delete %d %s %s" % (B["nv"], ",".join("%d.%d.%d" % t for t in B["T"]) or "-", ",".join(map(str, D))))
                mmeta.append((line, B, A))
            # skin partitions: the model of NiSkinPartition::notifyVerticesDelete (Mesh/PartDelete.lean) predicts vertex map,
            # surviving per-vertex entries and triangles of every partition that held a vertex map and a triangle list
            PB, PA = B["PARTS"], A["PARTS"]
            if PB and PA and len(PB["parts"]) == len(PA["parts"]) and all(q["vertexMap"] and q["triangles"] and q["numStrips"] == 0 for q in PB["parts"]):
                mx = max(max(q["vertexMap"]) for q in PB["parts"])
                if not PB["mapped"]:
                    mx = max([mx] + [x for q in PB["parts"] for t in q["triangles"] for x in t])
                if mx + 1 < 65536:
                    for pk, (qb, qa) in enumerate(zip(PB["parts"], PA["parts"])):
                        plines.append("c09.part %d %d %s %s %s" % (1 if PB["mapped"] else 0, mx + 1, ",".join(map(str, D)), ",".join(map(str, qb["vertexMap"])),
                                                                  ",".join("%d.%d.%d" % t for t in qb["triangles"])))
                        pmeta.append((line, pk, qb, qa))
            if why:
                bad.append((line, f"deleting {D[:8]}{'...' if len(D) > 8 else ''} from {B['type']} with {B['nv']} vertices: " + "; ".join(why[:3])))
                ok = False
                break
            if 0 < len(D) < B["nv"] and A["nt"] > 0:
                nontrivial += 1
            B = A
            k += 1
        if ok and len(parts) > k:
            tail = parts[k:]
            if len(tail) < 2 or not tail[0].startswith("SAVED") or not tail[1].startswith("RELOADED"):
                if B["nv"] > 0:
                    bad.append((line, "save/reload after the deletion failed: " + " | ".join(t[:60] for t in tail)))
            else:
                S, R = SP.parse(tail[0][6:]), SP.parse(tail[1][9:])
                for key in ("nv", "V", "UV", "T", "C"):
                    if key == "T" and S["PARTS"] and S["T"] is not None and R["T"] is not None:
                        # a skinned shape's triangles are stored in its skin partitions (SSE) and come back with their corners
                        # rotated and grouped by partition: the same geometry
                        if sorted(map(rot_norm, S["T"])) != sorted(map(rot_norm, R["T"])):
                            bad.append((line, "after save and reload the triangles differ from the saved model (as a multiset up to corner rotation)"))
                            break
                        continue
                    if S[key] != R[key] and not (S[key] is None or R[key] is None):
                        bad.append((line, f"after save and reload {key} differs from the saved model"))
                        break
    mism = []
    if ctx.driver and mlines:
        pred = C.run_lines_parallel(ctx.driver, mlines)
        for (line, B, A), p in zip(mmeta, pred):
            sv, tr, dl = p.split(" ")
            pt = [] if tr == "-" else [tuple(int(x) for x in t.split(".")) for t in tr.split(",")]
            ps = [] if sv == "-" else [int(x) for x in sv.split(",")]
            if pt != A["T"] or (B["V"] is not None and A["V"] != [B["V"][i] for i in ps]):
                mism.append((line, f"model predicts {len(ps)} survivors / {len(pt)} triangles, implementation has {A['nv']} / {len(A['T'])}"))
    pmism = []
    if ctx.driver and plines:
        pred = C.run_lines_parallel(ctx.driver, plines)
        for (line, k, qb, qa), pr in zip(pmeta, pred):
            f = pr.split(" ")
            if len(f) != 3:
                pmism.append((line, f"partition {k}: the model answered {pr[:80]}"))
                continue
            ints = lambda x: [] if x == "-" else [int(y) for y in x.split(",")]
            vm, keep = ints(f[0]), ints(f[1])
            tr = [] if f[2] == "-" else [tuple(int(y) for y in t.split(".")) for t in f[2].split(",")]
            why = None
            if qa["vertexMap"] != vm:
                why = f"vertex map {qa['vertexMap'][:12]} where the model has {vm[:12]}"
            elif qa["triangles"] != tr:
                why = f"{len(qa['triangles'])} triangles {qa['triangles'][:4]} where the model has {len(tr)} {tr[:4]}"
            elif len(qb["weights"]) == len(qb["vertexMap"]) and qa["weights"] != [qb["weights"][i] for i in keep]:
                why = "vertex weights are not those of the surviving partition vertices"
            elif len(qb["boneIndices"]) == len(qb["vertexMap"]) and qa["boneIndices"] != [qb["boneIndices"][i] for i in keep]:
                why = "bone indices are not those of the surviving partition vertices"
            if why:
                pmism.append((line, f"partition {k}: " + why))
    for j, (line, why) in enumerate(sorted(bad, key=lambda b: len(b[0]))[:3]):
        res.violation(f"oracle-{j}", dict(what=why, line=line))
    if pmism and not bad:
        res.violation("correspondence-partition", dict(what="correspondence Mesh/PartDelete.lean <-> NiSkinPartition::notifyVerticesDelete no longer checks: " + pmism[0][1],
                                                       broken="correspondence c09 deletePart", line=pmism[0][0], mismatches=len(pmism)), no_input=True)
    if mism and not bad:
        res.violation("correspondence", dict(what="correspondence Mesh/Delete.lean <-> notifyVerticesDelete no longer checks: " + mism[0][1],
                                             broken="correspondence c09 deleteVerts", line=mism[0][0], mismatches=len(mism)), no_input=True)
    rst = None
    if not ctx.replay:
        rviol, rst = segrefit.campaign(ctx, C.mkrng(ctx.seed, "c09-refit"), 100 if ctx.tier == "quick" else 1500)
        segrefit.report(res, rviol, "C09")
    res.coverage.update(
        segment_refit_after_vertex_deletion=rst,
        evaluations=len(lines), distinct_nontrivial=nontrivial, traces_validated_against_impl=len(mlines),
        rule="every shape of every loadable sample (NiTriShape, NiTriStrips, BSTriShape, BSSubIndexTriShape, BSDynamicTriShape, "
             "BSMeshLODTriShape; skinned and unskinned), constructed meshes in 6 versions (1..3000/65535 vertices) and constructed skinned "
             "meshes with 2..6 skin partitions (bone-limit splits for OB/FO3/SSE, explicit partitions for FO3/LE/SSE) × index sets "
             "{first, last, prefix, suffix, few random, half random, all} + a second deletion + every subset of a 5-vertex mesh; each "
             "followed by save and reload. non-trivial = deletions that removed some but not all vertices and left triangles",
        exhaustive=True, model_vs_impl_mismatches=len(mism), oracle_failures=len(bad), partitions_predicted=len(plines),
        partition_mismatches=len(pmism),
        samples=[l[:160] for l in lines[:: max(1, len(lines) // 5)]][:5])
