"""C18 — index utilities: loop models (Lean) vs the real templates, plus the naive definitions
evaluated independently on the implementation's outputs (oracle)."""
import itertools

from vlib import common as C

LEAN_MODULES = ["NiflyVerif.Props.C18"]
ASSUMPTIONS = [
    "index lists that violate the documented precondition (not strictly ascending) are compared model-vs-implementation "
    "only; the naive-definition oracle is applied to strictly ascending lists",
    "InsertVectorIndices inputs on which the model predicts an out-of-range read (only possible for duplicate/unsorted "
    "lists) are not sent to the implementation",
]


def L(v):
    return ",".join(str(x) for x in v) if v else "-"


def LL(v):
    return ";".join(L(x) for x in v) if v else "."


def asc(idx):
    return all(a < b for a, b in zip(idx, idx[1:]))


# ---- naive definitions (oracle), written independently of the Lean loop models ----------------
def spec_erase(v, idx):
    s = set(idx)
    return [x for i, x in enumerate(v) if i not in s]


def spec_collapse(idx, n):
    s = set(idx)
    out, k = [], 0
    for i in range(n):
        if i in s:
            out.append(-1)
        else:
            out.append(k)
            k += 1
    return out


def spec_expand(idx, n):
    s = set(idx)
    out, d = [], 0
    while len(out) < n:
        if d not in s:
            out.append(d)
        d += 1
    return out


def spec_applymap(tris, mp):
    out, dele = [], []
    for i in range(0, len(tris), 3):
        t = tris[i:i + 3]
        if all(p < len(mp) and mp[p] >= 0 for p in t):
            out += [mp[p] % 65536 for p in t]
        else:
            dele.append(i // 3)
    return out, dele


def spec_strips(strips):
    out = []
    for s in strips:
        s = [x % 65536 for x in s]
        for k in range(len(s) - 2):
            a, b, c = s[k], s[k + 1], s[k + 2]
            if a != b and b != c and c != a:
                out += [a, b, c] if k % 2 == 0 else [a, c, b]
    return out


def spec_insert_ok(v, idx, out):
    """survivors back at their positions, length restored"""
    if not idx or idx[-1] >= len(v) + len(idx):
        return out == v
    if len(out) != len(v) + len(idx):
        return False
    s = set(idx)
    surv = [x for i, x in enumerate(out) if i not in s]
    return surv == v


def parse(s):
    return [] if s == "-" else [int(x) for x in s.split(",")]


def subsets(n):
    for k in range(n + 1):
        for c in itertools.combinations(range(n), k):
            yield list(c)


def gen_cases(tier, rng):
    """yields (line, kind, payload) ; payload is what the oracle needs"""
    maxlen = 7 if tier == "thorough" else 5
    ityp = ["u16", "u32", "i32"]
    # exhaustive: vectors of every length ≤ maxlen, every strictly ascending list over positions 0..len+1
    for n in range(maxlen + 1):
        v = [100 + i for i in range(n)]
        for idx in subsets(n + 2):
            for t in ityp:
                yield (f"c18.erase.{t} {L(v)} {L(idx)}", "erase", (v, idx))
                yield (f"c18.insert.{t} {L(v)} {L(idx)}", "insert", (v, idx))
            for t in ["u16.u16", "u16.u64", "i32.i32", "u32.u32"]:
                yield (f"c18.collapse.{t} {L(idx)} {n}", "collapse", (idx, n))
            for t in ["u16.u16", "i32.i32", "u32.u32"]:
                yield (f"c18.expand.{t} {L(idx)} {n}", "expand", (idx, n))
        # precondition-violating lists (unsorted / duplicates / out of range), length ≤ 3
        for k in (1, 2, 3):
            for idx in itertools.product(range(n + 2), repeat=k):
                idx = list(idx)
                if asc(idx):
                    continue
                yield (f"c18.erase.u16 {L(v)} {L(idx)}", "erase", (v, idx))
                yield (f"c18.insert.u16 {L(v)} {L(idx)}", "insert", (v, idx))
                yield (f"c18.collapse.u16.u16 {L(idx)} {n}", "collapse", (idx, n))
                yield (f"c18.expand.u16.u16 {L(idx)} {n}", "expand", (idx, n))
    # erase ∘ insert round trip is checked by the oracle from the two answers (same payload)
    # triangles × collapse maps, exhaustive for ≤ 4 vertices and ≤ 2 triangles
    nv = 4
    alltris = [list(t) for t in itertools.product(range(nv + 1), repeat=3)]
    for idx in subsets(nv):
        mp = spec_collapse(idx, nv)
        for t in alltris:
            yield (f"c18.applymap.i32 {L(t)} {L(mp)}", "applymap", (t, mp))
        if tier == "thorough":
            for t1, t2 in itertools.product(alltris[::3], repeat=2):
                yield (f"c18.applymap.i32 {L(t1 + t2)} {L(mp)}", "applymap", (t1 + t2, mp))
    # vertex-map style (unsigned map type, arbitrary values)
    for mp in itertools.product([0, 3, 7, 65535], repeat=3):
        for t in alltris[::5]:
            yield (f"c18.applymap.u16 {L(t)} {L(mp)}", "applymap", (t, list(mp)))
    # strips: all strip sets over a 4-letter alphabet, total length ≤ 6 (quick) / 8 (thorough)
    tot = 8 if tier == "thorough" else 6
    for n in range(tot + 1):
        for s in itertools.product(range(4), repeat=n):
            s = list(s)
            yield (f"c18.strips.u16 {LL([s])}", "strips", [s])
            if n >= 2 and n <= 6:
                for cut in range(1, n):
                    yield (f"c18.strips.u32 {LL([s[:cut], s[cut:]])}", "strips", [s[:cut], s[cut:]])
    # random, large
    nrand = 400 if tier == "thorough" else 60
    for r in range(nrand):
        n = rng.choice([0, 1, 2, 255, 256, 1000, 65534, 65535]) if r % 4 == 0 else rng.randrange(0, 3000)
        v = [rng.randrange(-1000, 1000) for _ in range(n)]
        kind = rng.randrange(5)
        if kind == 0:
            idx = sorted(rng.sample(range(n + 3), min(n + 3, rng.randrange(0, 12))))
        elif kind == 1:
            idx = list(range(0, rng.randrange(0, n + 1)))          # prefix
        elif kind == 2:
            idx = list(range(rng.randrange(0, n + 1), n))          # suffix
        elif kind == 3:
            idx = list(range(n))                                   # all
        else:
            idx = sorted(rng.sample(range(n), rng.randrange(0, n + 1))) if n else []
        t = rng.choice(ityp)
        yield (f"c18.erase.{t} {L(v)} {L(idx)}", "erase", (v, idx))
        yield (f"c18.insert.{t} {L(spec_erase(v, idx))} {L([i for i in idx if i < n])}", "insert",
               (spec_erase(v, idx), [i for i in idx if i < n]))
        t2 = rng.choice(["u16.u16", "u16.u64", "i32.i32", "u32.u32"])
        yield (f"c18.collapse.{t2} {L(idx)} {n}", "collapse", (idx, n))
        t3 = rng.choice(["u16.u16", "i32.i32", "u32.u32"])
        yield (f"c18.expand.{t3} {L(idx)} {max(0, n - len(idx))}", "expand", (idx, max(0, n - len(idx))))
        mp = spec_collapse(idx, n)
        ntri = rng.randrange(0, 200)
        tris = [rng.randrange(0, n + 2) for _ in range(3 * ntri)]
        yield (f"c18.applymap.i32 {L(tris)} {L(mp)}", "applymap", (tris, mp))
        strips = [[rng.randrange(0, 6) if rng.random() < .3 else rng.randrange(0, 70000) for _ in range(rng.randrange(0, 40))]
                  for _ in range(rng.randrange(0, 5))]
        yield (f"c18.strips.u32 {LL(strips)}", "strips", strips)
        keys = sorted(set(rng.randrange(-3, n + 5) for _ in range(rng.randrange(0, 20))))
        yield (f"c18.mapkeys {L(keys)} {L(mp[:50])} {rng.randrange(-5, 5)}", "mapkeys", None)
        yield (f"c18.maxtri {L(tris)}", "maxtri", tris)


def slots_match(model, impl):
    m = model.split(",") if model != "-" else []
    i = impl.split(",") if impl != "-" else []
    return len(m) == len(i) and all(a == "_" or a == b for a, b in zip(m, i))


def oracle(kind, payload, out):
    """the property's naive definition, evaluated on the implementation's answer. None = not applicable"""
    if out.startswith("exception") or out == "bad-op":
        return False
    if kind == "erase":
        v, idx = payload
        return parse(out) == spec_erase(v, idx) if asc(idx) else None
    if kind == "insert":
        v, idx = payload
        return spec_insert_ok(v, idx, parse(out)) if asc(idx) else None
    if kind == "collapse":
        idx, n = payload
        return parse(out) == spec_collapse(idx, n) if asc(idx) else None
    if kind == "expand":
        idx, n = payload
        return parse(out) == spec_expand(idx, n) if asc(idx) else None
    if kind == "applymap":
        t, mp = payload
        a, b = out.split(" ")
        return (parse(a), parse(b)) == spec_applymap(t, mp)
    if kind == "strips":
        return parse(out) == spec_strips(payload)
    if kind == "maxtri":
        return int(out) == (max(payload) if payload else 0)
    return None


def run(ctx):
    res = ctx.res
    rng = C.mkrng(ctx.seed, "c18")
    if ctx.replay:
        import json
        rp = json.load(open(ctx.replay))
        cases = [(rp["line"], rp.get("kind"), rp.get("payload"))]
    else:
        cases = list(gen_cases(ctx.tier, rng))
    lines = [c[0] for c in cases]
    kinds = {}
    model = C.run_lines_parallel(ctx.driver, lines) if ctx.driver else None
    # do not send to the implementation what the model predicts to read out of range (see ASSUMPTIONS)
    send = [i for i in range(len(lines)) if not (model and model[i] == "oob")]
    skipped_oob = len(lines) - len(send)
    try:
        impl_part = C.run_lines_parallel(ctx.harness, [lines[i] for i in send])
    except C.Crash as c:
        res.violation("crash", dict(what="implementation crashed (sanitizer/abort) on an index-utility input",
                                    line=c.line, stderr=c.output, rc=c.rc, kind="crash"))
        res.coverage.update(evaluations=len(lines), distinct_nontrivial=0, rule="aborted by crash")
        return
    impl = dict(zip(send, impl_part))
    mism, bad = [], []
    nontrivial = set()
    for i, (line, kind, payload) in enumerate(cases):
        kinds[kind] = kinds.get(kind, 0) + 1
        if i not in impl:
            continue
        o = impl[i]
        if model is not None:
            same = slots_match(model[i], o) if kind == "insert" else model[i] == o
            if not same:
                mism.append((line, kind, payload, model[i], o))
        ok = oracle(kind, payload, o)
        if ok is False:
            bad.append((line, kind, payload, o))
        args = line.split(" ")
        if len(args) > 2 and args[2] != "-" and args[1] not in ("-", "."):
            nontrivial.add(line)
    for j, (line, kind, payload, o) in enumerate(sorted(bad, key=lambda b: len(b[0]))[:3]):
        res.violation(f"oracle-{j}", dict(what="implementation output contradicts the naive definition", line=line,
                                          kind=kind, payload=payload, observed=o))
    if mism and not bad:
        line, kind, payload, m, o = sorted(mism, key=lambda b: len(b[0]))[0]
        res.violation("correspondence", dict(
            what="correspondence NiflyVerif/Util/IndexOps.lean <-> include/NifUtil.hpp no longer checks "
                 "(model and implementation disagree; the naive-definition oracle accepts the implementation's output on all "
                 "explored inputs)", broken="correspondence c18 loop models", line=line, kind=kind, payload=payload,
            model=m, observed=o, mismatches=len(mism)), no_input=True)
    res.coverage.update(
        evaluations=len(lines), distinct_nontrivial=len(nontrivial),
        traces_validated_against_impl=len(impl) if model is not None else 0,
        rule="exhaustive: every vector length ≤ L (L=5 quick, 7 thorough) × every strictly ascending index list over positions "
             "0..len+1 × index types u16/u32/i32, every non-ascending list of length ≤3, every single triangle over 5 vertex ids × "
             "every collapse map of 4 vertices, every strip over a 4-letter alphabet up to length 6/8; random large "
             "(up to 65535 elements). non-trivial = distinct op lines with non-empty container and non-empty index list/map",
        exhaustive=True, by_kind=kinds, skipped_model_predicts_oob=skipped_oob,
        model_vs_impl_mismatches=len(mism), oracle_failures=len(bad),
        samples=[c[0][:200] for c in cases[:: max(1, len(cases) // 8)]][:8])
