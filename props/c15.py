"""C15 — corrupted block references never crash loading, querying, copying or saving.
Lean: Props/C15.lean — the bounds- and type-checked lookup is total and answers `none` exactly outside its domain; traversals that
carry a visited set terminate on every graph (cyclic or not) and visit each block at most once.
D: fault enumeration under ASan/UBSan with a watchdog: every reference field (located by the NIFLY_VERIF wire trace) of every sample
   file × {empty, count, beyond count, huge, self, ancestor (root), arbitrary in-range index}, 2..3 simultaneous random corruptions,
   and generated instances of every block type; stages: load + query battery, copy (constructor + assignment) + battery, raw save +
   reload, default save (optimise + sort) + reload, each in a process of its own."""
import json
import os

from props import filecamp
from vlib import common as C

LEAN_MODULES = ["NiflyVerif.Props.C15"]
KINDS = ["empty", "count", "beyond", "huge", "self", "ancestor", "inrange"]
ASSUMPTIONS = ["reference fields are located through the NIFLY_VERIF reference hook (fields serialised through NiRef); files without a "
               "block size table (Oblivion) give no containing block, so `self`/`ancestor` degrade to root/0 there",
               "only the stages named in the property are driven (load, read-only queries, copy, save, reload); editing operations on a "
               "damaged graph are outside it"]


def fingerprint(o):
    """stage + corruption kind + block type + target type, without indices/offsets"""
    kv = dict(f.split("=", 1) for f in o.split(" ") if "=" in f)
    stages = [s for s in ("query", "copy", "saveraw", "savedefault") if s in kv and kv[s] != "ok"]
    return kv, stages


def run(ctx):
    res = ctx.res
    rng = C.mkrng(ctx.seed, "c15")
    lines, labels = [], []
    if ctx.replay:
        rp = json.load(open(ctx.replay))
        lines, labels = [rp["line"]], [rp.get("label", "replay")]
    else:
        samples = filecamp.sample_files()
        counts = C.run_lines_parallel(ctx.harness, [f"c15.count load:{f}" for f in samples])
        for f, c in zip(samples, counts):
            if not c.split(" ")[0].isdigit():
                continue
            n = int(c.split(" ")[0])
            base = os.path.basename(f)
            pairs = [(i, k) for i in range(n) for k in KINDS]
            limit = 250 if ctx.tier == "quick" else 10**9
            if len(pairs) > limit:
                pairs = rng.sample(pairs, limit)
            for i, k in pairs:
                lines.append(f"c15.run load:{f} at {i}:{k}")
                labels.append(f"{base}/{i}/{k}")
            for _ in range(25 if ctx.tier == "quick" else 300):
                lines.append(f"c15.run load:{f} {rng.randrange(1, 10**6)} {rng.choice([2, 3])}")
                labels.append(f"{base}/multi")
        types = C.run_lines(ctx.harness, ["gen.types"])[0].split(",")
        gvers = C.run_lines(ctx.harness, ["gen.versions"])[0].split(",")
        for t in types:
            if t in filecamp.SKIP_SYNTH:
                continue
            for v in (gvers if ctx.tier == "thorough" else rng.sample(gvers, 3)):
                src = f"synth:{t}:{v}:{rng.randrange(1, 10**6)}:2:3"
                for _ in range(3):
                    lines.append(f"c15.run {src} {rng.randrange(1, 10**6)} {rng.choice([1, 1, 2])}")
                    labels.append(f"{t}/{v}")
    out = C.run_lines_parallel(ctx.harness, lines, timeout=6000)
    # a stage that dies for lack of memory or time on a loaded machine is not a finding; findings are deterministic: every
    # line with a failed stage is run a second time, a few at a time, and only what fails again is kept
    redo = [i for i, o in enumerate(out) if o.startswith("refs=") and any(
        (st + "=") in o and not (st + "=ok") in o and not (st + "=load-rc") in o for st in ("query", "copy", "saveraw", "savedefault"))]
    if redo:
        again = C.run_lines_parallel(ctx.harness, [lines[i] for i in redo], chunk=max(1, len(redo) // 4 + 1), timeout=6000)
        for i, o in zip(redo, again):
            out[i] = o
    bad, skipped, nontrivial, kinds, stages_hit = [], 0, 0, {}, {}
    known_hit = {}
    for line, label, o in zip(lines, labels, out):
        if o.startswith(("unloadable-synth", "unusable-source", "no-reference-fields")):
            skipped += 1
            continue
        if not o.startswith("refs="):
            bad.append((label, line, "harness failed: " + o[:200], "harness"))
            continue
        nontrivial += 1
        kv, failed = fingerprint(o)
        for k in KINDS:
            if ":" + k + "(" in kv.get("plan", ""):
                kinds[k] = kinds.get(k, 0) + 1
        if kv.get("query", "").startswith("load-rc"):
            stages_hit["load-refused"] = stages_hit.get("load-refused", 0) + 1
            continue          # the damaged file is refused with an error code: allowed
        for s in failed:
            what = kv[s]
            kind = "hang" if "signal=14" in what else ("memory/UB report" if "rc=86" in what else what)
            key = None
            for k in ctx.known:
                if all(tok in (kv.get("plan", "") + " " + s + " " + what) for tok in k["fingerprint"].split("|")):
                    key = k
            if key:
                known_hit[key["fingerprint"]] = (key, known_hit.get(key["fingerprint"], (None, 0))[1] + 1)
                continue
            bad.append((label, line, f"stage {s}: {kind} with {kv.get('plan', '')[:200]}", s))
    # correspondence: the visited-set traversal model against NifFile::GetTree on intact, generated (cyclic) and corrupted graphs
    corr, tl = [], []
    if not ctx.replay and ctx.driver:
        for f in filecamp.sample_files():
            tl.append(f"c15.tree load:{f}")
            for _ in range(6 if ctx.tier == "quick" else 40):
                tl.append(f"c15.tree load:{f} {rng.randrange(1, 10**6)} {rng.choice([1, 2, 3])}")
        types2 = C.run_lines(ctx.harness, ["gen.types"])[0].split(",")
        for t in rng.sample(types2, 60 if ctx.tier == "quick" else len(types2)):
            if t not in filecamp.SKIP_SYNTH:
                tl.append(f"c15.tree synth:{t}+NiNode:{rng.choice(['sse', 'fo3', 'fo4'])}:{rng.randrange(1, 10**6)}:3:3")
        impl = C.run_lines_parallel(ctx.harness, tl)
        ml, mi = [], []
        for i, o in enumerate(impl):
            if o.startswith("root="):
                kv = dict(x.split("=", 1) for x in o.split(" "))
                ml.append(f"c15.tree {kv['root']} {kv['n']} {kv['adj']}")
                mi.append((i, kv["tree"]))
            elif not o.startswith(("load-failed", "unloadable-synth", "unusable-source")):
                bad.append(("tree", tl[i], "GetTree on a (damaged) graph crashed or hung: " + o[:200], "query"))
        model = C.run_lines_parallel(ctx.driver, ml)
        for (i, got), m in zip(mi, model):
            if got != m:
                corr.append((tl[i], got, m))
        for j, (l, got, m) in enumerate(corr[:2]):
            res.violation(f"correspondence-{j}", dict(what=f"GetTree visits [{got[:200]}], the visited-set traversal model [{m[:200]}]", line=l,
                                                       broken="correspondence Graph/Lookup.lean visit vs NifFile::GetTree"), no_input=True)
    for fp, (k, n) in known_hit.items():
        res.known.append(f"{k['what']} [{n} cases]")
    # one representative per (stage, block type of the first corruption)
    seen, reps = set(), []
    for b in sorted(bad, key=lambda b: len(b[1])):
        key = (b[3], b[2].split("/")[1].split("@")[0] if "/" in b[2] else "")
        if key not in seen:
            seen.add(key)
            reps.append(b)
    for j, (label, line, why, _) in enumerate(reps[:6]):
        res.violation(f"oracle-{j}", dict(what=why, label=label, line=line))
    res.coverage.update(
        evaluations=len(lines), distinct_nontrivial=nontrivial, traces_validated_against_impl=nontrivial,
        rule="single corruptions: every reference field × 7 kinds for each sample file (quick: at most 250 (field, kind) pairs per file, "
             "sampled); 2..3 simultaneous random corruptions; generated instances of every block type in 3 (quick) / 12 versions; four "
             "stages per case, each in its own process with a 5 s watchdog",
        corruption_kinds=kinds, load_refused=stages_hit.get("load-refused", 0), skipped=skipped, rerun_after_first_failure=len(redo), oracle_failures=len(bad), traversal_graphs=len(tl), traversal_mismatches=len(corr),
        failure_classes=sorted({f"{b[3]}: {b[2][:90]}" for b in bad})[:40],
        samples=[f"{l} -> {o[:200]}" for l, o in list(zip(lines, out))[:: max(1, len(lines) // 5)]][:5])
    ctx.allbad = bad
