"""C07 — saved header tables describe the written file exactly.
T: translator/ostream.py regenerates the NiOStream byte-count table; Props/C07.lean decides counter = bytes written.
D: the Lean reader (Wire/Header.lean, shares no code with the library) parses every file the library writes in this
   campaign — plain round trips of samples and synthesised files, after random edit sequences, raw and default saves —
   walks the size table to the footer and the end of the file, and checks the string table and every string-index
   field located by the writer's trace (hook)."""
import json
import os

from props import filecamp
from translator import ostream
from vlib import common as C

LEAN_MODULES = ["NiflyVerif.Props.C07"]
TRUSTED_EXTRA = ["translator/ostream.py + clang-14 AST for the NiOStream byte-count table"]
ASSUMPTIONS = ["a block that wrote to the std::ostream directly (bypassing NiOStream) would defeat the counter; none does in the "
               "pinned tree (every write goes through NiOStream::write/writeline/writestring, which the translator lists)",
               "string-index fields are located through the NIFLY_VERIF string hook, i.e. only fields serialised through NiStringRef"]


def translate(ctx):
    ctx.ostream = ostream.generate()


def run(ctx):
    res = ctx.res
    wd = filecamp.workdir(ctx, "c07")
    try:
        rng = C.mkrng(ctx.seed, "c07")
        lines, meta = [], []
        k = 0
        samples = filecamp.sample_files()
        if ctx.replay:
            rp = json.load(open(ctx.replay))
            lines.append(rp["line"].replace("@WD@", wd))
            saved = [x.split(":")[1] for x in lines[0].split(" ") if x.startswith("save:")]
            meta.append((rp["label"], saved[-1] if saved else os.path.join(wd, "o0")))
        else:
            for f in samples:
                for mode in ("raw", "default"):
                    o = os.path.join(wd, f"o{k}"); k += 1
                    lines.append(f"fs load:{f} save:{o}:{mode}:trace")
                    meta.append((f"{os.path.basename(f)}/{mode}", o))
                for e in range(6 if ctx.tier == "thorough" else 2):
                    o = os.path.join(wd, f"o{k}"); k += 1
                    sd = rng.randrange(1, 10**6)
                    mode = rng.choice(["raw", "default"])
                    lines.append(f"fs load:{f} edit:{sd}:{rng.randrange(1, 12)} save:{o}:{mode}:trace")
                    meta.append((f"{os.path.basename(f)}/edit{sd}/{mode}", o))
            # models that keep the loaded string table (a block type the library does not know, made by renaming a type in the
            # header) and models whose node names are empty strings with a stale index beyond the table (what cloning from a
            # model with a larger table and renaming leaves behind): every written index must still be empty or in the table
            if ctx.driver:
                tw = C.run_lines_parallel(ctx.driver, [f"c07.walk {f}" for f in samples])
                for f, w in zip(samples, tw):
                    if "walk=ok" not in w:
                        continue
                    tys = [t for t in w.split(" types=")[1].split(" ")[0].split(",") if t and t not in ("NiNode", "BSFadeNode")]
                    for mode in ("raw", "default"):
                        o = os.path.join(wd, f"o{k}"); k += 1
                        lines.append(f"fs load:{f} staleindex:2 save:{o}:{mode}:trace")
                        meta.append((f"{os.path.basename(f)}/stale/{mode}", o))
                        if tys:
                            t = rng.choice(tys).replace("::", "~~")
                            u = os.path.join(wd, f"u{k}"); o = os.path.join(wd, f"o{k}"); k += 1
                            lines.append(f"fs relabel:{f}:{u}:{t} load:{u} staleindex:2 save:{o}:{mode}:trace")
                            meta.append((f"{os.path.basename(f)}/unknown+stale/{mode}", o))
            types = C.run_lines(ctx.harness, ["gen.types"])[0].split(",")
            vers = C.run_lines(ctx.harness, ["gen.versions"])[0].split(",")
            for t in types:
                if t in filecamp.SKIP_SYNTH:
                    continue
                for v in vers:
                    for rep in range(2 if ctx.tier == "thorough" else 1):
                        o = os.path.join(wd, f"o{k}"); k += 1
                        sd = rng.randrange(1, 10**6)
                        mc = rng.choice([3, 3, 9])
                        ed = f" edit:{sd}:{rng.randrange(1, 6)}" if rng.random() < 0.3 else ""
                        lines.append(f"fs synth:{t}:{v}:{sd}:2:{mc}{ed} save:{o}:raw:trace")
                        meta.append((f"{t}/{v}/{sd}/{mc}{'/edit' if ed else ''}", o))
        out = C.run_lines_parallel(ctx.harness, lines)
        wl, wm = [], []
        bad, skipped = [], 0
        for (label, o), line, st in zip(meta, lines, out):
            parts = st.split(" ")
            if parts[0].startswith("load-rc"):
                skipped += 1
                continue
            if any(not p.startswith("ok") for p in parts):
                if "synth" in line and parts[0] != "ok":
                    skipped += 1
                    continue
                bad.append((label, line, "script failed (crash or save error): " + st))
                continue
            wl.append(f"c07.walk {o} {o}.trace")
            wm.append((label, line))
        walked = C.run_lines_parallel(ctx.driver, wl) if ctx.driver else []
        nontrivial = 0
        for (label, line), w in zip(wm, walked):
            if w.startswith("fail") or w.startswith("io-error"):
                bad.append((label, line, w[:600]))
            elif "walk=ok" in w:
                nontrivial += 1
        for j, (label, line, why) in enumerate(bad[:3]):
            res.violation(f"oracle-{j}", dict(what=why, label=label, line=line.replace(wd, "@WD@")))
        res.coverage.update(
            evaluations=len(lines), distinct_nontrivial=nontrivial, traces_validated_against_impl=len(walked),
            rule="files written by the library: every sample file saved raw and default, after 2 (quick) / 6 (thorough) random edit "
                 "sequences (delete/add/replace/reorder/prune through the public API), and generated instances of every registered "
                 "type × 12 versions (30% with edits), sample models with a block type made unknown and/or node names that are empty "
                 "strings with a stale out-of-table index; each is decoded by the Lean header reader, walked along the size table to "
                 "the 8-byte footer and EOF; string table duplicates, max length, type table usage and every traced string index "
                 "field are checked. non-trivial = files with a size table whose walk was performed",
            not_loadable_or_not_synthesised=skipped, oracle_failures=len(bad),
            ostream_table=[str(r) for r in ctx.ostream[0]],
            samples=[w[:300] for w in walked[:: max(1, len(walked) // 4)]][:4])
    finally:
        filecamp.cleanup(wd)
