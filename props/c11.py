"""C11 — a copied model is equal to and fully independent of its source.
Lean: Graph/Copy.lean models CopyFrom (member-wise clone + LinkGeomData); Props/C11.lean proves equality of answers, absence of
shared pointers, and independence under writes and destruction in both directions.
D: (a) correspondence — for every input the harness reports, block by block, where each shape's cached geometry pointer lands in
   the source and in the copy (own block index / block of the other model / null); the Lean model computes the same from the
   source's description; (b) oracle under ASan/UBSan — copy (constructor, assignment, assignment over a live model, self
   assignment) saves to the same bytes and answers the same battery; editing the copy leaves the source's answers and bytes
   unchanged and vice versa; destroying either leaves the other usable."""
import json
import os

from props import filecamp
from vlib import common as C

LEAN_MODULES = ["NiflyVerif.Props.C11"]
ASSUMPTIONS = ["each block's copy constructor copies its value members deeply (std::vector / std::string members); a block holding another "
               "raw pointer than the geometry cache would escape the model — the dynamic run under ASan is what covers the rest",
               "BSGeometry (Starfield) keeps its mesh data inside the block; it has no cache and cannot be synthesised"]


def model_line(link):
    """driver command from a linkage description of the source"""
    blocks = [b.split(",") for b in link.split(";")]
    tyid, acc = {}, set()
    for b in blocks:
        tyid.setdefault(b[0], len(tyid) + 1)
    rows = []
    for b in blocks:
        dr, own = int(b[1]), int(b[2])
        if b[4] == "1" and 0 <= dr < len(blocks):
            acc.add((tyid[b[0]], tyid[blocks[dr][0]]))
        rows.append(f"{tyid[b[0]]},{dr},{own if own >= 0 else -1}")
    return "c11.copy " + (",".join(f"{g}:{d}" for g, d in sorted(acc)) or "-") + " " + ";".join(rows)


def impl_landing(linkB):
    out = []
    for b in linkB.split(";"):
        f = b.split(",")
        own, other = int(f[2]), int(f[3])
        out.append("n" if own == -1 else (f"o{own}" if own >= 0 else (f"s{other}" if other >= 0 else "x")))
    return " ".join(out)


def run(ctx):
    res = ctx.res
    rng = C.mkrng(ctx.seed, "c11")
    lines, labels = [], []
    if ctx.replay:
        rp = json.load(open(ctx.replay))
        lines, labels = [rp["line"]], [rp.get("label", "replay")]
    else:
        scen = ["ctor", "assign", "assignover", "self", "stale"]
        for f in filecamp.sample_files():
            for sc in scen:
                lines.append(f"c11.run load:{f} {sc} {rng.randrange(1, 10**6)}")
                labels.append(f"{os.path.basename(f)}/{sc}")
            lines.append(f"c11.run load:{f} {rng.choice(scen[:3])} {rng.randrange(1, 10**6)} perturb:{rng.randrange(1, 10**6)}")
            labels.append(f"{os.path.basename(f)}/perturbed")
        for ver in ["ob", "fo3", "sk", "sse", "fo4", "fo4_139", "fo76"]:
            for nv, nt in [(3, 1), (40, 60)]:
                for nb in (0, 3):
                    if nb and nv < 17:
                        continue
                    for sc in scen[:3] + (["self", "stale"] if nv == 40 else []):
                        lines.append(f"c11.run mesh:{ver}:{nv}:{nt}:{rng.randrange(1, 10**6)}:n:{nb} {sc} {rng.randrange(1, 10**6)} perturb:{rng.randrange(1, 10**6)}")
                        labels.append(f"mesh/{ver}/{nv}/{nb}/{sc}")
        types = C.run_lines(ctx.harness, ["gen.types"])[0].split(",")
        gvers = C.run_lines(ctx.harness, ["gen.versions"])[0].split(",")
        geom = [t for t in types if any(k in t for k in ("TriShape", "TriStrips", "NiLines", "ScreenElements", "Particle", "Geometry"))]
        for t in types:
            if t in filecamp.SKIP_SYNTH:
                continue
            for v in gvers:
                for rep in range(2 if ctx.tier == "thorough" else 1):
                    mix = t if t not in geom else t + "+" + rng.choice(["NiTriShapeData", "NiTriStripsData", "NiLinesData", "NiNode"])
                    lines.append(f"c11.run synth:{mix}:{v}:{rng.randrange(1, 10**6)}:3:{rng.choice([3, 9, 9])} {rng.choice(scen[:3])} {rng.randrange(1, 10**6)}")
                    labels.append(f"{mix}/{v}")
    out = C.run_lines_parallel(ctx.harness, lines, timeout=3000)
    bad, corr, skipped, nontrivial, landing_kinds = [], [], 0, 0, {}
    mlines, midx = [], []
    for i, (line, label, o) in enumerate(zip(lines, labels, out)):
        if o in ("unloadable-synth", "unknown-type", "save-failed"):
            skipped += 1
            continue
        if not o.startswith("linkA="):
            bad.append((label, line, "copy scenario crashed or failed: " + o[:300]))
            continue
        nontrivial += 1
        kv = dict(f.split("=", 1) for f in o.split(" ") if "=" in f)
        if "linkB" in kv:
            mlines.append(model_line(kv["linkA"]))
            midx.append(i)
            for x in impl_landing(kv["linkB"]).split(" "):
                landing_kinds[x[0]] = landing_kinds.get(x[0], 0) + 1
            if "stale-only" not in o and any(x.startswith(("s", "x")) for x in impl_landing(kv["linkB"]).split(" ")):
                bad.append((label, line, "a shape of the copy caches a pointer to a block that is not the copy's: " + impl_landing(kv["linkB"])[:200]))
        if "stale-only" in o:
            continue
        if "self" in kv:
            if kv["self"] != "same":
                bad.append((label, line, "self assignment changed the model: " + o.split("self=")[1][:200]))
            continue
        if kv.get("eqbytes") != "1":
            bad.append((label, line, "the copy saves to different bytes than its source"))
        if kv.get("eqq") != "1":
            bad.append((label, line, "the copy answers differently from its source: " + o.split("eqq=")[1][:200]))
        for key, what in (("srcAfterCopySave", "saving the copy changed the source"), ("srcAfterCopyEdit", "editing the copy changed the source"),
                          ("cpyAfterSrcEdit", "editing the source changed the copy"), ("afterSrcDestroyed", "destroying the source changed the copy")):
            if key in kv and kv[key] not in ("same",):
                bad.append((label, line, what + ": " + o.split(key + "=")[1][:200]))
    pred = C.run_lines_parallel(ctx.driver, mlines) if (ctx.driver and mlines) else []
    for i, p in zip(midx, pred):
        kv = dict(f.split("=", 1) for f in out[i].split(" ") if "=" in f)
        got = impl_landing(kv["linkB"])
        if p != got:
            corr.append((labels[i], lines[i], f"model predicts the copy's cached pointers land at [{p[:150]}], the library's land at [{got[:150]}]"))
    for j, (label, line, why) in enumerate(sorted(bad, key=lambda b: len(b[1]))[:3]):
        res.violation(f"oracle-{j}", dict(what=why, label=label, line=line))
    for j, (label, line, why) in enumerate(corr[:2]):
        res.violation(f"correspondence-{j}", dict(what=why, label=label, line=line, broken="correspondence Graph/Copy.lean copyFrom vs NifFile::CopyFrom"),
                      no_input=not any(b[1] == line for b in bad))
    res.coverage.update(
        evaluations=len(lines), distinct_nontrivial=nontrivial, traces_validated_against_impl=len(pred),
        rule="copy scenarios (constructor, assignment, assignment over a live model, self assignment, stale-cache boundary) on every "
             "sample file, API-built meshes in 7 versions (skinned and not, perturbed), generated instances of every block type (geometry "
             "types in all 12 versions mixed with data blocks of matching and non-matching type); per scenario: linkage comparison with the "
             "Lean model, bytes and battery equality, edits of either side, destruction in either order, under ASan/UBSan",
        landing_kinds=landing_kinds, not_synthesised=skipped, oracle_failures=len(bad), correspondence_failures=len(corr),
        samples=[f"{l} -> {o[-160:]}" for l, o in list(zip(lines, out))[:: max(1, len(lines) // 5)]][:5])
