"""C12 — LE<->SE conversion preserves geometry and skinning and yields a valid file.
Lean: Props/C12.lean — duplicate-name resolution yields pairwise distinct sibling names and leaves unique names alone;
byte quantisation of colours (NiflyXform/C13.lean) bounds the colour error by 1/255.
D: relational oracle: every LE/SE sample file and API-built meshes (skinned with flat/hierarchical skeletons or not, with/without
   normals and colours, several shapes, duplicate sibling names) × option combinations; per shape positions bit-exact, triangle set,
   UVs within half precision, colours within 1/255 (removal only of all-white colours), bone list, per-vertex weights by bone name,
   shader type, parent node; node hierarchy; distinct sibling names; save + reload in the target version with valid partition labels;
   conversion back compared with the original."""
import json
import os

from props import filecamp
from props.c14 import group
from vlib import common as C

LEAN_MODULES = ["NiflyVerif.Props.C12"]
ASSUMPTIONS = ["weights are compared per vertex by bone name with tolerance 1/512 (SSE stores them as half floats) and 1/256 after the way back",
               "headParts is only combined with dynamic shapes, as the option's documentation demands"]


def run(ctx):
    res = ctx.res
    rng = C.mkrng(ctx.seed, "c12")
    lines, labels = [], []
    if ctx.replay:
        rp = json.load(open(ctx.replay))
        lines, labels = [rp["line"]], [rp.get("label", "replay")]
    else:
        optsets = ["pbxs", "-", "b", "px", "bs", "s"]
        for f in filecamp.sample_files():
            g = group(f)
            if g not in ("sk", "sse"):
                continue
            dyn = "Dynamic" in os.path.basename(f)
            for o in optsets if ctx.tier == "thorough" else rng.sample(optsets, 3):
                lines.append(f"c12.run load:{f} {'sse' if g == 'sk' else 'sk'} {o}{'h' if dyn else ''}")
                labels.append(f"{os.path.basename(f)}/{o}")
        for ver in ("sk", "sse"):
            for nv, nt in [(3, 1), (24, 40), (150, 260)]:
                for fl in ("n", "nc", "", "c", "nd", "nde"):
                    for nb in (0, 3, 7):
                        if nb and nv < 20:
                            continue
                        for extra in (0, 2):
                            if "d" in fl and not extra:
                                continue
                            o = rng.choice(optsets)
                            lines.append(f"c12.run mesh:{ver}:{nv}:{nt}:{rng.randrange(1, 10**6)}:{fl}:{nb}:{extra} {'sse' if ver == 'sk' else 'sk'} {o}")
                            labels.append(f"mesh/{ver}/{nv}/{fl}/{nb}/{extra}/{o}")
    out = C.run_lines_parallel(ctx.harness, lines, timeout=3000)
    bad, nontrivial, types, unused = [], 0, {}, 0
    for line, label, o in zip(lines, labels, out):
        if not o.startswith("types="):
            bad.append((label, line, "conversion crashed or failed: " + o[:300]))
            continue
        nontrivial += 1
        for t in o.split(" ")[0][6:].split(","):
            if t:
                types[t] = types.get(t, 0) + 1
        r = o.split("result=", 1)[1]
        if r != "ok":
            body = r[4:]
            # weights of vertices no triangle uses: known finding, everything else is a violation
            rest = [p for p in body.split(";") if p.strip() and not p.strip().endswith("unused-vertex-weights")]
            if not rest:
                k = next((k for k in ctx.known if k["fingerprint"].startswith("weights of vertices no triangle uses")), None)
                if k:
                    unused += 1
                    continue
            bad.append((label, line, body[:400]))
    # correspondence: duplicate-name resolution, model vs library, on random sibling name lists
    corr, rl = [], []
    if not ctx.replay:
        alphabet = ["M", "M_1", "M_2", "N", "M_1_2", "N_1", "M_3"]
        for _ in range(300 if ctx.tier == "quick" else 3000):
            rl.append([rng.choice(alphabet) for _ in range(rng.randrange(1, 7))])
        impl = C.run_lines_parallel(ctx.harness, ["c12.rename " + ",".join(n.encode().hex() for n in l) for l in rl])
        model = C.run_lines_parallel(ctx.driver, ["c12.rename " + ",".join(l) for l in rl]) if ctx.driver else []
        for l, i, m in zip(rl, impl, model):
            got = ",".join(bytes.fromhex(h).decode() for h in i.split(" ")[0].split(",")) if " " in i else i
            if got != m:
                corr.append((l, got, m))
            elif len(set(got.split(","))) != len(l):
                bad.append(("rename", "c12.rename " + ",".join(n.encode().hex() for n in l), f"sibling names not distinct after RenameDuplicateShapes: {l} -> {got}"))
        # a disagreement on an input where the library's result still has distinct names is a broken correspondence without a
        # failing input for the property; one where names collide is the failing input
        corr.sort(key=lambda c: len(set(c[1].split(","))) == len(c[0]))
        for j, (l, got, m) in enumerate(corr[:2]):
            distinct = len(set(got.split(","))) == len(l)
            res.violation(f"correspondence-{j}", dict(what=f"RenameDuplicateShapes on {l}: library gives [{got}], model gives [{m}]"
                                                            + ("" if distinct else " — sibling names collide"),
                                                       line="c12.rename " + ",".join(n.encode().hex() for n in l),
                                                       broken="correspondence Graph/Rename.lean renameExact vs NifFile::RenameDuplicateShapes"),
                          no_input=distinct)
    ctx.allbad = bad
    if unused:
        k = next(k for k in ctx.known if k["fingerprint"].startswith("weights of vertices no triangle uses"))
        res.known.append(f"{k['what']} [{unused} cases]")
    for j, (label, line, why) in enumerate(sorted(bad, key=lambda b: len(b[1]))[:3]):
        res.violation(f"oracle-{j}", dict(what=why, label=label, line=line))
    res.coverage.update(
        evaluations=len(lines), distinct_nontrivial=nontrivial, traces_validated_against_impl=nontrivial,
        rule="LE->SE and SE->LE on every LE/SE sample file × 3 (quick) / 6 option sets (headParts only with the Dynamic samples) and on "
             "API-built meshes: 3 sizes × {normals, colours, both, neither, duplicate names} × {unskinned, 3 bones, 7 bones} × {1, 3 shapes}; "
             "per case: per-shape relation before/after, hierarchy, sibling names, save + reload in the target version, partition labels, "
             "conversion back",
        source_shape_types=types, oracle_failures=len(bad), rename_lists=len(rl), rename_correspondence_failures=len(corr),
        samples=[f"{l} -> {o[:160]}" for l, o in list(zip(lines, out))[:: max(1, len(lines) // 5)]][:5])
