"""C03 — blocks of unknown type survive load and save untouched.
D: sample and synthesised files with a size table, every non-empty subset (bounded) of their block type names relabelled
   to an unregistered name in the header bytes; the library loads and saves them (raw and default); the Lean reader
   compares input and output: same block count and type sequence, unknown payloads/sizes byte-identical at the same
   position, the input string table a prefix of the output's."""
import itertools
import json
import os

from props import filecamp
from vlib import common as C

LEAN_MODULES = ["NiflyVerif.Props.C03"]
ASSUMPTIONS = ["relabelling = first letter of the type name replaced by 'Z' in the header's type table (no registered type starts with Z)"]


def run(ctx):
    res = ctx.res
    wd = filecamp.workdir(ctx, "c03")
    try:
        rng = C.mkrng(ctx.seed, "c03")
        inputs = [(os.path.basename(f), f) for f in filecamp.sample_files()]
        if not ctx.replay:
            syn, _ = filecamp.synth_inputs(ctx, wd, [rng.randrange(1, 10**6)], versions=["fo3", "sse", "fo4", "fo76"],
                                           types=rng.sample(C.run_lines(ctx.harness, ["gen.types"])[0].split(","), 40 if ctx.tier == "quick" else 150))
            inputs += syn
            inputs += filecamp.constructed_inputs(ctx, wd)
        walked = C.run_lines_parallel(ctx.driver, [f"c07.walk {f}" for _, f in inputs])
        lines, meta = [], []
        k = 0
        cap = 64 if ctx.tier == "quick" else 1023
        if ctx.replay:
            rp = json.load(open(ctx.replay))
            inputs, walked = [(rp["input"], rp["path"])], [f"ok walk=ok types={','.join(rp['all_types'])} seq="]
        for (label, f), w in zip(inputs, walked):
            if "walk=ok" not in w:
                continue        # no size table: unknown blocks cannot be loaded at all
            types = w.split(" types=")[1].split(" ")[0].split(",")
            types = [t for t in types if t]
            subsets = []
            if ctx.replay:
                subsets = [rp["types"]]
            elif 2 ** len(types) - 1 <= cap:
                for r in range(1, len(types) + 1):
                    subsets += [list(c) for c in itertools.combinations(types, r)]
            else:
                subsets = [[t] for t in types] + [types]
                while len(subsets) < cap:
                    subsets.append(sorted(rng.sample(types, rng.randrange(1, len(types)))))
            for sub in subsets:
                for mode in ("raw", "default"):
                    u = os.path.join(wd, f"u{k}"); o = os.path.join(wd, f"o{k}"); k += 1
                    lines.append(f"fs relabel:{f}:{u}:{','.join(sub).replace('::', '~~')} load:{u} save:{o}:{mode}")
                    meta.append((label, f, sub, mode, u, o, types))
        out = C.run_lines_parallel(ctx.harness, lines)
        cl, cm = [], []
        bad = []
        for m, st in zip(meta, out):
            label, f, sub, mode, u, o, types = m
            p = st.split(" ")
            if len(p) != 3 or not p[0].startswith("ok") or p[1] != "ok+unknown" or p[2] != "ok":
                bad.append((m, "load/save of a file with unknown blocks failed: " + st))
                continue
            cl.append(f"c03.compare {u} {o} {','.join('Z' + t[1:] for t in sub)}")
            cm.append(m)
        cmp = C.run_lines_parallel(ctx.driver, cl) if ctx.driver else []
        nontrivial = 0
        for m, c in zip(cm, cmp):
            if not c.startswith("ok"):
                bad.append((m, c[:500]))
            else:
                nontrivial += 1
        for j, (m, why) in enumerate(sorted(bad, key=lambda b: len(b[0][2]))[:3]):
            label, f, sub, mode, u, o, types = m
            keep = os.path.join(C.REPLAYS, f"C03-input-{j}.nif")
            os.makedirs(C.REPLAYS, exist_ok=True)
            import shutil
            shutil.copy(f, keep)
            res.violation(f"oracle-{j}", dict(what=why, input=label, path=keep, types=sub, all_types=types, mode=mode))
        res.coverage.update(
            evaluations=len(lines), distinct_nontrivial=nontrivial, traces_validated_against_impl=len(cmp),
            exhaustive=True,
            rule="every sample file with a size table (+ synthesised files) × every non-empty subset of its block type names "
                 "(exhaustive when ≤ 64 (quick) / 1023 (thorough) subsets, otherwise all singletons, the full set and random subsets) "
                 "× {raw, default} save; non-trivial = cases the Lean reader compared and accepted",
            inputs=len(inputs), oracle_failures=len(bad),
            samples=[l[:220] for l in lines[:: max(1, len(lines) // 4)]][:4])
    finally:
        filecamp.cleanup(wd)
