"""C17 — segment labels round-trip and always partition the triangles.
D: the real SetShapeSegments / GetShapeSegments on FO4/FO76 shapes (samples and constructed meshes): all triangle counts 0..8 ×
   label lists over a small alphabet exhaustively (bounded), random larger ones, permuted ids, empty segments, sub-segments, -1;
   then vertex deletion, save and reload. Oracle = the property; correspondence = Lean setSegmentation/getLabels predict the
   stored order, the raw range table and the labels read back; the re-fit after a vertex deletion: Lean `refit` (Mesh/SegRefit.lean)
   against BSSubIndexTriShape::notifyVerticesDelete on the same ranges and removed-triangle list, plus the theorems' hypotheses
   (list strictly descending, ranges tiled the triangles) checked on what the library produced (props/segrefit.py)."""
import itertools
import json

from props import filecamp
from props import segrefit
from props import shapeparse as SP
from vlib import common as C

LEAN_MODULES = ["NiflyVerif.Props.C17", "NiflyVerif.Props.SegRefit"]
ASSUMPTIONS = ["a triangle labelled -1 (unassigned) joins the first partition: the FO4 format has no way to leave a triangle outside "
               "every range; this is taken as part of 'the documented renumbering'",
               "labels that do not occur in the segmentation info are outside SetShapeSegments' domain (the model returns ub) and "
               "are not sent to the implementation"]


def ranges_ok(o):
    rs = o["RAWSEG"]
    if rs is None:
        return ["no segment table"]
    why = []
    pos = 0
    total = 0
    for k, s in enumerate(rs["segs"]):
        if s["start"] != 3 * pos:
            why.append(f"segment {k} starts at point {s['start']}, expected {3 * pos} (ranges not contiguous/ordered)")
        sp = None
        ssum = 0
        for j, (st, n, ai) in enumerate(s["subs"]):
            if sp is not None and st != sp:
                why.append(f"sub-segment {k}.{j} starts at {st}, previous ended at {sp}")
            if st < s["start"] or st + 3 * n > s["start"] + 3 * s["n"]:
                why.append(f"sub-segment {k}.{j} lies outside its segment")
            sp = st + 3 * n
            ssum += n
        if s["subs"] and sp != s["start"] + 3 * s["n"]:
            why.append(f"sub-segments of segment {k} do not end where the segment ends")
        pos += s["n"]
        total += s["n"]
    if total != o["nt"] or rs["numPrimitives"] != o["nt"]:
        why.append(f"ranges sum to {total} (numPrimitives {rs['numPrimitives']}) for {o['nt']} triangles")
    if rs["numSegments"] != len(rs["segs"]):
        why.append("numSegments disagrees with the segment list")
    return why


def expected(inf, labels):
    pre = []
    for p, subs in inf:
        pre.append(p)
        pre += subs
    new = [0 if l < 0 else pre.index(l) for l in labels]
    order = sorted(range(len(labels)), key=lambda i: new[i])
    return pre, new, order


def fmt_inf(inf):
    return ";".join(f"{p}:{','.join(map(str, s))}" for p, s in inf) if inf else "-"


def gen_cases(tier, rng):
    cases = []
    infs = [[(0, [])], [(0, []), (1, [])], [(0, [1, 2]), (3, [])], [(7, [9, 0]), (2, []), (4, [])], [(2, [1]), (0, [])],
            [(0, []), (1, [2, 3, 4]), (5, [])], [(3, []), (2, []), (1, []), (0, [])]]
    for inf in infs:
        ids = [p for p, s in inf] + [x for p, s in inf for x in s]
        alpha = ids + [-1]
        maxn = 4 if tier == "quick" else 5
        for n in range(0, maxn + 1):
            for labels in itertools.product(alpha[:4], repeat=n):
                cases.append((inf, list(labels), n, None))
    for _ in range(60 if tier == "quick" else 400):
        inf = rng.choice(infs)
        ids = [p for p, s in inf] + [x for p, s in inf for x in s]
        nt = rng.choice([1, 2, 7, 30, 200, 1000])
        labels = [rng.choice(ids + [-1]) if rng.random() < 0.9 else ids[0] for _ in range(nt)]
        if rng.random() < 0.3:     # leave some partitions empty
            keep = ids[: max(1, len(ids) // 2)]
            labels = [rng.choice(keep) for _ in range(nt)]
        cases.append((inf, labels, nt, "del"))
    return cases


def run(ctx):
    res = ctx.res
    rng = C.mkrng(ctx.seed, "c17")
    lines, meta = [], []
    if ctx.replay and json.load(open(ctx.replay))["line"].startswith("c17.refit"):
        viol, st = segrefit.campaign(ctx, rng, 0, only=json.load(open(ctx.replay))["line"])
        segrefit.report(res, viol, "C17")
        res.coverage.update(evaluations=1, distinct_nontrivial=1, refit=st)
        return
    if ctx.replay:
        rp = json.load(open(ctx.replay))
        lines, meta = [rp["line"]], [(rp["inf"], rp["labels"])]
        meta = [([tuple(x) for x in rp["inf"]], rp["labels"])]
    else:
        for inf, labels, nt, dele in gen_cases(ctx.tier, rng):
            nv = max(3, min(2 * nt + 3, 3000))
            ver = rng.choice(["fo4", "fo4", "fo76"])
            sd = rng.randrange(1, 10**6)
            extra = ""
            if dele and nt > 2:
                k = rng.randrange(1, max(2, nv // 6))
                extra = " del:" + ",".join(map(str, sorted(rng.sample(range(nv), k))))
            lines.append(f"c17.run mesh:{ver}:{nv}:{nt}:{sd}:n 0 {fmt_inf(inf)} {','.join(map(str, labels)) or '-'}{extra} reload")
            meta.append((inf, labels))
        # sample FO4 shapes: relabel their existing segmentation with permuted ids
        for f in filecamp.sample_files():
            if "FO4" not in f:
                continue
            info = C.run_lines(ctx.harness, [f"c09.shapes {f}"])[0]
            for s in info.split(" "):
                if "BSSubIndexTriShape" not in s:
                    continue
                k, nt = s.split(":")[0], int(s.split(":")[-1])
                inf = [(5, [3, 8]), (1, []), (0, [2])]
                ids = [5, 3, 8, 1, 0, 2]
                labels = [rng.choice(ids + [-1]) for _ in range(nt)]
                lines.append(f"c17.run load:{f} {k} {fmt_inf(inf)} {','.join(map(str, labels))} del:0,1,5 reload")
                meta.append((inf, labels))
    out = C.run_lines_parallel(ctx.harness, lines)
    model = C.run_lines_parallel(ctx.driver, [f"c17.set {fmt_inf(inf)} {','.join(map(str, lab)) or '-'}" for inf, lab in meta]) if ctx.driver else None
    bad, mism = [], []
    nontrivial = 0
    for i, ((inf, labels), line, o) in enumerate(zip(meta, lines, out)):
        if " | " not in o:
            if o not in ("no-shape", "load-failed"):
                bad.append((i, "crashed / failed: " + o[:200]))
            continue
        parts = o.split(" | ")
        B, A = SP.parse(parts[0]), SP.parse(parts[1])
        if len(labels) != len(B["T"]):
            continue            # SetShapeSegments ignores a label list of the wrong length
        why = ranges_ok(A)
        pre, new, order = expected(inf, labels)
        if sorted(A["T"]) != sorted(B["T"]):
            why.append("stored triangles are not a permutation of the previous ones")
        elif A["T"] != [B["T"][k] for k in order]:
            why.append("triangles are not stored in label order (stable)")
        if A["SEGTRI"] is not None and A["SEGTRI"] != [new[k] for k in order]:
            why.append(f"labels read back {A['SEGTRI'][:12]} differ from the renumbered labels {[new[k] for k in order][:12]}")
        if A["SEGS"] is not None:
            exp_shape = [len(s) for p, s in inf]
            if [len(s) for p, s in A["SEGS"]] != exp_shape or [x for p, s in A["SEGS"] for x in [p] + s] != list(range(len(pre))):
                why.append(f"segmentation info read back {A['SEGS']} is not the renumbered input")
        if model is not None and model[i] != "ub":
            mo, mt, ml = model[i].split(" ")
            raw = "|".join(f"{s['start']},{s['n']}:" + ";".join(f"{a},{b}" for a, b, c in s["subs"]) for s in A["RAWSEG"]["segs"]) or "-"
            got_order = ",".join(str(B["T"].index(t)) for t in A["T"]) if len(set(B["T"])) == len(B["T"]) else None
            if raw != mt or (A["SEGTRI"] is not None and ",".join(map(str, A["SEGTRI"])) != ("" if ml == "-" else ml)) \
                    or (got_order is not None and got_order != ("" if mo == "-" else mo)):
                mism.append((i, f"model table {mt} labels {ml[:60]} order {mo[:60]} vs implementation table {raw}"))
        k = 2
        cur = A
        if not why and " del:" in line and len(parts) > k and not parts[k].startswith("RELOADED"):
            D = SP.parse(parts[k])
            w2 = ranges_ok(D)
            if w2:
                why += ["after vertex deletion: " + x for x in w2[:2]]
            else:
                # survivors keep their label
                dele = set(int(x) for x in line.split(" del:")[1].split(" ")[0].split(","))
                keep = [j for j, t in enumerate(A["T"]) if not (set(t) & dele)]
                if D["SEGTRI"] is not None and A["SEGTRI"] is not None and D["SEGTRI"] != [A["SEGTRI"][j] for j in keep]:
                    why.append("after vertex deletion surviving triangles changed their segment")
            cur = D
            k += 1
        if not why and len(parts) > k:
            if not parts[k].startswith("RELOADED"):
                why.append("save/reload failed: " + parts[k][:80])
            else:
                R = SP.parse(parts[k][9:])
                if R["SEGTRI"] != cur["SEGTRI"] or R["RAWSEG"] != cur["RAWSEG"] or R["T"] != cur["T"]:
                    why.append("segmentation differs after save and reload")
        if why:
            bad.append((i, "; ".join(why[:3])))
        if len(set(labels)) > 1:
            nontrivial += 1
    for j, (i, why) in enumerate(sorted(bad, key=lambda b: len(lines[b[0]]))[:3]):
        res.violation(f"oracle-{j}", dict(what=why, line=lines[i], inf=[list(x) for x in meta[i][0]], labels=meta[i][1]))
    if mism and not bad:
        i, why = mism[0]
        res.violation("correspondence", dict(what="correspondence Mesh/Segments.lean <-> SetSegmentation/GetSegmentation no longer checks: " + why,
                                             broken="correspondence c17 segmentation", line=lines[i], inf=[list(x) for x in meta[i][0]],
                                             labels=meta[i][1], mismatches=len(mism)), no_input=True)
    rst = None
    if not ctx.replay:
        rviol, rst = segrefit.campaign(ctx, rng, 150 if ctx.tier == "quick" else 2000)
        segrefit.report(res, rviol, "C17")
    res.coverage.update(
        refit_after_vertex_deletion=rst,
        evaluations=len(lines), distinct_nontrivial=nontrivial, traces_validated_against_impl=len(lines) if model else 0,
        exhaustive=True,
        rule="7 segmentation shapes (plain, sub-segments, permuted ids, many segments) × every label list of length 0..4 (quick) / 0..5 "
             "(thorough) over 4 labels incl. -1, random lists up to 1000 triangles incl. empty partitions, followed by vertex deletion, "
             "save and reload; FO4 sample shapes relabelled. non-trivial = label lists with at least two different labels",
        model_vs_impl_mismatches=len(mism), oracle_failures=len(bad),
        samples=[l[:160] for l in lines[:: max(1, len(lines) // 5)]][:5])
