"""C14 — cloning a shape yields a self-contained copy and leaves the source untouched.
Lean: Graph/Clone.lean models CloneChildren (recursive clone of the child tree into the destination header, reference
re-assignment); Props/C14.lean proves that the destination's previous blocks are untouched, that every child reference below the
clone resolves inside the destination to a block carrying the source child's content, and that the source is not modified.
D: correspondence — CloneChildren on the clone of every block of every sample file against the Lean model on the same graph, compared
   as trees below the clone; oracle under ASan/UBSan — every shape of every sample file and API-built (skinned) meshes cloned into the same model, a fresh
   model of the same version, the same file loaded a second time, another model; twice in a row; the clone is compared with the
   source shape (geometry, skin, partitions, segments, shader, textures, bone list by name), its block tree is walked in parallel
   with the source's, the source is compared before/after (bytes + battery), the destination is saved and reloaded."""
import json
import os

from props import filecamp
from vlib import common as C

LEAN_MODULES = ["NiflyVerif.Props.C14"]
ASSUMPTIONS = ["the bone-node part of CloneShape (CloneNamedNode, re-parenting of existing nodes, rebuild of the bone list by name) is "
               "judged by the oracle only; the Lean model covers CloneChildren",
               "the correspondence compares the cloned trees up to the order in which sibling references are numbered (address order of a "
               "std::set<NiRef*> in the library); sources with dangling child references are skipped and counted"]


def group(f):
    """game of a sample file from its header: (file version, user version, stream version) -> harness version name"""
    import struct
    d = open(f, "rb").read(200)
    p = d.index(b"\n") + 1
    ver, = struct.unpack_from("<I", d, p)
    user, = struct.unpack_from("<I", d, p + 5)
    stream = 0
    if user >= 3 or ver == 0x14020007:
        stream, = struct.unpack_from("<I", d, p + 13)
    if ver == 0x14000005:
        return "ob"
    if user == 11:
        return "fo3"
    return {83: "sk", 100: "sse", 130: "fo4", 132: "fo4_132", 139: "fo4_139", 155: "fo76"}.get(stream, "sf" if stream >= 170 else f"v{stream}")


def clone_canon(n0, rows, back):
    """the blocks from index n0 on as a tree below block n0: type(sorted kids | sorted pointers); new blocks by shape, not by number;
    a pointer to an ancestor inside the clone by its depth"""
    blks = []
    for r in rows.split("|"):
        t, k, p = r.split(";")
        ref = lambda s_: [] if s_ in ("-", "") else [int(x) for x in s_.split(",")]
        blks.append((back[int(t)] if back else t, ref(k), ref(p)))
    used = [0]

    def go(i, path):
        used[0] += 1
        if len(path) > 200:
            return "deep"
        t, ks, ps = blks[i - n0]
        path = path + [i]
        kk = sorted(go(k, path) if n0 < k < n0 + len(blks) and k not in path else f"r{k}" for k in ks)
        pp = sorted(f"anc{path.index(p)}" if p in path else (f"new{p - n0}" if n0 <= p < n0 + len(blks) else f"p{p}") for p in ps)
        return f"{t}({','.join(kk)}|{','.join(pp)})"
    c = go(n0, [])
    return f"{len(blks)}/{used[0]}:{c}"


def run(ctx):
    res = ctx.res
    rng = C.mkrng(ctx.seed, "c14")
    lines, labels = [], []
    if ctx.replay:
        rp = json.load(open(ctx.replay))
        lines, labels = [rp["line"]], [rp.get("label", "replay")]
    else:
        samples = filecamp.sample_files()
        counts = C.run_lines_parallel(ctx.harness, [f"c09.shapes {f}" for f in samples])
        for f, cnt in zip(samples, counts):
            n = 0 if cnt in ("-", "load-failed") or ":" not in cnt else len(cnt.split(" "))
            peers = [g for g in samples if g != f and group(g) == group(f)]
            for si in range(min(n, 4 if ctx.tier == "quick" else 12)):
                dests = ["same", "fresh", f"load:{f}"]
                if peers:
                    dests.append("load:" + rng.choice(peers))
                dests.append(f"mesh:{group(f)}:30:40:{rng.randrange(1, 10**6)}:n:3")
                for d in dests:
                    if (group(f) == "sf" or group(f).startswith("v")) and d.startswith("mesh"):
                        continue
                    lines.append(f"c14.run load:{f} {d} {si} 2")
                    labels.append(f"{os.path.basename(f)}/{si}/{d.split(':')[0]}")
        for ver in ["ob", "fo3", "sk", "sse", "fo4", "fo4_139", "fo76"]:
            for nb in (0, 4):
                for fl in ("n", "nc"):
                    src = f"mesh:{ver}:{rng.randrange(20, 80)}:{rng.randrange(20, 90)}:{rng.randrange(1, 10**6)}:{fl}:{nb}"
                    for d in ("same", "fresh", f"mesh:{ver}:25:30:{rng.randrange(1, 10**6)}:n:{rng.choice([0, 2, 6])}"):
                        lines.append(f"c14.run {src} {d} 0 {rng.choice([1, 2, 3])}")
                        labels.append(f"mesh/{ver}/{nb}/{fl}/{d.split(':')[0]}")
    out = C.run_lines_parallel(ctx.harness, lines, timeout=3000)
    bad, nontrivial, kinds = [], 0, {}
    for line, label, o in zip(lines, labels, out):
        if o in ("no-such-shape",):
            continue
        if not o.startswith("src="):
            bad.append((label, line, "clone scenario crashed or failed: " + o[:300]))
            continue
        nontrivial += 1
        kv = {}
        for f in o.split(" "):
            if "=" in f and f.split("=", 1)[0] in ("src", "source", "destprev", "reload") or f.startswith("clone"):
                k, _, v = f.partition("=")
                kv[k] = v
        kinds[kv.get("src", "?")] = kinds.get(kv.get("src", "?"), 0) + 1
        why = []
        for k in kv:
            if k.startswith("clone") and kv[k] != "ok":
                why.append(o.split(k + "=")[1].split(" source=")[0][:250])
        if kv.get("source") != "same":
            why.append("the source was modified: " + o.split("source=")[1][:150])
        if kv.get("destprev") != "same":
            why.append("a shape the destination held before changed: " + kv.get("destprev", ""))
        if kv.get("reload") != "ok":
            why.append("destination save/reload: " + o.split("reload=")[1][:200])
        if why:
            bad.append((label, line, "; ".join(why[:3])))
    # correspondence: Graph/Clone.lean `cloneChildren` against NifFile::CloneChildren, every block of every sample file (and of
    # API-built skinned meshes) as the clone root; the two results are compared as trees below the clone (the implementation walks
    # a block's references in address order of a std::set, which only decides the numbering)
    corr, ncorr, cl, skipped_dangling, rebound, deep = [], 0, [], 0, 0, 0
    if not ctx.replay and ctx.driver:
        srcs = [f"load:{f}" for f in filecamp.sample_files()]
        srcs += [f"mesh:{v}:30:40:{rng.randrange(1, 10**6)}:n:{nb}" for v in ("ob", "fo3", "sse", "fo4", "fo76") for nb in (0, 5)]
        nbs = C.run_lines_parallel(ctx.harness, [f"c14.nblocks {x}" for x in srcs])
        for x, nb in zip(srcs, nbs):
            if not nb.isdigit():
                continue
            idx = list(range(int(nb)))
            if ctx.tier == "quick" and len(idx) > 25:
                idx = sorted(rng.sample(idx, 25))
            cl += [f"c14.kids {x} {i}" for i in idx]
        impl = C.run_lines_parallel(ctx.harness, cl, timeout=3000)
        ml, mi = [], []
        for i, o in enumerate(impl):
            if not o.startswith("n0="):
                bad.append(("clone-children", cl[i], "CloneChildren on the clone of one block crashed or failed: " + o[:200]))
                continue
            kv = dict(x.split("=", 1) for x in o.split(" "))
            if kv["prev"] != "same":
                bad.append(("clone-children", cl[i], "CloneChildren changed a block the destination held before"))
            names = {}
            rows = [r.split(";") for r in kv["src"].split("|")]
            if any(k not in ("-", "") and int(k) >= len(rows) for r in rows for k in r[1].split(",")):
                skipped_dangling += 1
                continue
            enc = "|".join(f"{names.setdefault(r[0], len(names) + 1)};{r[1]};{r[2]}" for r in rows)
            ml.append(f"c14.clone {kv['n0']} {kv['root']} {enc}")
            mi.append((i, int(kv["n0"]), kv["dest"], {v: k for k, v in names.items()}))
        model = C.run_lines_parallel(ctx.driver, ml)
        for (i, n0, dest, back), m in zip(mi, model):
            ncorr += 1
            a = clone_canon(n0, dest, None)
            rebound += "anc" in a
            deep += a.count("(") > 2
            b = clone_canon(n0, m, back) if "bad-op" not in m else "bad-op"
            if a != b:
                corr.append((cl[i], a, b))
        for j, (l, a, b) in enumerate(corr[:2]):
            res.violation(f"correspondence-{j}", dict(what=f"CloneChildren leaves [{a[:300]}], the model cloneChildren [{b[:300]}]", line=l,
                                                       broken="correspondence Graph/Clone.lean cloneChildren vs NifFile::CloneChildren"), no_input=True)
    ctx.allbad = bad
    for j, (label, line, why) in enumerate(sorted(bad, key=lambda b: len(b[1]))[:3]):
        res.violation(f"oracle-{j}", dict(what=why, label=label, line=line))
    res.coverage.update(
        evaluations=len(lines), distinct_nontrivial=nontrivial, traces_validated_against_impl=nontrivial,
        rule="every shape (first 4 per file in quick, 12 in thorough) of every sample file and API-built meshes in 7 versions (skinned / not, "
             "colours) × destination {same model, fresh model, same file loaded again, another sample of the same game, API-built skinned "
             "mesh} × 1..3 consecutive clones; per clone: full shape observation, shader/textures, bone list, parallel block-tree walk, "
             "cached geometry pointer; source bytes+battery before/after; destination save+reload",
        source_shape_types=kinds, oracle_failures=len(bad), clone_children_cases=ncorr, clone_children_mismatches=len(corr),
        clone_children_skipped_dangling=skipped_dangling, clone_children_with_rebound_pointer=rebound,
        clone_children_with_grandchildren=deep,
        samples=[f"{l} -> {o[:160]}" for l, o in list(zip(lines, out))[:: max(1, len(lines) // 5)]][:5])
