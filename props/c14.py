"""C14 — cloning a shape yields a self-contained copy and leaves the source untouched.
Lean: Graph/Clone.lean models CloneChildren (recursive clone of the child tree into the destination header, reference
re-assignment); Props/C14.lean proves that the destination's previous blocks are untouched, that every child reference below the
clone resolves inside the destination to a block carrying the source child's content, and that the source is not modified.
D: oracle under ASan/UBSan — every shape of every sample file and API-built (skinned) meshes cloned into the same model, a fresh
   model of the same version, the same file loaded a second time, another model; twice in a row; the clone is compared with the
   source shape (geometry, skin, partitions, segments, shader, textures, bone list by name), its block tree is walked in parallel
   with the source's, the source is compared before/after (bytes + battery), the destination is saved and reloaded."""
import json
import os

from props import filecamp
from vlib import common as C

LEAN_MODULES = ["NiflyVerif.Props.C14"]
ASSUMPTIONS = ["the bone-node part of CloneShape (CloneNamedNode, re-parenting of existing nodes, rebuild of the bone list by name) is "
               "judged by the oracle only; the Lean model covers CloneChildren"]


def group(f):
    """game of a sample file from its header: (file version, user version, stream version) -> harness version name"""
    import struct
    d = open(f, "rb").read(200)
    p = d.index(b"\n") + 1
    ver, = struct.unpack_from("<I", d, p)
    user, = struct.unpack_from("<I", d, p + 5)
    stream = 0
    if user >= 3 or ver == 0x14020007:
        stream, = struct.unpack_from("<I", d, p + 13)
    if ver == 0x14000005:
        return "ob"
    if user == 11:
        return "fo3"
    return {83: "sk", 100: "sse", 130: "fo4", 132: "fo4_132", 139: "fo4_139", 155: "fo76"}.get(stream, "sf" if stream >= 170 else f"v{stream}")


def run(ctx):
    res = ctx.res
    rng = C.mkrng(ctx.seed, "c14")
    lines, labels = [], []
    if ctx.replay:
        rp = json.load(open(ctx.replay))
        lines, labels = [rp["line"]], [rp.get("label", "replay")]
    else:
        samples = filecamp.sample_files()
        counts = C.run_lines_parallel(ctx.harness, [f"c09.shapes {f}" for f in samples])
        for f, cnt in zip(samples, counts):
            n = 0 if cnt in ("-", "load-failed") or ":" not in cnt else len(cnt.split(" "))
            peers = [g for g in samples if g != f and group(g) == group(f)]
            for si in range(min(n, 4 if ctx.tier == "quick" else 12)):
                dests = ["same", "fresh", f"load:{f}"]
                if peers:
                    dests.append("load:" + rng.choice(peers))
                dests.append(f"mesh:{group(f)}:30:40:{rng.randrange(1, 10**6)}:n:3")
                for d in dests:
                    if (group(f) == "sf" or group(f).startswith("v")) and d.startswith("mesh"):
                        continue
                    lines.append(f"c14.run load:{f} {d} {si} 2")
                    labels.append(f"{os.path.basename(f)}/{si}/{d.split(':')[0]}")
        for ver in ["ob", "fo3", "sk", "sse", "fo4", "fo4_139", "fo76"]:
            for nb in (0, 4):
                for fl in ("n", "nc"):
                    src = f"mesh:{ver}:{rng.randrange(20, 80)}:{rng.randrange(20, 90)}:{rng.randrange(1, 10**6)}:{fl}:{nb}"
                    for d in ("same", "fresh", f"mesh:{ver}:25:30:{rng.randrange(1, 10**6)}:n:{rng.choice([0, 2, 6])}"):
                        lines.append(f"c14.run {src} {d} 0 {rng.choice([1, 2, 3])}")
                        labels.append(f"mesh/{ver}/{nb}/{fl}/{d.split(':')[0]}")
    out = C.run_lines_parallel(ctx.harness, lines, timeout=3000)
    bad, nontrivial, kinds = [], 0, {}
    for line, label, o in zip(lines, labels, out):
        if o in ("no-such-shape",):
            continue
        if not o.startswith("src="):
            bad.append((label, line, "clone scenario crashed or failed: " + o[:300]))
            continue
        nontrivial += 1
        kv = {}
        for f in o.split(" "):
            if "=" in f and f.split("=", 1)[0] in ("src", "source", "destprev", "reload") or f.startswith("clone"):
                k, _, v = f.partition("=")
                kv[k] = v
        kinds[kv.get("src", "?")] = kinds.get(kv.get("src", "?"), 0) + 1
        why = []
        for k in kv:
            if k.startswith("clone") and kv[k] != "ok":
                why.append(o.split(k + "=")[1].split(" source=")[0][:250])
        if kv.get("source") != "same":
            why.append("the source was modified: " + o.split("source=")[1][:150])
        if kv.get("destprev") != "same":
            why.append("a shape the destination held before changed: " + kv.get("destprev", ""))
        if kv.get("reload") != "ok":
            why.append("destination save/reload: " + o.split("reload=")[1][:200])
        if why:
            bad.append((label, line, "; ".join(why[:3])))
    ctx.allbad = bad
    for j, (label, line, why) in enumerate(sorted(bad, key=lambda b: len(b[1]))[:3]):
        res.violation(f"oracle-{j}", dict(what=why, label=label, line=line))
    res.coverage.update(
        evaluations=len(lines), distinct_nontrivial=nontrivial, traces_validated_against_impl=nontrivial,
        rule="every shape (first 4 per file in quick, 12 in thorough) of every sample file and API-built meshes in 7 versions (skinned / not, "
             "colours) × destination {same model, fresh model, same file loaded again, another sample of the same game, API-built skinned "
             "mesh} × 1..3 consecutive clones; per clone: full shape observation, shader/textures, bone list, parallel block-tree walk, "
             "cached geometry pointer; source bytes+battery before/after; destination save+reload",
        source_shape_types=kinds, oracle_failures=len(bad),
        samples=[f"{l} -> {o[:160]}" for l, o in list(zip(lines, out))[:: max(1, len(lines) // 5)]][:5])
