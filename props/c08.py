"""C08 — wire format stays compatible with the reference release.
T: translator/syncsigs.py regenerates structural signatures of every wire function for /repo and /verif/reference;
   Props/C08.lean proves the two tables equal.
D: two harness builds (reference sources, current sources). Inputs: the sample files, constructed models and populated
   instances of every registered type × version synthesised by EITHER build. Each build raw-re-saves every input; the two
   outputs must be byte-identical and each build must re-read its own and the other's output to the same bytes."""
import json
import os

from props import filecamp
from translator import syncsigs
from vlib import common as C

LEAN_MODULES = ["NiflyVerif.Props.C08"]
REF = os.path.join(C.VERIF, "reference")
TRUSTED_EXTRA = ["translator/syncsigs.py + clang-14 AST (structural signatures, sha256)",
                 "/verif/reference = vendored sources of the reference release: pinned tree + NIFLY_VERIF hooks + the fix: commits of "
                 "this work (a repair that changes written bytes on purpose would otherwise be reported as an incompatibility)"]
ASSUMPTIONS = ["equal structural signatures imply equal wire behaviour (same code); unequal ones are decided by the differential run"]


def translate(ctx):
    ctx.sigs = syncsigs.generate(REF)


def run(ctx):
    res = ctx.res
    wd = filecamp.workdir(ctx, "c08")
    try:
        rng = C.mkrng(ctx.seed, "c08")
        href = C.build_harness("san", repo=REF, tag="ref")
        hcur = ctx.harness
        seeds = [rng.randrange(1, 10**6) for _ in range(3 if ctx.tier == "thorough" else 1)]
        inputs = [(os.path.basename(f), f) for f in filecamp.sample_files()]
        focus_types = None
        if ctx.replay:
            rp = json.load(open(ctx.replay))
            inputs = [(rp["input"], rp["path"])]
        else:
            d = os.path.join(wd, "cur"); os.makedirs(d)
            syn, _ = filecamp.synth_inputs(ctx, d, seeds, maxcounts=(3, 9), harness=hcur)
            inputs += [("cur:" + l, p) for l, p in syn]
            d = os.path.join(wd, "ref"); os.makedirs(d)
            syn, _ = filecamp.synth_inputs(ctx, d, seeds[:1], maxcounts=(3,), harness=href)
            inputs += [("ref:" + l, p) for l, p in syn]
            inputs += filecamp.constructed_inputs(ctx, wd)
            # focused generation on the classes whose signature differs
            diff_cls = sorted(set(n.split("::")[0] for n in ctx.sigs["differing"]))
            known = set(C.run_lines(hcur, ["gen.types"])[0].split(","))
            focus_types = [c for c in diff_cls if c in known]
            if focus_types:
                d = os.path.join(wd, "focus"); os.makedirs(d)
                syn, _ = filecamp.synth_inputs(ctx, d, [rng.randrange(1, 10**6) for _ in range(12)], types=focus_types,
                                               maxcounts=(1, 3, 9), harness=hcur)
                inputs += [("focus:" + l, p) for l, p in syn]
        lc, lr, meta = [], [], []
        for k, (label, f) in enumerate(inputs):
            b = os.path.join(wd, f"x{k}")
            lc.append(f"fs load:{f} save:{b}.c1:raw")
            lr.append(f"fs load:{f} save:{b}.r1:raw")
            meta.append((label, f, b))
        oc = C.run_lines_parallel(hcur, lc)
        orr = C.run_lines_parallel(href, lr)
        # second stage: each build re-reads the other's output
        lc2, lr2, idx = [], [], []
        bad = []
        for i, ((label, f, b), a, r) in enumerate(zip(meta, oc, orr)):
            if a.startswith("load-rc") and r.startswith("load-rc"):
                continue
            if a != r or not a.startswith("ok"):
                bad.append((label, f, f"the two builds do not handle the input alike: current '{a}' reference '{r}'"))
                continue
            lc2.append(f"fs load:{b}.r1 save:{b}.c2:raw")
            lr2.append(f"fs load:{b}.c1 save:{b}.r2:raw")
            idx.append(i)
        oc2 = C.run_lines_parallel(hcur, lc2)
        or2 = C.run_lines_parallel(href, lr2)
        cmp_lines, cmp_meta = [], []
        for j, i in enumerate(idx):
            label, f, b = meta[i]
            if not (oc2[j].startswith("ok") and or2[j].startswith("ok")):
                bad.append((label, f, f"a build cannot re-read the other build's output: current '{oc2[j]}' reference '{or2[j]}'"))
                continue
            for x, y, what in ((f"{b}.c1", f"{b}.r1", "files written by the two builds differ"),
                               (f"{b}.c2", f"{b}.r1", "current build re-encodes the reference build's file differently"),
                               (f"{b}.r2", f"{b}.c1", "reference build re-encodes the current build's file differently")):
                cmp_lines.append(f"bytes.eq {x} {y}")
                cmp_meta.append((label, f, what))
        cmp = C.run_lines_parallel(ctx.driver, cmp_lines) if ctx.driver else []
        for (label, f, what), c in zip(cmp_meta, cmp):
            if not c.startswith("same"):
                bad.append((label, f, what + ": " + c))
        seen = set()
        j = 0
        for label, f, why in bad:
            if label in seen or j >= 3:
                continue
            seen.add(label)
            keep = os.path.join(C.REPLAYS, f"C08-input-{j}.nif")
            os.makedirs(C.REPLAYS, exist_ok=True)
            import shutil
            if os.path.exists(f):
                shutil.copy(f, keep)
            res.violation(f"oracle-{j}", dict(what=why, input=label, path=keep, differing_signatures=ctx.sigs["differing"][:20]))
            j += 1
        if not ctx.proof_ok and not bad:
            res.violation("sigs", dict(
                what="Props/C08.lean `sigs_equal` no longer checks: the structure of a wire function differs from the reference "
                     "tree; the two builds nevertheless produced and accepted identical bytes on every explored input",
                broken="NiflyVerif.Props.C08.sigs_equal", differing=ctx.sigs["differing"], focus_types=focus_types), no_input=True)
        res.coverage.update(
            programs=2, disagreements_checked=len(cmp), evaluations=len(inputs), distinct_nontrivial=len(idx),
            traces_validated_against_impl=len(cmp),
            rule="inputs: samples, constructed models, generated instances of every registered type × 12 versions by the current "
                 "build (counts ≤3 and ≤9) and by the reference build; both builds raw-save each input, then each re-reads and "
                 "re-saves the other's output; all pairs must be byte-identical. non-trivial = inputs both builds loaded",
            signatures=ctx.sigs["n"], differing_signatures=ctx.sigs["differing"], oracle_failures=len(bad),
            samples=[lc[i][:200] for i in range(0, len(lc), max(1, len(lc) // 4))][:4])
    finally:
        filecamp.cleanup(wd)
