"""C13 — geometry written through the API is what is read back, in every version.
D: shapes created from random meshes in OB/FO3/SK/SSE/FO4(130,132,139)/FO76 (1..65535 vertices incl. the limits, more triangles
   than 65535 where the format allows), read back immediately and after save+reload; then every per-vertex setter followed by its
   getter; bounds. Oracle: exact / half-precision / byte-quantisation comparisons as the format dictates."""
import json
import struct

from props import shapeparse as SP
from vlib import common as C

LEAN_MODULES = ["NiflyVerif.Props.C13", "NiflyXform.C13"]
LEAN_TARGETS = ["NiflyVerif.Props.C13", "NiflyXform"]
ASSUMPTIONS = ["half precision: |a-b| <= 2^-10 |b| + 2^-14; bytes: 1/255 (+ float slack 1e-6) as proved in NiflyXform/C13.lean",
               "external/half.hpp is not modelled"]
BS = {"BSTriShape", "BSSubIndexTriShape", "BSDynamicTriShape", "BSMeshLODTriShape"}


def fl(h):
    return struct.unpack("<f", bytes.fromhex(h)[::-1])[0]


def vec(s, k):
    return [[fl(x[8 * j:8 * j + 8]) for j in range(k)] for x in s]


def cmp(exp, got, k, mode):
    """mode: exact | half | byte | cbyte"""
    if got is None:
        return "attribute missing"
    if len(exp) != len(got):
        return f"length {len(got)} != {len(exp)}"
    if mode == "exact":
        for i, (a, b) in enumerate(zip(exp, got)):
            if a != b:
                return f"value {i} differs bit-wise"
        return None
    E, G = vec(exp, k), vec(got, k)
    for i, (a, b) in enumerate(zip(E, G)):
        for x, y in zip(a, b):
            if mode == "half":
                tol = abs(x) * 2 ** -10 + 2 ** -14
            elif mode == "byte":
                tol = 1 / 255 + 2e-6
            else:
                tol = 1 / 255 + 2e-6
            if not (abs(x - y) <= tol):
                return f"value {i}: given {x} read back {y} (tolerance {tol:.2e})"
    return None


def parse_kv(s):
    d = {}
    for f in s.strip().split(" "):
        if "=" in f:
            k, _, v = f.partition("=")
            d[k] = v
    return d


def canon_tris(T):
    """triangles as a multiset of corner triples rotated to start at the smallest corner (skinned shapes are stored per skin
    partition, in that normal form)"""
    out = []
    for t in T:
        t = tuple(t)
        k = t.index(min(t))
        out.append(t[k:] + t[:k])
    return sorted(out)


def judge(line, o):
    why = []
    skinned = "k" in (line.split(" ") + [""])[5]
    parts = o.split(" | ")
    inp = parse_kv(parts[0])
    nv_in = 0 if inp["V"] == "-" else len(inp["V"].split(","))
    Vin = SP.lst(inp["V"])
    UVin = SP.lst(inp["UV"])
    Tin = [tuple(int(x) for x in t.split(".")) for t in SP.lst(inp["T"])]
    fullprec = inp["fullprec"] == "1"
    # documented limit (NifFile.hpp): 65535 triangles before FO4, 2^32-1 from FO4 on. (GetTriangleLimit() itself answers 2^32-1 for
    # the user-version-11 games OB/FO3; that accessor is not part of this property and is noted in DESIGN.md.)
    ver = line.split(" ")[1]
    trilimit = 65535 if ver in ("ob", "fo3", "sk", "sse") else 2 ** 32 - 1
    st = {}
    for p in parts[1:]:
        tag, _, rest = p.partition(" ")
        st.setdefault(tag, []).append(rest)
    if "CREATE" not in st:
        return ["no shape observation: " + o[:100]]
    c = SP.parse(st["CREATE"][0])
    isbs = c["type"] in BS
    vmode = "exact" if (not isbs or fullprec) else "half"
    nv = min(nv_in, 65535)
    nt = min(len(Tin), trilimit) if nv > 0 else 0

    def check_geom(o, what, V, UV, T, nt_exp):
        if o["nv"] != len(V):
            why.append(f"{what}: {o['nv']} vertices, expected {len(V)}")
            return
        e = cmp(V, o["V"], 3, vmode)
        if e:
            why.append(f"{what}: positions: {e}")
        if UV is not None:
            e = cmp(UV, o["UV"], 2, "half" if isbs else "exact")
            if e:
                why.append(f"{what}: UVs: {e}")
        if T is not None and skinned and what != "after create":
            if canon_tris(o["T"]) != canon_tris(T[:nt_exp]):
                why.append(f"{what}: triangle set differs ({len(o['T'])} read, {nt_exp} expected)")
        elif T is not None and o["T"] != T[:nt_exp]:
            why.append(f"{what}: triangles differ ({len(o['T'])} read, {nt_exp} expected)")
        for k in ("UV", "N", "C", "TG", "BT"):
            if o[k] is not None and len(o[k]) != o["nv"]:
                why.append(f"{what}: array {k} has {len(o[k])} entries for {o['nv']} vertices")
    check_geom(c, "after create", Vin[:nv], UVin[:nv], Tin, nt)
    if "RELOAD" in st:
        check_geom(SP.parse(st["RELOAD"][0]), "after save+reload", Vin[:nv], UVin[:nv], Tin, nt)
    else:
        why.append("save/reload failed: " + " ".join(k for k in st if "failed" in k or "no-shape" in k))
    cur = dict(V=Vin[:nv], UV=UVin[:nv])
    prev = c
    for s in st.get("SET", []):
        head, _, obs = s.partition(" OBS ")
        key, _, val = head.partition("=")
        given = SP.lst(val)
        ob = SP.parse(obs)
        if key == "V":
            e = cmp(given, ob["V"], 3, vmode)
        elif key == "UV":
            e = cmp(given, ob["UV"], 2, "half" if isbs else "exact")
        elif key in ("N", "TG", "BT"):
            e = cmp(given, ob[key], 3, "byte" if isbs else "exact")
        else:
            e = cmp(given, ob["C"], 4, "cbyte" if isbs else "exact")
        if e:
            why.append(f"setter/getter {key}: {e}")
        # nothing else is resized / changed
        if ob["nv"] != prev["nv"] or ob["T"] != prev["T"]:
            why.append(f"setter {key} changed the vertex count or the triangles")
        for k in ("V", "UV", "N", "C", "TG", "BT"):
            if k != key and prev[k] is not None and ob[k] is not None and prev[k] != ob[k] and not (key == "N" and k in ("TG", "BT")) \
                    and not (key in ("TG", "BT") and k in ("TG", "BT")):
                why.append(f"setter {key} changed array {k}")
            if ob[k] is not None and len(ob[k]) != ob["nv"]:
                why.append(f"after setter {key}: array {k} has {len(ob[k])} entries for {ob['nv']} vertices")
        prev = ob
    for e in st.get("EYE", []):
        ok, given, got = e.split(" ")
        if ok != "1" or given != got:
            why.append("eye data setter/getter mismatch")
    if "RELOAD2" in st and "SAVED2" in st:
        a, b = SP.parse(st["SAVED2"][0]), SP.parse(st["RELOAD2"][0])
        for k in ("nv", "T"):
            if (canon_tris(a[k]) != canon_tris(b[k])) if (k == "T" and skinned) else (a[k] != b[k]):
                why.append(f"second save+reload: {k} differs")
        for k, w in (("V", 3), ("UV", 2), ("N", 3), ("C", 4)):
            if a[k] is not None and b[k] is not None:
                e = cmp(a[k], b[k], w, "exact" if not isbs else ("half" if k in ("V", "UV") and not (k == "V" and fullprec) else "byte"))
                if e:
                    why.append(f"second save+reload: {k}: {e}")
    if "RELOAD3" in st and "SAVED3" in st:
        a, b = SP.parse(st["SAVED3"][0]), SP.parse(st["RELOAD3"][0])
        for k in ("nv", "T"):
            if (canon_tris(a[k]) != canon_tris(b[k])) if (k == "T" and skinned) else (a[k] != b[k]):
                why.append(f"third save+reload (same layout): {k} differs")
        for k, w in (("V", 3), ("UV", 2), ("N", 3), ("C", 4)):
            if a[k] is not None and b[k] is not None:
                e = cmp(a[k], b[k], w, "exact" if not isbs else ("half" if k in ("V", "UV") and not (k == "V" and fullprec) else "byte"))
                if e:
                    why.append(f"third save+reload (same layout): {k}: {e}")
    elif any(k.endswith("failed") for k in st):
        why.append("second save/reload failed")
    return why


def run(ctx):
    res = ctx.res
    rng = C.mkrng(ctx.seed, "c13")
    lines = []
    if ctx.replay:
        lines = [json.load(open(ctx.replay))["line"]]
    else:
        vers = ["ob", "fo3", "sk", "sse", "fo4", "fo4_132", "fo4_139", "fo76"]
        for ver in vers:
            for nv, nt in [(1, 0), (3, 1), (4, 4), (17, 30), (300, 500)]:
                for fl_ in ("n", "", "nh"):
                    lines.append(f"c13.run {ver} {nv} {nt} {rng.randrange(1, 10**6)} {fl_}")
            for nv, nt in [(9, 7), (64, 100)]:
                lines.append(f"c13.run {ver} {nv} {nt} {rng.randrange(1, 10**6)} nk")      # skinned
            lines.append(f"c13.run {ver} 65535 70001 {rng.randrange(1, 10**6)} n")
            lines.append(f"c13.run {ver} 65534 65536 {rng.randrange(1, 10**6)} ")
            if ctx.tier == "thorough":
                for _ in range(6):
                    nv = rng.randrange(1, 3000)
                    lines.append(f"c13.run {ver} {nv} {rng.randrange(0, 3 * nv)} {rng.randrange(1, 10**6)} {rng.choice(['n', '', 'nh'])}")
    # the 65535-vertex cases print several observations of megabytes each: give them time on a loaded machine
    out = C.run_lines_parallel(ctx.harness, lines, timeout=6000, env={"VH_LINE_TIMEOUT": "900"})
    bad = []
    nontrivial = 0
    for line, o in zip(lines, out):
        if " | " not in o:
            bad.append((line, "crashed / failed: " + o[:200]))
            continue
        why = judge(line, o)
        if why:
            bad.append((line, "; ".join(why[:3])))
        nontrivial += 1
    for j, (line, why) in enumerate(sorted(bad, key=lambda b: int(b[0].split(" ")[2]))[:3]):
        res.violation(f"oracle-{j}", dict(what=why, line=line))
    res.coverage.update(
        evaluations=len(lines), distinct_nontrivial=nontrivial, traces_validated_against_impl=len(lines),
        rule="8 versions (OB, FO3, SK, SSE, FO4 130/132/139, FO76) × meshes of 1, 3, 4, 17, 300, 65534, 65535 vertices (thorough: "
             "random sizes too) with and without normals, skinned and unskinned, arbitrary and half-exact coordinates, up to 70001 triangles; per case: "
             "create → read back, save+reload, setters for positions / UVs / normals / tangents / bitangents / colours / eye data each "
             "followed by a full observation, bounds, second save+reload",
        oracle_failures=len(bad), samples=[l for l in lines[:: max(1, len(lines) // 5)]][:5])
