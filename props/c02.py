"""C02 — saving is repeatable and never alters the in-memory model.
T: translator/writemut.py regenerates from the C++ every member mutation a wire function can perform in write mode; Props/C02.lean
   proves the write-pass model never alters a state satisfying the count invariants and is idempotent on every generated path.
D: one NifFile object per input (all sample files, generated instances of every registered block type × 12 versions, meshes built
   through the API in 8 versions with arbitrary floats / tangents / skin / match groups) is saved three times (raw and default
   options): the three outputs must be byte-identical and a battery of read-only queries must answer the same before the first
   and after every save (default options: from the first saved state on, because sorting/pruning is the designed effect there)."""
import json
import os

from props import filecamp
from translator import writemut
from vlib import common as C

LEAN_MODULES = ["NiflyVerif.Props.C02"]
TRUSTED_EXTRA = ["translator/writemut.py + clang-14 AST: which statements are member mutations on the write path, their class, the members "
                 "they and their enclosing conditions mention",
                 "the query battery of harness/c02.cpp (header, block types, references, strings, nodes, flags, transforms, tree, per-shape "
                 "geometry / skin / partitions / segments / textures / shader / bounds / tangents / match groups) is what 'every query' means here"]
ASSUMPTIONS = ["mutations performed outside wire functions during Save (FinalizeData, Optimize, sort) are covered by the dynamic check only",
               "Oblivion: the first raw save of a model whose tangents were computed in memory materialises the 'Tangent space' extra data "
               "block (designed); block numbering is compared from the first saved state on there, logical answers from before the save",
               "strings longer than the length prefix of their field allows (255 / 65535 bytes) are truncated in place by NiString::Write; "
               "such values are not representable in the format and are outside the generated inputs"]


def translate(ctx):
    ctx.writemut = writemut.generate()


def run(ctx):
    res = ctx.res
    rng = C.mkrng(ctx.seed, "c02")
    lines, labels = [], []
    if ctx.replay:
        rp = json.load(open(ctx.replay))
        lines, labels = [rp["line"]], [rp.get("label", "replay")]
    else:
        for f in filecamp.sample_files():
            for mode in ("raw", "default"):
                lines.append(f"c02.run load:{f} {mode}")
                labels.append(f"{os.path.basename(f)}/{mode}")
            lines.append(f"c02.run load:{f} {rng.choice(['raw', 'default'])} perturb:{rng.randrange(1, 10**6)}")
            labels.append(f"{os.path.basename(f)}/perturbed")
            lines.append(f"c02.run load:{f} {rng.choice(['raw', 'default'])} interleave")
            labels.append(f"{os.path.basename(f)}/interleaved")
        # constructed models the samples do not contain: unreferenced block chains stored children-before-parents (what pruning
        # has to remove in ONE save), paths the loader rewrites
        wd = filecamp.workdir(ctx, "c02")
        for lab, p in filecamp.constructed_inputs(ctx, wd):
            for mode in ("raw", "default"):
                lines.append(f"c02.run load:{p} {mode}")
                labels.append(f"{lab}/{mode}")
        vers = ["ob", "fo3", "sk", "sse", "fo4", "fo4_132", "fo4_139", "fo76"]
        for ver in vers:
            for nv, nt in [(3, 1), (17, 30), (120, 200)]:
                for fl in ("n", "nc", ""):
                    for nb in (0, 3):
                        if nb and nv < 17:
                            continue
                        mode = rng.choice(["raw", "default"])
                        lines.append(f"c02.run mesh:{ver}:{nv}:{nt}:{rng.randrange(1, 10**6)}:{fl}:{nb} {mode} perturb:{rng.randrange(1, 10**6)}")
                        labels.append(f"mesh/{ver}/{nv}/{fl}/{nb}/{mode}")
                        if ctx.tier == "thorough":
                            lines.append(f"c02.run mesh:{ver}:{nv}:{nt}:{rng.randrange(1, 10**6)}:{fl}:{nb} {'raw' if mode == 'default' else 'default'} perturb:{rng.randrange(1, 10**6)}")
                            labels.append(f"mesh/{ver}/{nv}/{fl}/{nb}/other")
        types = C.run_lines(ctx.harness, ["gen.types"])[0].split(",")
        gvers = C.run_lines(ctx.harness, ["gen.versions"])[0].split(",")
        for t in types:
            if t in filecamp.SKIP_SYNTH:
                continue
            for v in gvers:
                for rep in range(2 if ctx.tier == "thorough" else 1):
                    mc = rng.choice([3, 3, 9])
                    lines.append(f"c02.run synth:{t}:{v}:{rng.randrange(1, 10**6)}:2:{mc} {rng.choice(['raw', 'raw', 'default'])}")
                    labels.append(f"{t}/{v}")
    out = C.run_lines_parallel(ctx.harness, lines, timeout=3000)
    bad, skipped, nontrivial = [], 0, 0
    for line, label, o in zip(lines, labels, out):
        if o.startswith("unloadable-synth"):
            skipped += 1
            continue
        if o.startswith("interleaved "):
            nontrivial += 1
            kv = dict(f.split("=", 1) for f in o.split(" ") if "=" in f)
            if kv.get("same12") != "1" or kv.get("same23") != "1":
                b, a_ = kv.get("strips", "0/0").split("/")
                if int(b) > 0 and int(a_) == 0:
                    k = next((k for k in ctx.known if k["fingerprint"].startswith("GetShapePartitions triangulates strip partitions")), None)
                    if k:
                        res.known.append(f"{k['what']} [{label}]")
                        continue
                bad.append((label, line, f"saves interleaved with read-only queries differ (sizes {kv.get('sizes')})"))
            continue
        if not o.startswith("sizes="):
            bad.append((label, line, "save sequence crashed or failed: " + o[:300]))
            continue
        nontrivial += 1
        kv = dict(f.split("=", 1) for f in o.split(" ") if "=" in f)
        if kv.get("same12") != "1" or kv.get("same23") != "1":
            bad.append((label, line, f"consecutive saves of one model differ (sizes {kv.get('sizes')}, first difference at byte {kv.get('firstdiff')})"))
        elif "queries=CHANGED" in o:
            bad.append((label, line, "a query answers differently after a save: " + o.split("queries=CHANGED ")[1][:300]))
    bad.sort(key=lambda b: len(b[1]))
    for j, (label, line, why) in enumerate(bad[:3]):
        if not ctx.replay and wd in line:
            # a constructed input: keep the file with the replay
            import shutil
            src = next(x[5:] for x in line.split(" ") if x.startswith("load:"))
            os.makedirs(C.REPLAYS, exist_ok=True)
            keep = os.path.join(C.REPLAYS, f"C02-input-{j}.nif")
            shutil.copy(src, keep)
            line = line.replace(src, keep)
        res.violation(f"oracle-{j}", dict(what=why, label=label, line=line))
    if not ctx.replay:
        filecamp.cleanup(wd)
    rows, paths = ctx.writemut
    res.coverage.update(
        evaluations=len(lines), distinct_nontrivial=nontrivial, traces_validated_against_impl=nontrivial,
        rule="three consecutive saves of one NifFile object per input, outputs compared byte for byte, query battery before/after each "
             "save; inputs: every sample file (raw, default, and perturbed: arbitrary positions/UVs, tangents, match groups), meshes built "
             "through the API in 8 versions × 3 sizes × normals/colours × skinned or not, generated instances of every registered block "
             "type × 12 versions, constructed models with unreferenced block chains stored children-before-parents",
        not_synthesised=skipped, oracle_failures=len(bad),
        write_mutation_sites=len(rows), write_paths=len(paths),
        unmodelled_sites=[" :: ".join([r["cls"], r["fn"], r["text"]]) for r in rows if r["kind"] == 9],
        samples=[f"{l} -> {o[:120]}" for l, o in list(zip(lines, out))[:: max(1, len(lines) // 5)]][:5])
