"""C01 — load/save round trip is exact and reaches a byte-level fixed point.
D: for every input file (samples + synthesised instances of every registered type × version) the real library computes
   raw: S1 = save(load f), S2 = save(load S1) and must give S1 == S2 byte for byte; default: D1, D2, D3 with D2 == D3.
   The Lean reader (Wire/Header.lean) walks every S1 with the header tables alone (model ≡ code on these bytes)."""
import json
import os

from props import filecamp
from translator import schema
from vlib import common as C

LEAN_MODULES = ["NiflyVerif.Props.C01"]
TRUSTED_EXTRA = ["translator/schema.py + clang-14 AST + a g++ size/enum probe: the wire schema of every in-fragment (block type, version); "
                 "validated on every run by decoding the library's own blocks with it (consumes exactly the block, re-encodes to the "
                 "same bytes, same field boundaries as the NIFLY_VERIF transfer trace)"]
ASSUMPTIONS = ["wire schemas: read-side post-processing and write-side normalisations that transfer nothing (listed under "
               "schema_ignored_normalisers), the dropping of empty entries of reference arrays and NUL-truncation of strings are not part "
               "of the schema; they are the identity on bytes the library itself wrote, which is what the validation run decodes",
               "half floats and packed normals are modelled as their wire bits",
               "BSGeometry cannot be synthesised (DESIGN.md §8 #12); it is exercised through the Starfield sample file only"]


def translate(ctx):
    ctx.schemas = schema.generate()


def version_name(path):
    """harness version name of a file from its header (for picking the specialised schema)"""
    import struct
    d = open(path, "rb").read(200)
    p = d.index(b"\n") + 1
    ver, = struct.unpack_from("<I", d, p)
    user, = struct.unpack_from("<I", d, p + 5) if ver >= 0x0A000108 else (0,)
    stream = 0
    if ver == 0x14020007 or user >= 3:
        stream, = struct.unpack_from("<I", d, p + 13)
    if ver == 0x14000005:
        return "ob"
    if ver == 0x14000004:
        return "ob20_4"
    if ver == 0x0A020000:
        return "ob10"
    if user == 11:
        return "fo3"
    return {83: "sk", 100: "sse", 130: "fo4", 132: "fo4_132", 139: "fo4_139", 155: "fo76", 172: "sf", 173: "sf173"}.get(stream)


def run(ctx):
    res = ctx.res
    wd = filecamp.workdir(ctx, "c01")
    try:
        rng = C.mkrng(ctx.seed, "c01")
        inputs = [(os.path.basename(f), f) for f in filecamp.sample_files()]
        seeds = [rng.randrange(1, 10**6) for _ in range(6 if ctx.tier == "thorough" else 2)]
        if ctx.replay:
            rp = json.load(open(ctx.replay))
            inputs, synth_bad = [(rp["input"], rp["path"])], []
            if rp.get("synth"):
                t, v, s, mc = rp["synth"]
                inputs, synth_bad = filecamp.synth_inputs(ctx, wd, [s], versions=[v], types=[t], maxcounts=(mc,))
        else:
            syn, synth_bad = filecamp.synth_inputs(ctx, wd, seeds, maxcounts=(3, 9))
            inputs += syn
            inputs += filecamp.constructed_inputs(ctx, wd)
        lines, meta = [], []
        for k, (label, f) in enumerate(inputs):
            b = os.path.join(wd, f"r{k}")
            lines.append(f"fs load:{f} save:{b}.s1:raw load:{b}.s1 save:{b}.s2:raw")
            meta.append((label, f, "raw", b))
            lines.append(f"fs load:{f} save:{b}.d1:default load:{b}.d1 save:{b}.d2:default load:{b}.d2 save:{b}.d3:default")
            meta.append((label, f, "default", b))
        out = C.run_lines_parallel(ctx.harness, lines)
        cmp_lines, cmp_meta = [], []
        bad, loaded = [], 0
        sch_jobs = []
        for (label, f, mode, b), o in zip(meta, out):
            st = o.split(" ")
            if st[0].startswith("load-rc"):
                if not f.startswith(os.path.join(C.REPO, "tests")):
                    # generated and constructed inputs were written by the library itself a moment ago
                    bad.append((label, f, mode, f"the library cannot load a file it has just written ({st[0]})"))
                continue            # a sample the library does not accept
            if st[0] not in ("ok", "ok+unknown"):
                bad.append((label, f, mode, f"load/save script failed: {o}"))
                continue
            loaded += 1
            if any(not s.startswith("ok") for s in st):
                bad.append((label, f, mode, f"the written file does not load/save again: {o}"))
                continue
            if mode == "raw":
                cmp_lines.append(f"bytes.eq {b}.s1 {b}.s2")
                cmp_meta.append((label, f, mode, b))
                sch_jobs.append((label, f, b))
                cmp_lines.append(f"c07.walk {b}.s1")
                cmp_meta.append((label, f, "walk", b))
            else:
                cmp_lines.append(f"bytes.eq {b}.d2 {b}.d3")
                cmp_meta.append((label, f, mode, b))
        cmp = C.run_lines_parallel(ctx.driver, cmp_lines) if ctx.driver else []
        walked = 0
        for (label, f, mode, b), o in zip(cmp_meta, cmp):
            if mode == "walk":
                walked += 1
                if o.startswith("fail") and "walk=" in o:
                    bad.append((label, f, mode, "Lean reader rejects the written file: " + o[:300]))
            elif not o.startswith("same"):
                bad.append((label, f, mode, ("raw save is not a fixed point: save(load(S1)) != S1: " if mode == "raw"
                                              else "default save did not converge within two rounds (D2 != D3): ") + o))
        # schema correspondence: every block of every S1 whose (type, version) has a generated schema is decoded by the Lean
        # reader with that schema; it must consume exactly the block, re-encode to the same bytes and cut the block into
        # the same fields as the library's own transfer trace
        sch_bad, decoded, noschema, validated = [], 0, 0, set()
        if ctx.driver and sch_jobs:
            tr_out = C.run_lines_parallel(ctx.harness, [f"fs load:{b}.s1 save:{b}.t:raw:tracefull" for _, _, b in sch_jobs])
            wl, wm = [], []
            for (label, f, b), o in zip(sch_jobs, tr_out):
                vn = version_name(b + ".t") if o == "ok ok" or o.startswith("ok") and o.endswith("ok") else None
                if vn:
                    wl.append(f"c01.schema {b}.t {b}.t.tracefull {vn}")
                    wm.append((label, f, vn))
            import re
            for (label, f, vn), o in zip(wm, C.run_lines_parallel(ctx.driver, wl)):
                m = re.search(r"decoded=(\d+) noschema=(\d+)", o)
                if m:
                    decoded += int(m.group(1))
                    noschema += int(m.group(2))
                for t in o.split("types=")[-1].split(","):
                    if t:
                        validated.add((t, vn))
                if not o.startswith("ok"):
                    sch_bad.append((label, f, vn, o[:400]))
        for j, (label, f, vn, why) in enumerate(sch_bad[:2]):
            keep = os.path.join(C.REPLAYS, f"C01-schema-input-{j}.nif")
            os.makedirs(C.REPLAYS, exist_ok=True)
            if os.path.exists(f):
                import shutil
                shutil.copy(f, keep)
            res.violation(f"correspondence-{j}", dict(
                what="a generated wire schema does not describe the block the library wrote: " + why, input=label, path=keep, version=vn,
                broken="correspondence translator/schema.py + Wire/Schema.lean rd/wr vs the library's Sync on real blocks"),
                no_input=not bad)
        for j, (label, f, mode, why) in enumerate(bad[:3]):
            keep = os.path.join(C.REPLAYS, f"C01-input-{j}.nif")
            os.makedirs(C.REPLAYS, exist_ok=True)
            if os.path.exists(f):
                import shutil
                shutil.copy(f, keep)
            synth = label.split("/") if label.count("/") == 3 else None
            res.violation(f"oracle-{j}", dict(what=why, input=label, path=keep, mode=mode,
                                              synth=[synth[0], synth[1], int(synth[2]), int(synth[3])] if synth else None))
        res.coverage.update(
            evaluations=len(lines), distinct_nontrivial=loaded, traces_validated_against_impl=walked,
            rule="inputs: the 26 sample files + 2 generated instances of every registered block type (except BSGeometry) × 12 "
                 "versions × seeds; each input is round-tripped twice raw (S1 == S2) and three times with the default "
                 "sorting/pruning save (D2 == D3); every S1 is decoded and walked by the Lean header reader. non-trivial = "
                 "(input, mode) pairs the library accepted",
            schema_pairs_in_fragment=len(ctx.schemas["index"]) if hasattr(ctx, "schemas") else None,
            schema_distinct=len(ctx.schemas["schemas"]) if hasattr(ctx, "schemas") else None,
            schema_pairs_weak_discipline_only=sorted(f"{t}@{v}" for (t, v) in ctx.schemas.get("index_weak", {})) if hasattr(ctx, "schemas") else None,
            schema_unsynced_control_members=ctx.schemas.get("unsynced_control") if hasattr(ctx, "schemas") else None,
            schema_opaque_types=sorted(k for k in ctx.schemas["opaque"] if "@" not in k) if hasattr(ctx, "schemas") else None,
            schema_ignored_normalisers=ctx.schemas.get("normalisers") if hasattr(ctx, "schemas") else None,
            schema_blocks_decoded=decoded, schema_blocks_without_schema=noschema, schema_pairs_validated=len(validated),
            schema_failures=len(sch_bad),
            inputs=len(inputs), synthesis_failures=[(l, o) for l, p, o in synth_bad][:20], oracle_failures=len(bad),
            samples=[lines[i][:200] for i in range(0, len(lines), max(1, len(lines) // 5))][:5])
    finally:
        filecamp.cleanup(wd)
