"""C01 — load/save round trip is exact and reaches a byte-level fixed point.
D: for every input file (samples + synthesised instances of every registered type × version) the real library computes
   raw: S1 = save(load f), S2 = save(load S1) and must give S1 == S2 byte for byte; default: D1, D2, D3 with D2 == D3.
   The Lean reader (Wire/Header.lean) walks every S1 with the header tables alone (model ≡ code on these bytes)."""
import json
import os

from props import filecamp
from vlib import common as C

LEAN_MODULES = ["NiflyVerif.Props.C01"]
ASSUMPTIONS = ["BSGeometry cannot be synthesised (DESIGN.md §8 #12); it is exercised through the Starfield sample file only"]


def run(ctx):
    res = ctx.res
    wd = filecamp.workdir(ctx, "c01")
    try:
        rng = C.mkrng(ctx.seed, "c01")
        inputs = [(os.path.basename(f), f) for f in filecamp.sample_files()]
        seeds = [rng.randrange(1, 10**6) for _ in range(6 if ctx.tier == "thorough" else 2)]
        if ctx.replay:
            rp = json.load(open(ctx.replay))
            inputs, synth_bad = [(rp["input"], rp["path"])], []
            if rp.get("synth"):
                t, v, s, mc = rp["synth"]
                inputs, synth_bad = filecamp.synth_inputs(ctx, wd, [s], versions=[v], types=[t], maxcounts=(mc,))
        else:
            syn, synth_bad = filecamp.synth_inputs(ctx, wd, seeds, maxcounts=(3, 9))
            inputs += syn
            inputs += filecamp.constructed_inputs(ctx, wd)
        lines, meta = [], []
        for k, (label, f) in enumerate(inputs):
            b = os.path.join(wd, f"r{k}")
            lines.append(f"fs load:{f} save:{b}.s1:raw load:{b}.s1 save:{b}.s2:raw")
            meta.append((label, f, "raw", b))
            lines.append(f"fs load:{f} save:{b}.d1:default load:{b}.d1 save:{b}.d2:default load:{b}.d2 save:{b}.d3:default")
            meta.append((label, f, "default", b))
        out = C.run_lines_parallel(ctx.harness, lines)
        cmp_lines, cmp_meta = [], []
        bad, loaded = [], 0
        for (label, f, mode, b), o in zip(meta, out):
            st = o.split(" ")
            if st[0].startswith("load-rc"):
                continue            # not a file the library accepts
            if st[0] not in ("ok", "ok+unknown"):
                bad.append((label, f, mode, f"load/save script failed: {o}"))
                continue
            loaded += 1
            if any(not s.startswith("ok") for s in st):
                bad.append((label, f, mode, f"the written file does not load/save again: {o}"))
                continue
            if mode == "raw":
                cmp_lines.append(f"bytes.eq {b}.s1 {b}.s2")
                cmp_meta.append((label, f, mode, b))
                cmp_lines.append(f"c07.walk {b}.s1")
                cmp_meta.append((label, f, "walk", b))
            else:
                cmp_lines.append(f"bytes.eq {b}.d2 {b}.d3")
                cmp_meta.append((label, f, mode, b))
        cmp = C.run_lines_parallel(ctx.driver, cmp_lines) if ctx.driver else []
        walked = 0
        for (label, f, mode, b), o in zip(cmp_meta, cmp):
            if mode == "walk":
                walked += 1
                if o.startswith("fail") and "walk=" in o:
                    bad.append((label, f, mode, "Lean reader rejects the written file: " + o[:300]))
            elif not o.startswith("same"):
                bad.append((label, f, mode, ("raw save is not a fixed point: save(load(S1)) != S1: " if mode == "raw"
                                              else "default save did not converge within two rounds (D2 != D3): ") + o))
        for j, (label, f, mode, why) in enumerate(bad[:3]):
            keep = os.path.join(C.REPLAYS, f"C01-input-{j}.nif")
            os.makedirs(C.REPLAYS, exist_ok=True)
            if os.path.exists(f):
                import shutil
                shutil.copy(f, keep)
            synth = label.split("/") if label.count("/") == 3 else None
            res.violation(f"oracle-{j}", dict(what=why, input=label, path=keep, mode=mode,
                                              synth=[synth[0], synth[1], int(synth[2]), int(synth[3])] if synth else None))
        res.coverage.update(
            evaluations=len(lines), distinct_nontrivial=loaded, traces_validated_against_impl=walked,
            rule="inputs: the 26 sample files + 2 generated instances of every registered block type (except BSGeometry) × 12 "
                 "versions × seeds; each input is round-tripped twice raw (S1 == S2) and three times with the default "
                 "sorting/pruning save (D2 == D3); every S1 is decoded and walked by the Lean header reader. non-trivial = "
                 "(input, mode) pairs the library accepted",
            inputs=len(inputs), synthesis_failures=[(l, o) for l, p, o in synth_bad][:20], oracle_failures=len(bad),
            samples=[lines[i][:200] for i in range(0, len(lines), max(1, len(lines) // 5))][:5])
    finally:
        filecamp.cleanup(wd)
