"""Shared file campaign for C01 / C02 / C03 / C07 / C08: inputs = the sample files + synthesised files (populated
instances of every registered block type × version), written into a scratch directory under /verif/.cache/work."""
import glob
import os
import shutil

from vlib import common as C

SKIP_SYNTH = {"BSGeometry"}      # cannot be synthesised: reader indexes meshes[] out of range (DESIGN.md §8 #12)


def workdir(ctx, name):
    d = os.path.join(C.CACHE, "work", f"{name}-{os.getpid()}")
    shutil.rmtree(d, ignore_errors=True)
    os.makedirs(d)
    return d


def cleanup(d):
    shutil.rmtree(d, ignore_errors=True)


def sample_files():
    return sorted(glob.glob(os.path.join(C.REPO, "tests/input/*.nif")))


def synth_inputs(ctx, wd, seeds, count=2, versions=None, types=None, harness=None, maxcounts=(3,)):
    """generate synthesised input files; returns list of (label, path) for those that could be generated and the failures"""
    h = harness or ctx.harness
    types = types or C.run_lines(h, ["gen.types"])[0].split(",")
    vers = versions or C.run_lines(h, ["gen.versions"])[0].split(",")
    jobs = []
    for t in types:
        if t in SKIP_SYNTH:
            continue
        for v in vers:
            for s in seeds:
                for mc in maxcounts:
                    p = os.path.join(wd, f"syn-{t.replace(':', '_')}-{v}-{s}-{mc}.nif")
                    jobs.append((f"{t}/{v}/{s}/{mc}", p, f"fs synth:{t}:{v}:{s}:{count}:{mc} save:{p}:raw"))
    out = C.run_lines_parallel(h, [j[2] for j in jobs])
    ok, bad = [], []
    for (label, p, line), o in zip(jobs, out):
        (ok if o == "ok ok" else bad).append((label, p, o))
    return [(l, p) for l, p, _ in ok], bad


def constructed_inputs(ctx, wd, harness=None):
    """hand-constructed inputs that plain samples/generated instances do not contain: loose (unreferenced) block chains stored
    children-before-parents, and NiSourceTexture paths that the loader rewrites"""
    h = harness or ctx.harness
    jobs = []
    for v in ("fo3", "sk", "sse", "fo4"):
        for n in (1, 3, 5):
            p = os.path.join(wd, f"con-loose-{v}-{n}.nif")
            jobs.append((f"loosechain/{v}/{n}", p, f"fs new:{v} loosechain:{n} save:{p}:raw"))
    dirty = ["  C:/Games/Data/Textures/armor//iron.dds ", "textures\\clean.dds", "/x/y.dds"]
    for v in ("fo3", "ob"):
        for k, d in enumerate(dirty):
            p = os.path.join(wd, f"con-tex-{v}-{k}.nif")
            jobs.append((f"texprop/{v}/{k}", p, f"fs new:{v} texprop:{d.encode().hex()} loosechain:2 save:{p}:raw"))
    # a second textures directory below the first one (only where the cleaner is idempotent on the pinned tree: not for the
    # Oblivion-style versions, see the C19 known findings)
    nested = ["Data\\Textures\\MyMod\\textures\\armor\\cuirass_d.dds", "c:/x/textures/a/Textures/b.dds"]
    for k, d in enumerate(nested):
        p = os.path.join(wd, f"con-tex2-fo3-{k}.nif")
        jobs.append((f"texprop2/fo3/{k}", p, f"fs new:fo3 texprop:{d.encode().hex()} loosechain:1 save:{p}:raw"))
    out = C.run_lines_parallel(h, [j[2] for j in jobs])
    return [(l, p) for (l, p, _), o in zip(jobs, out) if all(x.startswith("ok") for x in o.split(" "))]
