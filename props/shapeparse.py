"""Parser for harness/shapeobs.hpp observations."""


def lst(s, sep=","):
    return [] if s in ("-", "", ".") else s.split(sep)


def ints(s):
    return [int(x) for x in lst(s)]


def parse(obs):
    d = {}
    for f in obs.strip().split(" "):
        if "=" in f:
            k, _, v = f.partition("=")
            d[k] = v
    o = dict(raw=d, type=d.get("type"), nv=int(d["nv"]), nt=int(d["nt"]))
    for k in ("V", "UV", "N", "C", "TG", "BT"):
        v = d.get(k, "none")
        o[k] = None if v == "none" else lst(v)
    o["T"] = [tuple(int(x) for x in t.split(".")) for t in lst(d.get("T", "-"))]
    o["STRIPS"] = None if "STRIPS" not in d else [ints(x) for x in lst(d["STRIPS"], ";")]
    o["BONES"] = lst(d.get("BONES", "-"))
    o["W"] = []
    if d.get("W", "-") != "-":
        for b in d["W"].split(";"):
            o["W"].append({int(x.split(":")[0]): x.split(":")[1] for x in lst(b)})
    o["SKINDATA"] = None
    if "SKINDATA" in d and d["SKINDATA"] != "-":
        o["SKINDATA"] = []
        for b in d["SKINDATA"].split(";"):
            n, _, idx = b.partition("/")
            o["SKINDATA"].append((int(n), ints(idx)))
    o["PARTS"] = None
    if "PARTS" in d:
        segs = d["PARTS"].split("|")
        h = segs[0].split("/")
        parts = []
        for p in segs[1:]:
            f = p.split("/")
            parts.append(dict(numVertices=int(f[0]), numTriangles=int(f[1]), numBones=int(f[2]), numStrips=int(f[3]), nwpv=int(f[4]),
                              flags=f[5], vertexMap=ints(f[6]), bones=ints(f[7]),
                              triangles=[tuple(int(x) for x in t.split(".")) for t in lst(f[8])],
                              trueTriangles=[tuple(int(x) for x in t.split(".")) for t in lst(f[9])],
                              nVertexWeights=int(f[10]), nBoneIndices=int(f[11]),
                              strips=[ints(x) for x in lst(f[12], ";")] if len(f) > 12 else [],
                              weights=lst(f[13]) if len(f) > 13 else [],
                              boneIndices=[tuple(int(y) for y in x.split(".")) for x in lst(f[14])] if len(f) > 14 else []))
        o["PARTS"] = dict(numPartitions=int(h[0]), n=int(h[1]), mapped=h[2] == "1", numVertices=int(h[3]), nVertData=int(h[4]), parts=parts)
    o["DISMEMBER"] = None if "DISMEMBER" not in d else [tuple(int(y) for y in x.split(":")) for x in lst(d["DISMEMBER"])]
    o["TRIPARTS"] = None
    if "TRIPARTS" in d:
        n, _, tp = d["TRIPARTS"].partition("/")
        o["TRIPARTS"] = (int(n), ints(tp))
    o["SEGTRI"] = None if "SEGTRI" not in d else ints(d["SEGTRI"])
    o["SEGS"] = None
    if "SEGS" in d:
        o["SEGS"] = []
        for s in lst(d["SEGS"], ";"):
            pid, _, subs = s.partition(":")
            o["SEGS"].append((int(pid), ints(subs)))
    o["RAWSEG"] = None
    if "RAWSEG" in d:
        segs = d["RAWSEG"].split("|")
        h = [int(x) for x in segs[0].split("/")]
        rs = []
        for s in segs[1:]:
            a, _, subs = s.partition(":")
            st, np_, par, nsub = [int(x) for x in a.split(",")]
            rs.append(dict(start=st, n=np_, parent=par, nsub=nsub, subs=[tuple(int(y) for y in x.split(",")) for x in lst(subs, ";")]))
        o["RAWSEG"] = dict(numPrimitives=h[0], numSegments=h[1], numTotal=h[2], segs=rs)
    o["LOCKEDNORM"] = None if "LOCKEDNORM" not in d else ints(d["LOCKEDNORM"])
    return o


def segments_ok(o):
    """C17 predicate on the raw FO4 segment table: contiguous, ordered ranges; sub-ranges tile their segment; sum = triangle count"""
    rs = o["RAWSEG"]
    if rs is None or not rs["segs"]:
        return None
    why = []
    pos = None
    total = 0
    for k, s in enumerate(rs["segs"]):
        if s["start"] % 3:
            why.append(f"segment {k} start not a multiple of 3")
        if pos is not None and s["start"] != pos:
            why.append(f"segment {k} does not start where segment {k - 1} ends ({s['start']} vs {pos})")
        pos = s["start"] + 3 * s["n"]
        total += s["n"]
        if s["subs"]:
            sp = s["start"]
            ssum = 0
            for j, (st, n, ai) in enumerate(s["subs"]):
                if st != sp:
                    why.append(f"sub-segment {k}.{j} does not start where the previous one ends ({st} vs {sp})")
                sp = st + 3 * n
                ssum += n
            if ssum != s["n"]:
                why.append(f"sub-segments of segment {k} sum to {ssum}, segment has {s['n']}")
    if total != o["nt"] or rs["numPrimitives"] != o["nt"]:
        why.append(f"segment sizes sum to {total} / numPrimitives {rs['numPrimitives']}, shape has {o['nt']} triangles")
    return why
