import Driver.Main
