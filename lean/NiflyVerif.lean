import NiflyVerif.Util.IndexOps
import NiflyVerif.Util.IndexLemmas
import NiflyVerif.Props.C18
