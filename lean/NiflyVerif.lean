import NiflyVerif.Util.IndexOps
import NiflyVerif.Util.IndexLemmas
import NiflyVerif.Props.C18
import NiflyVerif.Graph.Header
import NiflyVerif.Props.C06
import NiflyVerif.TexPath
import NiflyVerif.Props.C19
