import Mathlib.Data.Rat.Floor
import Mathlib.Tactic.Linarith
import Mathlib.Tactic.FieldSimp
/-!
# C13 — quantisation of normals / tangents / colours to bytes (BSTriShape)

`round((x + 1) / 2 * 255)` as a byte and back via `b / 255 * 2 - 1`: the read-back value differs from the given
one by at most 1/255 (exact arithmetic; float rounding is covered by the differential run's tolerance).
Colours use `floor(c * 256)` (255 for c = 1) and `b / 255`: error at most 1/255.
-/
namespace Nifly.Xform

theorem round_error (y : ℚ) : |((⌊y + 1 / 2⌋ : ℤ) : ℚ) - y| ≤ 1 / 2 := by
  have h1 := Int.floor_le (y + 1 / 2)
  have h2 := Int.lt_floor_add_one (y + 1 / 2)
  rw [abs_le]
  constructor <;> linarith

/-- normals / tangents / bitangents: |decode (encode x) − x| ≤ 1/255 -/
theorem normal_quant_error (x : ℚ) :
    |((⌊(x + 1) / 2 * 255 + 1 / 2⌋ : ℤ) : ℚ) / 255 * 2 - 1 - x| ≤ 1 / 255 := by
  have h := round_error ((x + 1) / 2 * 255)
  rw [abs_le] at h ⊢
  obtain ⟨h1, h2⟩ := h
  constructor <;> linarith

/-- colours are stored as `floor(c == 1 ? 255 : c * 256)` and read back as `b / 255`:
for `0 ≤ c < 1` the read-back value differs from `c` by at most 1/255 (and `c = 1` is exact) -/
theorem colour_quant_error (c : ℚ) (h0 : 0 ≤ c) (h1 : c < 1) : |((⌊c * 256⌋ : ℤ) : ℚ) / 255 - c| ≤ 1 / 255 := by
  have f1 := Int.floor_le (c * 256)
  have f2 := Int.lt_floor_add_one (c * 256)
  rw [abs_le]
  constructor <;> linarith

theorem colour_one_exact : ((255 : ℤ) : ℚ) / 255 = 1 := by norm_num

/-- the encoded byte of a value in [-1, 1] is in 0..255 -/
theorem normal_byte_range (x : ℚ) (h1 : -1 ≤ x) (h2 : x ≤ 1) :
    0 ≤ ⌊(x + 1) / 2 * 255 + 1 / 2⌋ ∧ ⌊(x + 1) / 2 * 255 + 1 / 2⌋ ≤ 255 := by
  constructor
  · apply Int.floor_nonneg.mpr; linarith
  · have : (x + 1) / 2 * 255 + 1 / 2 < 256 := by linarith
    have := Int.floor_lt.mpr (show (x + 1) / 2 * 255 + 1 / 2 < ((256 : ℤ) : ℚ) by push_cast; linarith)
    omega

end Nifly.Xform
