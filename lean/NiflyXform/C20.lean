import Mathlib.Tactic.Ring
import Mathlib.Tactic.FieldSimp
import Mathlib.Tactic.LinearCombination
import Mathlib.Tactic.Linarith
import Mathlib.Tactic.FinCases
import Mathlib.Tactic.IntervalCases
import Mathlib.Algebra.Order.Field.Basic
import NiflyVerif.Xform.Defs
/-!
# C20 — transform algebra obeys its geometric laws (every field `K`, resp. every ordered field)

The definitions are the Mathlib-free transcriptions in `NiflyVerif/Xform/Defs.lean`. What is proved
here is that the *formulas* are right; float rounding is covered by the differential run with a
tolerance (see DESIGN.md §7 C20).
-/
namespace Nifly.Xform
open Mat3 Xf

variable {K : Type} [Field K]

/-! ## Matrix3 -/

theorem mat3_mul_inv (m : Mat3 K) (h : m.det ≠ 0) : m.mul m.inv = Mat3.one := by
  have hd : m.det * (1 / m.det) = 1 := by field_simp
  unfold Mat3.mul Mat3.inv Mat3.one
  generalize hi : (1 / m.det) = idet at hd
  unfold Mat3.det at hd
  simp only [Mat3.mk.injEq]
  refine ⟨?_, ?_, ?_, ?_, ?_, ?_, ?_, ?_, ?_⟩ <;> first | linear_combination hd | ring

theorem mat3_inv_mul (m : Mat3 K) (h : m.det ≠ 0) : m.inv.mul m = Mat3.one := by
  have hd : m.det * (1 / m.det) = 1 := by field_simp
  unfold Mat3.mul Mat3.inv Mat3.one
  generalize hi : (1 / m.det) = idet at hd
  unfold Mat3.det at hd
  simp only [Mat3.mk.injEq]
  refine ⟨?_, ?_, ?_, ?_, ?_, ?_, ?_, ?_, ?_⟩ <;> first | linear_combination hd | ring

theorem mat3_mulVec_mul (a b : Mat3 K) (v : Vec3 K) : (a.mul b).mulVec v = a.mulVec (b.mulVec v) := by
  unfold Mat3.mul Mat3.mulVec
  simp only [Vec3.mk.injEq]
  refine ⟨?_, ?_, ?_⟩ <;> ring

/-! ## MatTransform -/

/-- applying a composition = applying the parts in sequence -/
theorem apply_compose (a b : Xf K) (v : Vec3 K) : (a.compose b).apply v = a.apply (b.apply v) := by
  unfold Xf.compose Xf.apply Vec3.add Vec3.smul Mat3.mulVec Mat3.mul
  simp only [Vec3.mk.injEq]
  refine ⟨?_, ?_, ?_⟩ <;> ring

/-- composing with the inverse gives the identity (right) -/
theorem compose_inverse (a : Xf K) (hr : a.r.det ≠ 0) (hs : a.s ≠ 0) : a.compose a.inverse = Xf.id := by
  have h1 := mat3_mul_inv a.r hr
  have hss : a.s * (1 / a.s) = 1 := by field_simp
  unfold Xf.compose Xf.inverse Xf.id
  simp only [Xf.mk.injEq]
  refine ⟨?_, h1, hss⟩
  -- translation: t + R ((-(1/s)) (R⁻¹ t)) s = 0
  have hv : ∀ v : Vec3 K, a.r.mulVec (a.r.inv.mulVec v) = v := by
    intro v
    rw [← mat3_mulVec_mul, h1]
    unfold Mat3.mulVec Mat3.one
    cases v; simp
  have := hv a.t
  generalize a.r.inv.mulVec a.t = w at this ⊢
  generalize hi : (1 / a.s) = is at hss
  unfold Mat3.mulVec at this
  unfold Vec3.add Vec3.smul Mat3.mulVec
  cases ht : a.t with | mk tx ty tz =>
  rw [ht] at this
  simp only [Vec3.mk.injEq] at this ⊢
  obtain ⟨e1, e2, e3⟩ := this
  refine ⟨?_, ?_, ?_⟩
  · linear_combination (-(a.s * is)) * e1 + (-tx) * hss
  · linear_combination (-(a.s * is)) * e2 + (-ty) * hss
  · linear_combination (-(a.s * is)) * e3 + (-tz) * hss

/-- composing with the inverse gives the identity (left) -/
theorem inverse_compose (a : Xf K) (hr : a.r.det ≠ 0) (hs : a.s ≠ 0) : a.inverse.compose a = Xf.id := by
  have h1 := mat3_inv_mul a.r hr
  have hss : 1 / a.s * a.s = 1 := by field_simp
  unfold Xf.compose Xf.inverse Xf.id
  simp only [Xf.mk.injEq]
  refine ⟨?_, h1, hss⟩
  generalize hi : (1 / a.s) = is at hss
  unfold Vec3.add Vec3.smul Mat3.mulVec
  simp only [Vec3.mk.injEq]
  refine ⟨?_, ?_, ?_⟩ <;> ring

/-- `ToMatrix` represents the transform: multiplying the 4×4 matrix with a point equals `ApplyTransform` -/
theorem toMatrix_apply (a : Xf K) (v : Vec3 K) :
    rowsMulVec a.toMatrixRows v = [(a.apply v).x, (a.apply v).y, (a.apply v).z] := by
  unfold rowsMulVec Xf.toMatrixRows Xf.apply Vec3.add Vec3.smul Mat3.mulVec
  simp only [List.map_cons, List.map_nil, List.cons.injEq, and_true]
  refine ⟨?_, ?_, ?_⟩ <;> ring

/-! ## Rodrigues rotation matrix -/

/-- the two ways `RotVecToMat` computes "one minus cos" agree -/
theorem omc_branches (c s : K) (h : c * c + s * s = 1) (hc : 1 + c ≠ 0) : s * s / (1 + c) = 1 - c := by
  field_simp
  linear_combination h

/-- for a unit axis and `c² + s² = 1` the matrix is orthonormal with determinant 1 -/
theorem rodrigues_orthonormal (n : Vec3 K) (c s : K) (hn : n.x * n.x + n.y * n.y + n.z * n.z = 1)
    (hcs : c * c + s * s = 1) :
    (rodrigues n c s (1 - c)).mul (rodrigues n c s (1 - c)).transpose = Mat3.one ∧
      (rodrigues n c s (1 - c)).det = 1 := by
  cases n with | mk x y z =>
  simp only at hn
  unfold rodrigues Mat3.mul Mat3.transpose Mat3.one Mat3.det
  simp only [Mat3.mk.injEq]
  refine ⟨⟨?_, ?_, ?_, ?_, ?_, ?_, ?_, ?_, ?_⟩, ?_⟩
  · linear_combination (c^2*x^2 - c^2 - 2*c*x^2 + x^2 + 1) * hn + (y^2 + z^2) * hcs
  · linear_combination (c^2*x*y - 2*c*x*y + x*y) * hn + (-x*y) * hcs
  · linear_combination (c^2*x*z - 2*c*x*z + x*z) * hn + (-x*z) * hcs
  · linear_combination (c^2*x*y - 2*c*x*y + x*y) * hn + (-x*y) * hcs
  · linear_combination (c^2*y^2 - 2*c*y^2 + s^2 + y^2) * hn + (1 - y^2) * hcs
  · linear_combination (c^2*y*z - 2*c*y*z + y*z) * hn + (-y*z) * hcs
  · linear_combination (c^2*x*z - 2*c*x*z + x*z) * hn + (-x*z) * hcs
  · linear_combination (c^2*y*z - 2*c*y*z + y*z) * hn + (-y*z) * hcs
  · linear_combination (c^2*z^2 - 2*c*z^2 + s^2 + z^2) * hn + (1 - z^2) * hcs
  · linear_combination (-c^3 + c^2 - c*s^2*x^2 - c*s^2*y^2 - c*s^2*z^2 + s^2*x^2 + s^2*y^2 + s^2*z^2 + s^2) * hn + (1) * hcs

/-- an orthonormal matrix is inverted by its transpose (used by the averages: `baseinv = base.Transpose()`) -/
theorem transpose_inverse_of_orthonormal (m : Mat3 K) (h : m.mul m.transpose = Mat3.one) (hd : m.det = 1) :
    m.inv = m.transpose := by
  -- m⁻¹ = m⁻¹ (m mᵀ) = mᵀ
  have hne : m.det ≠ 0 := by rw [hd]; exact one_ne_zero
  have h2 := mat3_inv_mul m hne
  have assoc : ∀ a b c : Mat3 K, (a.mul b).mul c = a.mul (b.mul c) := by
    intro a b c; unfold Mat3.mul; simp only [Mat3.mk.injEq]; refine ⟨?_, ?_, ?_, ?_, ?_, ?_, ?_, ?_, ?_⟩ <;> ring
  have one_mul : ∀ a : Mat3 K, Mat3.one.mul a = a := by
    intro a; cases a; unfold Mat3.mul Mat3.one; simp
  have mul_one : ∀ a : Mat3 K, a.mul Mat3.one = a := by
    intro a; cases a; unfold Mat3.mul Mat3.one; simp
  calc m.inv = m.inv.mul Mat3.one := (mul_one _).symm
    _ = m.inv.mul (m.mul m.transpose) := by rw [h]
    _ = (m.inv.mul m).mul m.transpose := (assoc _ _ _).symm
    _ = m.transpose := by rw [h2, one_mul]

/-! ## averages and medians of identical values -/

theorem sumList_replicate (n : ℕ) (x : K) : sumList (List.replicate n x) = n * x := by
  unfold sumList
  have : ∀ (acc : K), (List.replicate n x).foldl (· + ·) acc = acc + n * x := by
    induction n with
    | zero => intro acc; simp
    | succ n ih => intro acc; rw [List.replicate_succ, List.foldl_cons, ih]; push_cast; ring
  rw [this]; ring

/-- the mean of `n ≥ 1` identical values is that value (characteristic 0) -/
theorem avg_identical [CharZero K] (n : ℕ) (hn : n ≠ 0) (x : K) : sumList (List.replicate n x) / n = x := by
  rw [sumList_replicate]
  have : (n : K) ≠ 0 := Nat.cast_ne_zero.mpr hn
  field_simp

/-- the median of `n ≥ 1` identical values is that value -/
theorem median_identical [CharZero K] (n : ℕ) (hn : n ≠ 0) (x : K) : medianSorted (List.replicate n x) = x := by
  unfold medianSorted
  simp only [List.length_replicate, hn, if_false]
  have g : ∀ k, k < n → (List.replicate n x).getD k 0 = x := by
    intro k hk; simp [List.getD_eq_getElem?_getD, hk]
  split
  · exact g _ (by omega)
  · rw [g _ (by omega), g _ (by omega)]
    have : (1 + 1 : K) ≠ 0 := by norm_num
    field_simp

/-! ## bounding sphere: the ball around the bounding box contains every point -/

/-- For every point inside the axis-aligned box `[lo, hi]`, the squared distance to the box centre
is at most the squared half diagonal. Hence a *minimal* enclosing ball has radius ≤ half the
bounding-box diagonal (minimality itself is Miniball's contract, not modelled). -/
theorem bbox_ball_encloses {F : Type} [Field F] [LinearOrder F] [IsStrictOrderedRing F] (lo hi p : Vec3 F)
    (hx : lo.x ≤ p.x ∧ p.x ≤ hi.x) (hy : lo.y ≤ p.y ∧ p.y ≤ hi.y) (hz : lo.z ≤ p.z ∧ p.z ≤ hi.z) :
    (p.x - (lo.x + hi.x) / 2) ^ 2 + (p.y - (lo.y + hi.y) / 2) ^ 2 + (p.z - (lo.z + hi.z) / 2) ^ 2 ≤
      ((hi.x - lo.x) ^ 2 + (hi.y - lo.y) ^ 2 + (hi.z - lo.z) ^ 2) / 4 := by
  have key : ∀ a b q : F, a ≤ q → q ≤ b → (q - (a + b) / 2) ^ 2 ≤ (b - a) ^ 2 / 4 := by
    intro a b q h1 h2
    have : (b - a) ^ 2 / 4 - (q - (a + b) / 2) ^ 2 = (q - a) * (b - q) := by ring
    have h3 : 0 ≤ (q - a) * (b - q) := mul_nonneg (by linarith) (by linarith)
    linarith
  have := key _ _ _ hx.1 hx.2
  have := key _ _ _ hy.1 hy.2
  have := key _ _ _ hz.1 hz.2
  linarith

/-! ### Matrix4 -/

section Mat4Inverse
variable {K : Type} [Field K]

set_option maxHeartbeats 3200000 in
theorem Mat4.mul_adjoint (m : Mat4 K) (k : Fin 16) : Mat4.mul m (Mat4.adjoint m) k = Mat4.det m * (Mat4.one : Mat4 K) k := by
  obtain ⟨n, hn⟩ := k
  interval_cases n <;>
    simp [Mat4.mul, Mat4.adjoint, Mat4.minorDet, Mat4.others, Mat4.det, Mat4.one] <;> ring



set_option maxHeartbeats 3200000 in
theorem Mat4.adjoint_mul (m : Mat4 K) (k : Fin 16) : Mat4.mul (Mat4.adjoint m) m k = Mat4.det m * (Mat4.one : Mat4 K) k := by
  obtain ⟨n, hn⟩ := k
  interval_cases n <;>
    simp [Mat4.mul, Mat4.adjoint, Mat4.minorDet, Mat4.others, Mat4.det, Mat4.one] <;> ring

theorem Mat4.mul_smul (a b : Mat4 K) (f : K) (k : Fin 16) : Mat4.mul a (Mat4.smul b f) k = Mat4.mul a b k * f := by
  simp only [Mat4.mul, Mat4.smul]; ring

theorem Mat4.smul_mul (a b : Mat4 K) (f : K) (k : Fin 16) : Mat4.mul (Mat4.smul a f) b k = Mat4.mul a b k * f := by
  simp only [Mat4.mul, Mat4.smul]; ring

/-- **`Matrix4::Inverse` is a two-sided inverse** whenever the determinant is not zero (cofactor / adjugate formula as
written in Object3d.hpp). -/
theorem Mat4.mul_inverse (m : Mat4 K) (h : Mat4.det m ≠ 0) :
    Mat4.mul m (Mat4.inverse m) = Mat4.one ∧ Mat4.mul (Mat4.inverse m) m = Mat4.one := by
  constructor <;> funext k
  · rw [Mat4.inverse, Mat4.mul_smul, Mat4.mul_adjoint]; field_simp
  · rw [Mat4.inverse, Mat4.smul_mul, Mat4.adjoint_mul]; field_simp


end Mat4Inverse

/-! ## Monoid laws of `ComposeTransforms`, determinant laws, uniqueness of the inverse -/
section Laws
open Mat3 Xf

/-- `Matrix3` product is associative -/
theorem mat3_mul_assoc (a b c : Mat3 K) : (a.mul b).mul c = a.mul (b.mul c) := by
  unfold Mat3.mul
  simp only [Mat3.mk.injEq]
  refine ⟨?_, ?_, ?_, ?_, ?_, ?_, ?_, ?_, ?_⟩ <;> ring

/-- `Determinant` is multiplicative -/
theorem mat3_det_mul (a b : Mat3 K) : (a.mul b).det = a.det * b.det := by
  unfold Mat3.mul Mat3.det; ring

theorem mat3_det_transpose (a : Mat3 K) : a.transpose.det = a.det := by
  unfold Mat3.transpose Mat3.det; ring

theorem mat3_transpose_mul (a b : Mat3 K) : (a.mul b).transpose = b.transpose.mul a.transpose := by
  unfold Mat3.mul Mat3.transpose
  simp only [Mat3.mk.injEq]
  refine ⟨?_, ?_, ?_, ?_, ?_, ?_, ?_, ?_, ?_⟩ <;> ring

/-- `ComposeTransforms` is associative: chains of node-to-parent transforms can be folded in any grouping -/
theorem compose_assoc (a b c : Xf K) : (a.compose b).compose c = a.compose (b.compose c) := by
  unfold Xf.compose Vec3.add Vec3.smul Mat3.mulVec Mat3.mul
  simp only [Xf.mk.injEq, Vec3.mk.injEq, Mat3.mk.injEq]
  refine ⟨⟨?_, ?_, ?_⟩, ⟨?_, ?_, ?_, ?_, ?_, ?_, ?_, ?_, ?_⟩, ?_⟩ <;> ring

theorem id_compose (a : Xf K) : (Xf.id : Xf K).compose a = a := by
  obtain ⟨⟨x, y, z⟩, ⟨m00, m01, m02, m10, m11, m12, m20, m21, m22⟩, s⟩ := a
  unfold Xf.compose Xf.id Vec3.add Vec3.smul Mat3.mulVec Mat3.mul Mat3.one
  simp only [Xf.mk.injEq, Vec3.mk.injEq, Mat3.mk.injEq]
  refine ⟨⟨?_, ?_, ?_⟩, ⟨?_, ?_, ?_, ?_, ?_, ?_, ?_, ?_, ?_⟩, ?_⟩ <;> ring

theorem compose_id (a : Xf K) : a.compose (Xf.id : Xf K) = a := by
  obtain ⟨⟨x, y, z⟩, ⟨m00, m01, m02, m10, m11, m12, m20, m21, m22⟩, s⟩ := a
  unfold Xf.compose Xf.id Vec3.add Vec3.smul Mat3.mulVec Mat3.mul Mat3.one
  simp only [Xf.mk.injEq, Vec3.mk.injEq, Mat3.mk.injEq]
  refine ⟨⟨?_, ?_, ?_⟩, ⟨?_, ?_, ?_, ?_, ?_, ?_, ?_, ?_, ?_⟩, ?_⟩ <;> ring

theorem id_apply (v : Vec3 K) : (Xf.id : Xf K).apply v = v := by
  obtain ⟨x, y, z⟩ := v
  unfold Xf.apply Xf.id Vec3.add Vec3.smul Mat3.mulVec Mat3.one
  simp only [Vec3.mk.injEq]
  refine ⟨?_, ?_, ?_⟩ <;> ring

/-- `ApplyTransform` with the inverse undoes `ApplyTransform` (both orders) -/
theorem inverse_apply (a : Xf K) (hr : a.r.det ≠ 0) (hs : a.s ≠ 0) (v : Vec3 K) :
    a.inverse.apply (a.apply v) = v ∧ a.apply (a.inverse.apply v) = v := by
  constructor
  · rw [← apply_compose, inverse_compose a hr hs, id_apply]
  · rw [← apply_compose, compose_inverse a hr hs, id_apply]

/-- a right inverse under `ComposeTransforms` is *the* inverse `InverseTransform` computes -/
theorem inverse_unique (a b : Xf K) (hr : a.r.det ≠ 0) (hs : a.s ≠ 0) (h : a.compose b = Xf.id) : b = a.inverse := by
  have : a.inverse.compose (a.compose b) = a.inverse.compose Xf.id := by rw [h]
  rw [← compose_assoc, inverse_compose a hr hs, id_compose, compose_id] at this
  exact this

example : ((⟨⟨1, 2, 3⟩, ⟨0, -1, 0, 1, 0, 0, 0, 0, 1⟩, 2⟩ : Xf ℚ).r.det ≠ 0) := by
  unfold Mat3.det; norm_num
end Laws

/-! ## Matrix4 monoid laws and uniqueness of the inverse -/
section Mat4Laws

theorem Mat4.mul_assoc (a b c : Mat4 K) : Mat4.mul (Mat4.mul a b) c = Mat4.mul a (Mat4.mul b c) := by
  funext k
  obtain ⟨n, hn⟩ := k
  interval_cases n <;> simp [Mat4.mul] <;> ring

theorem Mat4.mul_one (a : Mat4 K) : Mat4.mul a Mat4.one = a := by
  funext k
  obtain ⟨n, hn⟩ := k
  interval_cases n <;> simp [Mat4.mul, Mat4.one]

theorem Mat4.one_mul (a : Mat4 K) : Mat4.mul Mat4.one a = a := by
  funext k
  obtain ⟨n, hn⟩ := k
  interval_cases n <;> simp [Mat4.mul, Mat4.one]

/-- a one-sided inverse of a matrix with non-zero determinant is `Matrix4::Inverse`'s result -/
theorem Mat4.inverse_unique (m b : Mat4 K) (h : Mat4.det m ≠ 0) (hb : Mat4.mul m b = Mat4.one) : b = Mat4.inverse m := by
  have h2 := (Mat4.mul_inverse m h).2
  calc b = Mat4.mul Mat4.one b := (Mat4.one_mul b).symm
    _ = Mat4.mul (Mat4.mul (Mat4.inverse m) m) b := by rw [h2]
    _ = Mat4.mul (Mat4.inverse m) (Mat4.mul m b) := Mat4.mul_assoc _ _ _
    _ = Mat4.inverse m := by rw [hb, Mat4.mul_one]
end Mat4Laws

section InvComp
open Mat3 Xf
/-- **inverse of a composition = reversed composition of the inverses** (`InverseTransform` of a node chain can be
computed link by link) -/
theorem inverse_compose_rev (a b : Xf K) (har : a.r.det ≠ 0) (has : a.s ≠ 0) (hbr : b.r.det ≠ 0) (hbs : b.s ≠ 0) :
    (a.compose b).inverse = b.inverse.compose a.inverse := by
  have hr : (a.compose b).r.det ≠ 0 := by
    show (a.r.mul b.r).det ≠ 0
    rw [mat3_det_mul]; exact mul_ne_zero har hbr
  have hs : (a.compose b).s ≠ 0 := mul_ne_zero has hbs
  symm
  apply inverse_unique (a.compose b) _ hr hs
  rw [compose_assoc, ← compose_assoc b, compose_inverse b hbr hbs, id_compose, compose_inverse a har has]
end InvComp

section RodriguesCorners
/-- zero rotation angle (`c = 1`, `s = 0`, `1 − cos = 0`) gives the identity matrix, whatever the axis -/
theorem rodrigues_zero (n : Vec3 K) : Mat3.rodrigues n 1 0 0 = Mat3.one := by
  unfold Mat3.rodrigues Mat3.one
  simp only [Mat3.mk.injEq]
  refine ⟨?_, ?_, ?_, ?_, ?_, ?_, ?_, ?_, ?_⟩ <;> ring
/-- negating the sine (the opposite rotation about the same axis) transposes the matrix -/
theorem rodrigues_neg (n : Vec3 K) (c s omc : K) : Mat3.rodrigues n c (-s) omc = (Mat3.rodrigues n c s omc).transpose := by
  unfold Mat3.rodrigues Mat3.transpose
  simp only [Mat3.mk.injEq]
  refine ⟨?_, ?_, ?_, ?_, ?_, ?_, ?_, ?_, ?_⟩ <;> first | trivial | ring
end RodriguesCorners

end Nifly.Xform
