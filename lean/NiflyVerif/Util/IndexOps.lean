/-
C18 — models of the index utilities of include/NifUtil.hpp.

Each C++ template is transcribed as a *loop model*: a structural recursion that performs the
same comparisons, in the same order, on the same data as the C++ loop (the position `si`, the
write cursor `di` and the remaining part of the index list `indi…` are explicit).  The loop
models are total for every input (sorted or not, in range or not), which is what the
correspondence harness compares against the real templates.  `*Spec` are the naive definitions
the property talks about.
-/
namespace Nifly.Util

/-! ### EraseVectorIndices -/

/-- Body of the `for (; si < v.size(); ++si)` loop.  `xs` is `v[si..]`, `idx` is
`indices[indi..]`; the elements that are kept are exactly those the C++ moves to `v[di++]`. -/
def eraseLoop : List α → Nat → List Nat → List α
  | [], _, _ => []
  | x :: xs, si, [] => x :: eraseLoop xs (si + 1) []
  | x :: xs, si, i :: is =>
      if si = i then eraseLoop xs (si + 1) is else x :: eraseLoop xs (si + 1) (i :: is)

/-- `EraseVectorIndices(v, indices)`. -/
def erase (v : List α) (idx : List Nat) : List α :=
  match idx with
  | [] => v
  | i0 :: is => if i0 ≥ v.length then v else v.take i0 ++ eraseLoop (v.drop (i0 + 1)) (i0 + 1) is

/-- Naive definition: keep the positions that are not listed (positions counted from `si`). -/
def eraseSpecFrom (si : Nat) : List α → List Nat → List α
  | [], _ => []
  | x :: xs, idx =>
      if si ∈ idx then eraseSpecFrom (si + 1) xs idx else x :: eraseSpecFrom (si + 1) xs idx

def eraseSpec (v : List α) (idx : List Nat) : List α := eraseSpecFrom 0 v idx

/-- Write cursor / read cursor trace of the erase loop: `(di, si)` for every move
`v[di] = v[si]`.  Used to state that every access is inside the container. -/
def eraseAccesses : Nat → Nat → Nat → List Nat → List (Nat × Nat)
  | 0, _, _, _ => []
  | k + 1, di, si, [] => (di, si) :: eraseAccesses k (di + 1) (si + 1) []
  | k + 1, di, si, i :: is =>
      if si = i then eraseAccesses k di (si + 1) is
      else (di, si) :: eraseAccesses k (di + 1) (si + 1) (i :: is)

/-! ### InsertVectorIndices

The result is a list of slots; `none` marks a slot the C++ leaves with an unspecified
(moved-from / stale) value, `some x` a slot that holds the element `x` of the input. The
recursion runs from the high end, exactly like the C++ (`di` and `si` count down): `rv` is
`v[0..si]` reversed, `ridx` is `indices[0..indi]` reversed, the first argument is `di + 1`.
The output is produced from the high end, i.e. reversed.
`oob = true` is returned if the loop would read `v[si]` with `si` wrapped below zero. -/

def insertLoopRev : Nat → List α → List Nat → List (Option α) × Bool
  | 0, _, _ => ([], false)
  | d + 1, rv, [] => (rv.map some ++ List.replicate (d + 1 - rv.length) none, false)  -- `break`: v[0..di] stay in place
  | d + 1, rv, i :: is =>
      if d = i then
        let (r, o) := insertLoopRev d rv is
        (none :: r, o)
      else match rv with
        | [] => ([], true)
        | x :: xs =>
          let (r, o) := insertLoopRev d xs (i :: is)
          (some x :: r, o)

/-- `InsertVectorIndices(v, indices)`; second component: out-of-bounds read would occur. -/
def insert (v : List α) (idx : List Nat) : List (Option α) × Bool :=
  match idx.getLast? with
  | none => (v.map some, false)
  | some l =>
    if l ≥ v.length + idx.length then (v.map some, false)
    else
      let (r, o) := insertLoopRev (v.length + idx.length) v.reverse idx.reverse
      (r.reverse, o)

/-- Naive definition: walk the positions `di = 0, 1, …`; a listed position gets an empty slot,
any other takes the next element. -/
def insertSpecFrom (di : Nat) : Nat → List α → List Nat → List (Option α)
  | 0, _, _ => []
  | k + 1, v, idx =>
      if di ∈ idx then none :: insertSpecFrom (di + 1) k v idx
      else match v with
        | [] => none :: insertSpecFrom (di + 1) k [] idx
        | x :: xs => some x :: insertSpecFrom (di + 1) k xs idx

def insertSpec (v : List α) (idx : List Nat) : List (Option α) :=
  insertSpecFrom 0 (v.length + idx.length) v idx

/-! ### GenerateIndexCollapseMap / GenerateIndexExpandMap -/

/-- Loop body of `GenerateIndexCollapseMap`; first argument: iterations left. -/
def collapseLoop : Nat → Nat → Nat → List Nat → List Int
  | 0, _, _, _ => []
  | k + 1, si, di, [] => (di : Int) :: collapseLoop k (si + 1) (di + 1) []
  | k + 1, si, di, i :: is =>
      if si = i then (-1) :: collapseLoop k (si + 1) di is
      else (di : Int) :: collapseLoop k (si + 1) (di + 1) (i :: is)

def collapseMap (idx : List Nat) (mapSize : Nat) : List Int := collapseLoop mapSize 0 0 idx

/-- Naive definition: deleted positions map to -1, a survivor to the number of survivors before it. -/
def collapseSpec (idx : List Nat) (mapSize : Nat) : List Int :=
  (List.range mapSize).map fun i =>
    if i ∈ idx then (-1 : Int) else ((i - (idx.filter (· < i)).length : Nat) : Int)

/-- Inner `while (indi < indices.size() && di == indices[indi]) ++di, ++indi;` -/
def expandSkip : Nat → List Nat → Nat × List Nat
  | di, [] => (di, [])
  | di, i :: is => if di = i then expandSkip (di + 1) is else (di, i :: is)

theorem expandSkip_length_le (di : Nat) (idx : List Nat) : (expandSkip di idx).2.length ≤ idx.length := by
  induction idx generalizing di with
  | nil => simp [expandSkip]
  | cons i is ih =>
    simp only [expandSkip]
    split
    · exact Nat.le_trans (ih _) (by simp)
    · simp

/-- Loop body of `GenerateIndexExpandMap`; first argument: iterations left. -/
def expandLoop : Nat → Nat → List Nat → List Int
  | 0, _, _ => []
  | k + 1, di, idx =>
      let (di', idx') := expandSkip di idx
      (di' : Int) :: expandLoop k (di' + 1) idx'

def expandMap (idx : List Nat) (mapSize : Nat) : List Int := expandLoop mapSize 0 idx

/-! ### ApplyMapToTriangles -/

structure Tri where
  p1 : Nat
  p2 : Nat
  p3 : Nat
  deriving DecidableEq, Repr, Inhabited

/-- `static_cast<uint16_t>(int)` -/
def castU16 (x : Int) : Nat := (x % 65536).toNat

/-- One triangle of `ApplyMapToTriangles`: `none` = removed. -/
def mapTri (map : List Int) (t : Tri) : Option Tri :=
  match map[t.p1]?, map[t.p2]?, map[t.p3]? with
  | some a, some b, some c =>
      if a < 0 ∨ b < 0 ∨ c < 0 then none else some ⟨castU16 a, castU16 b, castU16 c⟩
  | _, _, _ => none

/-- `ApplyMapToTriangles(tris, map, &deletedTris)`: (new triangle list, deleted positions). -/
def applyMapLoop (map : List Int) : Nat → List Tri → List Tri × List Nat
  | _, [] => ([], [])
  | si, t :: ts =>
      let (r, d) := applyMapLoop map (si + 1) ts
      match mapTri map t with
      | none => (r, si :: d)
      | some t' => (t' :: r, d)

def applyMap (map : List Int) (tris : List Tri) : List Tri × List Nat := applyMapLoop map 0 tris

/-! ### GenerateTrianglesFromStrips -/

/-- inner loop over one strip from position `i`, with the two previous points `a b` -/
def stripLoop : Nat → Nat → Nat → List Nat → List Tri
  | _, _, _, [] => []
  | i, a, b, c :: cs =>
      let rest := stripLoop (i + 1) b c cs
      if a ≠ b ∧ b ≠ c ∧ c ≠ a then
        (if i % 2 = 0 then ⟨a, b, c⟩ else ⟨a, c, b⟩) :: rest
      else rest

def stripTris : List Nat → List Tri
  | a :: b :: c :: cs => stripLoop 2 a b (c :: cs)
  | _ => []

/-- `uint16_t a = strip[i]`: points are truncated to 16 bits (callers only pass `uint16_t` strips). -/
def stripsToTris (strips : List (List Nat)) : List Tri :=
  strips.flatMap fun s => stripTris (s.map (· % 65536))

/-- Naive definition: window `k` of a strip is `(s[k], s[k+1], s[k+2])`, wound alternately,
and dropped when degenerate. -/
def stripWindow (s : List Nat) (k : Nat) : Option Tri :=
  match s[k]?, s[k+1]?, s[k+2]? with
  | some a, some b, some c =>
      if a ≠ b ∧ b ≠ c ∧ c ≠ a then some (if k % 2 = 0 then ⟨a, b, c⟩ else ⟨a, c, b⟩) else none
  | _, _, _ => none

def stripTrisSpec (s : List Nat) : List Tri := (List.range (s.length - 2)).filterMap (stripWindow s)

/-! ### CalcMaxTriangleIndex -/
def maxTriIndex (ts : List Tri) : Nat := ts.foldl (fun m t => max (max (max m t.p1) t.p2) t.p3) 0

/-! ### ApplyIndexMapToMapKeys (keys as Int; a negative key compares as huge, like the C++
`int >= size_t` comparison) -/
def mapKey (indexMap : List Int) (off : Int) (k : Int) : Option Int :=
  if k < 0 ∨ k.toNat ≥ indexMap.length then some (k + off)
  else match indexMap[k.toNat]? with
    | some m => if m ≥ 0 then some m else none
    | none => some (k + off)

end Nifly.Util
