import NiflyVerif.Util.IndexOps
/-! Helper lemmas for C18 (property theorems are in `Props/C18.lean`). -/
namespace Nifly.Util

/-- strictly ascending -/
abbrev Asc (l : List Nat) : Prop := l.Pairwise (· < ·)

theorem eraseSpecFrom_cons_lt (s : Nat) (xs : List α) (i : Nat) (is : List Nat) (h : i < s) :
    eraseSpecFrom s xs (i :: is) = eraseSpecFrom s xs is := by
  induction xs generalizing s with
  | nil => simp [eraseSpecFrom]
  | cons x xs ih =>
    have h1 : s ≠ i := by omega
    simp only [eraseSpecFrom, List.mem_cons, h1, false_or]
    rw [ih (s + 1) (by omega)]

theorem eraseSpecFrom_nil (s : Nat) (xs : List α) : eraseSpecFrom s xs [] = xs := by
  induction xs generalizing s with
  | nil => simp [eraseSpecFrom]
  | cons x xs ih => simp [eraseSpecFrom, ih]

theorem eraseLoop_eq_spec (xs : List α) (si : Nat) (idx : List Nat)
    (hasc : Asc idx) (hge : ∀ i ∈ idx, si ≤ i) :
    eraseLoop xs si idx = eraseSpecFrom si xs idx := by
  induction xs generalizing si idx with
  | nil => cases idx <;> simp [eraseLoop, eraseSpecFrom]
  | cons x xs ih =>
    cases idx with
    | nil =>
      simp only [eraseLoop, eraseSpecFrom, List.not_mem_nil, if_false]
      rw [ih (si + 1) [] (by simp) (by simp)]
    | cons i is =>
      have hasc' : Asc is := (List.pairwise_cons.mp hasc).2
      have hlt : ∀ j ∈ is, i < j := (List.pairwise_cons.mp hasc).1
      simp only [eraseLoop, eraseSpecFrom]
      by_cases h : si = i
      · subst h
        simp only [if_true, List.mem_cons, true_or]
        rw [ih (si + 1) is hasc' (fun j hj => by have := hlt j hj; omega)]
        rw [eraseSpecFrom_cons_lt _ _ _ _ (by omega)]
      · have hnot : si ∉ i :: is := by
          intro hm
          rcases List.mem_cons.mp hm with h1 | h1
          · exact h h1
          · have := hlt si h1; have := hge i (by simp); omega
        simp only [h, if_false, hnot]
        rw [ih (si + 1) (i :: is) hasc (fun j hj => by
          rcases List.mem_cons.mp hj with h1 | h1
          · subst h1; have := hge j (by simp); omega
          · have := hlt j h1; have := hge i (by simp); omega)]

theorem eraseSpecFrom_append (s : Nat) (xs ys : List α) (idx : List Nat) :
    eraseSpecFrom s (xs ++ ys) idx = eraseSpecFrom s xs idx ++ eraseSpecFrom (s + xs.length) ys idx := by
  induction xs generalizing s with
  | nil => simp [eraseSpecFrom]
  | cons x xs ih =>
    simp only [List.cons_append, eraseSpecFrom, List.length_cons]
    rw [ih (s + 1)]
    have : s + 1 + xs.length = s + (xs.length + 1) := by omega
    rw [this]
    split <;> simp

theorem eraseSpecFrom_all_ge (s : Nat) (xs : List α) (idx : List Nat)
    (h : ∀ i ∈ idx, s + xs.length ≤ i) : eraseSpecFrom s xs idx = xs := by
  induction xs generalizing s with
  | nil => simp [eraseSpecFrom]
  | cons x xs ih =>
    have hn : s ∉ idx := fun hm => by have := h s hm; simp at this; omega
    simp only [eraseSpecFrom, hn, if_false]
    rw [ih (s + 1) (fun i hi => by have := h i hi; simp at this; omega)]

end Nifly.Util

namespace Nifly.Util

/-! ### collapse -/

theorem filter_lt_eq_nil_of_ge (idx : List Nat) (s : Nat) (h : ∀ i ∈ idx, s ≤ i) :
    idx.filter (· < s) = [] := by
  rw [List.filter_eq_nil_iff]
  intro a ha
  have := h a ha
  simp; omega

theorem collapseLoop_eq (k si di : Nat) (idx : List Nat) (hasc : Asc idx) (hge : ∀ i ∈ idx, si ≤ i) :
    collapseLoop k si di idx =
      (List.range' si k).map fun i =>
        if i ∈ idx then (-1 : Int) else ((di + (i - si) - (idx.filter (· < i)).length : Nat) : Int) := by
  induction k generalizing si di idx with
  | zero => cases idx <;> simp [collapseLoop]
  | succ k ih =>
    cases idx with
    | nil =>
      simp only [collapseLoop, List.range'_succ, List.map_cons, List.not_mem_nil, if_false,
        List.filter_nil, List.length_nil]
      rw [ih (si + 1) (di + 1) [] (by simp) (by simp)]
      congr 1
      · simp
      · apply List.map_congr_left
        intro i hi
        have := (List.mem_range'_1.mp hi).1
        simp
        omega
    | cons j is =>
      have hasc' : Asc is := (List.pairwise_cons.mp hasc).2
      have hlt : ∀ x ∈ is, j < x := (List.pairwise_cons.mp hasc).1
      have hj : si ≤ j := hge j (by simp)
      simp only [collapseLoop, List.range'_succ, List.map_cons]
      by_cases h : si = j
      · subst h
        simp only [if_true, List.mem_cons, true_or]
        rw [ih (si + 1) di is hasc' (fun x hx => by have := hlt x hx; omega)]
        congr 1
        apply List.map_congr_left
        intro i hi
        have hi1 := (List.mem_range'_1.mp hi).1
        have hne : i ≠ si := by omega
        have hdec : decide (si < i) = true := by simp; omega
        simp only [hne, false_or, List.filter_cons, hdec, if_true, List.length_cons]
        split
        · rfl
        · congr 1; omega
      · have hnot : si ∉ j :: is := by
          intro hm
          rcases List.mem_cons.mp hm with h1 | h1
          · exact h h1
          · have := hlt si h1; omega
        simp only [h, if_false, hnot]
        rw [ih (si + 1) (di + 1) (j :: is) hasc (fun x hx => by
          rcases List.mem_cons.mp hx with h1 | h1
          · omega
          · have := hlt x h1; omega)]
        congr 1
        · rw [filter_lt_eq_nil_of_ge _ _ hge]; simp
        · apply List.map_congr_left
          intro i hi
          have hi1 := (List.mem_range'_1.mp hi).1
          split
          · rfl
          · congr 1; omega

/-! ### triangle remap -/

theorem applyMapLoop_fst (map : List Int) (si : Nat) (ts : List Tri) :
    (applyMapLoop map si ts).1 = ts.filterMap (mapTri map) := by
  induction ts generalizing si with
  | nil => simp [applyMapLoop]
  | cons t ts ih =>
    simp only [applyMapLoop, List.filterMap_cons]
    have := ih (si + 1)
    split <;> rename_i h <;> simp [h, ← this]

/-- positions (counted from `si`) of the triangles that are dropped -/
def droppedFrom (map : List Int) (si : Nat) : List Tri → List Nat
  | [] => []
  | t :: ts => if (mapTri map t).isNone then si :: droppedFrom map (si + 1) ts else droppedFrom map (si + 1) ts

theorem applyMapLoop_snd (map : List Int) (si : Nat) (ts : List Tri) :
    (applyMapLoop map si ts).2 = droppedFrom map si ts := by
  induction ts generalizing si with
  | nil => simp [applyMapLoop, droppedFrom]
  | cons t ts ih =>
    simp only [applyMapLoop, droppedFrom]
    have := ih (si + 1)
    split <;> rename_i h <;> simp [h, ← this]

/-! ### strips -/

theorem stripLoop_eq (i a b : Nat) (cs : List Nat) :
    stripLoop i a b cs =
      (List.range cs.length).filterMap fun k =>
        match (a :: b :: cs)[k]?, (a :: b :: cs)[k+1]?, (a :: b :: cs)[k+2]? with
        | some x, some y, some z =>
            if x ≠ y ∧ y ≠ z ∧ z ≠ x then some (if (i + k) % 2 = 0 then ⟨x, y, z⟩ else ⟨x, z, y⟩) else none
        | _, _, _ => none := by
  induction cs generalizing i a b with
  | nil => simp [stripLoop]
  | cons c cs ih =>
    rw [stripLoop, ih (i + 1) b c, List.length_cons, List.range_succ_eq_map, List.filterMap_cons,
      List.filterMap_map]
    have hrest : (List.range cs.length).filterMap
        ((fun k => match (a :: b :: c :: cs)[k]?, (a :: b :: c :: cs)[k+1]?, (a :: b :: c :: cs)[k+2]? with
          | some x, some y, some z =>
              if x ≠ y ∧ y ≠ z ∧ z ≠ x then some (if (i + k) % 2 = 0 then (⟨x, y, z⟩ : Tri) else ⟨x, z, y⟩) else none
          | _, _, _ => none) ∘ Nat.succ) =
        (List.range cs.length).filterMap fun k =>
          match (b :: c :: cs)[k]?, (b :: c :: cs)[k+1]?, (b :: c :: cs)[k+2]? with
          | some x, some y, some z =>
              if x ≠ y ∧ y ≠ z ∧ z ≠ x then some (if (i + 1 + k) % 2 = 0 then (⟨x, y, z⟩ : Tri) else ⟨x, z, y⟩) else none
          | _, _, _ => none := by
      congr 1
      funext k
      simp only [Function.comp, Nat.succ_eq_add_one, List.getElem?_cons_succ]
      have : (i + (k + 1)) = (i + 1 + k) := by omega
      rw [this]
    rw [hrest]
    simp only [List.getElem?_cons_zero, List.getElem?_cons_succ, Nat.add_zero]
    split <;> simp_all

end Nifly.Util

namespace Nifly.Util

/-! ### expand -/

theorem expandSkip_spec (di : Nat) (idx : List Nat) (hasc : Asc idx) (hge : ∀ i ∈ idx, di ≤ i) :
    ∃ consumed, idx = consumed ++ (expandSkip di idx).2 ∧ (expandSkip di idx).1 = di + consumed.length ∧
      (∀ x ∈ consumed, x < (expandSkip di idx).1) ∧ (∀ x ∈ (expandSkip di idx).2, (expandSkip di idx).1 < x) := by
  induction idx generalizing di with
  | nil => exact ⟨[], by simp [expandSkip]⟩
  | cons i is ih =>
    have hasc' : Asc is := (List.pairwise_cons.mp hasc).2
    have hlt : ∀ x ∈ is, i < x := (List.pairwise_cons.mp hasc).1
    have hi : di ≤ i := hge i (by simp)
    by_cases h : di = i
    · subst h
      obtain ⟨c, h1, h2, h3, h4⟩ := ih (di + 1) hasc' (fun x hx => by have := hlt x hx; omega)
      refine ⟨di :: c, ?_, ?_, ?_, ?_⟩
      · simp only [expandSkip, if_true, List.cons_append]; rw [← h1]
      · simp only [expandSkip, if_true, List.length_cons]; omega
      · intro x hx
        simp only [expandSkip, if_true]
        rcases List.mem_cons.mp hx with hx | hx
        · omega
        · exact h3 x hx
      · simpa only [expandSkip, if_true] using h4
    · refine ⟨[], ?_, ?_, ?_, ?_⟩ <;> simp only [expandSkip, h, if_false]
      · simp
      · simp
      · simp
      · intro x hx
        rcases List.mem_cons.mp hx with hx | hx
        · omega
        · have := hlt x hx; omega

theorem asc_of_append_right {a b : List Nat} (h : Asc (a ++ b)) : Asc b :=
  (List.pairwise_append.mp h).2.1

theorem expandLoop_spec (k di : Nat) (idx : List Nat) (hasc : Asc idx) (hge : ∀ i ∈ idx, di ≤ i)
    (s : Nat) (hs : s < k) :
    ∃ v : Nat, (expandLoop k di idx)[s]? = some (v : Int) ∧ v ∉ idx ∧
      v = di + s + (idx.filter (· < v)).length := by
  induction k generalizing di idx s with
  | zero => omega
  | succ k ih =>
    obtain ⟨c, h1, h2, h3, h4⟩ := expandSkip_spec di idx hasc hge
    simp only [expandLoop]
    generalize hsk : expandSkip di idx = sk at h1 h2 h3 h4
    obtain ⟨d', idx'⟩ := sk
    simp only at h1 h2 h3 h4 ⊢
    have hfil : ∀ v, d' ≤ v → (idx.filter (· < v)).length = c.length + (idx'.filter (· < v)).length := by
      intro v hv
      rw [h1, List.filter_append, List.length_append]
      congr 1
      rw [List.filter_eq_self.mpr]
      intro x hx; have := h3 x hx; simp; omega
    cases s with
    | zero =>
      refine ⟨d', by simp, ?_, ?_⟩
      · rw [h1]; intro hm
        rcases List.mem_append.mp hm with hm | hm
        · have := h3 _ hm; omega
        · have := h4 _ hm; omega
      · rw [hfil d' (Nat.le_refl _)]
        have : idx'.filter (· < d') = [] := by
          rw [List.filter_eq_nil_iff]; intro x hx; have := h4 x hx; simp; omega
        rw [this]; simp; omega
    | succ s =>
      have hasc' : Asc idx' := by rw [h1] at hasc; exact asc_of_append_right hasc
      obtain ⟨v, hv1, hv2, hv3⟩ := ih (d' + 1) idx' hasc' (fun x hx => by have := h4 x hx; omega) s (by omega)
      have hvge : d' + 1 ≤ v := by omega
      refine ⟨v, by simpa using hv1, ?_, ?_⟩
      · rw [h1]; intro hm
        rcases List.mem_append.mp hm with hm | hm
        · have := h3 _ hm; omega
        · exact hv2 hm
      · rw [hfil v (by omega)]; omega

/-! ### insert -/

/-- strictly descending -/
abbrev Desc (l : List Nat) : Prop := l.Pairwise (· > ·)

theorem desc_length_le (i : Nat) (is : List Nat) (h : Desc (i :: is)) : (i :: is).length ≤ i + 1 := by
  induction is generalizing i with
  | nil => simp
  | cons j js ih =>
    have h' : Desc (j :: js) := (List.pairwise_cons.mp h).2
    have hj : i > j := (List.pairwise_cons.mp h).1 j (by simp)
    have := ih j h'
    simp only [List.length_cons] at this ⊢
    omega

/-- Characterisation of the insertion loop (output in high-to-low order): no out-of-range read,
the right length, the occupied slots are exactly the input in order, and position `p` is an empty
slot iff `p` is listed. -/
theorem insertLoopRev_spec (m : Nat) (rv : List α) (ridx : List Nat)
    (hd : Desc ridx) (hlt : ∀ i ∈ ridx, i < m) (hlen : rv.length + ridx.length = m) :
    (insertLoopRev m rv ridx).2 = false ∧ (insertLoopRev m rv ridx).1.length = m ∧
      (insertLoopRev m rv ridx).1.filterMap id = rv ∧
      ∀ p, p < m → ((insertLoopRev m rv ridx).1[m - 1 - p]? = some none ↔ p ∈ ridx) := by
  induction m generalizing rv ridx with
  | zero =>
    have : rv = [] := by cases rv <;> simp_all
    subst this
    simp [insertLoopRev]
  | succ d ih =>
    cases ridx with
    | nil =>
      simp only [List.length_nil, Nat.add_zero] at hlen
      simp only [insertLoopRev, hlen, Nat.sub_self, List.replicate_zero, List.append_nil, List.length_map,
        List.not_mem_nil, iff_false, true_and]
      refine ⟨?_, ?_⟩
      · rw [List.filterMap_map]; simp
      · intro p _; simp
    | cons i is =>
      have hd' : Desc is := (List.pairwise_cons.mp hd).2
      have hgt : ∀ x ∈ is, i > x := (List.pairwise_cons.mp hd).1
      have hi : i < d + 1 := hlt i (by simp)
      by_cases h : d = i
      · subst h
        have hlen' : rv.length + is.length = d := by simp at hlen; omega
        obtain ⟨r1, r2, r3, r4⟩ := ih rv is hd' (fun x hx => hgt x hx) hlen'
        simp only [insertLoopRev, if_true]
        refine ⟨r1, by simp [r2], by simpa using r3, ?_⟩
        intro p hp
        by_cases hpd : p = d
        · subst hpd; simp
        · have hp' : p < d := by omega
          have hidx : d + 1 - 1 - p = (d - 1 - p) + 1 := by omega
          rw [hidx, List.getElem?_cons_succ, r4 p hp']
          simp [hpd]
      · have hid : i < d := by omega
        have hcnt := desc_length_le i is hd
        cases rv with
        | nil => simp at hlen; simp at hcnt; omega
        | cons x xs =>
          have hlen' : xs.length + (i :: is).length = d := by simp at hlen ⊢; omega
          obtain ⟨r1, r2, r3, r4⟩ := ih xs (i :: is) hd (fun y hy => by
            rcases List.mem_cons.mp hy with hy | hy
            · omega
            · have := hgt y hy; omega) hlen'
          simp only [insertLoopRev, h, if_false]
          refine ⟨r1, by simp [r2], by simp [r3], ?_⟩
          intro p hp
          by_cases hpd : p = d
          · subst hpd
            simp only [Nat.add_sub_cancel, Nat.sub_self, List.getElem?_cons_zero]
            constructor
            · intro hc; simp at hc
            · intro hm
              rcases List.mem_cons.mp hm with hm | hm
              · omega
              · have := hgt _ hm; omega
          · have hp' : p < d := by omega
            have hidx : d + 1 - 1 - p = (d - 1 - p) + 1 := by omega
            rw [hidx, List.getElem?_cons_succ, r4 p hp']

/-! ### erase: cursor arithmetic of the move loop -/

theorem eraseAccesses_bounds (k di si : Nat) (idx : List Nat) (h : di < si) :
    ∀ a ∈ eraseAccesses k di si idx, a.1 < a.2 ∧ si ≤ a.2 ∧ a.2 < si + k := by
  induction k generalizing di si idx with
  | zero => simp [eraseAccesses]
  | succ k ih =>
    intro a ha
    cases idx with
    | nil =>
      simp only [eraseAccesses, List.mem_cons] at ha
      rcases ha with ha | ha
      · subst ha; simp; omega
      · have := ih (di + 1) (si + 1) [] (by omega) a ha; omega
    | cons i is =>
      simp only [eraseAccesses] at ha
      split at ha
      · have := ih di (si + 1) is (by omega) a ha; omega
      · rcases List.mem_cons.mp ha with ha | ha
        · subst ha; simp; omega
        · have := ih (di + 1) (si + 1) (i :: is) (by omega) a ha; omega

end Nifly.Util

namespace Nifly.Util

/-- slots after an ideal re-insertion: listed positions empty, every other position holds its element -/
def maskFrom (s : Nat) : List α → List Nat → List (Option α)
  | [], _ => []
  | x :: xs, idx => (if s ∈ idx then none else some x) :: maskFrom (s + 1) xs idx

theorem maskFrom_length (s : Nat) (v : List α) (idx : List Nat) : (maskFrom s v idx).length = v.length := by
  induction v generalizing s with
  | nil => rfl
  | cons x xs ih => simp [maskFrom, ih]

theorem maskFrom_filterMap (s : Nat) (v : List α) (idx : List Nat) :
    (maskFrom s v idx).filterMap id = eraseSpecFrom s v idx := by
  induction v generalizing s with
  | nil => rfl
  | cons x xs ih =>
    simp only [maskFrom, eraseSpecFrom]
    split <;> simp [ih]

theorem maskFrom_none (s : Nat) (v : List α) (idx : List Nat) (p : Nat) :
    (maskFrom s v idx)[p]? = some none ↔ p < v.length ∧ s + p ∈ idx := by
  induction v generalizing s p with
  | nil => simp [maskFrom]
  | cons x xs ih =>
    cases p with
    | zero => simp only [maskFrom, List.getElem?_cons_zero, Nat.add_zero]; split <;> simp_all
    | succ p =>
      simp only [maskFrom, List.getElem?_cons_succ, ih (s + 1) p, List.length_cons]
      have : s + 1 + p = s + (p + 1) := by omega
      rw [this]; constructor <;> (intro h; exact ⟨by omega, h.2⟩)

theorem maskFrom_get (s : Nat) (v : List α) (idx : List Nat) (p : Nat) (hp : p < v.length) (hn : s + p ∉ idx) :
    (maskFrom s v idx)[p]? = some (some v[p]) := by
  induction v generalizing s p with
  | nil => simp at hp
  | cons x xs ih =>
    cases p with
    | zero => simp only [maskFrom]; simp at hn; simp [hn]
    | succ p =>
      simp only [maskFrom, List.getElem?_cons_succ, List.getElem_cons_succ]
      apply ih
      have : s + 1 + p = s + (p + 1) := by omega
      rw [this]; exact hn

theorem opt_ext (a b : List (Option α)) (hl : a.length = b.length)
    (hn : ∀ p : Nat, a[p]? = some none ↔ b[p]? = some none) (hf : a.filterMap id = b.filterMap id) : a = b := by
  induction a generalizing b with
  | nil => cases b <;> simp_all
  | cons x xs ih =>
    cases b with
    | nil => simp at hl
    | cons y ys =>
      have h0 := hn 0
      simp only [List.getElem?_cons_zero, Option.some.injEq] at h0
      have hn' : ∀ p : Nat, xs[p]? = some none ↔ ys[p]? = some none := fun p => by simpa using hn (p + 1)
      have hl' : xs.length = ys.length := by simpa using hl
      cases x with
      | none =>
        have : y = none := h0.mp rfl
        subst this
        simp only [List.filterMap_cons, id] at hf
        rw [ih ys hl' hn' hf]
      | some u =>
        cases y with
        | none => have := h0.mpr rfl; simp at this
        | some w =>
          simp only [List.filterMap_cons, id, List.cons.injEq] at hf
          rw [hf.1, ih ys hl' hn' hf.2]

/-! ### counting listed positions in a window (for `collapse_strict_mono`) -/


theorem asc_count_window (l : List Nat) (hasc : Asc l) (a b : Nat) :
    (l.filter (fun x => decide (a ≤ x) && decide (x < b))).length ≤ b - a := by
  induction l generalizing a with
  | nil => simp
  | cons x xs ih =>
    have hx : ∀ y ∈ xs, x < y := (List.pairwise_cons.mp hasc).1
    have hasc' : Asc xs := (List.pairwise_cons.mp hasc).2
    rw [List.filter_cons]
    split
    · rename_i h
      simp only [Bool.and_eq_true, decide_eq_true_eq] at h
      have hc : xs.filter (fun y => decide (a ≤ y) && decide (y < b)) = xs.filter (fun y => decide (x + 1 ≤ y) && decide (y < b)) := by
        apply List.filter_congr
        intro y hy
        have := hx y hy
        have h1 : decide (a ≤ y) = true := by simp; omega
        have h2 : decide (x + 1 ≤ y) = true := by simp; omega
        rw [h1, h2]
      rw [List.length_cons, hc]
      have := ih hasc' (x + 1)
      omega
    · exact ih hasc' a

theorem count_split (l : List Nat) (i j : Nat) (hij : i ≤ j) :
    (l.filter (· < j)).length = (l.filter (· < i)).length + (l.filter (fun x => decide (i ≤ x) && decide (x < j))).length := by
  induction l with
  | nil => simp
  | cons x xs ih =>
    simp only [List.filter_cons]
    by_cases h1 : x < i
    · have h2 : x < j := by omega
      have h3 : ¬ (i ≤ x) := by omega
      simp [h1, h2, h3, ih]; omega
    · by_cases h2 : x < j
      · have h3 : i ≤ x := by omega
        simp [h1, h2, h3, ih]; omega
      · simp [h1, h2, ih]

end Nifly.Util
