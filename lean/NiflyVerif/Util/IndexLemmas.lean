import NiflyVerif.Util.IndexOps
/-! Helper lemmas for C18 (property theorems are in `Props/C18.lean`). -/
namespace Nifly.Util

/-- strictly ascending -/
abbrev Asc (l : List Nat) : Prop := l.Pairwise (· < ·)

theorem eraseSpecFrom_cons_lt (s : Nat) (xs : List α) (i : Nat) (is : List Nat) (h : i < s) :
    eraseSpecFrom s xs (i :: is) = eraseSpecFrom s xs is := by
  induction xs generalizing s with
  | nil => simp [eraseSpecFrom]
  | cons x xs ih =>
    have h1 : s ≠ i := by omega
    simp only [eraseSpecFrom, List.mem_cons, h1, false_or]
    rw [ih (s + 1) (by omega)]

theorem eraseSpecFrom_nil (s : Nat) (xs : List α) : eraseSpecFrom s xs [] = xs := by
  induction xs generalizing s with
  | nil => simp [eraseSpecFrom]
  | cons x xs ih => simp [eraseSpecFrom, ih]

theorem eraseLoop_eq_spec (xs : List α) (si : Nat) (idx : List Nat)
    (hasc : Asc idx) (hge : ∀ i ∈ idx, si ≤ i) :
    eraseLoop xs si idx = eraseSpecFrom si xs idx := by
  induction xs generalizing si idx with
  | nil => cases idx <;> simp [eraseLoop, eraseSpecFrom]
  | cons x xs ih =>
    cases idx with
    | nil =>
      simp only [eraseLoop, eraseSpecFrom, List.not_mem_nil, if_false]
      rw [ih (si + 1) [] (by simp) (by simp)]
    | cons i is =>
      have hasc' : Asc is := (List.pairwise_cons.mp hasc).2
      have hlt : ∀ j ∈ is, i < j := (List.pairwise_cons.mp hasc).1
      simp only [eraseLoop, eraseSpecFrom]
      by_cases h : si = i
      · subst h
        simp only [if_true, List.mem_cons, true_or]
        rw [ih (si + 1) is hasc' (fun j hj => by have := hlt j hj; omega)]
        rw [eraseSpecFrom_cons_lt _ _ _ _ (by omega)]
      · have hnot : si ∉ i :: is := by
          intro hm
          rcases List.mem_cons.mp hm with h1 | h1
          · exact h h1
          · have := hlt si h1; have := hge i (by simp); omega
        simp only [h, if_false, hnot]
        rw [ih (si + 1) (i :: is) hasc (fun j hj => by
          rcases List.mem_cons.mp hj with h1 | h1
          · subst h1; have := hge j (by simp); omega
          · have := hlt j h1; have := hge i (by simp); omega)]

theorem eraseSpecFrom_append (s : Nat) (xs ys : List α) (idx : List Nat) :
    eraseSpecFrom s (xs ++ ys) idx = eraseSpecFrom s xs idx ++ eraseSpecFrom (s + xs.length) ys idx := by
  induction xs generalizing s with
  | nil => simp [eraseSpecFrom]
  | cons x xs ih =>
    simp only [List.cons_append, eraseSpecFrom, List.length_cons]
    rw [ih (s + 1)]
    have : s + 1 + xs.length = s + (xs.length + 1) := by omega
    rw [this]
    split <;> simp

theorem eraseSpecFrom_all_ge (s : Nat) (xs : List α) (idx : List Nat)
    (h : ∀ i ∈ idx, s + xs.length ≤ i) : eraseSpecFrom s xs idx = xs := by
  induction xs generalizing s with
  | nil => simp [eraseSpecFrom]
  | cons x xs ih =>
    have hn : s ∉ idx := fun hm => by have := h s hm; simp at this; omega
    simp only [eraseSpecFrom, hn, if_false]
    rw [ih (s + 1) (fun i hi => by have := h i hi; simp at this; omega)]

end Nifly.Util
