import NiflyVerif.Wire.WritePass
import NiflyVerif.Generated.WriteMutations
/-!
# C02 — saving is repeatable and never alters the in-memory model

The write path of the library runs the same `Sync` functions as the read path; the only way a save can change
the live model is a member mutation inside a wire function that is not under a "reading" test.
`translator/writemut.py` regenerates the list of all such statements from the C++ (`Generated.writeSites`) on
every run, with their class (resize-to-count, clear, assignment, …), the members they read and the conditions
they are nested under, and the mutually consistent subsets per function (`Generated.writePaths`).

* `Nifly.WritePass.grun_of_pre` : a write pass is the identity on every state satisfying the count invariants
  (array length = count member, derived scalar = derived value) — "never alters the model";
* `Nifly.WritePass.grun_idem`   : a *staged* pass is idempotent — "second and third save see the same model";
* here: the generated table consists of ops of the modelled classes only (anything else must be individually
  reviewed and listed by signature), and every generated path is staged, for every interpretation of the
  opaque count / right-hand-side / condition expressions.
-/
namespace Nifly.C02
open Nifly.WritePass Nifly.Generated

/-- restriction of an environment to the listed members: an expression built from it cannot depend on others -/
def mask (rd : List Nat) (f : Nat → Nat) : Nat → Nat := fun r => if r ∈ rd then f r else 0

theorem mask_congr (rd rs : List Nat) (hsub : ∀ r ∈ rd, r ∈ rs) (f g : Nat → Nat) (h : ∀ r ∈ rs, f r = g r) :
    mask rd f = mask rd g := by
  funext r
  unfold mask
  split
  · next hr => exact h r (hsub r hr)
  · rfl

/-- meaning of a generated site under an interpretation `I` of its opaque expressions (`I (2*sig)` for the count
or right-hand side, `I (2*sig+1)` for the conjunction of the enclosing conditions) -/
def denote (I : Nat → (Nat → Nat) → Nat) (w : WSite) : GOp × List Nat :=
  let e : (Nat → Nat) → Nat := fun f => I (2 * w.sig) (mask w.reads f)
  let g : (Nat → Nat) → Bool := fun f => I (2 * w.sig + 1) (mask w.greads f) != 0
  let op : Op := match w.kind with
    | 2 => .clear w.target
    | 3 => .assign w.target w.reads e
    | 5 => .refill w.target e
    | _ => .resize w.target e
  (⟨g, op⟩, w.reads ++ w.greads)

def modelled (w : WSite) : Bool := w.kind == 0 || w.kind == 1 || w.kind == 2 || w.kind == 3 || w.kind == 5

/-- executable staging test on generated sites: assignments do not mention their own target; no later site
writes the target of, or a member read by, an earlier one -/
def stagedB : List WSite → Bool
  | [] => true
  | w :: rest => modelled w && (w.kind != 3 || !w.reads.contains w.target) &&
      rest.all (fun p => p.target != w.target && !(w.reads ++ w.greads).contains p.target) && stagedB rest

theorem target_denote (I) (w : WSite) :
    target (denote I w).1.o = if w.kind = 3 then .inl w.target else .inr w.target := by
  unfold denote
  simp only
  split <;> simp_all [target]

theorem target_ne (I) (p w : WSite) (h : p.target ≠ w.target) :
    target (denote I p).1.o ≠ target (denote I w).1.o := by
  rw [target_denote, target_denote]
  split <;> split <;> simp [h]

theorem target_ne_inl (I) (p : WSite) (r : Nat) (h : p.target ≠ r) : target (denote I p).1.o ≠ .inl r := by
  rw [target_denote]
  split <;> simp [h]

theorem wf_denote (I) (w : WSite) (h : w.kind ≠ 3 ∨ w.target ∉ w.reads) : wf (denote I w).1.o := by
  unfold denote
  simp only
  split
  · trivial
  · next h3 =>
    refine ⟨?_, ?_⟩
    · rcases h with h | h
      · exact absurd h3 h
      · exact h
    · intro f g hfg
      simp only
      rw [mask_congr w.reads w.reads (fun _ h => h) f g hfg]
  · trivial
  · trivial

theorem greads_denote (I) (w : WSite) : greads (denote I w).1 (denote I w).2 := by
  have he : ∀ f g : Nat → Nat, (∀ r ∈ w.reads ++ w.greads, f r = g r) →
      I (2 * w.sig) (mask w.reads f) = I (2 * w.sig) (mask w.reads g) := by
    intro f g h
    rw [mask_congr w.reads (w.reads ++ w.greads) (fun r hr => List.mem_append_left _ hr) f g h]
  refine ⟨?_, ?_⟩
  · intro f g h
    show (I (2 * w.sig + 1) (mask w.greads f) != 0) = (I (2 * w.sig + 1) (mask w.greads g) != 0)
    rw [mask_congr w.greads (w.reads ++ w.greads) (fun r hr => List.mem_append_right _ hr) f g h]
  · unfold denote
    simp only
    split
    · trivial
    · refine ⟨fun r hr => List.mem_append_left _ hr, ?_⟩
      intro f g h
      simp only
      rw [mask_congr w.reads w.reads (fun _ h => h) f g h]
    · exact he
    · exact he

/-- soundness of the executable test -/
theorem stagedB_sound (I) (ws : List WSite) (h : stagedB ws = true) : Staged (ws.map (denote I)) := by
  induction ws with
  | nil => trivial
  | cons w rest ih =>
    simp only [stagedB, Bool.and_eq_true, List.all_eq_true, Bool.or_eq_true, bne_iff_ne, ne_eq,
      Bool.not_eq_true', List.contains_eq_mem, decide_eq_false_iff_not] at h
    obtain ⟨⟨⟨_, hk⟩, hrest⟩, hst⟩ := h
    refine ⟨?_, greads_denote I w, ?_, ih hst⟩
    · apply wf_denote
      rcases hk with hk | hk
      · exact Or.inl hk
      · exact Or.inr (by simpa using hk)
    · intro p hp
      obtain ⟨q, hq, rfl⟩ := List.mem_map.1 hp
      have := hrest q hq
      refine ⟨target_ne I q w this.1, ?_⟩
      intro r hr
      apply target_ne_inl
      intro heq
      apply this.2
      rw [heq]
      exact hr

def site (i : Nat) : WSite := writeSites.getD i ⟨9, 0, [], [], 0⟩

/-- resizes to a count / clears: the classes whose invariant ("the array already has the length its count member
says") is structural and maintained by every API operation; accepted without individual review -/
def structural (w : WSite) : Bool := w.kind == 0 || w.kind == 1 || w.kind == 2 || w.kind == 5

/-- every other write-path mutation — assignments (whose invariant "the member already holds the assigned value"
is a semantic claim) and statements outside the modelled classes — reviewed one by one (signature, reason).  A new
one must be reviewed before the proof checks again. -/
def reviewed : List Nat := [
  -- NiBlockRefArray<T>::CleanInvalidRefs : arraySize = refs.size() after erasing empty references (template; runs in
  -- Sync of every reference array that does not keep empty entries: "no reference" entries are dropped from the live
  -- array; the dynamic check compares the non-empty references before/after a save)
  895743651801092571,
  -- NiStringPalette::Sync : length = palette.length()      (derived count, equal after every API write of palette)
  804166230118758786,
  -- BSGeometryMeshData::Sync : numVertices = nVertices      (derived count)
  607674572992409290,
  -- StripsInfo::Sync : hasPoints = true for files < 10.0.1.3 (format has no such flag there; not a supported version)
  1066572222547171229,
  -- NiParticleSystem::Sync : psysDataRef.index = dataRef.index (stream < 100) and the converse (stream >= 100):
  -- the two members are one logical reference stored at different places in the two layouts
  96185218132563203,
  232500059858172957,
  -- NiSkinData::Sync : if (hasVertWeights > 1) hasVertWeights = 1   (boolean byte normalised; HasVertWeights unchanged)
  1085424506110730588,
  -- NiSkinPartition::Sync : dataSize = vertexSize * numVertices (write mode, SSE)   (derived count)
  519777043612549677,
  -- bhkBallSocketConstraintChain::Sync : numEntities = 2    (constant of the format; entityRefs.SetSize(2))
  101488232545208388
]

/-- every statement that can mutate a member while writing is structural or individually reviewed … -/
theorem sites_classified : ∀ w ∈ writeSites, structural w = true ∨ w.sig ∈ reviewed := by decide

/-- … and the reviewed ones, all but the template statement, are assignments the model describes -/
theorem reviewed_modelled : ∀ w ∈ writeSites, modelled w = true ∨ w.sig = 895743651801092571 := by decide

/-- every consistent path through every wire function, with the reviewed statements set aside, is staged -/
theorem paths_staged :
    ∀ p ∈ writePaths, stagedB ((p.map site).filter modelled) = true := by decide

/-- **C02 (model).** For every wire function of the current source, every consistent path through it and every
meaning of its count / value / condition expressions: running the write pass a second time changes nothing … -/
theorem save_repeatable (I : Nat → (Nat → Nat) → Nat) (p : List Nat) (hp : p ∈ writePaths) (s : St) :
    let ops := (((p.map site).filter modelled).map (denote I)).map (·.1)
    grun (grun s ops) ops = grun s ops :=
  grun_idem s _ (stagedB_sound I _ (paths_staged p hp))

/-- … and the first pass changes nothing either when the object satisfies the invariants of its ops (array
lengths agree with their count members; derived scalars hold their derived value). -/
theorem save_preserves (I : Nat → (Nat → Nat) → Nat) (p : List Nat) (s : St)
    (h : ∀ w ∈ (p.map site).filter modelled, gpre s (denote I w).1) :
    grun s ((((p.map site).filter modelled).map (denote I)).map (·.1)) = s := by
  apply grun_of_pre
  intro o ho
  obtain ⟨q, hq, rfl⟩ := List.mem_map.1 ho
  obtain ⟨w, hw, rfl⟩ := List.mem_map.1 hq
  exact h w hw

/-! ### non-vacuity and sensitivity -/

/-- a pass in the shape of the defect repaired in `NiTriShapeData::Sync` (resize to a count, then reset the count)
is rejected by the staging test … -/
example : stagedB [⟨0, 1, [2], [], 11⟩, ⟨2, 1, [], [], 12⟩, ⟨3, 2, [], [], 13⟩] = false := by decide

/-- … and really alters the model: the pass loses the array `[7, 8]` although the state satisfied the count
invariant of the resize (the statements `clear` / `count = 0` have invariants of their own — "array empty", "count
zero" — that an API-built state does not meet, which is what `save_preserves` asks for). -/
example :
    let s : St := ⟨fun _ => 2, fun _ => [7, 8]⟩
    let ops : List GOp := [⟨fun _ => true, .resize 1 (fun f => f 2)⟩, ⟨fun _ => true, .clear 1⟩,
                           ⟨fun _ => true, .assign 2 [] (fun _ => 0)⟩]
    (grun s ops).arr 1 = [] ∧ s.arr 1 = [7, 8] := by decide

/-- a well-formed state meets the hypothesis of `save_preserves` (resize to the count the array already has) -/
example :
    let s : St := ⟨fun _ => 2, fun _ => [7, 8]⟩
    gpre s ⟨fun _ => true, .resize 1 (fun f => f 2)⟩ := by
  intro s _; rfl

end Nifly.C02
