import NiflyVerif.Mesh.SegRefit
/-!
# C09 / C17 — after a vertex deletion the segments still partition the triangles

`refit` (Mesh/SegRefit.lean) is the re-fit `BSSubIndexTriShape::notifyVerticesDelete` applies to the FO4 segmentation
(and, without sub-segments, to the SSE segment array) once `deletedTris` — the indices of the removed triangles in the
old list, strictly descending — is known.  The theorems hold for every segmentation and every such list.
-/
namespace Nifly.SegRefit

/-- sub-segments tile `[t, …)` in triangle units -/
def SubsTile : Nat → List Sub → Prop
  | _, [] => True
  | t, s :: ss => s.start = 3 * t ∧ SubsTile (t + s.n) ss

/-- a segment at triangle offset `t`: its own triangles first, then its sub-segments, together exactly its range -/
def SegWf (t : Nat) (g : Seg) : Prop :=
  g.start = 3 * t ∧ subTotal g.subs ≤ g.n ∧ SubsTile (t + (g.n - subTotal g.subs)) g.subs

theorem subs_shrink_total (ids : List Nat) (hd : ids.Pairwise (· > ·)) (ss : List Sub) (t : Nat) (ht : SubsTile t ss) :
    subTotal (ss.map (shrinkSub ids)) + inRange t (subTotal ss) ids = subTotal ss := by
  induction ss generalizing t with
  | nil => simp [subTotal, inRange]
  | cons s ss ih =>
    obtain ⟨hs, hrest⟩ := ht
    have h1 := shrink_add (s.start / 3) ids hd s.n
    have hst : s.start / 3 = t := by omega
    rw [hst] at h1
    have h2 := ih (t + s.n) hrest
    have hsplit := inRange_split t s.n (subTotal ss) ids
    simp only [subTotal, List.map_cons, List.sum_cons, shrinkSub] at *
    rw [hst]
    omega

/-- **Segment sizes sum to the new triangle count and the ranges are contiguous.**  If the segments tiled the old
triangle list `[0, T)` and the removed triangles `ids` are distinct indices below `T` (in the descending order the code
sorts them into), the re-fitted segments start at 0, follow one another without gap or overlap, and their sizes sum
to `T − |ids|`. -/
theorem refit_partitions (segs : List Seg) (ids : List Nat) (hd : ids.Pairwise (· > ·)) (ht : Tiles 0 segs)
    (hlt : ∀ x ∈ ids, x < total segs) :
    SegsContig 0 (refit segs ids) ∧ total (refit segs ids) + ids.length = total segs := by
  cases segs with
  | nil => simp [refit, SegsContig] at *; cases ids with
    | nil => rfl
    | cons a _ => exact absurd (hlt a (by simp)) (by simp [total])
  | cons g gs =>
    have hg0 : g.start = 0 := by have := ht.1; omega
    constructor
    · show SegsContig 0 (alignSegs g.start _)
      rw [hg0]; exact alignSegs_contig 0 _
    · have h := shrink_total ids hd (g :: gs) 0 ht
      rw [inRange_all (total (g :: gs)) ids hlt] at h
      show total (alignSegs g.start _) + ids.length = _
      unfold total at *
      rw [alignSegs_n]
      exact h

/-- **Sub-segments stay inside their segment.**  For a well-formed segment at any offset, after the decrement loops the
sub-segment sizes still sum to at most the segment's size … -/
theorem refit_subs_le (ids : List Nat) (hd : ids.Pairwise (· > ·)) (t : Nat) (g : Seg) (hw : SegWf t g) :
    subTotal (shrinkSeg ids g).subs ≤ (shrinkSeg ids g).n := by
  obtain ⟨hs, hle, htile⟩ := hw
  have hst : g.start / 3 = t := by omega
  have h1 := shrink_add t ids hd g.n
  have h2 := subs_shrink_total ids hd g.subs _ htile
  have h3 := shrink_add t ids hd (g.n - subTotal g.subs)
  have hsplit := inRange_split t (g.n - subTotal g.subs) (subTotal g.subs) ids
  have hn : g.n - subTotal g.subs + subTotal g.subs = g.n := by omega
  rw [hn] at hsplit
  simp only [shrinkSeg, hst]
  omega

/-- … and the alignment puts them one after the other so that the last one ends where the segment ends. -/
theorem align_subs_tail (start : Nat) (g : Seg) (hle : subTotal g.subs ≤ g.n) :
    SubsContig (start + (g.n - subTotal g.subs) * 3) (alignSeg start g).subs ∧
      subTotal (alignSeg start g).subs = subTotal g.subs := by
  unfold alignSeg
  simp only
  constructor
  · by_cases h : g.n > subTotal g.subs
    · rw [if_pos h]; exact alignSubs_contig _ _
    · rw [if_neg h]
      have : g.n - subTotal g.subs = 0 := by omega
      rw [this]; simpa using alignSubs_contig start g.subs
  · unfold subTotal; rw [alignSubs_n]

/-! ### surviving triangles keep their segment -/

/-- index of old triangle `k` in the list from which the triangles `ids` were removed (for `k` not removed) -/
def newIdx (ids : List Nat) (k : Nat) : Nat := k - inRange 0 k ids

/-- which segment (by position) holds triangle `k`, given the segment sizes -/
def segAt : List Nat → Nat → Nat → Option Nat
  | [], _, _ => none
  | n :: ns, k, i => if k < n then some i else segAt ns (k - n) (i + 1)

/-- the sizes the decrement loops leave, for sizes tiling from triangle offset `t` -/
def newSizes (ids : List Nat) : Nat → List Nat → List Nat
  | _, [] => []
  | t, n :: ns => shrink t n ids :: newSizes ids (t + n) ns

theorem inRange_le (s n : Nat) (ids : List Nat) (hd : ids.Pairwise (· > ·)) : inRange s n ids ≤ n := by
  have := shrink_add s ids hd n; omega

theorem inRange_zero (s : Nat) (ids : List Nat) : inRange s 0 ids = 0 := by
  unfold inRange
  rw [List.length_eq_zero_iff, List.filter_eq_nil_iff]
  intro x _; simp

/-- a range that starts at an index that was not removed counts like the range after it -/
theorem inRange_skip (k n : Nat) (ids : List Nat) (hk : k ∉ ids) : inRange k (n + 1) ids = inRange (k + 1) n ids := by
  unfold inRange
  congr 1
  apply List.filter_congr
  intro x hx
  have : x ≠ k := fun e => hk (e ▸ hx)
  simp only [decide_eq_decide]
  omega

theorem newIdx_add (ids : List Nat) (hd : ids.Pairwise (· > ·)) (a d : Nat) :
    newIdx ids (a + d) = newIdx ids a + (d - inRange a d ids) := by
  unfold newIdx
  have h1 := inRange_split 0 a d ids
  have h2 := inRange_le 0 a ids hd
  have h3 := inRange_le a d ids hd
  simp only [Nat.zero_add] at h1
  omega

theorem newIdx_mono (ids : List Nat) (hd : ids.Pairwise (· > ·)) (a b : Nat) (h : a ≤ b) : newIdx ids a ≤ newIdx ids b := by
  obtain ⟨d, rfl⟩ := Nat.exists_eq_add_of_le h
  rw [newIdx_add ids hd]; omega

/-- two different old indices, the smaller one not removed, stay different and in order -/
theorem newIdx_strict (ids : List Nat) (hd : ids.Pairwise (· > ·)) (a b : Nat) (h : a < b) (ha : a ∉ ids) :
    newIdx ids a < newIdx ids b := by
  obtain ⟨d, rfl⟩ := Nat.exists_eq_add_of_le (Nat.succ_le_of_lt h)
  have : a + 1 + d = a + (d + 1) := by omega
  rw [this, newIdx_add ids hd, inRange_skip a d ids ha]
  have := inRange_le (a + 1) d ids hd
  omega

theorem shrink_eq_newIdx (ids : List Nat) (hd : ids.Pairwise (· > ·)) (t n : Nat) :
    shrink t n ids = newIdx ids (t + n) - newIdx ids t := by
  have h1 := shrink_add t ids hd n
  rw [newIdx_add ids hd]
  have := inRange_le t n ids hd
  omega

/-- **A triangle that survives the deletion stays in its segment.**  For segment sizes tiling from offset `t`, a
triangle `k` of the tiled interval that was not removed lies, at its new index, in the segment (by position) it lay
in before. -/
theorem segAt_preserved (ids : List Nat) (hd : ids.Pairwise (· > ·)) (k : Nat) (hk : k ∉ ids) :
    ∀ (sizes : List Nat) (t i : Nat), t ≤ k →
      segAt (newSizes ids t sizes) (newIdx ids k - newIdx ids t) i = segAt sizes (k - t) i := by
  intro sizes
  induction sizes with
  | nil => intro t i _; rfl
  | cons n ns ih =>
    intro t i htk
    simp only [newSizes, segAt]
    rw [shrink_eq_newIdx ids hd]
    have hm1 := newIdx_mono ids hd t k htk
    by_cases hlt : k - t < n
    · have hkn : k < t + n := by omega
      have hs := newIdx_strict ids hd k (t + n) hkn hk
      have : newIdx ids k - newIdx ids t < newIdx ids (t + n) - newIdx ids t := by omega
      rw [if_pos this, if_pos hlt]
    · have hkn : t + n ≤ k := by omega
      have hm2 := newIdx_mono ids hd (t + n) k hkn
      have hm3 := newIdx_mono ids hd t (t + n) (by omega)
      have : ¬ (newIdx ids k - newIdx ids t < newIdx ids (t + n) - newIdx ids t) := by omega
      rw [if_neg this, if_neg hlt]
      have e1 : newIdx ids k - newIdx ids t - (newIdx ids (t + n) - newIdx ids t) = newIdx ids k - newIdx ids (t + n) := by omega
      have e2 : k - t - n = k - (t + n) := by omega
      rw [e1, e2]
      exact ih (t + n) (i + 1) hkn

/-- the sizes of the re-fitted segments are `newSizes` of the old ones -/
theorem refit_sizes (ids : List Nat) (gs : List Seg) (t : Nat) (ht : Tiles t gs) (start : Nat) :
    (alignSegs start (gs.map (shrinkSeg ids))).map (·.n) = newSizes ids t (gs.map (·.n)) := by
  induction gs generalizing t start with
  | nil => rfl
  | cons g gs ih =>
    obtain ⟨hs, hrest⟩ := ht
    have hst : g.start / 3 = t := by omega
    simp only [List.map_cons, alignSegs, alignSeg, newSizes, shrinkSeg, hst]
    rw [← ih (t + g.n) hrest]

/-- `segAt_preserved` for the re-fit itself -/
theorem refit_keeps_segment (segs : List Seg) (ids : List Nat) (hd : ids.Pairwise (· > ·)) (ht : Tiles 0 segs)
    (k : Nat) (hk : k ∉ ids) :
    segAt ((refit segs ids).map (·.n)) (newIdx ids k) 0 = segAt (segs.map (·.n)) k 0 := by
  cases segs with
  | nil => rfl
  | cons g gs =>
    have h := segAt_preserved ids hd k hk ((g :: gs).map (·.n)) 0 0 (Nat.zero_le _)
    have h0 : newIdx ids 0 = 0 := by simp [newIdx]
    rw [h0] at h
    simp only [Nat.sub_zero] at h
    show segAt ((alignSegs g.start ((g :: gs).map (shrinkSeg ids))).map (·.n)) _ _ = _
    rw [refit_sizes ids (g :: gs) 0 ht]
    exact h

/-- the statements are not vacuous: two segments (the second with two sub-segments) over 7 triangles, triangles 5 and
1 removed -/
example :
    let segs : List Seg := [⟨0, 3, []⟩, ⟨9, 4, [⟨12, 2⟩, ⟨18, 1⟩]⟩]
    Tiles 0 segs ∧ SegWf 3 ⟨9, 4, [⟨12, 2⟩, ⟨18, 1⟩]⟩ ∧
      refit segs [5, 1] = [⟨0, 2, []⟩, ⟨6, 3, [⟨9, 1⟩, ⟨12, 1⟩]⟩] := by
  refine ⟨⟨rfl, rfl, trivial⟩, ⟨rfl, by decide, rfl, rfl, trivial⟩, by rfl⟩

/-- without the descending order the loop miscounts (what the sort in `BSTriShape::notifyVerticesDelete` is for):
range `[0, 3)`, triangles 0 and 2 removed, presented in ascending order — only one is counted -/
example : shrink 0 3 [0, 2] = 2 ∧ shrink 0 3 [2, 0] = 1 := by decide

end Nifly.SegRefit
