import NiflyVerif.Graph.HeaderLemmas
import NiflyVerif.Graph.HeaderTrack
/-!
# C06 — block-graph edits keep every reference on its target and the header consistent

`Inv` (in `Graph/HeaderLemmas.lean`): the header's type table and per-block type indices describe
the blocks, no type name is unused or duplicated, no two slots hold the same logical block, and
every reference is empty or in range.  `view` (in `Graph/Header.lean`): per block its logical
identity, type and the logical identities its references designate.
-/
namespace Nifly.Graph
open Hdr

/-- the empty model (what `Clear`/a fresh header is) satisfies the invariant -/
theorem inv_empty (s : Bool) : Inv { hasSizes := s } :=
  ⟨rfl, fun _ => rfl, List.nodup_nil, fun _ h => by simp at h, by simp, by simp⟩

/-! ## delete -/

theorem delete_defined (h : Hdr) (i : Nat) (hinv : Inv h) (hi : i < h.blocks.length) : (h.delete i).isSome := by
  have := hinv.len_tidx
  unfold Hdr.delete
  have : ¬ (i ≥ h.blocks.length ∨ i ≥ h.tidx.length) := by omega
  simp [this]

/-- **Referent tracking for a deletion.** All other blocks survive in order with their identity
and type; each of their references designates the same logical block as before, and is empty
exactly when it was empty before or designated the deleted block. -/
theorem view_delete (h h' : Hdr) (i : Nat) (hinv : Inv h) (hi : i < h.blocks.length) (hd : h.delete i = some h') :
    view h' = ((view h).eraseIdx i).map fun (u, t, rs) =>
      (u, t, rs.map fun r => if r = some h.blocks[i].uid then none else r) := by
  have hlen := hinv.len_tidx
  unfold Hdr.delete at hd
  have hc : ¬ (i ≥ h.blocks.length ∨ i ≥ h.tidx.length) := by omega
  simp only [hc, if_false, Option.some.injEq] at hd
  subst hd
  unfold view
  simp only [map_eraseIdx, List.map_map]
  apply List.map_congr_left
  intro b hb
  have hbm : b ∈ h.blocks := (List.eraseIdx_sublist _ _).subset hb
  simp only [Function.comp, adjBlk, List.map_map, Prod.mk.injEq, true_and]
  apply List.map_congr_left
  intro r hr
  exact deref_adj h.blocks i hi hinv.uids_nodup r (fun j hj => hinv.refs_ok b hbm j (hj ▸ hr))

/-- a deletion preserves the invariant -/
theorem inv_delete (h h' : Hdr) (i : Nat) (hinv : Inv h) (hd : h.delete i = some h') : Inv h' := by
  have hlen := hinv.len_tidx
  unfold Hdr.delete at hd
  by_cases hc : i ≥ h.blocks.length ∨ i ≥ h.tidx.length
  · simp [hc] at hd
  have hi : i < h.tidx.length := by omega
  have hib : i < h.blocks.length := by omega
  simp only [hc, if_false, Option.some.injEq] at hd
  have hgd : h.tidx.getD i 0 = h.tidx[i] := by simp [List.getD_eq_getElem?_getD, List.getElem?_eq_getElem hi]
  rw [hgd] at hd
  obtain ⟨c1, c2, c3, c4, _⟩ := dropType_core h.types h.tidx i hi hinv.tidx_in_range hinv.types_nodup hinv.types_used
  generalize dropType h.types h.tidx h.tidx[i] = dt at hd c1 c2 c3 c4
  obtain ⟨types', tidx'⟩ := dt
  simp only at hd c1 c2 c3 c4
  subst hd
  refine ⟨?_, ?_, c3, ?_, ?_, ?_⟩
  · -- naming
    simp only [List.map_map]
    apply List.ext_getElem?
    intro k
    simp only [List.getElem?_map, List.getElem?_eraseIdx]
    have hnam : ∀ j : Nat, (h.tidx[j]?).bind (fun t => h.types[t]?) = (h.blocks[j]?).map (fun b : Blk => b.ty) := by
      intro j
      have := congrArg (fun l => l[j]?) hinv.naming
      simp only [List.getElem?_map] at this
      cases h1 : h.tidx[j]? <;> cases h2 : h.blocks[j]? <;> simp_all
    by_cases hk : k < i
    · simp only [hk, if_true]
      by_cases hkl : k < h.tidx.length
      · have := c2 k (by omega) hkl
        rw [hnam k] at this
        cases h1 : tidx'[k]? <;> cases h2 : h.blocks[k]? <;> simp_all [adjBlk]
      · have h1 : tidx'[k]? = none := List.getElem?_eq_none (by omega)
        have h2 : h.blocks[k]? = none := List.getElem?_eq_none (by omega)
        simp [h1, h2]
    · simp only [hk, if_false]
      by_cases hkl : k + 1 < h.tidx.length
      · have := c2 (k + 1) (by omega) hkl
        rw [hnam (k + 1)] at this
        cases h1 : tidx'[k + 1]? <;> cases h2 : h.blocks[k + 1]? <;> simp_all [adjBlk]
      · have h1 : tidx'[k + 1]? = none := List.getElem?_eq_none (by omega)
        have h2 : h.blocks[k + 1]? = none := List.getElem?_eq_none (by omega)
        simp [h1, h2]
  · intro hs
    have hs' : h.hasSizes = true := hs
    have := hinv.sizes_len hs'
    simp only [hs', if_true, List.length_map]
    rw [List.length_eraseIdx_of_lt (by omega), List.length_eraseIdx_of_lt (by omega), this]
  · intro t ht
    obtain ⟨j, hji, hj⟩ := c4 t ht
    have := getElem?_eraseIdx_shift tidx' i j hji
    rw [hj] at this
    exact List.mem_of_getElem? this
  · simp only [List.map_map]
    have : (List.map ((fun x => x.uid) ∘ adjBlk i) (h.blocks.eraseIdx i)) = (h.blocks.map (·.uid)).eraseIdx i := by
      rw [map_eraseIdx]; apply List.map_congr_left; intro b _; rfl
    rw [this]
    exact hinv.uids_nodup.sublist (List.eraseIdx_sublist _ _)
  · intro b hb j hj
    simp only [List.mem_map] at hb
    obtain ⟨b0, hb0, rfl⟩ := hb
    have hb0m : b0 ∈ h.blocks := (List.eraseIdx_sublist _ _).subset hb0
    simp only [adjBlk, List.mem_map] at hj
    obtain ⟨r, hr, hrj⟩ := hj
    simp only [List.length_map, List.length_eraseIdx_of_lt hib]
    cases r with
    | none => simp [adjRef] at hrj
    | some x =>
      have hx := hinv.refs_ok b0 hb0m x hr
      simp only [adjRef] at hrj
      split at hrj
      · simp at hrj
      · split at hrj <;> simp at hrj <;> omega

/-! ## add -/

/-- adding a block appends it; nothing else changes, every old reference designates the same block -/
theorem view_add (h : Hdr) (b : Blk) (hinv : Inv h) :
    view (h.add b) = view h ++ [(b.uid, b.ty, b.refs.map (deref (h.blocks ++ [b])))] := by
  unfold view Hdr.add
  simp only [List.map_append, List.map_cons, List.map_nil]
  congr 1
  apply List.map_congr_left
  intro x hx
  simp only [Prod.mk.injEq, true_and]
  apply List.map_congr_left
  intro r hr
  cases r with
  | none => rfl
  | some j =>
    have := hinv.refs_ok x hx j hr
    simp [deref, List.getElem?_append_left this]

theorem inv_add (h : Hdr) (b : Blk) (hinv : Inv h) (hu : b.uid ∉ h.blocks.map (·.uid))
    (hr : ∀ j, some j ∈ b.refs → j ≤ h.blocks.length) : Inv (h.add b) := by
  have hlen := hinv.len_tidx
  unfold Hdr.add addOrFindType
  by_cases hnew : h.types.idxOf b.ty = h.types.length
  · -- a new type name is appended
    have hnot : b.ty ∉ h.types := by
      intro hm; have := List.idxOf_lt_length_iff.mpr hm; omega
    simp only [hnew, if_true]
    refine ⟨?_, ?_, ?_, ?_, ?_, ?_⟩
    · simp only [List.map_append, List.map_cons, List.map_nil]
      congr 1
      · rw [← hinv.naming]
        apply List.map_congr_left
        intro t ht
        exact List.getElem?_append_left (hinv.tidx_in_range t ht)
      · simp
    · intro hs; simp only at hs; simp [hs, hinv.sizes_len hs]
    · exact List.nodup_append.mpr ⟨hinv.types_nodup, by simp, by
        intro a ha c hc; simp at hc; subst hc; intro he; subst he; exact hnot ha⟩
    · intro t ht
      simp only [List.length_append, List.length_cons, List.length_nil] at ht
      by_cases h1 : t < h.types.length
      · exact List.mem_append_left _ (hinv.types_used t h1)
      · have : t = h.types.length := by omega
        simp [this]
    · simp only [List.map_append, List.map_cons, List.map_nil]
      exact List.nodup_append.mpr ⟨hinv.uids_nodup, by simp, by
        intro a ha c hc; simp at hc; subst hc; intro he; subst he; exact hu ha⟩
    · intro x hx j hj
      simp only [List.length_append, List.length_cons, List.length_nil]
      rcases List.mem_append.mp hx with hx | hx
      · have := hinv.refs_ok x hx j hj; omega
      · simp at hx; subst hx; have := hr j hj; omega
  · have hlt : h.types.idxOf b.ty < h.types.length := by
      have := List.idxOf_le_length (a := b.ty) (l := h.types); omega
    simp only [hnew, if_false]
    refine ⟨?_, ?_, hinv.types_nodup, ?_, ?_, ?_⟩
    · simp only [List.map_append, List.map_cons, List.map_nil]
      rw [hinv.naming]
      congr 2
      rw [List.getElem?_eq_getElem hlt]; simp
    · intro hs; simp only at hs; simp [hs, hinv.sizes_len hs]
    · intro t ht; exact List.mem_append_left _ (hinv.types_used t ht)
    · simp only [List.map_append, List.map_cons, List.map_nil]
      exact List.nodup_append.mpr ⟨hinv.uids_nodup, by simp, by
        intro a ha c hc; simp at hc; subst hc; intro he; subst he; exact hu ha⟩
    · intro x hx j hj
      simp only [List.length_append, List.length_cons, List.length_nil]
      rcases List.mem_append.mp hx with hx | hx
      · have := hinv.refs_ok x hx j hj; omega
      · simp at hx; subst hx; have := hr j hj; omega

end Nifly.Graph

namespace Nifly.Graph
open Hdr

/-! ## replace -/

/-- a replacement preserves the invariant (the new block carries a fresh identity and valid references) -/
theorem inv_replace (h h' : Hdr) (i : Nat) (b : Blk) (hinv : Inv h) (hd : h.replace i b = some h')
    (hu : b.uid ∉ h.blocks.map (·.uid)) (hr : ∀ j, some j ∈ b.refs → j < h.blocks.length) : Inv h' := by
  have hlen := hinv.len_tidx
  unfold Hdr.replace at hd
  by_cases hc : i ≥ h.blocks.length ∨ i ≥ h.tidx.length
  · simp [hc] at hd
  have hi : i < h.tidx.length := by omega
  have hib : i < h.blocks.length := by omega
  simp only [hc, if_false, Option.some.injEq] at hd
  have hgd : h.tidx.getD i 0 = h.tidx[i] := by simp [List.getD_eq_getElem?_getD, List.getElem?_eq_getElem hi]
  rw [hgd] at hd
  obtain ⟨c1, c2, c3, c4, _⟩ := dropType_core h.types h.tidx i hi hinv.tidx_in_range hinv.types_nodup hinv.types_used
  generalize dropType h.types h.tidx h.tidx[i] = dt at hd c1 c2 c3 c4
  obtain ⟨types1, tidx1⟩ := dt
  obtain ⟨a1, a2, a3, a4⟩ := addOrFind_spec types1 b.ty c3
  generalize addOrFindType types1 b.ty = af at hd a1 a2 a3 a4
  obtain ⟨types2, id⟩ := af
  simp only at hd c1 c2 c3 c4 a1 a2 a3 a4
  subst hd
  have hnam : ∀ j : Nat, (h.tidx[j]?).bind (fun t => h.types[t]?) = (h.blocks[j]?).map (fun b : Blk => b.ty) := by
    intro j
    have := congrArg (fun l => l[j]?) hinv.naming
    simp only [List.getElem?_map] at this
    cases h1 : h.tidx[j]? <;> cases h2 : h.blocks[j]? <;> simp_all
  refine ⟨?_, ?_, a2, ?_, ?_, ?_⟩
  · apply List.ext_getElem?
    intro k
    simp only [List.getElem?_map, List.getElem?_set]
    by_cases hk : i = k
    · subst hk
      simp [hi, hib, c1, a1]
    · simp only [hk, if_false]
      by_cases hkl : k < h.tidx.length
      · have e1 := c2 k (by omega) hkl
        rw [hnam k] at e1
        have hkb : k < h.blocks.length := by omega
        rw [List.getElem?_eq_getElem hkb] at e1 ⊢
        have hk1 : k < tidx1.length := by omega
        rw [List.getElem?_eq_getElem hk1] at e1 ⊢
        simp only [Option.bind_some, Option.map_some] at e1 ⊢
        have hin : tidx1[k] < types1.length := (List.getElem?_eq_some_iff.mp e1).1
        rw [a3 _ hin, e1]
      · have h1 : tidx1[k]? = none := List.getElem?_eq_none (by omega)
        have h2 : h.blocks[k]? = none := List.getElem?_eq_none (by omega)
        simp [h1, h2]
  · intro hs
    have hs' : h.hasSizes = true := hs
    have := hinv.sizes_len hs'
    simp [hs', this]
  · intro t ht
    rcases a4 t ht with h1 | h1
    · obtain ⟨j, hji, hj⟩ := c4 t h1
      apply List.mem_of_getElem? (i := j)
      rw [List.getElem?_set]; simp [Ne.symm hji, hj]
    · subst h1
      apply List.mem_of_getElem? (i := i)
      rw [List.getElem?_set]; simp [c1, hi]
  · -- identities stay distinct
    rw [List.map_set]
    rw [List.nodup_iff_pairwise_ne, List.pairwise_iff_getElem]
    intro j k hj hk hjk
    simp only [List.length_set, List.length_map] at hj hk
    simp only [List.getElem_set, List.getElem_map]
    have hnd := hinv.uids_nodup
    have hmem : ∀ m (hm : m < h.blocks.length), h.blocks[m].uid ∈ h.blocks.map (·.uid) :=
      fun m hm => List.mem_map.mpr ⟨_, List.getElem_mem hm, rfl⟩
    by_cases h1 : i = j
    · subst h1
      have h2 : ¬ i = k := by omega
      simp only [↓reduceIte, h2]
      intro he; exact hu (he ▸ hmem k hk)
    · by_cases h2 : i = k
      · subst h2
        simp only [↓reduceIte, h1]
        intro he; exact hu (he ▸ hmem j hj)
      · simp only [h1, h2, if_false]
        intro he
        have := (List.getElem_inj (xs := h.blocks.map (·.uid)) (i := j) (j := k) (h₀ := by simpa using hj)
          (h₁ := by simpa using hk) hnd).mp (by simpa using he)
        omega
  · intro x hx j hj
    simp only [List.length_set]
    rcases List.mem_or_eq_of_mem_set hx with hx | hx
    · exact hinv.refs_ok x hx j hj
    · subst hx; exact hr j hj

/-! ## sequences of deletions (delete-by-type, prune) -/

theorem inv_deleteFold (f : Hdr → Nat → Bool) (l : List Nat) (h h' : Hdr) (hinv : Inv h)
    (hd : l.foldlM (fun (g : Hdr) i => if f g i then g.delete i else some g) h = some h') : Inv h' := by
  induction l generalizing h with
  | nil => simp at hd; subst hd; exact hinv
  | cons i is ih =>
    simp only [List.foldlM_cons, Option.bind_eq_bind] at hd
    split at hd
    · cases hdi : h.delete i with
      | none => simp [hdi] at hd
      | some g => rw [hdi] at hd; exact ih g (inv_delete h g i hinv hdi) hd
    · exact ih h hinv hd

theorem inv_deleteByType (h h' : Hdr) (t : Nat) (o : Bool) (hinv : Inv h) (hd : h.deleteByType t o = some h') : Inv h' := by
  unfold Hdr.deleteByType at hd
  simp only at hd
  split at hd
  · simp at hd; subst hd; exact hinv
  · exact inv_deleteFold (fun g i => !o || !g.isReferenced i) _ h h' hinv hd

theorem inv_prune (f : Nat) (h : Hdr) (root c : Nat) (r : Hdr × Nat) (hinv : Inv h) (hd : prune f h root c = some r) :
    Inv r.1 := by
  induction f generalizing h root c with
  | zero => simp [prune] at hd; subst hd; exact hinv
  | succ f ih =>
    simp only [prune] at hd
    split at hd
    · simp at hd; subst hd; exact hinv
    · rename_i i _
      cases hdi : h.delete i with
      | none => simp [hdi] at hd
      | some g => simp only [hdi] at hd; exact ih g _ _ (inv_delete h g i hinv hdi) hd

/-- pruning deletes only blocks nobody references (at the moment of deletion) and never the root -/
theorem prune_deletes_unreferenced (h : Hdr) (root : Nat) :
    ∀ i, (List.range h.blocks.length).find? (fun i => i != root && !h.isReferenced i) = some i →
      i ≠ root ∧ h.isReferenced i = false ∧ i < h.blocks.length := by
  intro i hi
  have := List.find?_some hi
  have hm := List.mem_of_find?_eq_some hi
  simp at this hm
  exact ⟨this.1, this.2, hm⟩

/-- `fuel = numBlocks` is enough: with that fuel the recursion ends because no candidate is left,
i.e. afterwards every block other than the root is referenced. -/
theorem prune_fuel (f : Nat) (h : Hdr) (root c : Nat) (r : Hdr × Nat) (hf : h.blocks.length ≤ f) (hroot : root < h.blocks.length)
    (hinv : Inv h) (hd : prune f h root c = some r) :
    ∃ root', root' < r.1.blocks.length ∧
      (List.range r.1.blocks.length).find? (fun i => i != root' && !r.1.isReferenced i) = none := by
  induction f generalizing h root c with
  | zero => omega
  | succ f ih =>
    simp only [prune] at hd
    split at hd
    · rename_i hnone
      simp at hd; subst hd; exact ⟨root, hroot, hnone⟩
    · rename_i i hfind
      obtain ⟨hne, _, hil⟩ := prune_deletes_unreferenced h root i hfind
      cases hdi : h.delete i with
      | none => simp [hdi] at hd
      | some g =>
        simp only [hdi] at hd
        have hgl : g.blocks.length = h.blocks.length - 1 := by
          unfold Hdr.delete at hdi
          have := hinv.len_tidx
          have hc : ¬ (i ≥ h.blocks.length ∨ i ≥ h.tidx.length) := by omega
          simp only [hc, if_false, Option.some.injEq] at hdi
          subst hdi
          simp [List.length_eraseIdx_of_lt hil]
        exact ih g _ _ (by omega) (by split <;> omega) (inv_delete h g i hinv hdi) hd

/-! ## referent tracking across composite operations

Every composite operation of the header is a sequence of single deletions; a single deletion removes one logical
block and clears exactly the references that designated it (`view_delete`), which is `cut [uid]`, and cuts compose
(`cut_cut`).  Hence after `DeleteBlockByType` or `DeleteUnreferencedBlocks` the model is the old one with a set `D` of
logical blocks removed, every reference to a member of `D` empty, and **every other reference designating the same
logical block as before** — for every header satisfying the invariant and every argument. -/

theorem delete_some_lt (h g : Hdr) (i : Nat) (hd : h.delete i = some g) : i < h.blocks.length := by
  unfold Hdr.delete at hd
  by_cases hc : i ≥ h.blocks.length ∨ i ≥ h.tidx.length
  · simp [hc] at hd
  · omega

/-- a single deletion as a cut -/
theorem view_delete_cut (h h' : Hdr) (i : Nat) (hinv : Inv h) (hi : i < h.blocks.length) (hd : h.delete i = some h') :
    view h' = cut [h.blocks[i].uid] (view h) := by
  rw [view_delete h h' i hinv hi hd]
  have hlen : i < (view h).length := by simpa [view] using hi
  have hk : (view h)[i].1 = h.blocks[i].uid := by simp [view]
  have hnd : ((view h).map (·.1)).Nodup := by rw [view_uids]; exact hinv.uids_nodup
  rw [eraseIdx_eq_filter_key (·.1) (view h) i hlen hnd, hk]
  unfold cut
  have hf : ((view h).filter fun x => x.1 != h.blocks[i].uid) = (view h).filter fun x => ![h.blocks[i].uid].contains x.1 := by
    apply List.filter_congr
    intro x _
    by_cases hx : x.1 = h.blocks[i].uid <;> simp [hx]
  rw [hf]
  apply List.map_congr_left
  intro x _
  obtain ⟨u, t, rs⟩ := x
  simp only [Prod.mk.injEq, true_and]
  apply List.map_congr_left
  intro r _
  cases r with
  | none => simp [clear]
  | some v => by_cases hv : v = h.blocks[i].uid <;> simp [clear, hv]

/-- **Referent tracking for any guarded sequence of deletions** (the loop of `DeleteBlockByType`). -/
theorem view_deleteFold (f : Hdr → Nat → Bool) (l : List Nat) (h h' : Hdr) (hinv : Inv h)
    (hd : l.foldlM (fun (g : Hdr) i => if f g i then g.delete i else some g) h = some h') :
    ∃ D : List Nat, view h' = cut D (view h) ∧ D.length ≤ l.length := by
  induction l generalizing h with
  | nil => simp at hd; subst hd; exact ⟨[], (cut_nil _).symm, by simp⟩
  | cons i is ih =>
    simp only [List.foldlM_cons, Option.bind_eq_bind] at hd
    split at hd
    · cases hdi : h.delete i with
      | none => simp [hdi] at hd
      | some g =>
        rw [hdi] at hd
        obtain ⟨D, hD, hl⟩ := ih g (inv_delete h g i hinv hdi) hd
        have hi := delete_some_lt h g i hdi
        refine ⟨[h.blocks[i].uid] ++ D, ?_, by simp; omega⟩
        rw [hD, view_delete_cut h g i hinv hi hdi, cut_cut]
    · obtain ⟨D, hD, hl⟩ := ih h hinv hd
      exact ⟨D, hD, by simp; omega⟩

/-- **`DeleteBlockByType` tracks referents.** -/
theorem view_deleteByType (h h' : Hdr) (t : Nat) (o : Bool) (hinv : Inv h) (hd : h.deleteByType t o = some h') :
    ∃ D : List Nat, view h' = cut D (view h) := by
  unfold Hdr.deleteByType at hd
  simp only at hd
  split at hd
  · simp at hd; subst hd; exact ⟨[], (cut_nil _).symm⟩
  · obtain ⟨D, hD, _⟩ := view_deleteFold (fun g i => !o || !g.isReferenced i) _ h h' hinv hd
    exact ⟨D, hD⟩

/-- **`DeleteUnreferencedBlocks` tracks referents, counts what it deletes and never deletes the root**: the result is
the old model with the logical blocks `D` cut out, the returned count is `|D|`, and the block the (shifted) root index
designates afterwards is the logical block the root index designated before. -/
theorem view_prune (f : Nat) (h : Hdr) (root c : Nat) (r : Hdr × Nat) (hinv : Inv h) (hroot : root < h.blocks.length)
    (hd : prune f h root c = some r) :
    ∃ (D : List Nat) (root' : Nat), view r.1 = cut D (view h) ∧ r.2 = c + D.length ∧
      r.1.blocks[root']?.map (·.uid) = some h.blocks[root].uid ∧ h.blocks[root].uid ∉ D := by
  induction f generalizing h root c with
  | zero =>
    simp [prune] at hd; subst hd
    exact ⟨[], root, (cut_nil _).symm, by simp, by simp [List.getElem?_eq_getElem hroot], by simp⟩
  | succ f ih =>
    simp only [prune] at hd
    split at hd
    · simp at hd; subst hd
      exact ⟨[], root, (cut_nil _).symm, by simp, by simp [List.getElem?_eq_getElem hroot], by simp⟩
    · rename_i i hfind
      obtain ⟨hne, _, hil⟩ := prune_deletes_unreferenced h root i hfind
      cases hdi : h.delete i with
      | none => simp [hdi] at hd
      | some g =>
        simp only [hdi] at hd
        have hginv := inv_delete h g i hinv hdi
        -- the root index after the shift designates the same logical block
        have hgb : g.blocks = (h.blocks.eraseIdx i).map (adjBlk i) := by
          have hlen := hinv.len_tidx
          unfold Hdr.delete at hdi
          have hc : ¬ (i ≥ h.blocks.length ∨ i ≥ h.tidx.length) := by omega
          simp only [hc, if_false, Option.some.injEq] at hdi
          subst hdi; rfl
        have hrne : root ≠ i := fun e => hne e.symm
        have hsh := getElem?_eraseIdx_shift h.blocks i root hrne
        have hroot'u : g.blocks[if root > i then root - 1 else root]?.map (·.uid) = some h.blocks[root].uid := by
          rw [hgb, List.getElem?_map, hsh, List.getElem?_eq_getElem hroot]
          simp [adjBlk]
        have hroot' : (if root > i then root - 1 else root) < g.blocks.length := by
          cases hx : g.blocks[if root > i then root - 1 else root]? with
          | none => rw [hx] at hroot'u; simp at hroot'u
          | some b => exact (List.getElem?_eq_some_iff.1 hx).1
        obtain ⟨D, root'', hD, hc, hr, hnm⟩ := ih g _ (c + 1) hginv hroot' hd
        have hgu : g.blocks[if root > i then root - 1 else root].uid = h.blocks[root].uid := by
          have := hroot'u
          rw [List.getElem?_eq_getElem hroot'] at this
          simpa using this
        refine ⟨[h.blocks[i].uid] ++ D, root'', ?_, ?_, ?_, ?_⟩
        · rw [hD, view_delete_cut h g i hinv hil hdi, cut_cut]
        · rw [hc]; simp; omega
        · rw [hr, hgu]
        · intro hm
          rcases List.mem_append.1 hm with h1 | h1
          · have heq : h.blocks[root].uid = h.blocks[i].uid := by simpa using h1
            have h1' : (h.blocks.map (·.uid))[root]'(by simpa using hroot) = (h.blocks.map (·.uid))[i]'(by simpa using hil) := by
              simpa using heq
            exact hrne ((List.getElem_inj hinv.uids_nodup).mp h1')
          · exact hnm (hgu ▸ h1)

/-- the statement is not vacuous: a root, a loose block that references a shared child, the shared child -/
def exHdr : Hdr := { blocks := [⟨10, 0, [some 2]⟩, ⟨11, 1, [some 2]⟩, ⟨12, 0, []⟩], types := [0, 1], tidx := [0, 1, 0],
                     sizes := [0, 0, 0] }
example : (prune 3 exHdr 0 0).map (fun r => (view r.1, r.2)) = some (cut [11] (view exHdr), 1) ∧
      cut [11] (view exHdr) = [(10, 0, [some 12]), (12, 0, [])] := ⟨by rfl, by rfl⟩

/-! ## any operation sequence -/

/-- what an operation must satisfy to be meaningful: new blocks carry a fresh identity and
references to existing blocks (a new block may also reference itself) -/
def OpOk (h : Hdr) : Op → Prop
  | .add b => b.uid ∉ h.blocks.map (·.uid) ∧ ∀ j, some j ∈ b.refs → j ≤ h.blocks.length
  | .replace (some _) b => b.uid ∉ h.blocks.map (·.uid) ∧ ∀ j, some j ∈ b.refs → j < h.blocks.length
  | .setOrder _ => False    -- covered separately by `inv_setOrder`
  | _ => True

theorem inv_step_noorder (h h' : Hdr) (op : Op) (hinv : Inv h) (hok : OpOk h op) (hs : step h op = some h') : Inv h' := by
  cases op with
  | add b => simp [step] at hs; subst hs; exact inv_add h b hinv hok.1 hok.2
  | delete i =>
    cases i with
    | none => simp [step] at hs; subst hs; exact hinv
    | some i => exact inv_delete h h' i hinv hs
  | replace i b =>
    cases i with
    | none => simp [step] at hs; subst hs; exact hinv
    | some i => exact inv_replace h h' i b hinv hs hok.1 hok.2
  | setOrder p => exact hok.elim
  | deleteByType t o => exact inv_deleteByType h h' t o hinv hs
  | prune r =>
    cases r with
    | none => simp [step] at hs; subst hs; exact hinv
    | some r =>
      simp only [step, Option.map_eq_some_iff] at hs
      obtain ⟨x, hx, rfl⟩ := hs
      exact inv_prune _ h r 0 x hinv hx

end Nifly.Graph

namespace Nifly.Graph
open Hdr

/-! ## reorder -/

theorem setOrder_cases (h h' : Hdr) (p : List Nat) (hd : h.setOrder p = some h') :
    (p.length ≠ h.blocks.length ∧ h' = h) ∨
    (p.length = h.blocks.length ∧ IsPerm p ∧ h' = { h with
      blocks := (permute p h.blocks).map fun b => { b with refs := b.refs.map (mapRef p) },
      tidx := permute p h.tidx,
      sizes := if h.hasSizes then permute p h.sizes else h.sizes }) := by
  unfold Hdr.setOrder at hd
  by_cases h1 : p.length ≠ h.blocks.length
  · rw [if_pos h1] at hd; exact Or.inl ⟨h1, (Option.some.inj hd).symm⟩
  · rw [if_neg h1] at hd
    by_cases h2 : isPerm p = true
    · simp only [h2, Bool.not_true, Bool.false_eq_true, if_false, Option.some.injEq] at hd
      exact Or.inr ⟨by omega, (isPerm_iff p).mp h2, hd.symm⟩
    · simp [h2] at hd

/-- **Referent tracking for a reordering.** The block that was at position `j` is at `p[j]`
afterwards, with the same identity and type, and each of its references designates the same
logical block as before. -/
theorem view_setOrder (h h' : Hdr) (p : List Nat) (hinv : Inv h) (hd : h.setOrder p = some h')
    (hl : p.length = h.blocks.length) (j : Nat) (hj : j < h.blocks.length) :
    (view h')[p[j]'(by omega)]? = (view h)[j]? := by
  rcases setOrder_cases h h' p hd with ⟨h1, _⟩ | ⟨_, hp, rfl⟩
  · omega
  · unfold view
    simp only [List.map_map, List.getElem?_map]
    rw [permute_at p h.blocks hp hl j (by omega), List.getElem?_eq_getElem hj]
    simp only [Option.map_some, Function.comp, Option.some.injEq, Prod.mk.injEq, true_and, List.map_map]
    apply List.map_congr_left
    intro r hr
    cases r with
    | none => rfl
    | some x =>
      have hx : x < h.blocks.length := hinv.refs_ok _ (List.getElem_mem hj) x hr
      have hxp : x < p.length := by omega
      simp only [Function.comp, mapRef, hxp, if_true, deref, Option.bind_some, List.getElem?_map]
      have : p.getD x 0 = p[x] := by simp [List.getD_eq_getElem?_getD, List.getElem?_eq_getElem hxp]
      rw [this, permute_at p h.blocks hp hl x hxp, List.getElem?_eq_getElem hx]
      rfl

theorem inv_setOrder (h h' : Hdr) (p : List Nat) (hinv : Inv h) (hd : h.setOrder p = some h') : Inv h' := by
  rcases setOrder_cases h h' p hd with ⟨_, rfl⟩ | ⟨hl, hp, rfl⟩
  · exact hinv
  · have hlt := hinv.len_tidx
    refine ⟨?_, ?_, hinv.types_nodup, ?_, ?_, ?_⟩
    · rw [permute_map, hinv.naming, ← permute_map]
      simp only [List.map_map]
      apply List.map_congr_left
      intro b _; rfl
    · intro hs
      have hs' : h.hasSizes = true := hs
      simp only [hs', if_true, List.length_map, permute_length]
      exact hinv.sizes_len hs'
    · intro t ht
      exact permute_mem p h.tidx hp (by omega) t (hinv.types_used t ht)
    · simp only [List.map_map]
      have : List.map ((fun x => x.uid) ∘ fun b : Blk => { b with refs := b.refs.map (mapRef p) }) (permute p h.blocks)
          = permute p (h.blocks.map (·.uid)) := by
        rw [← permute_map]; apply List.map_congr_left; intro b _; rfl
      rw [this]
      exact permute_nodup p _ hp (by simpa using hl) hinv.uids_nodup
    · intro b hb x hx
      simp only [List.mem_map] at hb
      obtain ⟨b0, hb0, rfl⟩ := hb
      have hb0m := permute_mem' p h.blocks hp hl b0 hb0
      simp only [List.mem_map] at hx
      obtain ⟨r, hr, hrx⟩ := hx
      simp only [List.length_map, permute_length]
      cases r with
      | none => simp [mapRef] at hrx
      | some y =>
        have hy := hinv.refs_ok b0 hb0m y hr
        have hyp : y < p.length := by omega
        simp only [mapRef, hyp, if_true, Option.some.injEq] at hrx
        have : p.getD y 0 = p[y] := by simp [List.getD_eq_getElem?_getD, List.getElem?_eq_getElem hyp]
        rw [← hrx, this, ← hl]
        exact hp.lt _ (List.getElem_mem hyp)

/-- well-formedness of an operation argument (new blocks carry a fresh identity and reference
existing blocks; a newly added block may reference itself) -/
def OpWf (h : Hdr) : Op → Prop
  | .add b => b.uid ∉ h.blocks.map (·.uid) ∧ ∀ j, some j ∈ b.refs → j ≤ h.blocks.length
  | .replace (some _) b => b.uid ∉ h.blocks.map (·.uid) ∧ ∀ j, some j ∈ b.refs → j < h.blocks.length
  | _ => True

/-- every operation preserves the invariant -/
theorem inv_step (h h' : Hdr) (op : Op) (hinv : Inv h) (hok : OpWf h op) (hs : step h op = some h') : Inv h' := by
  cases op with
  | setOrder p => exact inv_setOrder h h' p hinv hs
  | add b => exact inv_step_noorder h h' (.add b) hinv hok hs
  | delete i => exact inv_step_noorder h h' (.delete i) hinv (by cases i <;> trivial) hs
  | replace i b =>
    cases i with
    | none => exact inv_step_noorder h h' (.replace none b) hinv trivial hs
    | some i => exact inv_step_noorder h h' (.replace (some i) b) hinv hok hs
  | deleteByType t o => exact inv_step_noorder h h' (.deleteByType t o) hinv trivial hs
  | prune r => exact inv_step_noorder h h' (.prune r) hinv (by cases r <;> trivial) hs

/-- well-formedness of a whole sequence, evaluated along the run -/
def SeqWf : Hdr → List Op → Prop
  | _, [] => True
  | h, op :: ops => OpWf h op ∧ ∀ h', step h op = some h' → SeqWf h' ops

/-- **Invariant for every reachable state**: after any well-formed operation sequence (of any
length, from any state satisfying the invariant, in particular from the empty model) the header
describes the blocks, no type name is unused, no slot is shared or empty and every reference is
empty or in range. -/
theorem inv_run (h h' : Hdr) (ops : List Op) (hinv : Inv h) (hwf : SeqWf h ops) (hr : run h ops = some h') : Inv h' := by
  induction ops generalizing h with
  | nil => simp [run] at hr; subst hr; exact hinv
  | cons op ops ih =>
    simp only [run] at hr
    cases hs : step h op with
    | none => simp [hs] at hr
    | some g =>
      simp only [hs, Option.bind_some] at hr
      exact ih g (inv_step h g op hinv hwf.1 hs) (hwf.2 g hs) hr

/-- non-vacuity: a concrete sequence from the empty model satisfies the hypotheses and runs -/
example :
    let ops : List Op := [.add ⟨1, 0, [none]⟩, .add ⟨2, 0, [some 0]⟩, .add ⟨3, 1, []⟩, .delete (some 0),
      .setOrder [1, 0], .prune (some 1)]
    (run {} ops).isSome = true ∧ (run {} ops).map view = some [(2, 0, [none])] := by decide

/-! ## replace: referent tracking -/

theorem deref_set (bs : List Blk) (i : Nat) (hi : i < bs.length) (b : Blk) (hn : (bs.map (·.uid)).Nodup) (r : Option Nat) :
    deref (bs.set i b) r = if deref bs r = some bs[i].uid then some b.uid else deref bs r := by
  cases r with
  | none => simp [deref]
  | some k =>
    have hL : deref (bs.set i b) (some k) = ((bs.set i b)[k]?).map (·.uid) := rfl
    have hR : deref bs (some k) = (bs[k]?).map (·.uid) := rfl
    by_cases hk : k = i
    · subst hk
      have hv : deref bs (some k) = some bs[k].uid := by rw [hR, List.getElem?_eq_getElem hi]; rfl
      rw [if_pos hv, hL, List.getElem?_set_self hi]; rfl
    · rw [hL, List.getElem?_set_ne (Ne.symm hk), ← hR, if_neg]
      intro e
      rw [hR] at e
      rcases Nat.lt_or_ge k bs.length with hklt | hkge
      · rw [List.getElem?_eq_getElem hklt] at e
        simp only [Option.map_some, Option.some.injEq] at e
        have h1 : (bs.map (·.uid))[k]'(by simpa using hklt) = (bs.map (·.uid))[i]'(by simpa using hi) := by
          simp [e]
        exact hk ((List.getElem_inj hn).mp h1)
      · rw [List.getElem?_eq_none hkge] at e
        cases e

/-- **Referent tracking for a replacement.** The new block takes the slot; every other block keeps identity and
type, and each of its references designates the same logical block as before — except that references to the
replaced block now designate its replacement. -/
theorem view_replace (h h' : Hdr) (i : Nat) (b : Blk) (hinv : Inv h) (hi : i < h.blocks.length)
    (hd : h.replace i b = some h') :
    view h' = ((view h).map fun (u, t, rs) =>
        (u, t, rs.map fun r => if r = some h.blocks[i].uid then some b.uid else r)).set i
      (b.uid, b.ty, b.refs.map (deref (h.blocks.set i b))) := by
  have hlen := hinv.len_tidx
  unfold Hdr.replace at hd
  have hc : ¬ (i ≥ h.blocks.length ∨ i ≥ h.tidx.length) := by omega
  simp only [hc, if_false] at hd
  have hb' : h'.blocks = h.blocks.set i b := by
    generalize dropType h.types h.tidx (h.tidx.getD i 0) = dt at hd
    obtain ⟨t1, x1⟩ := dt
    simp only at hd
    generalize addOrFindType t1 b.ty = at2 at hd
    obtain ⟨t2, id⟩ := at2
    simp only [Option.some.injEq] at hd
    rw [← hd]
  unfold view
  rw [hb']
  apply List.ext_getElem
  · simp
  · intro k h1 h2
    simp only [List.getElem_map, List.getElem_set]
    by_cases hk : i = k
    · subst hk
      simp
    · simp only [hk, if_false]
      refine Prod.ext rfl (Prod.ext rfl ?_)
      simp only [List.map_map]
      apply List.map_congr_left
      intro r _
      exact deref_set h.blocks i hi b hinv.uids_nodup r

end Nifly.Graph
