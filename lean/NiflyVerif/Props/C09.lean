import NiflyVerif.Mesh.DeleteLemmas
import NiflyVerif.Props.C18
/-!
# C09 — deleting vertices keeps a shape consistent

Model: `Mesh/Delete.lean` (composition of the proved index utilities of C18). `idx` is the strictly
ascending list of deleted vertex positions, all below the vertex count `nv`.
-/
namespace Nifly.Mesh
open Nifly.Util

/-- exactly the other vertices survive, in their original relative order -/
theorem survivors (nv : Nat) (tris : List Tri) (idx : List Nat) (hasc : Asc idx) :
    (deleteVerts nv tris idx).1 = (List.range nv).filter (fun i => !decide (i ∈ idx)) := by
  unfold deleteVerts
  simp only
  rw [erase_eq_spec _ _ hasc]
  unfold eraseSpec
  rw [List.range_eq_range']
  exact eraseSpecFrom_range 0 nv idx

/-- every per-vertex attribute array keeps exactly the survivors' values, in order -/
theorem attr_kept (a : List α) (idx : List Nat) (hasc : Asc idx) : deleteAttr a idx = eraseSpec a idx :=
  erase_eq_spec a idx hasc

/-- the vertex counter: `nv - k` vertices remain -/
theorem count_after (nv : Nat) (tris : List Tri) (idx : List Nat) (hasc : Asc idx) (hin : ∀ i ∈ idx, i < nv) :
    (deleteVerts nv tris idx).1.length + idx.length = nv := by
  rw [survivors nv tris idx hasc]
  have hnd : idx.Nodup := hasc.imp (fun h => Nat.ne_of_lt h)
  -- survivors and deleted partition range nv
  have key : ∀ (l : List Nat), l.Nodup → (∀ i ∈ idx, i ∈ l) →
      (l.filter (fun i => !decide (i ∈ idx))).length + idx.length = l.length := by
    intro l hl hsub
    have h1 : (l.filter (fun i => !decide (i ∈ idx))).length + (l.filter (fun i => decide (i ∈ idx))).length = l.length := by
      clear hl hsub
      induction l with
      | nil => rfl
      | cons a l ih =>
        simp only [List.filter_cons, List.length_cons]
        by_cases ha : a ∈ idx <;> simp [ha] <;> omega
    have h2 : (l.filter (fun i => decide (i ∈ idx))).length = idx.length := by
      apply List.Perm.length_eq
      rw [List.perm_ext_iff_of_nodup (hl.filter _) hnd]
      intro a
      simp only [List.mem_filter, decide_eq_true_eq]
      exact ⟨fun h => h.2, fun h => ⟨hsub a h, h⟩⟩
    omega
  have := key (List.range nv) List.nodup_range (fun i hi => by simpa using hin i hi)
  simpa using this

/-- exactly the triangles that used no deleted vertex survive, re-indexed, in their original order -/
theorem tris_kept (nv : Nat) (tris : List Tri) (idx : List Nat) (hasc : Asc idx) :
    (deleteVerts nv tris idx).2.1 = tris.filterMap (mapTri (collapseSpec idx nv)) ∧
    (deleteVerts nv tris idx).2.2 = droppedFrom (collapseSpec idx nv) 0 tris := by
  unfold deleteVerts
  simp only
  rw [collapse_eq_spec idx nv hasc, applyMap_spec]
  exact ⟨rfl, rfl⟩

/-- a triangle survives iff all three corners exist and none is deleted; its corners become their ranks -/
theorem tri_survives (nv : Nat) (idx : List Nat) (t : Tri) :
    mapTri (collapseSpec idx nv) t =
      (if t.p1 < nv ∧ t.p2 < nv ∧ t.p3 < nv ∧ t.p1 ∉ idx ∧ t.p2 ∉ idx ∧ t.p3 ∉ idx
       then some ⟨castU16 (rank idx t.p1), castU16 (rank idx t.p2), castU16 (rank idx t.p3)⟩ else none) := by
  unfold mapTri
  by_cases h1 : t.p1 < nv
  · by_cases h2 : t.p2 < nv
    · by_cases h3 : t.p3 < nv
      · rw [collapseSpec_get idx nv _ h1, collapseSpec_get idx nv _ h2, collapseSpec_get idx nv _ h3]
        by_cases e1 : t.p1 ∈ idx <;> by_cases e2 : t.p2 ∈ idx <;> by_cases e3 : t.p3 ∈ idx <;>
          simp [h1, h2, h3, e1, e2, e3] <;> omega
      · rw [collapseSpec_get_none idx nv t.p3 (by omega)]; simp [h3]
    · rw [collapseSpec_get_none idx nv t.p2 (by omega)]; simp [h2]
  · rw [collapseSpec_get_none idx nv t.p1 (by omega)]; simp [h1]

/-- **every remaining triangle index refers to an existing vertex** (vertex counts up to 65536, so the 16-bit
cast is the identity) -/
theorem tri_indices_in_range (nv : Nat) (tris : List Tri) (idx : List Nat) (hasc : Asc idx) (hin : ∀ i ∈ idx, i < nv)
    (hnv : nv ≤ 65536) :
    ∀ t ∈ (deleteVerts nv tris idx).2.1, t.p1 < nv - idx.length ∧ t.p2 < nv - idx.length ∧ t.p3 < nv - idx.length := by
  intro t ht
  rw [(tris_kept nv tris idx hasc).1] at ht
  obtain ⟨t0, _, h0⟩ := List.mem_filterMap.mp ht
  rw [tri_survives] at h0
  split at h0
  · rename_i hc
    obtain ⟨a1, a2, a3, b1, b2, b3⟩ := hc
    have r1 := (rank_lt idx nv t0.p1 hasc hin a1 b1).1
    have r2 := (rank_lt idx nv t0.p2 hasc hin a2 b2).1
    have r3 := (rank_lt idx nv t0.p3 hasc hin a3 b3).1
    simp only [Option.some.injEq] at h0
    subst h0
    have cast : ∀ r : Nat, r < nv - idx.length → castU16 (r : Int) = r := by
      intro r hr
      unfold castU16
      have : (r : Int) % 65536 = r := Int.emod_eq_of_lt (by omega) (by omega)
      rw [this]; simp
    simp only [cast _ r1, cast _ r2, cast _ r3]
    exact ⟨r1, r2, r3⟩
  · simp at h0

example : deleteVerts 5 [⟨0, 1, 2⟩, ⟨2, 3, 4⟩, ⟨0, 2, 4⟩] [1, 3] = ([0, 2, 4], [⟨0, 1, 2⟩], [0, 1]) := by decide

/-! ### skin weights (`NiSkinData::notifyVerticesDelete`) -/

theorem filterMap_congr' {α γ : Type _} (f g : α → Option γ) (l : List α) (h : ∀ a ∈ l, f a = g a) :
    l.filterMap f = l.filterMap g := by
  induction l with
  | nil => rfl
  | cons a l ih =>
    rw [List.filterMap_cons, List.filterMap_cons, h a (by simp), ih (fun b hb => h b (by simp [hb]))]

theorem asc_le_getLast (idx : List Nat) (hi : Nat) (hasc : Asc idx) (hl : idx.getLast? = some hi) :
    hi ∈ idx ∧ ∀ i ∈ idx, i ≤ hi := by
  induction idx with
  | nil => simp at hl
  | cons a l ih =>
    cases l with
    | nil =>
      simp only [List.getLast?_singleton, Option.some.injEq] at hl
      subst hl
      simp
    | cons b l =>
      rw [List.getLast?_cons_cons] at hl
      have hasc' : Asc (b :: l) := (List.pairwise_cons.1 hasc).2
      obtain ⟨h1, h2⟩ := ih hasc' hl
      refine ⟨List.mem_cons_of_mem _ h1, ?_⟩
      intro i hi'
      rcases List.mem_cons.1 hi' with rfl | hi'
      · have := (List.pairwise_cons.1 hasc).1 hi h1
        omega
      · exact h2 i hi'

/-- **`NiSkinData::notifyVerticesDelete` on one bone's weight list**: exactly the entries of deleted vertices are
dropped, every other entry keeps its weight and is re-indexed to the rank of its vertex among the survivors. -/
theorem deleteWeights_spec (w : List (Nat × β)) (idx : List Nat) (hasc : Asc idx) :
    deleteWeights w idx = w.filterMap fun p => if p.1 ∈ idx then none else some (rank idx p.1, p.2) := by
  unfold deleteWeights
  cases hl : idx.getLast? with
  | none =>
    have : idx = [] := List.getLast?_eq_none_iff.1 hl
    subst this
    simp only
    induction w with
    | nil => rfl
    | cons p w ih => simp [rank] at ih ⊢
  | some hi =>
    simp only
    obtain ⟨hmem, hle⟩ := asc_le_getLast idx hi hasc hl
    apply filterMap_congr'
    intro p _
    obtain ⟨v, x⟩ := p
    simp only
    by_cases hv : v > hi
    · rw [if_pos hv]
      have hn : v ∉ idx := fun h => by have := hle v h; omega
      rw [if_neg hn]
      have : idx.filter (· < v) = idx := by
        apply List.filter_eq_self.2
        intro i hi'
        have := hle i hi'
        simp; omega
      simp [rank, this]
    · rw [if_neg hv]
      rw [collapse_eq_spec idx (hi + 1) hasc, collapseSpec_get idx (hi + 1) v (by omega)]
      simp only
      by_cases hm : v ∈ idx
      · simp [hm]
      · simp [hm]

end Nifly.Mesh
