import NiflyVerif.Graph.Lookup
/-!
# C15 — corrupted block references never crash loading, querying or saving

What is provable about the mechanisms that absorb damaged references (the crash-freedom of the whole library
on damaged files is a runtime matter and is decided by the fault enumeration under ASan/UBSan, see props/c15.py):

* `lookup_total`      : `GetBlock<T>` answers "no block" for an empty, out-of-range or wrongly typed reference, and
                        when it answers a block the index is in range and the type is accepted;
* `traversal_once`    : a visited-set traversal (definable only because Lean's termination checker accepts it for
                        every reference function, cyclic or not) expands each block at most once and only blocks
                        that exist, and never forgets what it visited;
* examples            : a node that is its own child, and a two-cycle, are traversed and left.
-/
namespace Nifly.C15
open Nifly.Lookup

theorem lookup_total (blocks : List Blk) (isT : Nat → Bool) (r : Option Nat) :
    (∀ b, getBlock blocks isT r = some b →
        ∃ i, r = some i ∧ i < blocks.length ∧ blocks[i]? = some b ∧ isT b.ty = true) ∧
    ((r = none ∨ (∃ i, r = some i ∧ blocks.length ≤ i) ∨
        (∃ i b, r = some i ∧ blocks[i]? = some b ∧ isT b.ty = false)) → getBlock blocks isT r = none) :=
  ⟨fun b h => getBlock_some blocks isT r b h, getBlock_none_of_bad blocks isT r⟩

theorem traversal_once (kids : Nat → List Nat) (n budget : Nat) (start : List Nat) :
    (visit kids n budget start []).Nodup ∧ (∀ v ∈ visit kids n budget start [], v < n) ∧
    (visit kids n budget start []).length ≤ n := by
  have hn := visit_nodup kids n budget start [] List.nodup_nil
  have hb := visit_bounded kids n budget start [] (by simp)
  refine ⟨hn, hb, ?_⟩
  -- a duplicate-free list of numbers below n has at most n elements
  have : ∀ (l : List Nat) (m : Nat), l.Nodup → (∀ v ∈ l, v < m) → l.length ≤ m := by
    intro l m
    induction m generalizing l with
    | zero =>
      intro _ h
      cases l with
      | nil => simp
      | cons a l => exact absurd (h a (by simp)) (by omega)
    | succ m ih =>
      intro hnd h
      -- remove m from l
      have hl : (l.filter (fun x => x != m)).length ≤ m := by
        apply ih
        · exact hnd.filter _
        · intro v hv
          have := List.mem_filter.1 hv
          have h1 := h v this.1
          have h2 : v ≠ m := by simpa using this.2
          omega
      have hc : ∀ l : List Nat, l.Nodup → l.length ≤ (l.filter (fun x => x != m)).length + 1 := by
        intro l
        induction l with
        | nil => simp
        | cons a l ih2 =>
          intro hnd
          have hnd' := List.nodup_cons.1 hnd
          by_cases ha : a = m
          · subst ha
            have hf : l.filter (fun x => x != a) = l := by
              apply List.filter_eq_self.2
              intro b hb
              have : b ≠ a := fun e => hnd'.1 (e ▸ hb)
              simpa using this
            rw [List.filter_cons]
            simp only [bne_self_eq_false, Bool.false_eq_true, if_false, hf, List.length_cons]
            omega
          · have := ih2 hnd'.2
            rw [List.filter_cons]
            have hne : (a != m) = true := by simpa using ha
            simp only [hne, if_true, List.length_cons]
            omega
      have := hc l hnd
      omega
  exact this _ n hn hb

/-- a block that lists itself as a child (the damage that made `GetNodeTransformToGlobal` loop): visited once -/
example : visit (fun _ => [0]) 1 1 [0] [] = [0] := by simp [visit]

/-- a two-cycle 0 → 1 → 0 plus an out-of-range reference: both visited once, the bad index dropped -/
example : visit (fun i => if i = 0 then [1, 7] else [0]) 2 2 [0] [] = [0, 1] := by simp [visit]

example : getBlock [⟨1, []⟩, ⟨2, []⟩] (· == 2) (some 0) = none ∧ getBlock [⟨1, []⟩, ⟨2, []⟩] (· == 2) (some 1) = some ⟨2, []⟩ ∧
    getBlock [⟨1, []⟩, ⟨2, []⟩] (· == 2) (some 2) = none := by decide

end Nifly.C15
