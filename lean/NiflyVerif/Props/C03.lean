import NiflyVerif.Wire.HeaderLemmas
import NiflyVerif.Wire.Strings
/-!
# C03 — blocks of unknown type survive load and save untouched

File model with opaque payloads: a block whose type has no factory is kept as the bytes the header's size
table declares (`NiUnknown`); with unknown blocks present sorting/pruning are off and the string table is only
appended to.
-/
namespace Nifly.Wire

/-- with unknown blocks present the old string table is a prefix of the new one: every index that existed in
the input still denotes the same string (so indices hidden inside opaque payloads stay valid) -/
theorem strings_prefix (tbl : List Str) (refs : List (Option Nat × Str)) :
    tbl <+: (updateHeaderStrings true tbl refs).1 := by
  unfold updateHeaderStrings
  exact updateRefs_prefix tbl refs

theorem old_index_same_string (tbl : List Str) (refs : List (Option Nat × Str)) (i : Nat) (hi : i < tbl.length) :
    (updateHeaderStrings true tbl refs).1[i]? = tbl[i]? := by
  obtain ⟨t, ht⟩ := strings_prefix tbl refs
  rw [← ht, List.getElem?_append_left hi]

/-- a saved file in which block `i` is written back as the bytes that were read (what `NiUnknown::Sync` does)
is read by the independent reader with payload `i`, its size entry and its position unchanged -/
theorem unknown_preserved (h : Header) (wf : HeaderWF h) (blocks : List Bytes) (hs : hasSizes h.file = true)
    (hsz : h.sizes = blocks.map List.length) (i : Nat) (hi : i < blocks.length) :
    ∃ h' bs, walkFile (encHeader h ++ blocks.flatten ++ footer) = some (h', bs) ∧ bs[i]? = blocks[i]? ∧
      h'.sizes[i]? = some (blocks[i]).length ∧ h'.tidx = h.tidx ∧ h'.types = h.types := by
  have hw : walkFile (encHeader h ++ blocks.flatten ++ footer) = some (h, blocks) := by
    unfold walkFile
    rw [List.append_assoc, decHeader_encHeader h wf]
    simp only [hs, Bool.not_true, Bool.false_eq_true, if_false, hsz]
    rw [splitBlocks_flatten]
    simp
  refine ⟨h, blocks, hw, rfl, ?_, rfl, rfl⟩
  rw [hsz, List.getElem?_map, List.getElem?_eq_getElem hi]; rfl

end Nifly.Wire
