import NiflyVerif.Wire.HeaderLemmas
import NiflyVerif.Generated.SchemasWf
/-!
# C01 — load/save round trip reaches a byte-level fixed point (file level)

File model: header ++ block payloads ++ footer, payloads opaque. What is proved here is the file-level
composition: a file the library wrote (header tables consistent with the payloads) is decoded by the
reader to exactly the header and payloads it was built from, and re-encoding those gives back the same
bytes — so the raw save is a fixed point *provided every block's `Sync` is reversible* (reading a payload and
writing it again gives the payload).

Block level (second half of this file): `translator/schema.py` regenerates, from the `Sync` bodies of the C++ on
every run, the wire schema of every (block type, version) pair inside the modelled fragment
(`Generated.schemas`); `Wire/Schema.lean` proves for *every* well-formed schema that re-encoding what the reader
decoded reproduces the bytes (`Nifly.Schema.wr_rd`), and `all_wf` decides well-formedness of all generated schemas,
so `block_fixed_point` holds for all of them. Types outside the fragment are listed in `Generated.schemaOpaque`
and remain covered by the differential campaign only.
-/
namespace Nifly.Wire

/-- a written file: header, payloads, footer -/
def encFile (h : Header) (blocks : List Bytes) : Bytes := encHeader h ++ blocks.flatten ++ footer

/-- decode ∘ encode = id on files whose size table lists the payload lengths -/
theorem file_decode_encode (h : Header) (wf : HeaderWF h) (blocks : List Bytes) (hs : hasSizes h.file = true)
    (hsz : h.sizes = blocks.map List.length) : walkFile (encFile h blocks) = some (h, blocks) := by
  unfold walkFile encFile
  rw [List.append_assoc, decHeader_encHeader h wf]
  simp only [hs, Bool.not_true, Bool.false_eq_true, if_false, hsz]
  rw [splitBlocks_flatten]
  simp

/-- **File-level fixed point.** Re-encoding what the reader decoded from a written file reproduces the file
byte for byte. -/
theorem raw_fixed_point (h : Header) (wf : HeaderWF h) (blocks : List Bytes) (hs : hasSizes h.file = true)
    (hsz : h.sizes = blocks.map List.length) :
    (walkFile (encFile h blocks)).map (fun p => encFile p.1 p.2) = some (encFile h blocks) := by
  rw [file_decode_encode h wf blocks hs hsz]; rfl

/-- the little-endian integer codec used by every field is a bijection between values below 256^w and byte
strings of length w (both directions of the primitive round trip) -/
theorem prim_roundtrip (w n : Nat) (h : n < 256 ^ w) (b : Bytes) (hb : IsBytes b) :
    leDecode (leEncode w n) = n ∧ leEncode b.length (leDecode b) = b :=
  ⟨leDecode_leEncode w n h, leEncode_leDecode b hb⟩

def sampleHeader : Header :=
  { verLine := [65], file := V 20 2 0 7, user := 12, «stream» := 100, numBlocks := 2, types := [[66]],
    tidx := [0, 0], sizes := [1, 2] }

example : (walkFile (encFile sampleHeader [[7], [8, 9]])).isSome = true := by decide

end Nifly.Wire

/-! ### block level: generated schemas -/

namespace Nifly.C01
open Nifly.Wire Nifly.Schema Nifly.Generated

/-- every generated schema obeys the discipline: conditions and counts read only locations synced earlier on every
path, and no location is synced twice on a path -/
theorem all_wf : ∀ s ∈ schemas, (wf 0 s [] []).isSome = true := schemas_wf

/-- **Block-level fixed point, for every in-fragment block type and version.** Whatever bytes the reader decodes with
a generated schema, the writer re-emits exactly from the store the reader produced — for every input and every
environment (header strings). -/
theorem block_fixed_point (s : Stmt) (hs : s ∈ schemas) (ver : Nat → Nat) (s0 : Store) (b : Bytes) (s1 : Store) (rest : Bytes)
    (hb : IsBytes b) (hrd : rd ver s s0 [] b = some (s1, rest)) : wr ver s s1 [] ++ rest = b := by
  have h := all_wf s hs
  cases hw : wf 0 s [] [] with
  | none => rw [hw] at h; cases h
  | some p => exact wr_rd ver s p.2 p.1 s0 b s1 rest hw hb hrd

/-- **What the library writes for an in-fragment block it reads back, consuming exactly the block**, and the store read back
writes the same bytes again (saving, loading and saving is a fixed point at block level) — for every store whose scalars
fit their wire widths. -/
theorem block_write_read (s : Stmt) (hs : s ∈ schemas) (ver : Nat → Nat) (st s0 : Store) (hin : inRange ver s st []) :
    ∃ s1, rd ver s s0 [] (wr ver s st []) = some (s1, []) ∧ wr ver s s1 [] = wr ver s st [] := by
  have h := all_wf s hs
  cases hw : wf 0 s [] [] with
  | none => rw [hw] at h; cases h
  | some p => exact rd_wr_same ver s p.1 p.2 st s0 hw hin

/-- the same fixed point for the block types whose schema obeys only the weaker discipline (single assignment; conditions
and counts read only what may have been transferred before them — e.g. a second loop reading the lengths a first loop
transferred: NiTriStripsData, NiSkinPartition) -/
theorem block_fixed_point_weak (s : Stmt) (hs : s ∈ schemasWeak) (ver : Nat → Nat) (s0 : Store) (b : Bytes) (s1 : Store)
    (rest : Bytes) (hb : IsBytes b) (hrd : rd ver s s0 [] b = some (s1, rest)) : wr ver s s1 [] ++ rest = b := by
  have h := schemasWeak_wfw s hs
  cases hw : wfw 0 s [] with
  | none => rw [hw] at h; cases h
  | some W' => exact wr_rd_weak ver s W' s0 b s1 rest hw hb hrd

/-- the bytes a block occupies are the sum of the widths of the scalars its schema transfers (the size table entry) -/
theorem block_size (s : Stmt) (ver : Nat → Nat) (st : Store) : (wr ver s st []).length = (widths ver s st []).sum :=
  wr_length ver s st []

/-- the table is not empty and the hypothesis of `block_fixed_point` is satisfiable: a count-prefixed array -/
example : schemaChunk0.length > 10 := by decide +kernel
example : (rd (fun _ => 0) (.seq (.sc 2 0) (.rep (.var 0 0) (.sc 1 1))) (fun _ => 0) [] [2, 0, 7, 8, 9]).map
    (fun r => (r.1 (0, []), r.1 (1, [0]), r.1 (1, [1]), r.2)) = some (2, 7, 8, [9]) := by decide

/-- sensitivity: a schema whose loop count is synced *after* the loop is rejected … -/
example : wf 0 (.seq (.rep (.var 0 0) (.sc 1 1)) (.sc 2 0)) [] [] = none := by decide
/-- … and really is not reversible: reading `[9, 1, 0]` with a store whose count slot holds 1 consumes one element,
then overwrites the count with 1 — re-encoding gives the same bytes here, but with an initial count 1 and input count
field 0 the writer emits no element at all -/
example : (rd (fun _ => 0) (.seq (.rep (.var 0 0) (.sc 1 1)) (.sc 2 0)) (Store.set (fun _ => 0) (0, []) 1) [] [9, 0, 0]).map
    (fun r => wr (fun _ => 0) (.seq (.rep (.var 0 0) (.sc 1 1)) (.sc 2 0)) r.1 [] ++ r.2) = some [0, 0] := by decide

/-- **File-level fixed point through the schemas.** A written file all of whose blocks are decoded completely by generated
schemas is reproduced byte for byte when every block is re-encoded from the store its schema decoded: header, re-encoded
payloads and footer are the original file. -/
theorem file_fixed_point_schemas (h : Header) (blocks : List Bytes) (ver : Nat → Nat)
    (dec : List (Stmt × Store)) (hlen : dec.length = blocks.length)
    (hdec : ∀ i (hi : i < dec.length), dec[i].1 ∈ schemas ∧ IsBytes (blocks[i]'(hlen ▸ hi)) ∧
      ∃ s0, rd ver dec[i].1 s0 [] (blocks[i]'(hlen ▸ hi)) = some (dec[i].2, [])) :
    encFile h (dec.map fun p => wr ver p.1 p.2 []) = encFile h blocks := by
  have : (dec.map fun p => wr ver p.1 p.2 []) = blocks := by
    apply List.ext_getElem
    · simpa using hlen
    · intro i h1 h2
      have hi : i < dec.length := by simpa using h1
      obtain ⟨hs, hb, s0, hr⟩ := hdec i hi
      have := block_fixed_point dec[i].1 hs ver s0 _ dec[i].2 [] hb hr
      simpa using this
  rw [this]

end Nifly.C01
