import NiflyVerif.Wire.HeaderLemmas
/-!
# C01 — load/save round trip reaches a byte-level fixed point (file level)

File model: header ++ block payloads ++ footer, payloads opaque. What is proved here is the file-level
composition: a file the library wrote (header tables consistent with the payloads) is decoded by the
reader to exactly the header and payloads it was built from, and re-encoding those gives back the same
bytes — so the raw save is a fixed point *provided every block's `Sync` is reversible* (reading a payload and
writing it again gives the payload). That block-level fact is established per block type and version by the
differential campaign of this check (all 304 registered types × 12 versions, populated instances), not by a
theorem yet (see DESIGN.md §5.3 for the planned generic theorem).
-/
namespace Nifly.Wire

/-- a written file: header, payloads, footer -/
def encFile (h : Header) (blocks : List Bytes) : Bytes := encHeader h ++ blocks.flatten ++ footer

/-- decode ∘ encode = id on files whose size table lists the payload lengths -/
theorem file_decode_encode (h : Header) (wf : HeaderWF h) (blocks : List Bytes) (hs : hasSizes h.file = true)
    (hsz : h.sizes = blocks.map List.length) : walkFile (encFile h blocks) = some (h, blocks) := by
  unfold walkFile encFile
  rw [List.append_assoc, decHeader_encHeader h wf]
  simp only [hs, Bool.not_true, Bool.false_eq_true, if_false, hsz]
  rw [splitBlocks_flatten]
  simp

/-- **File-level fixed point.** Re-encoding what the reader decoded from a written file reproduces the file
byte for byte. -/
theorem raw_fixed_point (h : Header) (wf : HeaderWF h) (blocks : List Bytes) (hs : hasSizes h.file = true)
    (hsz : h.sizes = blocks.map List.length) :
    (walkFile (encFile h blocks)).map (fun p => encFile p.1 p.2) = some (encFile h blocks) := by
  rw [file_decode_encode h wf blocks hs hsz]; rfl

/-- the little-endian integer codec used by every field is a bijection between values below 256^w and byte
strings of length w (both directions of the primitive round trip) -/
theorem prim_roundtrip (w n : Nat) (h : n < 256 ^ w) (b : Bytes) (hb : IsBytes b) :
    leDecode (leEncode w n) = n ∧ leEncode b.length (leDecode b) = b :=
  ⟨leDecode_leEncode w n h, leEncode_leDecode b hb⟩

def sampleHeader : Header :=
  { verLine := [65], file := V 20 2 0 7, user := 12, «stream» := 100, numBlocks := 2, types := [[66]],
    tidx := [0, 0], sizes := [1, 2] }

example : (walkFile (encFile sampleHeader [[7], [8, 9]])).isSome = true := by decide

end Nifly.Wire
