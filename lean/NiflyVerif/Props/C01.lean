import NiflyVerif.Wire.Header
namespace Nifly.Wire
theorem footer_length : footer.length = 8 := by decide
end Nifly.Wire
