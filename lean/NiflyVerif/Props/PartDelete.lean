import NiflyVerif.Mesh.PartDelete
import NiflyVerif.Props.C09
/-!
# C09 — a skin partition after a vertex deletion

`deletePart` (Mesh/PartDelete.lean) is `NiSkinPartition::notifyVerticesDelete` on one partition.  For every partition,
every strictly ascending list `idx` of deleted shape vertices and every collapse-map size that covers the partition's
vertex map (the code computes `max + 1`):
-/
namespace Nifly.Mesh
open Nifly.Util

theorem deleted_iff (idx : List Nat) (mapSize v : Nat) (hasc : Asc idx) (hv : v < mapSize) :
    deleted (collapseMap idx mapSize) v = true ↔ v ∈ idx := by
  unfold deleted
  rw [collapse_eq_spec idx mapSize hasc, collapseSpec_get idx mapSize v hv]
  by_cases h : v ∈ idx
  · simp [h]
  · simp only [h, if_false, beq_iff_eq, Option.some.injEq, iff_false]
    omega

theorem collapse_value (idx : List Nat) (mapSize v : Nat) (hasc : Asc idx) (hv : v < mapSize) (hn : v ∉ idx)
    (h16 : mapSize ≤ 65536) : castU16 ((collapseMap idx mapSize).getD v 0) = rank idx v := by
  rw [collapse_eq_spec idx mapSize hasc]
  have := collapseSpec_get idx mapSize v hv
  rw [List.getD_eq_getElem?_getD, this]
  simp only [hn, if_false, Option.getD_some]
  unfold castU16
  have hr : rank idx v ≤ v := by unfold rank; omega
  omega

/-- **The vertex map afterwards lists exactly the surviving vertices of the partition, in their order, under their new
indices.** -/
theorem part_vmap (mapped : Bool) (mapSize : Nat) (idx : List Nat) (p : SkinPart β) (hasc : Asc idx)
    (hv : ∀ v ∈ p.vmap, v < mapSize) (h16 : mapSize ≤ 65536) :
    (deletePart mapped mapSize idx p).vmap = (p.vmap.filter fun v => decide (v ∉ idx)).map (rank idx) := by
  unfold deletePart
  simp only
  rw [erase_delFrom_self]
  have hf : (p.vmap.filter fun v => !deleted (collapseMap idx mapSize) v) = p.vmap.filter fun v => decide (v ∉ idx) := by
    apply List.filter_congr
    intro v hvm
    have := deleted_iff idx mapSize v hasc (hv v hvm)
    by_cases h : v ∈ idx
    · simp [this.2 h, h]
    · have hd : deleted (collapseMap idx mapSize) v = false := by
        cases hh : deleted (collapseMap idx mapSize) v with
        | false => rfl
        | true => exact absurd (this.1 hh) h
      simp [hd, h]
  rw [hf]
  apply List.map_congr_left
  intro v hvm
  have hm := List.mem_filter.1 hvm
  have hn : v ∉ idx := by simpa using hm.2
  exact collapse_value idx mapSize v hasc (hv v hm.1) hn h16

/-- **The per-partition-vertex arrays stay aligned with the vertex map**: exactly the entries of the surviving
partition vertices remain, in order (weights and bone indices are erased at the same positions as the vertex map). -/
theorem part_weights (mapped : Bool) (mapSize : Nat) (idx : List Nat) (p : SkinPart β) (hasc : Asc idx)
    (hv : ∀ v ∈ p.vmap, v < mapSize) (hl : p.vmap.length = p.weights.length) :
    (deletePart mapped mapSize idx p).weights = ((p.vmap.zip p.weights).filter fun q => decide (q.1 ∉ idx)).map (·.2) := by
  unfold deletePart
  simp only
  rw [erase_delFrom _ p.vmap p.weights hl]
  congr 1
  apply List.filter_congr
  intro q hq
  have hvm : q.1 ∈ p.vmap := (List.of_mem_zip hq).1
  have := deleted_iff idx mapSize q.1 hasc (hv q.1 hvm)
  by_cases h : q.1 ∈ idx
  · simp [this.2 h, h]
  · have hd : deleted (collapseMap idx mapSize) q.1 = false := by
      cases hh : deleted (collapseMap idx mapSize) q.1 with
      | false => rfl
      | true => exact absurd (this.1 hh) h
    simp [hd, h]

theorem part_aligned (mapped : Bool) (mapSize : Nat) (idx : List Nat) (p : SkinPart β) (hasc : Asc idx)
    (hv : ∀ v ∈ p.vmap, v < mapSize) (h16 : mapSize ≤ 65536) (hl : p.vmap.length = p.weights.length) :
    (deletePart mapped mapSize idx p).weights.length = (deletePart mapped mapSize idx p).vmap.length := by
  rw [part_vmap mapped mapSize idx p hasc hv h16, part_weights mapped mapSize idx p hasc hv hl]
  simp only [List.length_map]
  have : ∀ (xs : List Nat) (ys : List β), xs.length = ys.length →
      ((xs.zip ys).filter fun q => decide (q.1 ∉ idx)).length = (xs.filter fun v => decide (v ∉ idx)).length := by
    intro xs
    induction xs with
    | nil => intro ys _; simp
    | cons x xs ih =>
      intro ys hly
      cases ys with
      | nil => simp at hly
      | cons y ys =>
        have := ih ys (by simpa using hly)
        simp only [List.zip_cons_cons, List.filter_cons]
        by_cases hx : x ∈ idx
        · simp only [hx, not_true_eq_false, decide_false, Bool.false_eq_true, if_false]
          exact this
        · simp only [hx, not_false_eq_true, decide_true, if_true, List.length_cons]
          omega
  exact this p.vmap p.weights hl

/-- **Every entry of the new vertex map is an existing vertex**: below the new vertex count `nv − |idx|`. -/
theorem part_vmap_in_range (mapped : Bool) (nv : Nat) (idx : List Nat) (p : SkinPart β) (hasc : Asc idx)
    (hin : ∀ i ∈ idx, i < nv) (hv : ∀ v ∈ p.vmap, v < nv) (h16 : nv ≤ 65536) :
    ∀ w ∈ (deletePart mapped nv idx p).vmap, w < nv - idx.length := by
  rw [part_vmap mapped nv idx p hasc hv h16]
  intro w hw
  obtain ⟨v, hvm, rfl⟩ := List.mem_map.1 hw
  have hm := List.mem_filter.1 hvm
  have hn : v ∉ idx := by simpa using hm.2
  exact (rank_lt idx nv v hasc hin (hv v hm.1) hn).1

theorem delFrom_lt (P : α → Bool) (si : Nat) (xs : List α) : ∀ j ∈ delFrom P si xs, j < si + xs.length := by
  induction xs generalizing si with
  | nil => intro j hj; simp [delFrom] at hj
  | cons v vs ih =>
    intro j hj
    simp only [delFrom] at hj
    simp only [List.length_cons]
    split at hj
    · rcases List.mem_cons.1 hj with rfl | h
      · omega
      · have := ih (si + 1) j h; omega
    · have := ih (si + 1) j hj; omega

theorem delFrom_length (P : α → Bool) (si : Nat) (xs : List α) :
    (delFrom P si xs).length + (xs.filter fun v => !P v).length = xs.length := by
  induction xs generalizing si with
  | nil => rfl
  | cons v vs ih =>
    simp only [delFrom, List.filter_cons, List.length_cons]
    by_cases hp : P v = true
    · simp only [hp, if_true, Bool.not_true, Bool.false_eq_true, if_false, List.length_cons]
      have := ih (si + 1); omega
    · have hf : P v = false := by cases h : P v <;> simp_all
      simp only [hf, Bool.false_eq_true, if_false, Bool.not_false, if_true, List.length_cons]
      have := ih (si + 1); omega

/-- **Mapped triangles (LE/OB) still index the partition's own vertex map**: every corner of every remaining mapped
triangle is a position of the new vertex map. -/
theorem part_mapped_tris_in_range (mapSize : Nat) (idx : List Nat) (p : SkinPart β) (h16 : p.vmap.length ≤ 65536) :
    let q := deletePart true mapSize idx p
    ∀ t ∈ q.tris, t.p1 < q.vmap.length ∧ t.p2 < q.vmap.length ∧ t.p3 < q.vmap.length := by
  intro q t ht
  have hlen : q.vmap.length = p.vmap.length - (delFrom (deleted (collapseMap idx mapSize)) 0 p.vmap).length := by
    show ((erase p.vmap _).map _).length = _
    rw [List.length_map, erase_delFrom_self]
    have := delFrom_length (deleted (collapseMap idx mapSize)) 0 p.vmap
    omega
  rw [hlen]
  have hdel := delFrom_lt (deleted (collapseMap idx mapSize)) 0 p.vmap
  simp only [Nat.zero_add] at hdel
  exact tri_indices_in_range p.vmap.length p.tris _ (delFrom_asc _ 0 p.vmap) hdel h16 t ht

/-- **True triangles (SSE) refer to existing vertices** -/
theorem part_true_tris_in_range (nv : Nat) (idx : List Nat) (p : SkinPart β) (hasc : Asc idx) (hin : ∀ i ∈ idx, i < nv)
    (h16 : nv ≤ 65536) :
    ∀ t ∈ (deletePart false nv idx p).tris, t.p1 < nv - idx.length ∧ t.p2 < nv - idx.length ∧ t.p3 < nv - idx.length :=
  fun t ht => tri_indices_in_range nv p.tris idx hasc hin h16 t ht

def exPart : SkinPart String :=
  { vmap := [5, 1, 2, 4, 0], weights := ["a", "b", "c", "d", "e"], tris := [⟨0, 2, 4⟩, ⟨1, 2, 3⟩] }

example : (deletePart true 6 [1, 4] exPart).vmap = [3, 1, 0] ∧ (deletePart true 6 [1, 4] exPart).weights = ["a", "c", "e"] ∧
    (deletePart true 6 [1, 4] exPart).tris = [⟨0, 1, 2⟩] := by decide

end Nifly.Mesh
