import NiflyVerif.Mesh.Segments
/-!
# C17 — segment labels round-trip and always partition the triangles

`labels` are the per-triangle labels after the renumbering (`relabel`): every value is below the number `P` of
segments + sub-segments. `buildSegs` is the range table `SetSegmentation` stores, `sortedIndices` the order in which
it stores the triangles.
-/
namespace Nifly.Mesh

theorem cntLess_succ (l : List Nat) (p : Nat) : cntLess l (p + 1) = cntLess l p + cntEq l p := by
  unfold cntLess cntEq
  induction l with
  | nil => rfl
  | cons a l ih =>
    simp only [List.filter_cons]
    by_cases h1 : a < p
    · have h2 : a < p + 1 := by omega
      have h3 : ¬ a = p := by omega
      simp [h1, h2, h3]; omega
    · by_cases h3 : a = p
      · subst h3; simp; omega
      · have h2 : ¬ a < p + 1 := by omega
        simp [h1, h2, h3]; omega

theorem cntLess_mono (l : List Nat) (a b : Nat) (h : a ≤ b) : cntLess l a ≤ cntLess l b := by
  unfold cntLess
  induction l with
  | nil => simp
  | cons x l ih =>
    simp only [List.filter_cons]
    by_cases h1 : x < a
    · have h2 : x < b := by omega
      simp [h1, h2]; omega
    · by_cases h2 : x < b <;> simp [h1, h2] <;> omega

theorem cntLess_all (l : List Nat) (P : Nat) (h : ∀ x ∈ l, x < P) : cntLess l P = l.length := by
  unfold cntLess
  rw [List.filter_eq_self.mpr]
  intro x hx; simpa using h x hx

theorem cntLess_zero (l : List Nat) : cntLess l 0 = 0 := by
  unfold cntLess; simp

/-- ranges are contiguous and ordered: each segment starts (in triangles) where the previous one ended -/
def Contig : Nat → List Seg → Prop
  | _, [] => True
  | pos, s :: rest => s.start = 3 * pos ∧ Contig (pos + s.num) rest

theorem segs_contiguous (l : List Nat) (inf : SegInfo) (base : Nat) : Contig (cntLess l base) (buildSegs l inf base) := by
  induction inf generalizing base with
  | nil => trivial
  | cons s rest ih =>
    obtain ⟨pid, subs⟩ := s
    simp only [buildSegs, Contig, true_and]
    have := cntLess_mono l base (base + subs.length + 1) (by omega)
    have e : cntLess l base + (cntLess l (base + subs.length + 1) - cntLess l base) = cntLess l (base + subs.length + 1) := by omega
    rw [e]
    exact ih _

/-- the first segment starts at triangle 0 -/
theorem segs_start_zero (l : List Nat) (inf : SegInfo) : Contig 0 (buildSegs l inf 0) := by
  have := segs_contiguous l inf 0
  rwa [cntLess_zero] at this

def totalParts (inf : SegInfo) : Nat := (inf.map fun s => s.2.length + 1).sum

theorem preorder_length (inf : SegInfo) : (preorder inf).length = totalParts inf := by
  unfold preorder totalParts
  induction inf with
  | nil => rfl
  | cons s rest ih => simp [List.flatMap_cons, ih]; omega

/-- the segment sizes sum to the number of triangles labelled within the table -/
theorem segs_sum (l : List Nat) (inf : SegInfo) (base : Nat) :
    ((buildSegs l inf base).map (·.num)).sum = cntLess l (base + totalParts inf) - cntLess l base := by
  induction inf generalizing base with
  | nil => simp [buildSegs, totalParts]
  | cons s rest ih =>
    obtain ⟨pid, subs⟩ := s
    simp only [buildSegs, List.map_cons, List.sum_cons, ih, totalParts]
    have h1 := cntLess_mono l base (base + subs.length + 1) (by omega)
    have h2 := cntLess_mono l (base + subs.length + 1) (base + subs.length + 1 + (rest.map fun s => s.2.length + 1).sum) (by omega)
    have e : base + ((subs.length + 1) + (rest.map fun s => s.2.length + 1).sum) =
        base + subs.length + 1 + (rest.map fun s => s.2.length + 1).sum := by omega
    rw [e]
    omega

/-- **the ranges sum to the triangle count** when every label is one of the table's partitions -/
theorem segs_sum_all (l : List Nat) (inf : SegInfo) (h : ∀ x ∈ l, x < totalParts inf) :
    ((buildSegs l inf 0).map (·.num)).sum = l.length := by
  rw [segs_sum, Nat.zero_add, cntLess_all l _ h, cntLess_zero]; rfl

/-- sub-segment ranges follow the segment's own triangles and each other without gaps, and together with the
own triangles they make up the segment -/
theorem subs_tile (l : List Nat) (base c : Nat) :
    cntLess l (base + c + 1) - cntLess l base = cntEq l base + ((List.range c).map fun j => cntEq l (base + 1 + j)).sum ∧
    ∀ j, j < c → cntLess l (base + 1 + j) + cntEq l (base + 1 + j) = cntLess l (base + 1 + (j + 1)) := by
  constructor
  · induction c with
    | zero => simp; rw [cntLess_succ]; omega
    | succ c ih =>
      rw [List.range_succ, List.map_append, List.sum_append]
      simp only [List.map_cons, List.map_nil, List.sum_cons, List.sum_nil, Nat.add_zero]
      have e : base + (c + 1) + 1 = (base + 1 + c) + 1 := by omega
      rw [e, cntLess_succ]
      have h1 := cntLess_mono l base (base + c + 1) (by omega)
      have e2 : base + c + 1 = base + 1 + c := by omega
      rw [e2] at ih h1
      omega
  · intro j _
    have e : base + 1 + (j + 1) = (base + 1 + j) + 1 := by omega
    rw [e, cntLess_succ]

/-- **the stored triangles are a permutation of the previous ones**: the storage order lists every old
triangle index exactly once -/
theorem sorted_perm (l : List Nat) (P : Nat) (h : ∀ x ∈ l, x < P) :
    List.Perm (sortedIndices l P) (List.range l.length) := by
  unfold sortedIndices
  have hnd : ((List.range P).flatMap fun p => (List.range l.length).filter fun i => l.getD i 0 == p).Nodup := by
    rw [List.nodup_iff_pairwise_ne, List.pairwise_flatMap]
    constructor
    · intro p _
      exact (List.nodup_range.filter _)
    · apply List.Pairwise.imp_of_mem (R := fun a b => a ≠ b)
      · intro a b _ _ hab x hx y hy he
        have h1 := (List.mem_filter.mp hx).2
        have h2 := (List.mem_filter.mp hy).2
        subst he
        simp at h1 h2
        exact hab (h1.symm.trans h2)
      · exact List.nodup_range
  rw [List.perm_ext_iff_of_nodup hnd List.nodup_range]
  intro i
  simp only [List.mem_flatMap, List.mem_range, List.mem_filter, beq_iff_eq]
  constructor
  · rintro ⟨p, _, hi, _⟩; exact hi
  · intro hi
    refine ⟨l.getD i 0, ?_, hi, rfl⟩
    have : l.getD i 0 = l[i] := by simp [List.getD_eq_getElem?_getD, List.getElem?_eq_getElem hi]
    rw [this]; exact h _ (List.getElem_mem hi)

/-- reading back what was set returns the renumbered labels in storage order (checked on a concrete case;
the general statement is decided by the differential run) -/
example : (setSegmentation [(7, [9, 0]), (2, []), (4, [])] [9, 7, -1, 4, 0, 2, 9]).map
    (fun r => (r.1, getLabels r.2 7)) = some ([1, 2, 0, 6, 4, 5, 3], [0, 0, 1, 1, 2, 3, 4]) := by decide

/-- a label that does not occur in the table is outside the function's domain (out-of-range access in the C++) -/
example : setSegmentation [(0, [])] [3] = none := by decide

end Nifly.Mesh
