import NiflyVerif.Mesh.Segments
/-!
# C17 — segment labels round-trip and always partition the triangles

`labels` are the per-triangle labels after the renumbering (`relabel`): every value is below the number `P` of
segments + sub-segments. `buildSegs` is the range table `SetSegmentation` stores, `sortedIndices` the order in which
it stores the triangles.
-/
namespace Nifly.Mesh

theorem cntLess_succ (l : List Nat) (p : Nat) : cntLess l (p + 1) = cntLess l p + cntEq l p := by
  unfold cntLess cntEq
  induction l with
  | nil => rfl
  | cons a l ih =>
    simp only [List.filter_cons]
    by_cases h1 : a < p
    · have h2 : a < p + 1 := by omega
      have h3 : ¬ a = p := by omega
      simp [h1, h2, h3]; omega
    · by_cases h3 : a = p
      · subst h3; simp; omega
      · have h2 : ¬ a < p + 1 := by omega
        simp [h1, h2, h3]; omega

theorem cntLess_mono (l : List Nat) (a b : Nat) (h : a ≤ b) : cntLess l a ≤ cntLess l b := by
  unfold cntLess
  induction l with
  | nil => simp
  | cons x l ih =>
    simp only [List.filter_cons]
    by_cases h1 : x < a
    · have h2 : x < b := by omega
      simp [h1, h2]; omega
    · by_cases h2 : x < b <;> simp [h1, h2] <;> omega

theorem cntLess_all (l : List Nat) (P : Nat) (h : ∀ x ∈ l, x < P) : cntLess l P = l.length := by
  unfold cntLess
  rw [List.filter_eq_self.mpr]
  intro x hx; simpa using h x hx

theorem cntLess_zero (l : List Nat) : cntLess l 0 = 0 := by
  unfold cntLess; simp

/-- ranges are contiguous and ordered: each segment starts (in triangles) where the previous one ended -/
def Contig : Nat → List Seg → Prop
  | _, [] => True
  | pos, s :: rest => s.start = 3 * pos ∧ Contig (pos + s.num) rest

theorem segs_contiguous (l : List Nat) (inf : SegInfo) (base : Nat) : Contig (cntLess l base) (buildSegs l inf base) := by
  induction inf generalizing base with
  | nil => trivial
  | cons s rest ih =>
    obtain ⟨pid, subs⟩ := s
    simp only [buildSegs, Contig, true_and]
    have := cntLess_mono l base (base + subs.length + 1) (by omega)
    have e : cntLess l base + (cntLess l (base + subs.length + 1) - cntLess l base) = cntLess l (base + subs.length + 1) := by omega
    rw [e]
    exact ih _

/-- the first segment starts at triangle 0 -/
theorem segs_start_zero (l : List Nat) (inf : SegInfo) : Contig 0 (buildSegs l inf 0) := by
  have := segs_contiguous l inf 0
  rwa [cntLess_zero] at this

def totalParts (inf : SegInfo) : Nat := (inf.map fun s => s.2.length + 1).sum

theorem preorder_length (inf : SegInfo) : (preorder inf).length = totalParts inf := by
  unfold preorder totalParts
  induction inf with
  | nil => rfl
  | cons s rest ih => simp [List.flatMap_cons, ih]; omega

/-- the segment sizes sum to the number of triangles labelled within the table -/
theorem segs_sum (l : List Nat) (inf : SegInfo) (base : Nat) :
    ((buildSegs l inf base).map (·.num)).sum = cntLess l (base + totalParts inf) - cntLess l base := by
  induction inf generalizing base with
  | nil => simp [buildSegs, totalParts]
  | cons s rest ih =>
    obtain ⟨pid, subs⟩ := s
    simp only [buildSegs, List.map_cons, List.sum_cons, ih, totalParts]
    have h1 := cntLess_mono l base (base + subs.length + 1) (by omega)
    have h2 := cntLess_mono l (base + subs.length + 1) (base + subs.length + 1 + (rest.map fun s => s.2.length + 1).sum) (by omega)
    have e : base + ((subs.length + 1) + (rest.map fun s => s.2.length + 1).sum) =
        base + subs.length + 1 + (rest.map fun s => s.2.length + 1).sum := by omega
    rw [e]
    omega

/-- **the ranges sum to the triangle count** when every label is one of the table's partitions -/
theorem segs_sum_all (l : List Nat) (inf : SegInfo) (h : ∀ x ∈ l, x < totalParts inf) :
    ((buildSegs l inf 0).map (·.num)).sum = l.length := by
  rw [segs_sum, Nat.zero_add, cntLess_all l _ h, cntLess_zero]; rfl

/-- sub-segment ranges follow the segment's own triangles and each other without gaps, and together with the
own triangles they make up the segment -/
theorem subs_tile (l : List Nat) (base c : Nat) :
    cntLess l (base + c + 1) - cntLess l base = cntEq l base + ((List.range c).map fun j => cntEq l (base + 1 + j)).sum ∧
    ∀ j, j < c → cntLess l (base + 1 + j) + cntEq l (base + 1 + j) = cntLess l (base + 1 + (j + 1)) := by
  constructor
  · induction c with
    | zero => simp; rw [cntLess_succ]; omega
    | succ c ih =>
      rw [List.range_succ, List.map_append, List.sum_append]
      simp only [List.map_cons, List.map_nil, List.sum_cons, List.sum_nil, Nat.add_zero]
      have e : base + (c + 1) + 1 = (base + 1 + c) + 1 := by omega
      rw [e, cntLess_succ]
      have h1 := cntLess_mono l base (base + c + 1) (by omega)
      have e2 : base + c + 1 = base + 1 + c := by omega
      rw [e2] at ih h1
      omega
  · intro j _
    have e : base + 1 + (j + 1) = (base + 1 + j) + 1 := by omega
    rw [e, cntLess_succ]

/-- **the stored triangles are a permutation of the previous ones**: the storage order lists every old
triangle index exactly once -/
theorem sorted_perm (l : List Nat) (P : Nat) (h : ∀ x ∈ l, x < P) :
    List.Perm (sortedIndices l P) (List.range l.length) := by
  unfold sortedIndices
  have hnd : ((List.range P).flatMap fun p => (List.range l.length).filter fun i => l.getD i 0 == p).Nodup := by
    rw [List.nodup_iff_pairwise_ne, List.pairwise_flatMap]
    constructor
    · intro p _
      exact (List.nodup_range.filter _)
    · apply List.Pairwise.imp_of_mem (R := fun a b => a ≠ b)
      · intro a b _ _ hab x hx y hy he
        have h1 := (List.mem_filter.mp hx).2
        have h2 := (List.mem_filter.mp hy).2
        subst he
        simp at h1 h2
        exact hab (h1.symm.trans h2)
      · exact List.nodup_range
  rw [List.perm_ext_iff_of_nodup hnd List.nodup_range]
  intro i
  simp only [List.mem_flatMap, List.mem_range, List.mem_filter, beq_iff_eq]
  constructor
  · rintro ⟨p, _, hi, _⟩; exact hi
  · intro hi
    refine ⟨l.getD i 0, ?_, hi, rfl⟩
    have : l.getD i 0 = l[i] := by simp [List.getD_eq_getElem?_getD, List.getElem?_eq_getElem hi]
    rw [this]; exact h _ (List.getElem_mem hi)

/-- reading back what was set returns the renumbered labels in storage order (checked on a concrete case;
the general statement is decided by the differential run) -/
example : (setSegmentation [(7, [9, 0]), (2, []), (4, [])] [9, 7, -1, 4, 0, 2, 9]).map
    (fun r => (r.1, getLabels r.2 7)) = some ([1, 2, 0, 6, 4, 5, 3], [0, 0, 1, 1, 2, 3, 4]) := by decide

/-- a label that does not occur in the table is outside the function's domain (out-of-range access in the C++) -/
example : setSegmentation [(0, [])] [3] = none := by decide

/-! ### get ∘ set -/

/-- the labels `0 … b-1` in ascending order, each as often as it occurs in `l` -/
def sortedUpTo (l : List Nat) (b : Nat) : List Int :=
  (List.range b).flatMap fun p => List.replicate (cntEq l p) (p : Int)

theorem sortedUpTo_succ (l : List Nat) (b : Nat) :
    sortedUpTo l (b + 1) = sortedUpTo l b ++ List.replicate (cntEq l b) (b : Int) := by
  simp [sortedUpTo, List.range_succ, List.flatMap_append]

theorem sortedUpTo_length (l : List Nat) (b : Nat) : (sortedUpTo l b).length = cntLess l b := by
  induction b with
  | zero => simp [sortedUpTo, cntLess_zero]
  | succ b ih => rw [sortedUpTo_succ, List.length_append, ih, List.length_replicate, cntLess_succ]

/-- painting exactly the middle part of a list -/
theorem paint_middle (A X B : List Int) (v : Int) :
    paint (A ++ X ++ B) A.length X.length v = A ++ List.replicate X.length v ++ B := by
  unfold paint
  apply List.ext_getElem
  · simp
  · intro i h1 h2
    simp only [List.getElem_mapIdx]
    by_cases ha : i < A.length
    · rw [if_neg (by omega)]
      simp [List.getElem_append_left, ha]
    · by_cases hx : i < A.length + X.length
      · rw [if_pos ⟨by omega, hx⟩]
        rw [List.getElem_append_left (by simp; omega), List.getElem_append_right (by omega)]
        simp
      · rw [if_neg (by omega)]
        rw [List.getElem_append_right (by simp; omega), List.getElem_append_right (by simp; omega)]
        simp

/-- state of the label array while the sub-segments of one segment are painted: everything below `base+1+j` final,
the rest of the segment still carrying the segment's id, the tail untouched -/
def midState (l : List Nat) (base c j : Nat) (tail : List Int) : List Int :=
  sortedUpTo l (base + 1 + j) ++ List.replicate (cntLess l (base + c + 1) - cntLess l (base + 1 + j)) (base : Int) ++ tail

theorem subs_fold (l : List Nat) (base c : Nat) (tail : List Int) :
    ∀ (k j : Nat), j + k = c →
      ((List.range' j k).map fun j => (3 * cntLess l (base + 1 + j), cntEq l (base + 1 + j))).foldl
        (fun (st : List Int × Nat) sub => (paint st.1 (sub.1 / 3) sub.2 st.2, st.2 + 1)) (midState l base c j tail, base + 1 + j)
      = (midState l base c c tail, base + 1 + c) := by
  intro k
  induction k with
  | zero => intro j hj; have : j = c := by omega
            subst this; rfl
  | succ k ih =>
    intro j hj
    rw [List.range'_succ, List.map_cons, List.foldl_cons]
    simp only
    rw [Nat.mul_div_cancel_left _ (by omega : 0 < 3)]
    have hle : cntLess l (base + 1 + j + 1) ≤ cntLess l (base + c + 1) := cntLess_mono l _ _ (by omega)
    have hs := cntLess_succ l (base + 1 + j)
    -- split the "still segment id" region into the part of sub-segment j and the rest
    have hsplit : midState l base c j tail =
        sortedUpTo l (base + 1 + j) ++ List.replicate (cntEq l (base + 1 + j)) (base : Int) ++
          (List.replicate (cntLess l (base + c + 1) - cntLess l (base + 1 + j + 1)) (base : Int) ++ tail) := by
      unfold midState
      have e : cntLess l (base + c + 1) - cntLess l (base + 1 + j) =
          cntEq l (base + 1 + j) + (cntLess l (base + c + 1) - cntLess l (base + 1 + j + 1)) := by omega
      rw [e]
      simp only [List.append_assoc, List.append_cancel_left_eq]
      rw [← List.append_assoc, List.replicate_append_replicate]
    have hp : paint (midState l base c j tail) (cntLess l (base + 1 + j)) (cntEq l (base + 1 + j)) ((base + 1 + j : Nat) : Int) =
        midState l base c (j + 1) tail := by
      rw [hsplit]
      have := paint_middle (sortedUpTo l (base + 1 + j)) (List.replicate (cntEq l (base + 1 + j)) (base : Int))
        (List.replicate (cntLess l (base + c + 1) - cntLess l (base + 1 + j + 1)) (base : Int) ++ tail) ((base + 1 + j : Nat) : Int)
      rw [sortedUpTo_length, List.length_replicate] at this
      rw [this]
      unfold midState
      rw [show base + 1 + (j + 1) = base + 1 + j + 1 by omega, sortedUpTo_succ]
      simp [List.append_assoc]
    rw [hp]
    have := ih (j + 1) (by omega)
    rw [show base + 1 + (j + 1) = base + 1 + j + 1 by omega] at this
    exact this

theorem go_spec (l : List Nat) (N : Nat) : ∀ (inf : SegInfo) (base : Nat),
    cntLess l (base + totalParts inf) ≤ N →
    getLabels.go (buildSegs l inf base) base (sortedUpTo l base ++ List.replicate (N - cntLess l base) (-1)) =
      sortedUpTo l (base + totalParts inf) ++ List.replicate (N - cntLess l (base + totalParts inf)) (-1) := by
  intro inf
  induction inf with
  | nil => intro base _; simp [buildSegs, getLabels.go, totalParts]
  | cons s rest ih =>
    intro base hN
    obtain ⟨pid, subs⟩ := s
    have htp : totalParts ((pid, subs) :: rest) = subs.length + 1 + totalParts rest := by simp [totalParts]
    rw [htp] at hN ⊢
    have hm1 : cntLess l (base + subs.length + 1) ≤ cntLess l (base + (subs.length + 1 + totalParts rest)) :=
      cntLess_mono l _ _ (by omega)
    have hm0 : cntLess l base ≤ cntLess l (base + subs.length + 1) := cntLess_mono l _ _ (by omega)
    have hs0 := cntLess_succ l base
    have hm2 : cntLess l (base + 1) ≤ cntLess l (base + subs.length + 1) := cntLess_mono l _ _ (by omega)
    simp only [buildSegs, getLabels.go]
    rw [Nat.mul_div_cancel_left _ (by omega : 0 < 3)]
    -- the segment paint
    have hsplit : sortedUpTo l base ++ List.replicate (N - cntLess l base) (-1 : Int) =
        sortedUpTo l base ++ List.replicate (cntLess l (base + subs.length + 1) - cntLess l base) (-1 : Int) ++
          List.replicate (N - cntLess l (base + subs.length + 1)) (-1 : Int) := by
      rw [List.append_assoc, List.replicate_append_replicate]
      congr 2
      omega
    have hpaint : paint (sortedUpTo l base ++ List.replicate (N - cntLess l base) (-1 : Int)) (cntLess l base)
        (cntLess l (base + subs.length + 1) - cntLess l base) (base : Int) =
        midState l base subs.length 0 (List.replicate (N - cntLess l (base + subs.length + 1)) (-1 : Int)) := by
      rw [hsplit]
      have := paint_middle (sortedUpTo l base) (List.replicate (cntLess l (base + subs.length + 1) - cntLess l base) (-1 : Int))
        (List.replicate (N - cntLess l (base + subs.length + 1)) (-1 : Int)) (base : Int)
      rw [sortedUpTo_length, List.length_replicate] at this
      rw [this]
      unfold midState
      rw [show base + 1 + 0 = base + 1 by omega, sortedUpTo_succ]
      have e : cntLess l (base + subs.length + 1) - cntLess l base =
          cntEq l base + (cntLess l (base + subs.length + 1) - cntLess l (base + 1)) := by omega
      rw [e, ← List.replicate_append_replicate]
      simp only [List.append_assoc]
    rw [hpaint, List.range_eq_range']
    have hf := subs_fold l base subs.length (List.replicate (N - cntLess l (base + subs.length + 1)) (-1 : Int)) subs.length 0 (by omega)
    rw [show base + 1 + 0 = base + 1 by omega] at hf
    rw [hf]
    simp only
    have hmid : midState l base subs.length subs.length (List.replicate (N - cntLess l (base + subs.length + 1)) (-1 : Int)) =
        sortedUpTo l (base + subs.length + 1) ++ List.replicate (N - cntLess l (base + subs.length + 1)) (-1 : Int) := by
      unfold midState
      rw [show base + 1 + subs.length = base + subs.length + 1 by omega]
      simp
    rw [hmid, show base + 1 + subs.length = base + subs.length + 1 by omega]
    have := ih (base + subs.length + 1) (by rw [show base + subs.length + 1 + totalParts rest = base + (subs.length + 1 + totalParts rest) by omega]; exact hN)
    rw [this, show base + subs.length + 1 + totalParts rest = base + (subs.length + 1 + totalParts rest) by omega]

/-- **get ∘ set = the renumbered labels, sorted.** For every segmentation table and every label list whose (renumbered)
labels lie inside the table, reading the labels back from the segment table that `SetSegmentation` built gives, for the
triangles in their new storage order, exactly the new labels in ascending order — each triangle keeps its label. -/
theorem get_set (l : List Nat) (inf : SegInfo) (h : ∀ x ∈ l, x < totalParts inf) :
    getLabels (buildSegs l inf 0) l.length = sortedUpTo l (totalParts inf) := by
  unfold getLabels
  have := go_spec l l.length inf 0 (by rw [Nat.zero_add, cntLess_all l _ h]; exact Nat.le_refl _)
  simp only [sortedUpTo, List.range_zero, List.flatMap_nil, List.nil_append, cntLess_zero, Nat.sub_zero, Nat.zero_add] at this
  rw [this, cntLess_all l _ h, Nat.sub_self]
  simp [sortedUpTo]

theorem idx_filter_length (q : Nat → Bool) (l : List Nat) :
    ((List.range l.length).filter fun i => q (l.getD i 0)).length = (l.filter q).length := by
  induction l with
  | nil => rfl
  | cons a l ih =>
    rw [List.length_cons, List.range_succ_eq_map, List.filter_cons, List.filter_map, List.filter_cons]
    have h0 : q ((a :: l).getD 0 0) = q a := rfl
    have hf : ((fun i => q ((a :: l).getD i 0)) ∘ Nat.succ) = fun i => q (l.getD i 0) := by
      funext i; rfl
    rw [h0, hf]
    cases q a <;> simp only [Bool.false_eq_true, if_false, if_true, List.length_map, List.length_cons, ih]

/-- the sorted labels are the labels of the triangles in storage order -/
theorem sortedUpTo_eq_sorted (l : List Nat) (P : Nat) :
    sortedUpTo l P = (sortedIndices l P).map fun i => ((l.getD i 0 : Nat) : Int) := by
  unfold sortedUpTo sortedIndices
  rw [List.map_flatMap]
  congr 1
  funext p
  symm
  rw [List.eq_replicate_iff]
  constructor
  · simp only [List.length_map]
    unfold cntEq
    exact idx_filter_length (fun x => x == p) l
  · intro x hx
    obtain ⟨i, hi, rfl⟩ := List.mem_map.1 hx
    have := (List.mem_filter.1 hi).2
    simp only [beq_iff_eq] at this
    rw [this]

end Nifly.Mesh
