import NiflyVerif.Generated.SyncSigs
/-!
# C08 — wire format stays compatible with the reference release

`Generated/SyncSigs.lean` is regenerated on every run by translator/syncsigs.py from the typed clang AST of
BOTH trees: /repo (current) and /verif/reference (the vendored reference release, i.e. the pinned tree plus the
hook and `fix:` commits of this work). For every function that touches the wire — all `Sync` levels of all block
classes and helper structs, `NiObject::Get/Put`, `NiString`/`NiStringRef` readers and writers, the vector
templates, `NiHeader::Get/Put`, the `NiIStream`/`NiOStream` primitives and the `NiVersion` predicates — it records
a structural signature of the body (node kinds, names, operators, literals, types, casts; addresses removed).
-/
namespace Nifly.Generated

set_option maxRecDepth 100000 in
/-- every wire function of the current tree has the same structure as in the reference tree, and no wire function
was added or removed: field order, widths and version gating of every block type are unchanged -/
theorem sigs_equal : sigsCur = sigsRef := by decide +kernel

/-- the tables are not trivially empty: they cover the wire functions of all block classes -/
theorem sigs_cover : 400 ≤ sigsCur.length ∧ sigsCur.all (fun p => p.2 ≠ 0) = true := by decide +kernel

end Nifly.Generated
