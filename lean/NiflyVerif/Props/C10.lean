import NiflyVerif.Mesh.Partition
import NiflyVerif.Util.IndexLemmas
/-!
# C10 — skin partitions cover the shape's triangles exactly once
-/
namespace Nifly.Mesh
open Nifly.Util

/-- **cover exactly once**: a triangle labelled with an existing partition is in that partition's true triangles
(as often as it carries that label) and in no other partition -/
theorem cover_once (nparts : Nat) (tris : List Tri) (labels : List Int) (p : Nat) (hp : p < nparts) :
    (trueFromTriParts nparts tris labels)[p]? =
      some (((tris.zip labels).filter fun tl => tl.2 == (p : Int)).map (·.1)) := by
  unfold trueFromTriParts
  rw [List.getElem?_map, List.getElem?_range hp]
  rfl

def inRange (n : Nat) (tl : Tri × Int) : Bool := decide (0 ≤ tl.2) && decide (tl.2 < (n : Int))

theorem inRange_elem (n : Nat) (a : Tri × Int) :
    inRange (n + 1) a = (inRange n a || a.2 == (n : Int)) ∧ ¬ (inRange n a = true ∧ (a.2 == (n : Int)) = true) := by
  have e : ((n + 1 : Nat) : Int) = (n : Int) + 1 := by omega
  constructor
  · rw [Bool.eq_iff_iff]
    simp only [inRange, Bool.and_eq_true, decide_eq_true_eq, Bool.or_eq_true, beq_iff_eq, e]
    constructor
    · intro h; by_cases h2 : a.2 = (n : Int)
      · exact Or.inr h2
      · exact Or.inl ⟨h.1, by omega⟩
    · rintro (h | h)
      · exact ⟨h.1, by omega⟩
      · exact ⟨by omega, by omega⟩
  · simp only [inRange, Bool.and_eq_true, decide_eq_true_eq, beq_iff_eq]
    intro h; omega

theorem inRange_succ (zl : List (Tri × Int)) (n : Nat) :
    (zl.filter (inRange (n + 1))).length = (zl.filter (inRange n)).length + (zl.filter fun tl => tl.2 == (n : Int)).length := by
  induction zl with
  | nil => rfl
  | cons a l ih =>
    obtain ⟨e1, e2⟩ := inRange_elem n a
    simp only [List.filter_cons, e1]
    generalize inRange n a = x at e2 ⊢
    generalize (a.2 == (n : Int)) = y at e2 ⊢
    cases x <;> cases y <;> simp_all <;> omega

/-- the partitions together hold exactly the triangles whose label is an existing partition -/
theorem cover_total (nparts : Nat) (tris : List Tri) (labels : List Int) :
    ((trueFromTriParts nparts tris labels).map List.length).sum = ((tris.zip labels).filter (inRange nparts)).length := by
  unfold trueFromTriParts
  induction nparts with
  | zero =>
    simp only [List.range_zero, List.map_nil, List.sum_nil]
    symm
    rw [List.length_eq_zero_iff, List.filter_eq_nil_iff]
    intro x _; simp [inRange]
  | succ n ih =>
    rw [List.range_succ, List.map_append, List.map_append, List.sum_append, ih, inRange_succ]
    simp only [List.map_cons, List.map_nil, List.sum_cons, List.sum_nil, List.length_map, Nat.add_zero]

/-- no triangle is in two partitions: membership in partition `p` means the label is `p` -/
theorem cover_disjoint (nparts : Nat) (tris : List Tri) (labels : List Int) (p q : Nat) (hp : p < nparts) (hq : q < nparts)
    (i : Nat) (t : Tri) (l : Int) (hi : (tris.zip labels)[i]? = some (t, l)) (hl : l = (p : Int)) (hpq : p ≠ q) :
    (t, l) ∉ ((tris.zip labels).filter fun tl => tl.2 == (q : Int)) := by
  intro hm
  have := (List.mem_filter.mp hm).2
  simp at this
  omega

/-- **the vertex map lists exactly the vertices the triangles use**, ascending and without repetition -/
theorem vertexMap_exact (tris : List Tri) :
    Asc (vertexMapOf tris) ∧
    ∀ v, v ∈ vertexMapOf tris ↔ (v ≤ maxTriIndex tris ∧ ∃ t ∈ tris, t.p1 = v ∨ t.p2 = v ∨ t.p3 = v) := by
  unfold vertexMapOf
  constructor
  · apply List.Pairwise.filter
    exact List.pairwise_lt_range
  · intro v
    simp only [List.mem_filter, List.mem_range, List.any_eq_true, Bool.or_eq_true, beq_iff_eq]
    constructor
    · rintro ⟨h1, t, ht, h2⟩; exact ⟨by omega, t, ht, by rcases h2 with (h | h) | h <;> simp [h]⟩
    · rintro ⟨h1, t, ht, h2⟩; exact ⟨by omega, t, ht, by rcases h2 with h | h | h <;> simp [h]⟩

/-- rotation only changes the starting corner -/
theorem rot_cyclic (t : Tri) : rot t = t ∨ rot t = ⟨t.p2, t.p3, t.p1⟩ ∨ rot t = ⟨t.p3, t.p1, t.p2⟩ := by
  unfold rot; split
  · exact Or.inr (Or.inl rfl)
  · split
    · exact Or.inr (Or.inr rfl)
    · exact Or.inl rfl

theorem rot_idem (t : Tri) : rot (rot t) = rot t := by
  unfold rot
  by_cases h1 : t.p2 < t.p1 ∧ t.p2 < t.p3
  · have : ¬ (t.p3 < t.p2 ∧ t.p3 < t.p1) := by omega
    have h3 : ¬ (t.p1 < t.p2) := by omega
    simp [h1, this, h3]
  · by_cases h2 : t.p3 < t.p1
    · have h3 : ¬ (t.p1 < t.p3 ∧ t.p1 < t.p2) := by omega
      have h4 : ¬ (t.p2 < t.p3) := by omega
      simp [h1, h2, h3, h4]
    · simp [h1, h2]

/-- mapped triangles translate back to the true triangles (checked on a concrete partition; decided in general by the
differential run) -/
example : trueFromMapped [2, 5, 7, 9] (mappedFromTrue [2, 5, 7, 9] [⟨5, 9, 2⟩, ⟨7, 5, 9⟩]) = [⟨2, 5, 9⟩, ⟨5, 9, 7⟩] := by decide

example : trueFromTriParts 2 [⟨0, 1, 2⟩, ⟨2, 3, 4⟩, ⟨4, 5, 6⟩, ⟨6, 7, 8⟩] [1, -1, 0, 1] = [[⟨4, 5, 6⟩], [⟨0, 1, 2⟩, ⟨6, 7, 8⟩]] := by decide

end Nifly.Mesh
