import NiflyVerif.Mesh.Partition
import NiflyVerif.Util.IndexLemmas
import NiflyVerif.Props.C09
/-!
# C10 — skin partitions cover the shape's triangles exactly once
-/
namespace Nifly.Mesh
open Nifly.Util

/-- **cover exactly once**: a triangle labelled with an existing partition is in that partition's true triangles
(as often as it carries that label) and in no other partition -/
theorem cover_once (nparts : Nat) (tris : List Tri) (labels : List Int) (p : Nat) (hp : p < nparts) :
    (trueFromTriParts nparts tris labels)[p]? =
      some (((tris.zip labels).filter fun tl => tl.2 == (p : Int)).map (·.1)) := by
  unfold trueFromTriParts
  rw [List.getElem?_map, List.getElem?_range hp]
  rfl

def inRange (n : Nat) (tl : Tri × Int) : Bool := decide (0 ≤ tl.2) && decide (tl.2 < (n : Int))

theorem inRange_elem (n : Nat) (a : Tri × Int) :
    inRange (n + 1) a = (inRange n a || a.2 == (n : Int)) ∧ ¬ (inRange n a = true ∧ (a.2 == (n : Int)) = true) := by
  have e : ((n + 1 : Nat) : Int) = (n : Int) + 1 := by omega
  constructor
  · rw [Bool.eq_iff_iff]
    simp only [inRange, Bool.and_eq_true, decide_eq_true_eq, Bool.or_eq_true, beq_iff_eq, e]
    constructor
    · intro h; by_cases h2 : a.2 = (n : Int)
      · exact Or.inr h2
      · exact Or.inl ⟨h.1, by omega⟩
    · rintro (h | h)
      · exact ⟨h.1, by omega⟩
      · exact ⟨by omega, by omega⟩
  · simp only [inRange, Bool.and_eq_true, decide_eq_true_eq, beq_iff_eq]
    intro h; omega

theorem inRange_succ (zl : List (Tri × Int)) (n : Nat) :
    (zl.filter (inRange (n + 1))).length = (zl.filter (inRange n)).length + (zl.filter fun tl => tl.2 == (n : Int)).length := by
  induction zl with
  | nil => rfl
  | cons a l ih =>
    obtain ⟨e1, e2⟩ := inRange_elem n a
    simp only [List.filter_cons, e1]
    generalize inRange n a = x at e2 ⊢
    generalize (a.2 == (n : Int)) = y at e2 ⊢
    cases x <;> cases y <;> simp_all <;> omega

/-- the partitions together hold exactly the triangles whose label is an existing partition -/
theorem cover_total (nparts : Nat) (tris : List Tri) (labels : List Int) :
    ((trueFromTriParts nparts tris labels).map List.length).sum = ((tris.zip labels).filter (inRange nparts)).length := by
  unfold trueFromTriParts
  induction nparts with
  | zero =>
    simp only [List.range_zero, List.map_nil, List.sum_nil]
    symm
    rw [List.length_eq_zero_iff, List.filter_eq_nil_iff]
    intro x _; simp [inRange]
  | succ n ih =>
    rw [List.range_succ, List.map_append, List.map_append, List.sum_append, ih, inRange_succ]
    simp only [List.map_cons, List.map_nil, List.sum_cons, List.sum_nil, List.length_map, Nat.add_zero]

/-- no triangle is in two partitions: membership in partition `p` means the label is `p` -/
theorem cover_disjoint (nparts : Nat) (tris : List Tri) (labels : List Int) (p q : Nat) (hp : p < nparts) (hq : q < nparts)
    (i : Nat) (t : Tri) (l : Int) (hi : (tris.zip labels)[i]? = some (t, l)) (hl : l = (p : Int)) (hpq : p ≠ q) :
    (t, l) ∉ ((tris.zip labels).filter fun tl => tl.2 == (q : Int)) := by
  intro hm
  have := (List.mem_filter.mp hm).2
  simp at this
  omega

/-- **the vertex map lists exactly the vertices the triangles use**, ascending and without repetition -/
theorem vertexMap_exact (tris : List Tri) :
    Asc (vertexMapOf tris) ∧
    ∀ v, v ∈ vertexMapOf tris ↔ (v ≤ maxTriIndex tris ∧ ∃ t ∈ tris, t.p1 = v ∨ t.p2 = v ∨ t.p3 = v) := by
  unfold vertexMapOf
  constructor
  · apply List.Pairwise.filter
    exact List.pairwise_lt_range
  · intro v
    simp only [List.mem_filter, List.mem_range, List.any_eq_true, Bool.or_eq_true, beq_iff_eq]
    constructor
    · rintro ⟨h1, t, ht, h2⟩; exact ⟨by omega, t, ht, by rcases h2 with (h | h) | h <;> simp [h]⟩
    · rintro ⟨h1, t, ht, h2⟩; exact ⟨by omega, t, ht, by rcases h2 with h | h | h <;> simp [h]⟩

/-- rotation only changes the starting corner -/
theorem rot_cyclic (t : Tri) : rot t = t ∨ rot t = ⟨t.p2, t.p3, t.p1⟩ ∨ rot t = ⟨t.p3, t.p1, t.p2⟩ := by
  unfold rot; split
  · exact Or.inr (Or.inl rfl)
  · split
    · exact Or.inr (Or.inr rfl)
    · exact Or.inl rfl

theorem rot_idem (t : Tri) : rot (rot t) = rot t := by
  unfold rot
  by_cases h1 : t.p2 < t.p1 ∧ t.p2 < t.p3
  · have : ¬ (t.p3 < t.p2 ∧ t.p3 < t.p1) := by omega
    have h3 : ¬ (t.p1 < t.p2) := by omega
    simp [h1, this, h3]
  · by_cases h2 : t.p3 < t.p1
    · have h3 : ¬ (t.p1 < t.p3 ∧ t.p1 < t.p2) := by omega
      have h4 : ¬ (t.p2 < t.p3) := by omega
      simp [h1, h2, h3, h4]
    · simp [h1, h2]

/-- mapped triangles translate back to the true triangles (checked on a concrete partition; decided in general by the
differential run) -/
example : trueFromMapped [2, 5, 7, 9] (mappedFromTrue [2, 5, 7, 9] [⟨5, 9, 2⟩, ⟨7, 5, 9⟩]) = [⟨2, 5, 9⟩, ⟨5, 9, 7⟩] := by decide

example : trueFromTriParts 2 [⟨0, 1, 2⟩, ⟨2, 3, 4⟩, ⟨4, 5, 6⟩, ⟨6, 7, 8⟩] [1, -1, 0, 1] = [[⟨4, 5, 6⟩], [⟨0, 1, 2⟩, ⟨6, 7, 8⟩]] := by decide

/-! ### mapped ↔ true triangles -/

def triMap (f : Nat → Nat) (t : Tri) : Tri := ⟨f t.p1, f t.p2, f t.p3⟩

/-- `rot` only compares corners, so it commutes with any map that preserves and reflects `<` on the corners -/
theorem rot_triMap (f : Nat → Nat) (t : Tri)
    (h : ∀ a b, (a = t.p1 ∨ a = t.p2 ∨ a = t.p3) → (b = t.p1 ∨ b = t.p2 ∨ b = t.p3) → (f a < f b ↔ a < b)) :
    rot (triMap f t) = triMap f (rot t) := by
  unfold rot triMap
  simp only
  have h21 := h t.p2 t.p1 (by simp) (by simp)
  have h23 := h t.p2 t.p3 (by simp) (by simp)
  have h31 := h t.p3 t.p1 (by simp) (by simp)
  by_cases c1 : t.p2 < t.p1 ∧ t.p2 < t.p3
  · rw [if_pos c1, if_pos ⟨h21.2 c1.1, h23.2 c1.2⟩]
  · rw [if_neg c1, if_neg (fun hc => c1 ⟨h21.1 hc.1, h23.1 hc.2⟩)]
    by_cases c2 : t.p3 < t.p1
    · rw [if_pos c2, if_pos (h31.2 c2)]
    · rw [if_neg c2, if_neg (fun hc => c2 (h31.1 hc))]

theorem asc_idxOf_lt (v : List Nat) (hasc : Asc v) (a b : Nat) (ha : a ∈ v) (hb : b ∈ v) :
    (v.idxOf a < v.idxOf b ↔ a < b) := by
  have hia : v.idxOf a < v.length := List.idxOf_lt_length_of_mem ha
  have hib : v.idxOf b < v.length := List.idxOf_lt_length_of_mem hb
  have ea : v[v.idxOf a] = a := List.getElem_idxOf hia
  have eb : v[v.idxOf b] = b := List.getElem_idxOf hib
  constructor
  · intro h
    have := List.pairwise_iff_getElem.1 hasc (v.idxOf a) (v.idxOf b) hia hib h
    rwa [ea, eb] at this
  · intro h
    rcases Nat.lt_trichotomy (v.idxOf a) (v.idxOf b) with h1 | h1 | h1
    · exact h1
    · have : a = b := by rw [← ea, ← eb]; simp [h1]
      omega
    · have := List.pairwise_iff_getElem.1 hasc (v.idxOf b) (v.idxOf a) hib hia h1
      rw [ea, eb] at this
      omega

theorem asc_getElem_lt (v : List Nat) (hasc : Asc v) (i j : Nat) (hi : i < v.length) (hj : j < v.length) :
    (v[i] < v[j] ↔ i < j) := by
  constructor
  · intro h
    rcases Nat.lt_trichotomy i j with h1 | h1 | h1
    · exact h1
    · subst h1; omega
    · have := List.pairwise_iff_getElem.1 hasc j i hj hi h1
      omega
  · intro h
    exact List.pairwise_iff_getElem.1 hasc i j hi hj h

theorem castU16_ofNat (n : Nat) (h : n < 65536) : castU16 (n : Int) = n := by
  unfold castU16
  have : ((n : Int) % 65536) = (n : Int) := Int.emod_eq_of_lt (by omega) (by omega)
  rw [this]; simp

theorem mem_le_getLastD (v : List Nat) (hasc : Asc v) (p : Nat) (hp : p ∈ v) : p ≤ v.getLastD 0 := by
  cases hl : v.getLast? with
  | none =>
    have : v = [] := List.getLast?_eq_none_iff.1 hl
    subst this; cases hp
  | some hi =>
    have h := (asc_le_getLast v hi hasc hl).2 p hp
    have : v.getLastD 0 = hi := by
      rw [List.getLastD_eq_getLast?, hl]; rfl
    omega

/-- `GenerateMappedTrianglesFromTrueTrianglesAndVertexMap` on one triangle whose corners are in the map -/
theorem mapTri_inv (v : List Nat) (hasc : Asc v) (hlen : v.length ≤ 65536) (t : Tri)
    (h1 : t.p1 ∈ v) (h2 : t.p2 ∈ v) (h3 : t.p3 ∈ v) :
    mapTri ((List.range (v.getLastD 0 + 1)).map fun x => ((v.idxOf x : Nat) : Int)) t = some (triMap v.idxOf t) := by
  have hget : ∀ p, p ∈ v → ((List.range (v.getLastD 0 + 1)).map fun x => ((v.idxOf x : Nat) : Int))[p]? = some ((v.idxOf p : Nat) : Int) := by
    intro p hp
    have := mem_le_getLastD v hasc p hp
    rw [List.getElem?_map, List.getElem?_range (by omega)]
    rfl
  have hlt : ∀ p, p ∈ v → v.idxOf p < 65536 := fun p hp => by
    have := List.idxOf_lt_length_of_mem hp
    omega
  unfold mapTri
  rw [hget _ h1, hget _ h2, hget _ h3]
  simp only
  rw [if_neg (by omega)]
  simp only [castU16_ofNat _ (hlt _ h1), castU16_ofNat _ (hlt _ h2), castU16_ofNat _ (hlt _ h3), triMap]

/-- `GenerateTrueTrianglesFromMappedTriangles` on one triangle of in-range map positions -/
theorem mapTri_fwd (v : List Nat) (hv : ∀ x ∈ v, x < 65536) (t : Tri)
    (h1 : t.p1 < v.length) (h2 : t.p2 < v.length) (h3 : t.p3 < v.length) :
    mapTri (v.map fun (x : Nat) => (x : Int)) t = some (triMap (fun i => v.getD i 0) t) := by
  have hget : ∀ i (hi : i < v.length), (v.map fun (x : Nat) => (x : Int))[i]? = some ((v[i] : Nat) : Int) := by
    intro i hi
    rw [List.getElem?_map, List.getElem?_eq_getElem hi]; rfl
  have hgd : ∀ i (hi : i < v.length), v.getD i 0 = v[i] := fun i hi => by
    simp [List.getD_eq_getElem?_getD, List.getElem?_eq_getElem hi]
  unfold mapTri
  rw [hget _ h1, hget _ h2, hget _ h3]
  simp only
  rw [if_neg (by omega)]
  simp only [triMap, hgd _ h1, hgd _ h2, hgd _ h3,
    castU16_ofNat _ (hv _ (List.getElem_mem h1)), castU16_ofNat _ (hv _ (List.getElem_mem h2)), castU16_ofNat _ (hv _ (List.getElem_mem h3))]

theorem rot_corners (t : Tri) (p : Nat) : (p = (rot t).p1 ∨ p = (rot t).p2 ∨ p = (rot t).p3) ↔ (p = t.p1 ∨ p = t.p2 ∨ p = t.p3) := by
  rcases rot_cyclic t with h | h | h <;> rw [h] <;> simp only <;> constructor <;> intro hh <;> omega

/-- **mapped ↔ true are inverse.** For an ascending vertex map (16-bit vertex ids) and triangles whose corners are all in
the map, converting true triangles to mapped ones and back gives the same triangles, each rotated to start at its
smallest corner (the normal form `Triangle::rot` puts them in). -/
theorem true_mapped_true (v : List Nat) (hasc : Asc v) (hv : ∀ x ∈ v, x < 65536) (hlen : v.length ≤ 65536) (tris : List Tri)
    (hin : ∀ t ∈ tris, t.p1 ∈ v ∧ t.p2 ∈ v ∧ t.p3 ∈ v) :
    trueFromMapped v (mappedFromTrue v tris) = tris.map rot := by
  unfold trueFromMapped mappedFromTrue
  simp only [applyMap_spec]
  induction tris with
  | nil => rfl
  | cons t ts ih =>
    have ht := hin t (by simp)
    have ihh := ih (fun t' h' => hin t' (by simp [h']))
    simp only [List.filterMap_cons, mapTri_inv v hasc hlen t ht.1 ht.2.1 ht.2.2, List.map_cons]
    -- the mapped triangle: rotated index triple
    have hidx : rot (triMap v.idxOf t) = triMap v.idxOf (rot t) := by
      apply rot_triMap
      intro a b ha hb
      exact asc_idxOf_lt v hasc a b (by rcases ha with rfl | rfl | rfl <;> simp [ht]) (by rcases hb with rfl | rfl | rfl <;> simp [ht])
    have hmem : ∀ p, (p = (rot t).p1 ∨ p = (rot t).p2 ∨ p = (rot t).p3) → p ∈ v := by
      intro p hp
      rcases (rot_corners t p).1 hp with rfl | rfl | rfl <;> simp [ht]
    have hil : ∀ p, p ∈ v → v.idxOf p < v.length := fun p hp => List.idxOf_lt_length_of_mem hp
    rw [hidx]
    have hfwd := mapTri_fwd v hv (triMap v.idxOf (rot t)) (hil _ (hmem _ (by simp))) (hil _ (hmem _ (by simp))) (hil _ (hmem _ (by simp)))
    simp only [List.filterMap_cons, hfwd, List.map_cons]
    -- back through the map: the original (rotated) corners
    have hback : triMap (fun i => v.getD i 0) (triMap v.idxOf (rot t)) = rot t := by
      have hg : ∀ p, p ∈ v → v.getD (v.idxOf p) 0 = p := by
        intro p hp
        have hi := hil p hp
        simp [List.getD_eq_getElem?_getD, List.getElem?_eq_getElem hi]
      simp only [triMap, hg _ (hmem _ (Or.inl rfl)), hg _ (hmem _ (Or.inr (Or.inl rfl))), hg _ (hmem _ (Or.inr (Or.inr rfl)))]
    rw [hback, rot_idem]
    congr 1

end Nifly.Mesh
