import NiflyVerif.Wire.Truncated
/-!
# C16 — truncated files never crash the loader

What is provable about reading a prefix of a valid file (crash-freedom of the whole loader on prefixes is a runtime
matter decided by the truncation sweep under ASan/UBSan, props/c16.py):

* `count_from_prefix_le`  : a little-endian field read across the truncation point into a zero-initialised variable
                            never exceeds the value the whole file holds there;
* `after_eof_defaults`    : after the first short read the stream is failed for good and every later field keeps its
                            initial value;
* `allocation_bounded`    : a count-prefixed array read from any prefix of a file allocates at most as many elements as
                            the same read on the whole file.
-/
namespace Nifly.C16
open Nifly.Wire

theorem count_from_prefix_le (w : Nat) (full : Bytes) (k : Nat) (hfull : w ≤ full.length) :
    (rdInto w (List.replicate w 0) { rest := full.take k }).1 ≤ (rdInto w (List.replicate w 0) { rest := full }).1 :=
  rdInto_prefix_le w full k hfull

theorem after_eof_defaults (w : Nat) (cur : Bytes) (s : In) (h : s.failed = true) :
    rdInto w cur s = (leDecode cur, s) ∧ (rdInto w cur s).2.failed = true :=
  ⟨rdInto_failed w cur s h, rdInto_failed_sticky w cur s h⟩

theorem allocation_bounded (w : Nat) (full : Bytes) (k : Nat) (hfull : 4 ≤ full.length) :
    (rdArray w { rest := full.take k }).1.length ≤ (rdArray w { rest := full }).1.length :=
  rdArray_prefix_length_le w full k hfull

/-- count 3 followed by three 2-byte elements; cut after 9 bytes: 3 elements are still allocated, the last one is
half read, nothing beyond -/
example : (rdArray 2 { rest := ([3, 0, 0, 0, 1, 0, 2, 0, 3, 1] : Bytes).take 9 }).1 = [1, 2, 3] := by decide
/-- cut inside the count (only its low byte survives): the count read is 3 ≤ 259 -/
example : (rdArray 1 { rest := ([3, 1, 0, 0] : Bytes).take 1 }).1.length = 3 := by decide

end Nifly.C16
