import NiflyVerif.Graph.Rename
/-!
# C12 — LE<->SE conversion preserves geometry and skinning and yields a valid file

The conversion itself (`NifFile::OptimizeFor`, 450 lines over every geometry, skin and shader class) is judged by the
relational oracle of props/c12.py.  Proved here is the part of the property that is pure decision logic:

* `sibling_names_distinct` : duplicate-name resolution leaves the shapes below one node with pairwise distinct names,
                             for every list of names and every candidate scheme that yields a name no sibling has;
* `unique_names_untouched` : shapes whose names were already distinct keep them;
* the executable model `renameExact` (the library's `_<counter>` scheme) is run against the C++ on random name lists;
  with the acceptance test of the code before its repair it fails on `["M_1", "M", "M"]`.

Colour quantisation (floats to bytes and back within 1/255) is proved in NiflyXform/C13.lean and reused by the oracle.
-/
namespace Nifly.C12
open Nifly.Rename

theorem sibling_names_distinct [DecidableEq α] (fresh : List α → α → α) (hf : ∀ l x, fresh l x ∉ l) (names : List α) :
    (renameAbs fresh names).Nodup ∧ (renameAbs fresh names).length = names.length := by
  refine ⟨renameAbs_nodup fresh hf names, ?_⟩
  cases names with
  | nil => rfl
  | cons a l => simp [renameAbs, renameFrom_length]; omega

theorem unique_names_untouched [DecidableEq α] (fresh : List α → α → α) (names : List α) (h : names.Nodup) :
    renameAbs fresh names = names := renameAbs_id_of_nodup fresh names h

/-- the repaired acceptance test resolves the adversarial list … -/
example : renameExact true ["M_1", "M", "M"] = ["M_1", "M_2", "M"] := by decide
/-- … the one before the repair did not: two siblings named "M_1" -/
example : renameExact false ["M_1", "M", "M"] = ["M_1", "M_1", "M"] := by decide
example : renameExact true ["M", "M", "M"] = ["M", "M_1", "M_2"] := by decide

end Nifly.C12
