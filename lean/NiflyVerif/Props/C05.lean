import NiflyVerif.Graph.RefEnum
/-!
# C05 — every serialised block or string reference is enumerated by its owner

The tables in `Generated/RefTables.lean` are regenerated from the C++ source on every run
(translator/reftables.py: clang typed AST of every `Sync`, `GetChildRefs`, `GetPtrs`, `GetStringRefs`
body). The statements below quantify over ALL registered block types and ALL file versions the
loader accepts: a member counts as serialised if some `Sync` site of it is not excluded by its
enclosing `File()` comparisons for one of those versions (every other condition — user/stream
version, flags, counts — is over-approximated as "may hold"), and as enumerated only if it is inserted
unconditionally. A string reference only counts for versions that keep strings in the header
string table (>= 20.1.0.3); before that the text is stored inline and no index exists.
-/
namespace Nifly.Generated

set_option maxRecDepth 100000 in
/-- every registered block type reports (as child reference or pointer) every block-reference member
that its `Sync` chain can serialise -/
theorem refs_enumerated : ∀ c ∈ registered, refsCovered c = true := by decide +kernel

set_option maxRecDepth 100000 in
/-- every registered block type reports every string reference its `Sync` chain can serialise -/
theorem strings_enumerated : ∀ c ∈ registered, strsCovered c = true := by decide +kernel

set_option maxRecDepth 100000 in
/-- the evaluation above is not cut short: every class chain is shorter than the fuel -/
theorem chains_within_fuel : ∀ c ∈ registered, chainDepth fuel c < fuel := by decide +kernel

/-- no enumerator inserts a member only under a condition, and the translator understood every
construct in the enumerator bodies (if this fails, the two theorems above under-approximate what is
enumerated and the check falls back to the dynamic search) -/
theorem enumerators_unconditional : conditionalEnum = [] ∧ unknownConstructs = [] := by decide

/-- all 304 registered types are present in the tables -/
theorem all_registered_present : registered.length = 304 ∧ ∀ c ∈ registered, (lvlOf c).isSome = true := by
  decide +kernel

/-- non-vacuity: some class really serialises references through several chain levels -/
example : ∃ c ∈ registered, 3 ≤ (syncedFull (·.syncedRef) fuel c).length := by decide +kernel

end Nifly.Generated
