import NiflyVerif.Wire.HeaderLemmas
import NiflyVerif.Wire.Strings
import NiflyVerif.Generated.OStreamEffects
/-!
# C07 — saved header tables describe the written file exactly

* the header codec (model of `NiHeader::Get/Put`, all version branches the loader accepts) round-trips;
* a file laid out the way `NifFile::Save` lays it out (header, blocks, footer `1 0`) whose size table holds
  the number of bytes each block emitted is walked by the independent reader exactly onto the footer and the
  end of the file;
* the per-block byte counter of `NiOStream` counts exactly the bytes handed to the underlying stream
  (tables regenerated from the source on every run);
* the string table built by `UpdateHeaderStrings` has no duplicates (when rebuilt from scratch), the recorded
  maximum length is the true maximum, and every string reference ends up empty or inside the table,
  designating its text.
-/
namespace Nifly.Wire

/-- header codec round trip -/
theorem header_decode_encode (h : Header) (wf : HeaderWF h) (rest : Bytes) :
    decHeader (encHeader h ++ rest) = some (h, rest) := decHeader_encHeader h wf rest

/-- **The walk lands.** For every header `h` and every list of block payloads, if the size table lists the
payload lengths then the reader that trusts only the header tables recovers exactly those payloads and is left
with exactly the 8-byte footer, i.e. it lands on the end of the file. -/
theorem walk_lands (h : Header) (wf : HeaderWF h) (blocks : List Bytes) (hs : hasSizes h.file = true)
    (hsz : h.sizes = blocks.map List.length) :
    walkFile (encHeader h ++ blocks.flatten ++ footer) = some (h, blocks) := by
  unfold walkFile
  rw [List.append_assoc, decHeader_encHeader h wf]
  simp only [hs, Bool.not_true, Bool.false_eq_true, if_false, hsz]
  rw [splitBlocks_flatten]
  simp

/-- a concrete SSE-style header with one block of declared size `sz` -/
def sampleHdr (sz : Nat) : Header :=
  { verLine := [65], file := V 20 2 0 7, user := 12, «stream» := 100, numBlocks := 1, types := [[66]], tidx := [0],
    sizes := [sz] }

/-- the walk fails (does not land on the footer) when a size entry is off by one byte… -/
example : walkFile (encHeader (sampleHdr 3) ++ [1, 2, 3, 4] ++ footer) = none := by decide

/-- …and succeeds when it is right (non-vacuity of `walk_lands`) -/
example : (walkFile (encHeader (sampleHdr 4) ++ [1, 2, 3, 4] ++ footer)).map (·.2) = some [[1, 2, 3, 4]] := by decide

/-! ### NiOStream byte counter (regenerated tables) -/

open Nifly.Generated in
/-- every NiOStream method adds to the block-size counter exactly the number of bytes it hands to the stream
(as linear expressions in the method's count argument) -/
theorem ostream_counts :
    ostreamOpaque = [] ∧ ostreamEffects.length = 3 ∧
    ∀ m ∈ ostreamEffects, (m.2.1.foldl (fun a e => (a.1 + e.1, a.2 + e.2)) ((0, 0) : Int × Int)) =
      (m.2.2.foldl (fun a e => (a.1 + e.1, a.2 + e.2)) ((0, 0) : Int × Int)) := by decide

/-! ### string table -/

theorem strings_nodup (refs : List (Option Nat × Str)) (tbl : List Str) :
    (updateHeaderStrings false tbl refs).1.Nodup := by
  unfold updateHeaderStrings
  exact updateRefs_nodup [] refs List.nodup_nil

theorem string_index_valid (hasUnknown : Bool) (tbl : List Str) (refs : List (Option Nat × Str)) :
    ∀ r ∈ (updateHeaderStrings hasUnknown tbl refs).2, match r.1 with
      | some i => (updateHeaderStrings hasUnknown tbl refs).1[i]? = some r.2
      | none => r.2 = [] :=
  updateRefs_valid _ refs

theorem max_len_exact (tbl : List Str) :
    (∀ s ∈ tbl, s.length ≤ maxLen tbl) ∧ (tbl ≠ [] → ∃ s ∈ tbl, s.length = maxLen tbl) :=
  ⟨maxLen_ge tbl, maxLen_attained tbl⟩

example : updateHeaderStrings false [[9]] [(some 5, [1]), (none, []), (some 0, []), (none, [1])] =
    ([[1], []], [(some 0, [1]), (none, []), (some 1, []), (some 0, [1])]) := by decide

end Nifly.Wire
