import NiflyVerif.Util.IndexLemmas
/-! C18 property theorems -/
namespace Nifly.Util

/-- erase loop = naive definition, for every strictly ascending index list (in range or not). -/
theorem erase_eq_spec (v : List α) (idx : List Nat) (hasc : Asc idx) :
    erase v idx = eraseSpec v idx := by
  unfold erase eraseSpec
  cases idx with
  | nil => simp [eraseSpecFrom_nil]
  | cons i0 is =>
    have hasc' : Asc is := (List.pairwise_cons.mp hasc).2
    have hlt : ∀ j ∈ is, i0 < j := (List.pairwise_cons.mp hasc).1
    simp only
    split
    · rename_i hge
      rw [eraseSpecFrom_all_ge]
      intro i hi
      rcases List.mem_cons.mp hi with h | h
      · subst h; simpa using hge
      · have := hlt i h; simp; omega
    · rename_i hlt0
      have hlt0 : i0 < v.length := by omega
      conv => rhs; rw [← List.take_append_drop i0 v]
      rw [eraseSpecFrom_append]
      have htl : (v.take i0).length = i0 := by simp; omega
      rw [eraseSpecFrom_all_ge 0 (v.take i0) (i0 :: is) (by
        intro i hi
        rcases List.mem_cons.mp hi with h | h
        · subst h; simp; omega
        · have := hlt i h; simp; omega)]
      congr 1
      rw [htl, Nat.zero_add]
      have hd : v.drop i0 = v[i0] :: v.drop (i0 + 1) := by
        rw [List.drop_eq_getElem_cons hlt0]
      rw [hd]
      simp only [eraseSpecFrom, List.mem_cons, true_or, if_true]
      rw [eraseSpecFrom_cons_lt _ _ _ _ (by omega)]
      exact eraseLoop_eq_spec _ _ _ hasc' (fun j hj => by have := hlt j hj; omega)

end Nifly.Util
