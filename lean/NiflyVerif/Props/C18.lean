import NiflyVerif.Util.IndexLemmas
/-!
# C18 — index-remapping and strip utilities agree with their mathematical definition

Only property theorems and their non-vacuity examples live here; helper lemmas are in
`Util/IndexLemmas.lean`, the loop models in `Util/IndexOps.lean`.
`Asc idx` = strictly ascending (the documented precondition "sorted ascending" of an index
*set*).  Index lists may contain out-of-range positions unless a theorem says otherwise.
-/
namespace Nifly.Util

/-- erase loop = naive definition, for every strictly ascending index list (in range or not). -/
theorem erase_eq_spec (v : List α) (idx : List Nat) (hasc : Asc idx) :
    erase v idx = eraseSpec v idx := by
  unfold erase eraseSpec
  cases idx with
  | nil => simp [eraseSpecFrom_nil]
  | cons i0 is =>
    have hasc' : Asc is := (List.pairwise_cons.mp hasc).2
    have hlt : ∀ j ∈ is, i0 < j := (List.pairwise_cons.mp hasc).1
    simp only
    split
    · rename_i hge
      rw [eraseSpecFrom_all_ge]
      intro i hi
      rcases List.mem_cons.mp hi with h | h
      · subst h; simpa using hge
      · have := hlt i h; simp; omega
    · rename_i hlt0
      have hlt0 : i0 < v.length := by omega
      conv => rhs; rw [← List.take_append_drop i0 v]
      rw [eraseSpecFrom_append]
      have htl : (v.take i0).length = i0 := by simp; omega
      rw [eraseSpecFrom_all_ge 0 (v.take i0) (i0 :: is) (by
        intro i hi
        rcases List.mem_cons.mp hi with h | h
        · subst h; simp; omega
        · have := hlt i h; simp; omega)]
      congr 1
      rw [htl, Nat.zero_add]
      have hd : v.drop i0 = v[i0] :: v.drop (i0 + 1) := by
        rw [List.drop_eq_getElem_cons hlt0]
      rw [hd]
      simp only [eraseSpecFrom, List.mem_cons, true_or, if_true]
      rw [eraseSpecFrom_cons_lt _ _ _ _ (by omega)]
      exact eraseLoop_eq_spec _ _ _ hasc' (fun j hj => by have := hlt j hj; omega)

example : erase [10, 11, 12, 13, 14] [1, 3, 9] = [10, 12, 14] := by decide

/-- Cursor arithmetic of the erase loop for EVERY index list (sorted or not, in range or not):
each move `v[di] = v[si]` has `di < si < v.size()`, i.e. no access outside the container. -/
theorem erase_in_bounds (n i0 : Nat) (is : List Nat) (h0 : i0 < n) :
    ∀ a ∈ eraseAccesses (n - (i0 + 1)) i0 (i0 + 1) is, a.1 < a.2 ∧ a.2 < n := by
  intro a ha
  have := eraseAccesses_bounds (n - (i0 + 1)) i0 (i0 + 1) is (by omega) a ha
  omega

/-- collapse loop = naive definition (−1 exactly on listed positions, a survivor goes to its rank). -/
theorem collapse_eq_spec (idx : List Nat) (n : Nat) (hasc : Asc idx) :
    collapseMap idx n = collapseSpec idx n := by
  unfold collapseMap collapseSpec
  rw [collapseLoop_eq n 0 0 idx hasc (by simp), List.range_eq_range']
  apply List.map_congr_left
  intro i _
  simp

example : collapseMap [1, 3] 6 = [0, -1, 1, -1, 2, 3] := by decide

/-- expand map: entry `s` is a position that is not listed, namely the one with exactly `s`
unlisted positions before it (`v = s + #{i ∈ idx | i < v}`); -/
theorem expand_spec (idx : List Nat) (m : Nat) (hasc : Asc idx) (s : Nat) (hs : s < m) :
    ∃ v : Nat, (expandMap idx m)[s]? = some (v : Int) ∧ v ∉ idx ∧ v = s + (idx.filter (· < v)).length := by
  obtain ⟨v, h1, h2, h3⟩ := expandLoop_spec m 0 idx hasc (by simp) s hs
  exact ⟨v, h1, h2, by omega⟩

/-- … hence collapsing after expanding is the identity on survivors. -/
theorem collapse_expand (idx : List Nat) (m n : Nat) (hasc : Asc idx) (s : Nat) (hs : s < m) :
    ∃ v : Nat, (expandMap idx m)[s]? = some (v : Int) ∧ (v < n → (collapseMap idx n)[v]? = some (s : Int)) := by
  obtain ⟨v, h1, h2, h3⟩ := expand_spec idx m hasc s hs
  refine ⟨v, h1, fun hv => ?_⟩
  rw [collapse_eq_spec idx n hasc]
  unfold collapseSpec
  rw [List.getElem?_map, List.getElem?_range hv]
  simp only [Option.map_some, h2, if_false, Option.some.injEq, Int.natCast_inj]
  omega

example : expandMap [1, 3] 4 = [0, 2, 4, 5] := by decide

/-- insertion loop: for a strictly ascending list of valid target positions there is no
out-of-range read, the result has `v.length + idx.length` slots, the occupied slots are `v` in
order, and slot `p` is an (unspecified-value) inserted slot iff `p` is listed. -/
theorem insert_spec (v : List α) (idx : List Nat) (hasc : Asc idx)
    (hlt : ∀ i ∈ idx, i < v.length + idx.length) :
    (insert v idx).2 = false ∧ (insert v idx).1.length = v.length + idx.length ∧
      (insert v idx).1.filterMap id = v ∧
      ∀ p, (insert v idx).1[p]? = some none ↔ p ∈ idx := by
  unfold insert
  cases hl : idx.getLast? with
  | none =>
    have : idx = [] := by simpa using hl
    subst this
    simp [List.filterMap_map]
  | some l =>
    have hmem : l ∈ idx := List.mem_of_getLast? hl
    have hl' : ¬ (l ≥ v.length + idx.length) := by have := hlt l hmem; omega
    simp only [hl', if_false]
    have hd : Desc idx.reverse := List.pairwise_reverse.mpr hasc
    obtain ⟨r1, r2, r3, r4⟩ := insertLoopRev_spec (v.length + idx.length) v.reverse idx.reverse hd
      (fun i hi => hlt i (by simpa using hi)) (by simp)
    generalize insertLoopRev (v.length + idx.length) v.reverse idx.reverse = out at r1 r2 r3 r4
    obtain ⟨o1, o2⟩ := out
    simp only at r1 r2 r3 r4 ⊢
    refine ⟨r1, by simp [r2], ?_, ?_⟩
    · rw [List.filterMap_reverse, r3, List.reverse_reverse]
    · intro p
      by_cases hp : p < v.length + idx.length
      · rw [List.getElem?_reverse (by omega), r2, r4 p hp]; simp
      · constructor
        · intro h
          have : p < o1.reverse.length := by
            rcases List.getElem?_eq_some_iff.mp h with ⟨hh, _⟩; exact hh
          simp [r2] at this; omega
        · intro h; have := hlt p h; omega

/-- erase then re-insert restores positions: the length is restored and every surviving
element is back at its original position. -/
theorem insert_erase (v : List α) (idx : List Nat) (hasc : Asc idx) (hin : ∀ i ∈ idx, i < v.length) :
    (insert (erase v idx) idx).2 = false ∧ (insert (erase v idx) idx).1 = maskFrom 0 v idx := by
  have hnd : idx.Nodup := hasc.imp (fun h => Nat.ne_of_lt h)
  have hsub : idx.length + (eraseSpec v idx).length = v.length := by
    unfold eraseSpec
    rw [← maskFrom_filterMap]
    -- count the empty slots
    have key : ∀ (s : Nat) (w : List α) (l : List Nat), l.Nodup → (∀ i ∈ l, s ≤ i ∧ i < s + w.length) →
        l.length + ((maskFrom s w l).filterMap id).length = w.length := by
      intro s w
      induction w generalizing s with
      | nil =>
        intro l _ hl
        cases l with
        | nil => rfl
        | cons a _ => have := hl a (by simp); simp at this; omega
      | cons x xs ih =>
        intro l hnd hl
        simp only [maskFrom]
        by_cases hs : s ∈ l
        · have hl' := ih (s + 1) (l.erase s) (hnd.erase s) (fun i hi => by
            have hne : i ≠ s := by
              intro h; subst h; exact (List.Nodup.not_mem_erase hnd) hi
            have := hl i (List.mem_of_mem_erase hi); simp at this; omega)
          have hfm : (maskFrom (s + 1) xs (l.erase s)).filterMap id = (maskFrom (s + 1) xs l).filterMap id := by
            rw [maskFrom_filterMap, maskFrom_filterMap]
            clear hl' ih hl
            have : ∀ (t : Nat) (ys : List α), s < t → eraseSpecFrom t ys (l.erase s) = eraseSpecFrom t ys l := by
              intro t ys
              induction ys generalizing t with
              | nil => intros; rfl
              | cons y ys ih2 =>
                intro ht
                have hiff : t ∈ l.erase s ↔ t ∈ l := by
                  rw [List.Nodup.mem_erase_iff hnd]; constructor
                  · exact fun h => h.2
                  · exact fun h => ⟨by omega, h⟩
                simp only [eraseSpecFrom, hiff, ih2 (t + 1) (by omega)]
            exact this (s + 1) xs (by omega)
          simp only [hs, if_true, List.filterMap_cons, id, List.length_cons]
          rw [← hfm]
          have : (l.erase s).length = l.length - 1 := List.length_erase_of_mem hs
          have hpos : 0 < l.length := List.length_pos_of_mem hs
          omega
        · have hl' := ih (s + 1) l hnd (fun i hi => by
            have hne : i ≠ s := by intro h; subst h; exact hs hi
            have := hl i hi; simp at this; omega)
          simp only [hs, if_false, List.filterMap_cons, id, List.length_cons]
          omega
    exact key 0 v idx hnd (fun i hi => by have := hin i hi; omega)
  have hes : erase v idx = eraseSpec v idx := erase_eq_spec v idx hasc
  obtain ⟨r1, r2, r3, r4⟩ := insert_spec (erase v idx) idx hasc (fun i hi => by
    rw [hes]; have := hin i hi; omega)
  refine ⟨r1, ?_⟩
  apply opt_ext
  · rw [r2, maskFrom_length, hes]; omega
  · intro p
    rw [r4 p, maskFrom_none]
    constructor
    · intro h; exact ⟨hin p h, by simpa using h⟩
    · intro h; simpa using h.2
  · rw [r3, maskFrom_filterMap, hes]; rfl

/-- concretely: every survivor is back where it was. -/
theorem insert_erase_get (v : List α) (idx : List Nat) (hasc : Asc idx) (hin : ∀ i ∈ idx, i < v.length)
    (p : Nat) (hp : p < v.length) (hn : p ∉ idx) :
    (insert (erase v idx) idx).1[p]? = some (some v[p]) := by
  rw [(insert_erase v idx hasc hin).2]
  exact maskFrom_get 0 v idx p hp (by simpa using hn)

example : (insert (erase [10, 11, 12, 13, 14] [1, 3]) [1, 3]).1 = [some 10, none, some 12, none, some 14] := by
  decide

/-- triangle remap: the surviving triangles are exactly those whose three corners are in the
map with a non-negative image, re-indexed, in their original order; the reported deleted
positions are exactly the positions of the others. -/
theorem applyMap_spec (map : List Int) (tris : List Tri) :
    applyMap map tris = (tris.filterMap (mapTri map), droppedFrom map 0 tris) := by
  unfold applyMap
  rw [Prod.ext_iff]
  exact ⟨applyMapLoop_fst map 0 tris, applyMapLoop_snd map 0 tris⟩

theorem mapTri_some_iff (map : List Int) (t : Tri) :
    (mapTri map t).isSome ↔
      ∃ a b c, map[t.p1]? = some a ∧ map[t.p2]? = some b ∧ map[t.p3]? = some c ∧ 0 ≤ a ∧ 0 ≤ b ∧ 0 ≤ c := by
  unfold mapTri
  split
  · rename_i a b c h1 h2 h3
    simp only [h1, h2, h3, Option.some.injEq]
    constructor
    · intro h
      refine ⟨a, b, c, rfl, rfl, rfl, ?_⟩
      split at h
      · simp at h
      · omega
    · rintro ⟨a', b', c', e1, e2, e3, h⟩
      cases e1; cases e2; cases e3
      have : ¬ (a < 0 ∨ b < 0 ∨ c < 0) := by omega
      simp [this]
  · rename_i hne
    simp only [Option.isSome_none, Bool.false_eq_true, false_iff]
    rintro ⟨a, b, c, h1, h2, h3, _⟩
    exact hne a b c h1 h2 h3

example : applyMap [0, -1, 1, 2, 3] [⟨0, 1, 2⟩, ⟨2, 3, 4⟩] = ([⟨1, 2, 3⟩], [0]) := by decide

/-- strip expansion of one strip = its windows `(s[k], s[k+1], s[k+2])`, alternately wound,
degenerate windows dropped; strips with fewer than three points give nothing. -/
theorem strip_eq_spec (s : List Nat) : stripTris s = stripTrisSpec s := by
  unfold stripTrisSpec
  match s with
  | [] => rfl
  | [_] => rfl
  | [_, _] => rfl
  | a :: b :: c :: cs =>
    simp only [stripTris, stripLoop_eq, List.length_cons]
    have : cs.length + 1 + 1 + 1 - 2 = cs.length + 1 := by omega
    rw [this]
    congr 1
    funext k
    unfold stripWindow
    have : (2 + k) % 2 = k % 2 := by omega
    simp only [this]
    rfl

theorem strips_eq_spec (strips : List (List Nat)) :
    stripsToTris strips = strips.flatMap fun s => stripTrisSpec (s.map (· % 65536)) := by
  unfold stripsToTris
  congr 1
  funext s
  exact strip_eq_spec _

example : stripsToTris [[0, 1, 2, 3, 3, 4], [1, 2]] = [⟨0, 1, 2⟩, ⟨1, 3, 2⟩] := by decide

/-- every triangle produced from strips is non-degenerate -/
theorem strips_nondegenerate (s : List Nat) : ∀ t ∈ stripTrisSpec s, t.p1 ≠ t.p2 ∧ t.p2 ≠ t.p3 ∧ t.p3 ≠ t.p1 := by
  intro t ht
  unfold stripTrisSpec at ht
  obtain ⟨k, _, hk⟩ := List.mem_filterMap.mp ht
  unfold stripWindow at hk
  split at hk
  · split at hk
    · rename_i h
      simp only [Option.some.injEq] at hk
      subst hk
      split <;> simp <;> omega
    · simp at hk
  · simp at hk

/-! ### shape of the collapse map (added late): length, sign, range -/

theorem collapse_length (idx : List Nat) (n : Nat) (hasc : Asc idx) : (collapseMap idx n).length = n := by
  rw [collapse_eq_spec idx n hasc]; simp [collapseSpec]

/-- entry `i` of the collapse map is `-1` exactly when `i` is listed; otherwise it is a natural number not above `i` -/
theorem collapse_neg_iff (idx : List Nat) (n : Nat) (hasc : Asc idx) (i : Nat) (hi : i < n) :
    ∃ x : Int, (collapseMap idx n)[i]? = some x ∧ (x = -1 ↔ i ∈ idx) ∧ (i ∉ idx → 0 ≤ x ∧ x ≤ i) := by
  rw [collapse_eq_spec idx n hasc]
  unfold collapseSpec
  rw [List.getElem?_map, List.getElem?_range hi]
  by_cases h : i ∈ idx
  · exact ⟨-1, by simp [h], by simp [h], fun h' => absurd h h'⟩
  · refine ⟨((i - (idx.filter (· < i)).length : Nat) : Int), by simp [h], ?_, fun _ => ⟨by omega, by omega⟩⟩
    simp only [h, iff_false]; omega

example : (collapseMap [1, 3] 6).length = 6 := by decide

/-- **the collapse map is strictly increasing on survivors** (hence injective there): two positions that are not
listed keep their relative order and never collide after `GenerateIndexCollapseMap`. -/
theorem collapse_strict_mono (idx : List Nat) (n : Nat) (hasc : Asc idx) (i j : Nat) (hij : i < j) (hj : j < n)
    (hi : i ∉ idx) (hjn : j ∉ idx) :
    ∃ a b : Nat, (collapseMap idx n)[i]? = some (a : Int) ∧ (collapseMap idx n)[j]? = some (b : Int) ∧ a < b := by
  rw [collapse_eq_spec idx n hasc]
  unfold collapseSpec
  rw [List.getElem?_map, List.getElem?_map, List.getElem?_range hj, List.getElem?_range (by omega : i < n)]
  refine ⟨i - (idx.filter (· < i)).length, j - (idx.filter (· < j)).length, by simp [hi], by simp [hjn], ?_⟩
  have h0 := asc_count_window idx hasc 0 i
  have h0' : (idx.filter (· < i)).length ≤ i := by simpa using h0
  have hs := count_split idx i j (by omega)
  have hw : idx.filter (fun x => decide (i ≤ x) && decide (x < j)) = idx.filter (fun x => decide (i + 1 ≤ x) && decide (x < j)) := by
    apply List.filter_congr
    intro y hy
    have : y ≠ i := fun h => hi (h ▸ hy)
    have h1 : decide (i ≤ y) = decide (i + 1 ≤ y) := by
      by_cases h : i ≤ y
      · have : i + 1 ≤ y := by omega
        simp [h, this]
      · have : ¬ (i + 1 ≤ y) := by omega
        simp [h, this]
    rw [h1]
  have hb := asc_count_window idx hasc (i + 1) j
  rw [hw] at hs
  omega

/-- **the expand map is strictly increasing**: `GenerateIndexExpandMap` lists the unlisted positions in ascending order
without repetition. -/
theorem expand_strict_mono (idx : List Nat) (m : Nat) (hasc : Asc idx) (s s' : Nat) (hss : s < s') (hs' : s' < m) :
    ∃ v v' : Nat, (expandMap idx m)[s]? = some (v : Int) ∧ (expandMap idx m)[s']? = some (v' : Int) ∧ v < v' := by
  obtain ⟨v, h1, _, h3⟩ := expand_spec idx m hasc s (by omega)
  obtain ⟨v', h1', _, h3'⟩ := expand_spec idx m hasc s' hs'
  refine ⟨v, v', h1, h1', ?_⟩
  by_cases h : v < v'
  · exact h
  · exfalso
    have hsplit := count_split idx v' v (by omega)
    have hw := asc_count_window idx hasc v' v
    omega

end Nifly.Util
