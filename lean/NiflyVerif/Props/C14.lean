import NiflyVerif.Graph.Clone
/-!
# C14 — cloning a shape yields a self-contained copy and leaves the source untouched

Model: `Nifly.Clone.cloneKids` / `cloneChildren` (the recursive clone of the block tree below a shape into the
destination header).  The source is a parameter that no definition returns: nothing in the model can modify it
(in the C++ the references that are re-assigned belong to blocks that were cloned first).

* `dest_prefix_preserved` : the destination's blocks are only appended to — what it held before is untouched;
* `refs_resolve`          : every re-assigned child reference resolves inside the destination (a reference that
                            did not resolve in the source is left as it was — the only exception);
* `all_added_refs_resolve` : the same for every block added at any depth below the clone;
* `clone_has_child_content`: position by position the block a reference is re-assigned to carries the type and
                            payload of the source child, and is one of the appended blocks.
-/
namespace Nifly.C14
open Nifly.Clone

theorem dest_prefix_preserved (fuel : Nat) (src dest : List Blk) (ks : List (Option Nat)) (pO pN : Option Nat) :
    ∃ t, (cloneKids fuel src dest ks pO pN).1 = dest ++ t := cloneKids_prefix fuel src dest ks pO pN

theorem refs_resolve (fuel : Nat) (src dest : List Blk) (ks : List (Option Nat)) (pO pN : Option Nat)
    (hf : fuelOK fuel src dest ks pO pN = true) :
    ∀ k ∈ (cloneKids fuel src dest ks pO pN).2, ∀ j, k = some j →
      j < (cloneKids fuel src dest ks pO pN).1.length ∨ src[j]? = none := by
  intro k hk j hj
  have := cloneKids_settled fuel src dest ks pO pN hf k hk
  subst hj
  exact this

theorem clone_has_child_content (fuel : Nat) (src dest : List Blk) (ks : List (Option Nat)) (pO pN : Option Nat)
    (hf : fuelOK fuel src dest ks pO pN = true) (p i : Nat) (c : Blk) (hk : ks[p]? = some (some i)) (hc : src[i]? = some c) :
    ∃ j b, (cloneKids fuel src dest ks pO pN).2[p]? = some (some j) ∧ dest.length ≤ j ∧
      (cloneKids fuel src dest ks pO pN).1[j]? = some b ∧ b.ty = c.ty ∧ b.payload = c.payload :=
  cloneKids_content fuel src dest ks pO pN hf p i c hk hc

/-- every reference of every block the clone added — at any depth — resolves inside the destination (or never resolved
in the source) -/
theorem all_added_refs_resolve (fuel : Nat) (src dest : List Blk) (ks : List (Option Nat)) (pO pN : Option Nat)
    (hf : fuelOK fuel src dest ks pO pN = true) (idx : Nat) (b : Blk) (hidx : dest.length ≤ idx)
    (hb : (cloneKids fuel src dest ks pO pN).1[idx]? = some b) :
    ∀ k ∈ b.kids, ∀ j, k = some j → j < (cloneKids fuel src dest ks pO pN).1.length ∨ src[j]? = none := by
  intro k hk j hj
  have := cloneKids_all_settled fuel src dest ks pO pN hf idx b hidx hb k hk
  subst hj
  exact this

/-! ### a concrete run (non-vacuity): shape → {data, shader → texture set}, skin instance with a parent pointer -/

def srcFile : List Blk := [
  ⟨1, 10, [some 1, some 2], []⟩,          -- 0 shape: data, shader
  ⟨2, 20, [], []⟩,                         -- 1 data
  ⟨3, 30, [some 3], []⟩,                   -- 2 shader: texture set
  ⟨4, 40, [], [some 2]⟩ ]                  -- 3 texture set with a pointer back to its shader

/-- destination already holds two blocks; the cloned shape is appended as block 2 by `CloneShape` before
`CloneChildren` runs -/
def destFile : List Blk := [⟨9, 90, [], []⟩, ⟨9, 91, [], []⟩, ⟨1, 10, [some 1, some 2], []⟩]

example : fuelOK 10 srcFile destFile [some 1, some 2] none none = true := by decide

/-- data → 3, shader → 4, texture set → 5 with its back pointer re-bound to the new shader (4) -/
example : cloneChildren 10 srcFile destFile 2 =
    [⟨9, 90, [], []⟩, ⟨9, 91, [], []⟩, ⟨1, 10, [some 3, some 4], []⟩,
     ⟨2, 20, [], []⟩, ⟨3, 30, [some 5], []⟩, ⟨4, 40, [], [some 4]⟩] := by decide

/-- the boundary: a pointer from a *first-level* child to the shape itself is not re-bound (the top-level call passes
no parent) — it keeps the source's index -/
example : (cloneChildren 10 [⟨1, 10, [some 1], []⟩, ⟨5, 50, [], [some 0]⟩] [⟨9, 90, [], []⟩, ⟨1, 10, [some 1], []⟩] 1) =
    [⟨9, 90, [], []⟩, ⟨1, 10, [some 2], []⟩, ⟨5, 50, [], [some 0]⟩] := by decide

end Nifly.C14
