import NiflyVerif.Graph.Copy
/-!
# C11 — a copied model is equal to and fully independent of its source

Model: `Nifly.Copy.copyFrom` (clone every block member-wise, re-link the geometry caches).  The statements:

* `copy_equal`      : the copy answers exactly what the source answers (block contents and, for every shape, the
                      block its cached geometry pointer designates) — for sources whose caches are consistent
                      with their data references;
* `no_shared_state` : every pointer held by the copy designates a block of the copy, and the copy's blocks are
                      fresh addresses;
* `source_independent`, `copy_independent` : editing or destroying either model leaves the other's answers as
                      they were;
* `stale_cache_is_shared` : the boundary — a source shape whose cache does not agree with its data reference
                      (possible only by bypassing the API) yields a copy that points into the source.
-/
namespace Nifly.C11
open Nifly.Copy

/-- the source's caches agree with its data references: a shape is re-linkable exactly when its cache is set, and
then the cache is the block its `dataRef` designates -/
def Consistent (acc : Nat → Nat → Bool) (w : World) (A : List Nat) : Prop :=
  ∀ (i : Nat) (o : Obj), (A[i]?).bind w.heap = some o →
    (o.cache ≠ none → linkable acc (fun j => (A[j]?).bind w.heap) A.length o) ∧
    (∀ d, o.dataRef = some d → linkable acc (fun j => (A[j]?).bind w.heap) A.length o → o.cache = A[d]?)

theorem idxOf_range_map (base n d : Nat) (h : d < n) :
    ((List.range n).map (base + ·)).idxOf (base + d) = d := by
  induction n generalizing d base with
  | zero => omega
  | succ n ih =>
    rw [List.range_succ_eq_map, List.map_cons, List.map_map]
    cases d with
    | zero => simp
    | succ d =>
      rw [List.idxOf_cons, show ((base + 0) == (base + (d + 1))) = false by simp]
      simp only [cond_false]
      have : (fun x => base + x) ∘ Nat.succ = fun x => (base + 1) + x := by funext x; simp; omega
      rw [this, show base + (d + 1) = (base + 1) + d by omega, ih (base + 1) d (by omega)]

theorem idxOf_getElem_nodup (A : List Nat) (hn : A.Nodup) (d : Nat) (h : d < A.length) : A.idxOf A[d] = d := by
  induction A generalizing d with
  | nil => simp at h
  | cons a A ih =>
    cases d with
    | zero => simp
    | succ d =>
      have hn' := List.nodup_cons.1 hn
      have hd : d < A.length := by simpa using h
      simp only [List.getElem_cons_succ]
      have hne : (a == A[d]) = false := by
        apply beq_false_of_ne
        intro e
        apply hn'.1
        rw [e]
        exact List.getElem_mem _
      rw [List.idxOf_cons, hne]
      simp only [cond_false]
      rw [ih hn'.2 d hd]

/-- **Equal.** The copy of a consistent source answers exactly what the source answers. -/
theorem copy_equal (acc) (w : World) (A : List Nat) (hn : A.Nodup) (hc : Consistent acc w A) :
    view (copyFrom acc w A).1 (copyFrom acc w A).2 = view w A := by
  apply List.ext_getElem
  · simp [view, copy_blocks]
  · intro i h1 h2
    have hi : i < A.length := by simpa [view] using h2
    simp only [view, List.getElem_map, copy_blocks, List.getElem_range]
    rw [copy_get acc w A i hi]
    have hAi : A[i]? = some A[i] := List.getElem?_eq_getElem hi
    cases hs : w.heap A[i] with
    | none => simp [hAi, hs]
    | some o =>
      have hso : (A[i]?).bind w.heap = some o := by simp [hAi, hs]
      simp only [hAi, Option.bind_some, hs, Option.map_some, Option.some.injEq]
      have hst := strip_linked acc (fun j => (A[j]?).bind w.heap) A.length w.next o
      simp only [strip, Prod.mk.injEq] at hst
      obtain ⟨h1', h2', h3'⟩ := hst
      refine Prod.ext h1' (Prod.ext h2' (Prod.ext h3' ?_))
      simp only
      by_cases hk : linkable acc (fun j => (A[j]?).bind w.heap) A.length o
      · obtain ⟨d, hd, hdr, hcache⟩ := linked_cache_of_linkable acc _ A.length w.next o hk
        rw [hcache, (hc i o hso).2 d hdr hk, List.getElem?_eq_getElem hd]
        have hm : w.next + d ∈ (List.range A.length).map (w.next + ·) :=
          List.mem_map.2 ⟨d, List.mem_range.2 hd, rfl⟩
        simp only [Option.map_some, hm, if_true, List.getElem_mem, idxOf_range_map w.next A.length d hd,
          idxOf_getElem_nodup A hn d hd]
      · have hv := linked_cache_of_not acc _ A.length w.next o hk
        rw [hv]
        have : o.cache = none := Classical.byContradiction fun hne => hk ((hc i o hso).1 hne)
        rw [this]; rfl

/-- **No shared state.** -/
theorem no_shared_state (acc) (w : World) (A : List Nat) (hw : WF w A) (hl : WellLinked acc w A) :
    (∀ b ∈ (copyFrom acc w A).2, w.next ≤ b ∧ b ∉ A) ∧ (copyFrom acc w A).2.Nodup ∧
    ∀ i, i < A.length → ∀ o', (copyFrom acc w A).1.heap (w.next + i) = some o' →
      ∀ c, o'.cache = some c → c ∈ (copyFrom acc w A).2 :=
  ⟨copy_fresh acc w A hw, copy_nodup acc w A, fun i h o' ho' c hc => copy_closed acc w A hl i h o' ho' c hc⟩

/-- **Independence of the source** (restated from Graph/Copy.lean) -/
theorem source_independent (acc) (w : World) (A : List Nat) (hw : WF w A) :
    view (copyFrom acc w A).1 A = view w A ∧
    (∀ b ∈ (copyFrom acc w A).2, ∀ o, view (write (copyFrom acc w A).1 b o) A = view (copyFrom acc w A).1 A) ∧
    view (free (copyFrom acc w A).1 (copyFrom acc w A).2) A = view (copyFrom acc w A).1 A :=
  Nifly.Copy.source_independent acc w A hw

/-- **Independence of the copy** (restated from Graph/Copy.lean) -/
theorem copy_independent (acc) (w : World) (A : List Nat) (hw : WF w A) :
    (∀ a ∈ A, ∀ o, view (write (copyFrom acc w A).1 a o) (copyFrom acc w A).2 = view (copyFrom acc w A).1 (copyFrom acc w A).2) ∧
    view (free (copyFrom acc w A).1 A) (copyFrom acc w A).2 = view (copyFrom acc w A).1 (copyFrom acc w A).2 :=
  Nifly.Copy.copy_independent acc w A hw

/-! ### the boundary, and non-vacuity -/

def acc1 : Nat → Nat → Bool := fun g d => g == 1 && d == 2

/-- a two-block file: shape (type 1) at address 10 with data (type 2) at address 11, properly linked -/
def good : World := ⟨fun a => if a = 10 then some ⟨1, some 1, some 11, 7⟩ else if a = 11 then some ⟨2, none, none, 8⟩ else none, 12⟩

example : (view (copyFrom acc1 good [10, 11]).1 (copyFrom acc1 good [10, 11]).2) = view good [10, 11] := by decide
example : ((copyFrom acc1 good [10, 11]).1.heap 12).map (·.cache) = some (some 13) := by decide

/-- the same shape after its data reference was cleared behind the API's back: the cache still points at 11 -/
def stale : World := ⟨fun a => if a = 10 then some ⟨1, none, some 11, 7⟩ else if a = 11 then some ⟨2, none, none, 8⟩ else none, 12⟩

/-- **the boundary**: the copy of such a shape points at the *source's* block 11 … -/
theorem stale_cache_is_shared : ((copyFrom acc1 stale [10, 11]).1.heap 12).map (·.cache) = some (some 11) := by decide

/-- … so destroying the source leaves the copy with a pointer to freed memory -/
example : (free (copyFrom acc1 stale [10, 11]).1 [10, 11]).heap 11 = none := by decide

end Nifly.C11
