import NiflyVerif.TexPathLemmas
/-!
# C19 — texture path clean-up is canonical and idempotent

`clean cfg` is the model of the clean-up lambda (see `TexPath.lean`). `std` is the configuration of
every game that wants the `textures\` prefix, not loaded as terrain (FO3, Skyrim LE/SE, FO4, FO76,
Starfield); for it the property is proved at full strength. For Oblivion-style versions and for
terrain files full idempotence is FALSE on the pinned code; the negations are proved below with
concrete witnesses (each replayed on the implementation by the check: they are the recorded known
findings) and the part that does hold is proved as `…_partial`.
-/
namespace Nifly.TexPath

def std : Cfg := ⟨false, false⟩

/-- the part of the pipeline before prefixes are added -/
def core (s : Str) : Str := stripLeadingBs (stripToTextures (collapse (trim s)))

theorem clean_eq (cfg : Cfg) (s : Str) (h : trim s ≠ []) :
    clean cfg s =
      let t := if cfg.noTexPrefix then core s else addPrefix texturesBs (core s)
      if cfg.terrain then addPrefix dataBs t else t := by
  have hs : s ≠ [] := by intro h'; subst h'; exact h rfl
  unfold clean core
  simp [hs, h]

/-- empty and blank paths become empty (every configuration) -/
theorem clean_blank (cfg : Cfg) (s : Str) (h : trim s = []) : clean cfg s = [] := by
  unfold clean
  by_cases hs : s = []
  · simp [hs]
  · simp [hs, h]

theorem okSep_core (s : Str) : okSep (core s) = true := by
  unfold core stripLeadingBs stripToTextures
  apply okSep_dropWhile
  have hc := okSep_collapse (trim s)
  split
  · exact hc
  · cases hcut : cutFirst (collapse (trim s)) with
    | none => simpa using hc
    | some r =>
      obtain ⟨n, hn⟩ := cutFirst_suffix _ _ hcut
      simp only [Option.getD_some, hn]
      exact okSep_drop _ _ hc

theorem core_head (s : Str) : (core s).head? ≠ some 92 := by
  unfold core stripLeadingBs
  have := List.head?_dropWhile_not (· == 92) (stripToTextures (collapse (trim s)))
  intro h
  rw [h] at this
  simp at this

theorem lastOk_core (s : Str) : lastOk (core s) := by
  unfold core stripLeadingBs stripToTextures
  have h1 : lastOk (collapse (trim s)) := collapse_getLast _ (trim_props s).2
  obtain ⟨n, hn⟩ := dropWhile_eq_drop (· == 92) (if startsWithCI (collapse (trim s)) texturesBs then collapse (trim s) else (cutFirst (collapse (trim s))).getD (collapse (trim s)))
  rw [hn]
  apply lastOk_drop
  split
  · exact h1
  · cases hcut : cutFirst (collapse (trim s)) with
    | none => simpa using h1
    | some r =>
      obtain ⟨m, hm⟩ := cutFirst_suffix _ _ hcut
      simp only [Option.getD_some, hm]
      exact lastOk_drop _ _ h1

theorem okSep_addPrefix_textures (t : Str) (h : okSep t = true) (hh : t.head? ≠ some 92) :
    okSep (addPrefix texturesBs t) = true := by
  unfold addPrefix
  split
  · exact h
  · have : okSep (92 :: t) = true := okSep_cons h (by decide) (fun _ => hh)
    simp only [texturesBs, List.cons_append, List.nil_append]
    simp only [okSep]
    simp [this]

theorem okSep_addPrefix_data (t : Str) (h : okSep t = true) (hh : t.head? ≠ some 92) :
    okSep (addPrefix dataBs t) = true := by
  unfold addPrefix
  split
  · exact h
  · have : okSep (92 :: t) = true := okSep_cons h (by decide) (fun _ => hh)
    simp only [dataBs, List.cons_append, List.nil_append]
    simp only [okSep]
    simp [this]

theorem addPrefix_head (p t : Str) (hp : p.head? ≠ some 92) (hh : t.head? ≠ some 92) :
    (addPrefix p t).head? ≠ some 92 := by
  unfold addPrefix
  split
  · exact hh
  · cases p with
    | nil => simpa using hh
    | cons a p => simpa using hp

/-- **Separators are canonical in every configuration**: the cleaned path contains no forward
slash and no two adjacent backslashes. -/
theorem clean_separators (cfg : Cfg) (s : Str) : okSep (clean cfg s) = true := by
  by_cases h : trim s = []
  · rw [clean_blank cfg s h]; rfl
  · rw [clean_eq cfg s h]
    have hc := okSep_core s
    have hh := core_head s
    cases cfg with
    | mk o t =>
      cases o <;> cases t <;> simp only [Bool.false_eq_true, if_false, if_true]
      · exact okSep_addPrefix_textures _ hc hh
      · exact okSep_addPrefix_data _ (okSep_addPrefix_textures _ hc hh) (addPrefix_head _ _ (by decide) hh)
      · exact hc
      · exact okSep_addPrefix_data _ hc hh

theorem startsWithCI_addPrefix (p t : Str) : startsWithCI (addPrefix p t) p = true := by
  unfold addPrefix
  split
  · assumption
  · exact startsWithCI_append p t

/-- **Prefix**: for the games that need it a non-blank path ends up with the `textures\` prefix
(any letter case), and terrain paths with `Data\`. -/
theorem clean_prefix (cfg : Cfg) (s : Str) (h : trim s ≠ []) (hn : cfg.noTexPrefix = false) :
    startsWithCI (clean cfg s) (if cfg.terrain then dataBs else texturesBs) = true := by
  rw [clean_eq cfg s h]
  cases cfg with
  | mk o t =>
    simp only at hn; subst hn
    cases t <;> simp only [Bool.false_eq_true, if_false, if_true] <;> exact startsWithCI_addPrefix _ _

/-- last character of a string with a prefix added -/
theorem lastOk_addPrefix_textures (t : Str) (h : lastOk t) : lastOk (addPrefix texturesBs t) := by
  unfold addPrefix
  split
  · exact h
  · intro c hc
    by_cases ht : t = []
    · subst ht; simp [texturesBs] at hc; subst hc; decide
    · rw [List.getLast?_append] at hc
      cases hl : t.getLast? with
      | none => exact absurd (List.getLast?_eq_none_iff.mp hl) ht
      | some d => rw [hl] at hc; simp at hc; subst hc; exact h d hl

/-- **Idempotence, standard configuration** (full strength): cleaning a cleaned path changes nothing. -/
theorem clean_idem_std (s : Str) : clean std (clean std s) = clean std s := by
  by_cases h : trim s = []
  · rw [clean_blank std s h]; rfl
  · have hr : clean std s = addPrefix texturesBs (core s) := by
      rw [clean_eq std s h]; rfl
    generalize hrr : clean std s = r at hr
    have hpre : startsWithCI r texturesBs = true := by rw [hr]; exact startsWithCI_addPrefix _ _
    have hok : okSep r = true := by rw [hr]; exact okSep_addPrefix_textures _ (okSep_core s) (core_head s)
    have hlast : lastOk r := by rw [hr]; exact lastOk_addPrefix_textures _ (lastOk_core s)
    obtain ⟨c, cs, hrc, hlow⟩ := startsWithCI_head (p := [101, 120, 116, 117, 114, 101, 115, 92]) (a := 116) hpre
    have hc116 : lower c = 116 := by simpa [lower] using hlow
    have hcsp : isSpace c = false := by
      unfold lower at hc116
      simp only [isSpace]
      split at hc116 <;> simp <;> omega
    have hc92 : c ≠ 92 := by
      intro h92; subst h92; simp [lower] at hc116
    have htrim : trim r = r := trim_id r (by intro x hx; rw [hrc] at hx; simp at hx; subst hx; exact hcsp) hlast
    have hne : trim r ≠ [] := by rw [htrim, hrc]; simp
    rw [clean_eq std r hne]
    simp only [std, Bool.false_eq_true, if_false]
    have hcore : core r = r := by
      unfold core stripLeadingBs stripToTextures
      rw [htrim, collapse_of_okSep r hok]
      simp only [hpre, if_true]
      rw [hrc]
      simp [List.dropWhile_cons, hc92]
    rw [hcore]
    unfold addPrefix
    simp [hpre]

/-- non-vacuity and shape of the result in the standard configuration:
`  /Data//Textures/x.dds \n` becomes `Textures\x.dds`… with the existing folder name kept. -/
example : clean std [32, 32, 47, 68, 97, 116, 97, 47, 47, 84, 101, 120, 116, 117, 114, 101, 115, 47, 120, 46, 100, 100, 115, 32, 10]
    = [116, 101, 120, 116, 117, 114, 101, 115, 92, 120, 46, 100, 100, 115] := by decide

/-- mixed separator runs are one backslash: `a/\b` ↦ `textures\a\b` -/
example : clean std [97, 47, 92, 98] = texturesBs ++ [97, 92, 98] := by decide

/-! ### where full idempotence fails on the pinned code (recorded known findings) -/

/-- Oblivion-style versions: `a\textures\b\textures\c` ↦ `b\textures\c` ↦ `c` -/
theorem clean_idem_ob_false :
    ∃ s, clean ⟨true, false⟩ (clean ⟨true, false⟩ s) ≠ clean ⟨true, false⟩ s :=
  ⟨[97, 92] ++ texturesBs ++ [98, 92] ++ texturesBs ++ [99], by decide⟩

/-- terrain: `TEXTURES/a.dds` ↦ `Data\TEXTURES\a.dds` ↦ `Data\textures\a.dds` -/
theorem clean_idem_terrain_false :
    ∃ s, clean ⟨false, true⟩ (clean ⟨false, true⟩ s) ≠ clean ⟨false, true⟩ s :=
  ⟨[84, 69, 88, 84, 85, 82, 69, 83, 47, 97, 46, 100, 100, 115], by decide⟩

/-- Oblivion-style + terrain: `textures\a.dds` ↦ `Data\textures\a.dds` ↦ `Data\a.dds` -/
theorem clean_idem_ob_terrain_false :
    ∃ s, clean ⟨true, true⟩ (clean ⟨true, true⟩ s) ≠ clean ⟨true, true⟩ s :=
  ⟨texturesBs ++ [97, 46, 100, 100, 115], by decide⟩

/-- what does hold for Oblivion-style versions: a cleaned path that has no `\textures\` segment
left and does not start with whitespace is a fixed point. -/
theorem clean_idem_ob_partial (s : Str)
    (hseg : cutFirst (clean ⟨true, false⟩ s) = none ∨ startsWithCI (clean ⟨true, false⟩ s) texturesBs = true)
    (hsp : ∀ c, (clean ⟨true, false⟩ s).head? = some c → isSpace c = false) :
    clean ⟨true, false⟩ (clean ⟨true, false⟩ s) = clean ⟨true, false⟩ s := by
  by_cases h : trim s = []
  · rw [clean_blank _ s h]; rfl
  · have hr : clean ⟨true, false⟩ s = core s := by rw [clean_eq _ s h]; rfl
    generalize clean ⟨true, false⟩ s = r at hr hseg hsp
    have hok : okSep r = true := by rw [hr]; exact okSep_core s
    have hlast : lastOk r := by rw [hr]; exact lastOk_core s
    have hh : r.head? ≠ some 92 := by rw [hr]; exact core_head s
    have htrim : trim r = r := trim_id r hsp hlast
    by_cases hne : r = []
    · subst hne; rfl
    · rw [clean_eq _ r (by rw [htrim]; exact hne)]
      simp only [Bool.false_eq_true, if_false, if_true]
      unfold core stripLeadingBs stripToTextures
      rw [htrim, collapse_of_okSep r hok]
      have hstrip : (if startsWithCI r texturesBs = true then r else (cutFirst r).getD r) = r := by
        rcases hseg with h1 | h1
        · split
          · rfl
          · rw [h1]; rfl
        · simp [h1]
      rw [hstrip]
      cases r with
      | nil => rfl
      | cons a l =>
        have : a ≠ 92 := by intro h92; subst h92; exact hh rfl
        simp [List.dropWhile_cons, this]

end Nifly.TexPath
