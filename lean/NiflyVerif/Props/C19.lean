import NiflyVerif.TexPath
namespace Nifly.TexPath
theorem clean_nil (cfg : Cfg) : clean cfg [] = [] := rfl
end Nifly.TexPath
