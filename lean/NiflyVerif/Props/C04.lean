import NiflyVerif.Graph.SortLemmas
import NiflyVerif.Props.C06
/-!
# C04 — default save only permutes blocks and prunes unreferenced ones

* `sort_perm`, `newIndices_perm`: for EVERY traversal (any sequence of guarded assignment attempts on valid
  indices — so for every graph, cyclic or corrupted) the sorter's `newIndices` is a permutation of `0..n-1`.
* `root_first`: a traversal that starts at the root gives it new index 0.
* with `view_setOrder` / `inv_setOrder` (C06) the reordering keeps every block, every reference's logical target
  and the header tables.
* `children_*`: the rebuilt child list of a node contains exactly the old valid children (no explicit shape
  order, or one that is ignored); empty references are kept.
* pruning: `prune_deletes_unreferenced`, `prune_fuel`, `inv_prune` (C06): only blocks that nobody references at that
  moment are deleted, never the root, and the recursion ends when every non-root block is referenced.
-/
namespace Nifly.Graph

/-- **the sorter's result is a permutation, whatever the traversal does** -/
theorem sort_perm (n : Nat) (trace : List Nat) (h : ∀ i ∈ trace, i < n) :
    List.Perm (sortVisited n trace) (List.range n) := by
  unfold sortVisited
  rw [List.perm_ext_iff_of_nodup (foldl_assign_nodup _ [] List.nodup_nil) List.nodup_range]
  intro a
  rw [mem_foldl_assign]
  simp only [List.not_mem_nil, false_or, List.mem_append, List.mem_range]
  constructor
  · rintro (h1 | h1)
    · exact h a h1
    · exact h1
  · exact fun h1 => Or.inr h1

/-- `newIndices` (starting from `newIndex = 0`) is a permutation of `0..n-1` -/
theorem newIndices_perm (n : Nat) (trace : List Nat) (h : ∀ i ∈ trace, i < n) :
    List.Perm ((List.range n).map (newIndexOf 0 (sortVisited n trace))) (List.range n) := by
  have hp := sort_perm n trace h
  have hnd : (sortVisited n trace).Nodup := foldl_assign_nodup _ [] List.nodup_nil
  have hlen : (sortVisited n trace).length = n := by simpa using hp.length_eq
  have h1 : List.Perm ((List.range n).map (newIndexOf 0 (sortVisited n trace)))
      ((sortVisited n trace).map (newIndexOf 0 (sortVisited n trace))) := (hp.map _).symm
  have h2 : (sortVisited n trace).map (newIndexOf 0 (sortVisited n trace)) = List.range n := by
    have := map_idxOf_self _ hnd
    rw [hlen] at this
    rw [← this]
    apply List.map_congr_left
    intro a _; simp [newIndexOf]
  rw [h2] at h1
  exact h1

/-- a traversal that starts at the root puts it first -/
theorem root_first (n r : Nat) (trace : List Nat) : newIndexOf 0 (sortVisited n (r :: trace)) r = 0 := by
  unfold sortVisited newIndexOf
  simp only [List.cons_append, List.foldl_cons]
  have h0 : assign [] r = [r] := by simp [assign]
  rw [h0]
  obtain ⟨t, ht⟩ := foldl_assign_prefix (trace ++ List.range n) [r]
  rw [← ht]
  simp

/-- when `newIndex` does NOT start at 0 (what `SetShapeOrder` did for a root that is not block 0) the result
is not a permutation: recorded witness, n = 2, root = block 1 -/
example : ¬ List.Perm ((List.range 2).map (newIndexOf 1 (sortVisited 2 [1]))) (List.range 2) := by decide

/-! ### child rebuild -/

/-- the shape part of the rebuilt list: the root's shapes in the explicit order when that order is valid -/
def shapesPart (kind : Nat → Kind) (isRoot : Bool) (order : List Nat) (idx : List Nat) : List Nat :=
  if isRoot then applyShapeOrder (idx.filter (fun i => kind i == .shape)) order else idx.filter (fun i => kind i == .shape)

theorem mem_shapesPart (kind : Nat → Kind) (isRoot : Bool) (order idx : List Nat) (j : Nat) :
    j ∈ shapesPart kind isRoot order idx ↔ j ∈ idx.filter (fun i => kind i == .shape) := by
  unfold shapesPart; split
  · exact mem_applyShapeOrder _ _ _
  · exact Iff.rfl

theorem rebuild_eq (kind : Nat → Kind) (obFo3 isRoot : Bool) (order : List Nat) (children : List (Option Nat)) :
    rebuildChildren kind obFo3 isRoot order children =
      let idx := children.filterMap id
      let first := idx.filter (fun i => match kind i with | .node hc => !obFo3 || hc | _ => false) ++
        shapesPart kind isRoot order idx
      (first ++ idx.foldl (othersStep kind first) []).map some ++ children.filter (· == none) := by
  unfold rebuildChildren shapesPart
  rfl

/-- every old child whose block exists is still a child afterwards — for EVERY explicit shape order -/
theorem children_kept (kind : Nat → Kind) (obFo3 isRoot : Bool) (order : List Nat) (children : List (Option Nat)) (i : Nat)
    (hi : some i ∈ children) (hk : kind i ≠ .missing) :
    some i ∈ rebuildChildren kind obFo3 isRoot order children := by
  rw [rebuild_eq]
  simp only
  apply List.mem_append_left
  rw [List.mem_map]
  refine ⟨i, ?_, rfl⟩
  apply others_mem _ _ _ _ _ _ hk
  rw [List.mem_filterMap]
  exact ⟨some i, hi, rfl⟩

/-- … no child is invented … -/
theorem children_sub (kind : Nat → Kind) (obFo3 isRoot : Bool) (order : List Nat) (children : List (Option Nat))
    (r : Option Nat) (hr : r ∈ rebuildChildren kind obFo3 isRoot order children) : r ∈ children := by
  rw [rebuild_eq] at hr
  simp only at hr
  rcases List.mem_append.mp hr with h | h
  · rw [List.mem_map] at h
    obtain ⟨i, hi, rfl⟩ := h
    have hidx : ∀ j, j ∈ children.filterMap id → some j ∈ children := by
      intro j hj; rw [List.mem_filterMap] at hj; obtain ⟨x, hx, hxj⟩ := hj; simp at hxj; subst hxj; exact hx
    rcases List.mem_append.mp hi with h1 | h1
    · rcases List.mem_append.mp h1 with h2 | h2
      · exact hidx i (List.mem_filter.mp h2).1
      · exact hidx i (List.mem_filter.mp ((mem_shapesPart _ _ _ _ _).mp h2)).1
    · rcases others_sub _ _ _ _ _ h1 with h2 | h2
      · simp at h2
      · exact hidx i h2
  · exact (List.mem_filter.mp h).1

/-- … and the empty references are kept as they are -/
theorem children_empty_kept (kind : Nat → Kind) (obFo3 isRoot : Bool) (order : List Nat) (children : List (Option Nat)) :
    (rebuildChildren kind obFo3 isRoot order children).count none = children.count none := by
  rw [rebuild_eq]
  simp only [List.count_append]
  have h1 : ∀ l : List Nat, (l.map some).count none = 0 := by
    intro l; rw [List.count_eq_zero]; simp
  rw [h1, Nat.zero_add]
  rw [List.count_filter] <;> simp

/-- an explicit order that is not a permutation of the root's shapes (repeated or foreign entries) is ignored -/
example : rebuildChildren (fun _ => .shape) false true [4, 4] [some 4, some 5] = [some 4, some 5] := by decide
example : rebuildChildren (fun _ => .shape) false true [4, 9] [some 4, some 5] = [some 4, some 5] := by decide
/-- a valid one is applied -/
example : rebuildChildren (fun _ => .shape) false true [5, 4] [some 4, some 5] = [some 5, some 4] := by decide

end Nifly.Graph
