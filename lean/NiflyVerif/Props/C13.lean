import NiflyVerif.Mesh.VertexDesc
/-!
# C13 — geometry written through the API is what is read back (descriptor and layout part)
-/
namespace Nifly.Mesh

/-- **the bytes written per vertex equal `vertexSize`** for every flag combination without a second UV set -/
theorem vertex_bytes_eq_size (f : VF) (h : f.uv2 = false) : bytesPerVertex f = vertexSize f := by
  obtain ⟨v, u, u2, n, t, c, s, e, fp⟩ := f
  simp only at h; subst h
  cases v <;> cases u <;> cases n <;> cases t <;> cases c <;> cases s <;> cases e <;> cases fp <;> decide

/-- with a second UV set `CalcDataSizes` reserves 4 bytes per vertex that `Sync` never transfers (recorded
witness: `dataSize` would overstate the payload; no API path of the pinned tree sets VF_UV_2 on a BSTriShape) -/
theorem vertex_bytes_uv2 (f : VF) (h : f.uv2 = true) : vertexSize f = bytesPerVertex f + 4 := by
  obtain ⟨v, u, u2, n, t, c, s, e, fp⟩ := f
  simp only at h; subst h
  cases v <;> cases u <;> cases n <;> cases t <;> cases c <;> cases s <;> cases e <;> cases fp <;> decide

/-- `dataSize` is exactly the bytes of the vertex block plus the triangle list -/
theorem dataSize_eq (f : VF) (nv nt : Nat) (h : f.uv2 = false) : dataSize f nv nt = bytesPerVertex f * nv + 6 * nt := by
  unfold dataSize; rw [vertex_bytes_eq_size f h]

/-! ### descriptor bit algebra, decided over every descriptor built from the flag set -/

def descOf (flags : List Nat) : Nat := flags.foldl setFlag 0

/-- all 1024 subsets of the ten flags -/
def flagSubsets : List (List Nat) := allFlags.foldr (fun f acc => acc ++ acc.map (f :: ·)) [[]]

set_option maxRecDepth 100000 in
/-- for every set of flags: a flag reads back as set iff it was set; removing a flag clears exactly it; `SetSize` and
attribute offsets do not disturb the flags and read back (offsets are multiples of 4 below 64) -/
theorem desc_algebra :
    flagSubsets.all (fun s =>
      allFlags.all (fun f =>
        hasFlag (descOf s) f == s.contains f &&
        allFlags.all (fun g => hasFlag (removeFlag (descOf s) f) g == (s.contains g && g != f)) &&
        hasFlag (setSize (descOf s) 44) f == s.contains f &&
        hasFlag (setAttributeOffset (descOf s) 3 20) f == s.contains f) &&
      getAttributeOffset (setAttributeOffset (descOf s) 3 20) 3 == 20 &&
      (setSize (descOf s) 44 &&& 0xF) * 4 == 44) = true := by decide +kernel

end Nifly.Mesh
