/-
C02 — model of the *write pass*: the member mutations a wire function (`Sync`/`Put`/`Write`/…) performs while a
model is being saved.  The translator (translator/writemut.py) extracts every such statement from the C++ and
classifies it; this file gives each class its meaning on an abstract object state and proves what a save can do
to that state.

State of one object: scalar members `num` and array members `arr` (elements abstracted to `Nat`; nested arrays
`data[i]` are separate array ids).  Count and right-hand-side expressions are opaque functions of the scalar
members — the theorems hold for every interpretation of them.
-/
namespace Nifly.WritePass

structure St where
  num : Nat → Nat
  arr : Nat → List Nat

/-- `std::vector::resize(n)` (new elements value-initialised) -/
def resizeTo (l : List Nat) (n : Nat) : List Nat := l.take n ++ List.replicate (n - l.length) 0

inductive Op where
  /-- `a.resize(count)` / `a.SetSize(k)`; `count` an expression over scalar members -/
  | resize (a : Nat) (cnt : (Nat → Nat) → Nat)
  /-- `a.clear()` -/
  | clear (a : Nat)
  /-- `x = e` where `e` does not mention `x` (`reads` lists the scalar members `e` mentions) -/
  | assign (x : Nat) (reads : List Nat) (e : (Nat → Nat) → Nat)
  /-- `a.clear(); a.resize(count)` -/
  | refill (a : Nat) (cnt : (Nat → Nat) → Nat)

def setNum (s : St) (x v : Nat) : St := { s with num := fun y => if y = x then v else s.num y }
def setArr (s : St) (a : Nat) (v : List Nat) : St := { s with arr := fun b => if b = a then v else s.arr b }

def apply (s : St) : Op → St
  | .resize a cnt => setArr s a (resizeTo (s.arr a) (cnt s.num))
  | .clear a => setArr s a []
  | .assign x _ e => setNum s x (e s.num)
  | .refill a cnt => setArr s a (List.replicate (cnt s.num) 0)

def run (s : St) (ops : List Op) : St := ops.foldl apply s

/-- the invariant under which an op is the identity: the array already has the length its count member says,
the scalar already holds the value the expression gives, the flag is already in range -/
def pre (s : St) : Op → Prop
  | .resize a cnt => (s.arr a).length = cnt s.num
  | .clear a => s.arr a = []
  | .assign x _ e => s.num x = e s.num
  | .refill a cnt => s.arr a = List.replicate (cnt s.num) 0

/-- the expression of an assignment depends only on the members it mentions, and not on its own target -/
def wf : Op → Prop
  | .assign x reads e => x ∉ reads ∧ ∀ f g : Nat → Nat, (∀ r ∈ reads, f r = g r) → e f = e g
  | _ => True

theorem resizeTo_length (l : List Nat) (n : Nat) : (resizeTo l n).length = n := by
  simp [resizeTo]; omega

theorem resizeTo_self (l : List Nat) : resizeTo l l.length = l := by
  simp [resizeTo]

theorem resizeTo_idem (l : List Nat) (n : Nat) : resizeTo (resizeTo l n) n = resizeTo l n := by
  have h := resizeTo_self (resizeTo l n)
  rwa [resizeTo_length] at h

/-- what resize keeps: the first `min n length` elements are untouched -/
theorem resizeTo_take (l : List Nat) (n : Nat) : (resizeTo l n).take (min n l.length) = l.take (min n l.length) := by
  unfold resizeTo
  rw [List.take_append_of_le_length (by simp [List.length_take])]
  rw [List.take_take]
  simp

theorem St.ext' {s t : St} (h1 : s.num = t.num) (h2 : s.arr = t.arr) : s = t := by
  cases s; cases t; simp_all

theorem setArr_self (s : St) (a : Nat) : setArr s a (s.arr a) = s := by
  refine St.ext' (s := setArr s a (s.arr a)) (t := s) rfl ?_
  funext b
  simp only [setArr]
  split
  · subst_vars; rfl
  · rfl

theorem setNum_self (s : St) (x : Nat) : setNum s x (s.num x) = s := by
  refine St.ext' (s := setNum s x (s.num x)) (t := s) ?_ rfl
  funext y
  simp only [setNum]
  split
  · subst_vars; rfl
  · rfl

/-- one op is the identity on a state that satisfies its invariant -/
theorem apply_of_pre (s : St) (o : Op) (h : pre s o) : apply s o = s := by
  cases o with
  | resize a cnt =>
    simp only [apply, pre] at *
    rw [← h, resizeTo_self, setArr_self]
  | clear a =>
    simp only [apply, pre] at *
    rw [← h, setArr_self]
  | assign x r e =>
    simp only [apply, pre] at *
    rw [← h, setNum_self]
  | refill a cnt =>
    simp only [apply, pre] at *
    rw [← h, setArr_self]

/-- **Saving does not alter the model.** A whole write pass is the identity on every state that satisfies the
invariants of its ops (array lengths equal their count members, derived scalars hold their derived value). -/
theorem run_of_pre (s : St) (ops : List Op) (h : ∀ o ∈ ops, pre s o) : run s ops = s := by
  induction ops with
  | nil => rfl
  | cons o ops ih =>
    simp only [run, List.foldl_cons]
    rw [apply_of_pre s o (h o (by simp))]
    exact ih (fun o' ho' => h o' (by simp [ho']))

/-- every op establishes its own invariant … -/
theorem pre_apply (s : St) (o : Op) (hw : wf o) : pre (apply s o) o := by
  cases o with
  | resize a cnt => simp [apply, pre, setArr, resizeTo_length]
  | clear a => simp [apply, pre, setArr]
  | assign x r e =>
    simp only [apply, pre, setNum, if_pos]
    apply hw.2
    intro y hy
    have : y ≠ x := fun h => hw.1 (h ▸ hy)
    simp [this]
  | refill a cnt => simp [apply, pre, setArr]

/-- … hence is idempotent: the second and third save find nothing left to normalise -/
theorem apply_idem (s : St) (o : Op) (hw : wf o) : apply (apply s o) o = apply s o :=
  apply_of_pre _ o (pre_apply s o hw)

/-- an op leaves every member other than its target alone -/
def target : Op → Nat ⊕ Nat
  | .resize a _ => .inr a
  | .clear a => .inr a
  | .assign x _ _ => .inl x
  | .refill a _ => .inr a

theorem apply_frame_num (s : St) (o : Op) (y : Nat) (h : target o ≠ .inl y) : (apply s o).num y = s.num y := by
  cases o with
  | resize a cnt => rfl
  | clear a => rfl
  | assign x r e =>
    simp only [apply, setNum]
    rw [if_neg]; intro hh; exact h (by simp [target, hh])
  | refill a cnt => rfl

theorem apply_frame_arr (s : St) (o : Op) (b : Nat) (h : target o ≠ .inr b) : (apply s o).arr b = s.arr b := by
  cases o with
  | resize a cnt =>
    simp only [apply, setArr]
    rw [if_neg]; intro hh; exact h (by simp [target, hh])
  | clear a =>
    simp only [apply, setArr]
    rw [if_neg]; intro hh; exact h (by simp [target, hh])
  | assign x r e => rfl
  | refill a cnt =>
    simp only [apply, setArr]
    rw [if_neg]; intro hh; exact h (by simp [target, hh])

/-- scalar members an op's effect depends on (besides its own target) -/
def reads : Op → List Nat → Prop
  | .resize _ cnt, rs => ∀ f g : Nat → Nat, (∀ r ∈ rs, f r = g r) → cnt f = cnt g
  | .clear _, _ => True
  | .assign _ r e, rs => r ⊆ rs ∧ ∀ f g : Nat → Nat, (∀ x ∈ r, f x = g x) → e f = e g
  | .refill _ cnt, rs => ∀ f g : Nat → Nat, (∀ r ∈ rs, f r = g r) → cnt f = cnt g

/-- `pre` of an op survives another op that writes neither its target nor anything it reads -/
theorem pre_frame (s : St) (o p : Op) (rs : List Nat) (hr : reads o rs) (ht : target p ≠ target o)
    (hrs : ∀ r ∈ rs, target p ≠ .inl r) (h : pre s o) : pre (apply s p) o := by
  have hnum : ∀ r ∈ rs, (apply s p).num r = s.num r := fun r hr' => apply_frame_num s p r (hrs r hr')
  cases o with
  | resize a cnt =>
    simp only [pre, target] at *
    rw [apply_frame_arr s p a ht, h]
    exact hr _ _ (fun r hr' => (hnum r hr').symm)
  | clear a =>
    simp only [pre, target] at *
    rw [apply_frame_arr s p a ht, h]
  | assign x r e =>
    simp only [pre, target] at *
    rw [apply_frame_num s p x ht, h]
    exact hr.2 _ _ (fun y hy => (hnum y (hr.1 hy)).symm)
  | refill a cnt =>
    simp only [pre, target] at *
    rw [apply_frame_arr s p a ht, h]
    congr 1
    exact hr _ _ (fun r hr' => (hnum r hr').symm)

/-! ### guarded ops: `if (g) op` where `g` is an expression over scalar members -/

structure GOp where
  g : (Nat → Nat) → Bool
  o : Op

def gapply (s : St) (p : GOp) : St := if p.g s.num then apply s p.o else s
def grun (s : St) (ops : List GOp) : St := ops.foldl gapply s
def gpre (s : St) (p : GOp) : Prop := p.g s.num = true → pre s p.o
/-- `rs` covers the scalar members the guard and the op read -/
def greads (p : GOp) (rs : List Nat) : Prop :=
  (∀ f h : Nat → Nat, (∀ r ∈ rs, f r = h r) → p.g f = p.g h) ∧ reads p.o rs

theorem gapply_of_pre (s : St) (p : GOp) (h : gpre s p) : gapply s p = s := by
  unfold gapply
  split
  · next hg => exact apply_of_pre s p.o (h hg)
  · rfl

/-- **Saving does not alter the model** (guarded form): a write pass is the identity on every state in which
each op whose guard is true finds its invariant already established. -/
theorem grun_of_pre (s : St) (ops : List GOp) (h : ∀ p ∈ ops, gpre s p) : grun s ops = s := by
  induction ops with
  | nil => rfl
  | cons o ops ih =>
    simp only [grun, List.foldl_cons]
    rw [gapply_of_pre s o (h o (by simp))]
    exact ih (fun o' ho' => h o' (by simp [ho']))

theorem gpre_apply (s : St) (p : GOp) (hw : wf p.o) : gpre (gapply s p) p := by
  unfold gapply
  split
  · intro _; exact pre_apply s p.o hw
  · next hg => intro h; exact absurd h hg

theorem gapply_frame_num (s : St) (p : GOp) (y : Nat) (h : target p.o ≠ .inl y) : (gapply s p).num y = s.num y := by
  unfold gapply; split
  · exact apply_frame_num s p.o y h
  · rfl

theorem gpre_frame (s : St) (o p : GOp) (rs : List Nat) (hr : greads o rs) (ht : target p.o ≠ target o.o)
    (hrs : ∀ r ∈ rs, target p.o ≠ .inl r) (h : gpre s o) : gpre (gapply s p) o := by
  have hnum : ∀ r ∈ rs, (gapply s p).num r = s.num r := fun r hr' => gapply_frame_num s p r (hrs r hr')
  intro hg
  have hg' : o.g s.num = true := by rw [← hg]; exact hr.1 _ _ (fun r hr' => (hnum r hr').symm)
  unfold gapply
  split
  · exact pre_frame s o.o p.o rs hr.2 ht hrs (h hg')
  · exact h hg'

/-- a pass is *staged* when no op writes the target of, or a member read by, an earlier op -/
def Staged : List (GOp × List Nat) → Prop
  | [] => True
  | (o, rs) :: rest => wf o.o ∧ greads o rs ∧
      (∀ p ∈ rest, target p.1.o ≠ target o.o ∧ ∀ r ∈ rs, target p.1.o ≠ .inl r) ∧ Staged rest

theorem gpre_run_frame (s : St) (o : GOp) (rs : List Nat) (hr : greads o rs) (rest : List (GOp × List Nat))
    (hf : ∀ p ∈ rest, target p.1.o ≠ target o.o ∧ ∀ r ∈ rs, target p.1.o ≠ .inl r) (h : gpre s o) :
    gpre (grun s (rest.map (·.1))) o := by
  induction rest generalizing s with
  | nil => exact h
  | cons p rest ih =>
    simp only [grun, List.map_cons, List.foldl_cons]
    apply ih
    · intro q hq; exact hf q (by simp [hq])
    · exact gpre_frame s o p.1 rs hr (hf p (by simp)).1 (hf p (by simp)).2 h

/-- after a staged pass every op's invariant holds -/
theorem gpre_after_run (s : St) (ops : List (GOp × List Nat)) (h : Staged ops) :
    ∀ o ∈ ops, gpre (grun s (ops.map (·.1))) o.1 := by
  induction ops generalizing s with
  | nil => intro o ho; cases ho
  | cons p rest ih =>
    obtain ⟨hw, hr, hf, hs⟩ := h
    intro o ho
    simp only [grun, List.map_cons, List.foldl_cons]
    rcases List.mem_cons.1 ho with rfl | ho'
    · exact gpre_run_frame _ o.1 o.2 hr rest hf (gpre_apply s o.1 hw)
    · exact ih (gapply s p.1) hs o ho'

/-- **Saving is repeatable.** A staged write pass is idempotent: run on its own result it changes nothing, so
the second and third save see exactly the state the first one left. -/
theorem grun_idem (s : St) (ops : List (GOp × List Nat)) (h : Staged ops) :
    grun (grun s (ops.map (·.1))) (ops.map (·.1)) = grun s (ops.map (·.1)) := by
  apply grun_of_pre
  intro o ho
  obtain ⟨p, hp, rfl⟩ := List.mem_map.1 ho
  exact gpre_after_run s ops h p hp

end Nifly.WritePass
