import NiflyVerif.Wire.Bytes
/-
C16 — model of reading from a stream that ends early (`NiIStream::read`, include/BasicTypes.hpp:216-235, on top of
`std::istream::read`): a read of `w` bytes copies the bytes that exist into the (already initialised) variable and,
if fewer than `w` existed, leaves the rest of the variable as it was and puts the stream into the failed state, in
which every later read copies nothing.
-/
namespace Nifly.Wire

structure In where
  rest : Bytes
  failed : Bool := false
  deriving Repr

/-- read a `w`-byte little-endian integer into a variable currently holding `cur` (given as its `w` bytes) -/
def rdInto (w : Nat) (cur : Bytes) (s : In) : Nat × In :=
  if s.failed then (leDecode cur, s)
  else if s.rest.length < w then
    -- short read: the first bytes are overwritten, the remaining bytes of the variable stay
    (leDecode (s.rest ++ cur.drop s.rest.length), { rest := [], failed := true })
  else (leDecode (s.rest.take w), { rest := s.rest.drop w, failed := false })

/-- a count-prefixed array of `w`-byte elements, as every `Sync` of a vector reads it: the count into a
zero-initialised member, `resize(count)`, then the elements into zero-initialised slots -/
def rdArray (w : Nat) (s : In) : List Nat × In :=
  let c := rdInto 4 [0, 0, 0, 0] s
  let rec elems : Nat → In → List Nat × In
    | 0, s => ([], s)
    | k + 1, s =>
      let e := rdInto w (List.replicate w 0) s
      let r := elems k e.2
      (e.1 :: r.1, r.2)
  elems c.1 c.2

theorem leDecode_append_zeros (b : Bytes) (k : Nat) : leDecode (b ++ List.replicate k 0) = leDecode b := by
  induction b with
  | nil =>
    induction k with
    | zero => rfl
    | succ k ih => simp only [List.nil_append] at ih; simp [List.replicate_succ, leDecode, ih]
  | cons x xs ih => simp only [List.cons_append, leDecode, ih]

/-- **A field read across the truncation point never exceeds the value the full file holds there** (for a
zero-initialised variable): counts read from a prefix are at most the true counts. -/
theorem rdInto_prefix_le (w : Nat) (full : Bytes) (k : Nat) (hfull : w ≤ full.length) :
    (rdInto w (List.replicate w 0) { rest := full.take k }).1 ≤ (rdInto w (List.replicate w 0) { rest := full }).1 := by
  have hR : (rdInto w (List.replicate w 0) { rest := full }).1 = leDecode (full.take w) := by
    unfold rdInto
    simp only [Bool.false_eq_true, if_false]
    rw [if_neg (by omega)]
  rw [hR]
  unfold rdInto
  simp only [Bool.false_eq_true, if_false]
  by_cases h : (full.take k).length < w
  · rw [if_pos h]
    simp only [List.drop_replicate, leDecode_append_zeros]
    have hk : k < w := by
      simp only [List.length_take] at h
      omega
    have e : full.take k = (full.take w).take k := by
      rw [List.take_take]
      congr 1
      omega
    rw [e]
    exact leDecode_take_le _ _
  · rw [if_neg h]
    have hk : w ≤ k := by
      simp only [List.length_take] at h
      omega
    have e : (full.take k).take w = full.take w := by
      rw [List.take_take]
      congr 1
      omega
    simp only [e]
    exact Nat.le_refl _

/-- once the stream has failed nothing more is copied: every later field keeps its initial value -/
theorem rdInto_failed (w : Nat) (cur : Bytes) (s : In) (h : s.failed = true) : rdInto w cur s = (leDecode cur, s) := by
  unfold rdInto; simp [h]

theorem rdInto_failed_sticky (w : Nat) (cur : Bytes) (s : In) (h : s.failed = true) : (rdInto w cur s).2.failed = true := by
  rw [rdInto_failed w cur s h]; exact h

/-- the number of elements an array read allocates is exactly the count that was read -/
theorem rdArray_elems_length (w : Nat) (c : Nat) (s : In) : (rdArray.elems w c s).1.length = c := by
  induction c generalizing s with
  | zero => rfl
  | succ c ih => simp [rdArray.elems, ih]

/-- **Allocation is bounded by the valid file**: the array read from any prefix of a file has at most as many
elements as the array read from the whole file (whose first 4 bytes hold the count). -/
theorem rdArray_prefix_length_le (w : Nat) (full : Bytes) (k : Nat) (hfull : 4 ≤ full.length) :
    (rdArray w { rest := full.take k }).1.length ≤ (rdArray w { rest := full }).1.length := by
  unfold rdArray
  simp only [rdArray_elems_length]
  exact rdInto_prefix_le 4 full k hfull

end Nifly.Wire
