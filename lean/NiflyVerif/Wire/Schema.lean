import NiflyVerif.Wire.Bytes
/-
Wire schemas: a small language for what one `Sync(NiStreamReversible&)` body does — scalars of fixed width at
member locations, sequencing, version/field-dependent branches and counted loops — with a reader and a writer
over a *store* of member locations, and the static discipline under which the two are inverse to each other.
-/
namespace Nifly.Schema
open Nifly.Wire

/-- a member location: member id and loop-index stack (innermost index first) -/
abbrev Loc := Nat × List Nat
abbrev Store := Loc → Nat

def Store.set (s : Store) (l : Loc) (v : Nat) : Store := fun l' => if l' = l then v else s l'

inductive Expr where
  | lit (n : Nat)
  | ver (k : Nat)                       -- version component / class constant number k
  | var (id : Nat) (up : Nat)           -- member `id` at the current stack with the innermost `up` indices dropped
  | bin (op : Nat) (a b : Expr)
  | tbl (e : Expr)                      -- environment table lookup (length of header string number `e`): `ver (1000 + e)`
  deriving Repr, DecidableEq, Inhabited

/-- binary operators by number (total) -/
def binop : Nat → Nat → Nat → Nat
  | 0, a, b => a + b
  | 1, a, b => a - b
  | 2, a, b => a * b
  | 3, a, b => if a < b then 1 else 0
  | 4, a, b => if a ≤ b then 1 else 0
  | 5, a, b => if a = b then 1 else 0
  | 6, a, b => if a ≠ 0 ∧ b ≠ 0 then 1 else 0
  | 7, a, b => if a ≠ 0 ∨ b ≠ 0 then 1 else 0
  | 8, a, b => a &&& b
  | 9, a, b => if a ≠ b then 1 else 0
  | 10, a, b => a / b
  | 11, a, b => a >>> b
  | 12, a, b => a <<< b
  | 13, a, b => a ||| b
  | _, _, _ => 0

def Expr.eval (ver : Nat → Nat) (s : Store) (stk : List Nat) : Expr → Nat
  | .lit n => n
  | .ver k => ver k
  | .var id up => s (id, stk.drop up)
  | .bin op a b => binop op (a.eval ver s stk) (b.eval ver s stk)
  | .tbl e => ver (1000 + e.eval ver s stk)

inductive Stmt where
  | skip
  | sc (w : Nat) (id : Nat)             -- `stream.Sync(member)`: a `w`-byte little-endian scalar
  | seq (a b : Stmt)
  | ite (c : Expr) (t e : Stmt)
  | rep (n : Expr) (body : Stmt)        -- `for (i = 0; i < n; ++i) body`, `i` pushed on the index stack
  deriving Repr, Inhabited

/-- writer: the bytes the statement emits for store `s` -/
def wr (ver : Nat → Nat) : Stmt → Store → List Nat → Bytes
  | .skip, _, _ => []
  | .sc w id, s, stk => leEncode w (s (id, stk))
  | .seq a b, s, stk => wr ver a s stk ++ wr ver b s stk
  | .ite c t e, s, stk => if c.eval ver s stk ≠ 0 then wr ver t s stk else wr ver e s stk
  | .rep n body, s, stk => (List.range (n.eval ver s stk)).flatMap fun i => wr ver body s (i :: stk)

/-- one loop of the reader: iterations `i, i+1, …, i+k-1` -/
def rdLoop (f : Store → List Nat → Bytes → Option (Store × Bytes)) (stk : List Nat) :
    Nat → Nat → Store → Bytes → Option (Store × Bytes)
  | 0, _, s, inp => some (s, inp)
  | k + 1, i, s, inp => match f s (i :: stk) inp with
    | none => none
    | some (s', inp') => rdLoop f stk k (i + 1) s' inp'

/-- reader: `none` when the input ends early -/
def rd (ver : Nat → Nat) : Stmt → Store → List Nat → Bytes → Option (Store × Bytes)
  | .skip, s, _, inp => some (s, inp)
  | .sc w id, s, stk, inp => match rdN w inp with
    | none => none
    | some (v, rest) => some (s.set (id, stk) v, rest)
  | .seq a b, s, stk, inp => match rd ver a s stk inp with
    | none => none
    | some (s', inp') => rd ver b s' stk inp'
  | .ite c t e, s, stk, inp => if c.eval ver s stk ≠ 0 then rd ver t s stk inp else rd ver e s stk inp
  | .rep n body, s, stk, inp => rdLoop (rd ver body) stk (n.eval ver s stk) 0 s inp


/-! ### the static discipline -/

/-- static name of a location: member id and stack depth -/
abbrev SLoc := Nat × Nat

def exprOK (d : Nat) (D : List SLoc) : Expr → Bool
  | .lit _ => true
  | .ver _ => true
  | .var id up => decide (up ≤ d) && D.contains (id, d - up)
  | .bin _ a b => exprOK d D a && exprOK d D b
  | .tbl e => exprOK d D e

/-- union of the possibly-synced sets of two branches (without repeating what they share) -/
def mergeW (Wt We : List SLoc) : List SLoc := Wt ++ We.filter fun x => !Wt.contains x

theorem mem_mergeW_left (Wt We : List SLoc) (x : SLoc) (h : x ∈ Wt) : x ∈ mergeW Wt We := List.mem_append_left _ h

theorem mem_mergeW_right (Wt We : List SLoc) (x : SLoc) (h : x ∈ We) : x ∈ mergeW Wt We := by
  unfold mergeW
  by_cases hx : x ∈ Wt
  · exact List.mem_append_left _ hx
  · exact List.mem_append_right _ (List.mem_filter.2 ⟨h, by simpa using hx⟩)

theorem mem_mergeW (Wt We : List SLoc) (x : SLoc) (h : x ∈ mergeW Wt We) : x ∈ Wt ∨ x ∈ We := by
  unfold mergeW at h
  rcases List.mem_append.1 h with h | h
  · exact Or.inl h
  · exact Or.inr (List.mem_filter.1 h).1

/-- `wf d st D W = some (D', W')`: at stack depth `d`, with `D` the locations whose value is fixed (synced earlier on
every path) and `W` those possibly synced so far, `st` reads only fixed locations in its conditions and counts and
syncs no location twice; `D'`, `W'` are the sets afterwards. -/
def wf (d : Nat) : Stmt → List SLoc → List SLoc → Option (List SLoc × List SLoc)
  | .skip, D, W => some (D, W)
  | .sc _ id, D, W => if W.contains (id, d) then none else some ((id, d) :: D, (id, d) :: W)
  | .seq a b, D, W => match wf d a D W with
    | none => none
    | some (D1, W1) => wf d b D1 W1
  | .ite c t e, D, W =>
    if exprOK d D c then
      match wf d t D W, wf d e D W with
      | some (_, Wt), some (_, We) => some (D, mergeW Wt We)
      | _, _ => none
    else none
  | .rep n body, D, W =>
    if exprOK d D n then
      match wf (d + 1) body D W with
      | some (_, Wb) => some (D, Wb)
      | none => none
    else none

/-- `l` is a location under the current stack `stk` (depth `d`) whose static name is in `X` -/
def under (X : List SLoc) (d : Nat) (stk : List Nat) (l : Loc) : Prop :=
  (l.1, l.2.length) ∈ X ∧ d ≤ l.2.length ∧ l.2.drop (l.2.length - d) = stk

/-- `l` is the location an expression at stack `stk` means by a fixed name of `D` -/
def fixedAt (D : List SLoc) (d : Nat) (stk : List Nat) (l : Loc) : Prop :=
  (l.1, l.2.length) ∈ D ∧ l.2.length ≤ d ∧ l.2 = stk.drop (d - l.2.length)

theorem eval_agree (ver : Nat → Nat) (d : Nat) (D : List SLoc) (stk : List Nat) (hd : stk.length = d) (s t : Store)
    (h : ∀ l, fixedAt D d stk l → s l = t l) (e : Expr) (he : exprOK d D e = true) :
    e.eval ver s stk = e.eval ver t stk := by
  induction e with
  | lit n => rfl
  | ver k => rfl
  | var id up =>
    simp only [exprOK, Bool.and_eq_true, decide_eq_true_eq, List.contains_eq_mem] at he
    simp only [Expr.eval]
    apply h
    refine ⟨?_, ?_, ?_⟩
    · simp only [List.length_drop, hd]; simpa using he.2
    · simp only [List.length_drop, hd]; omega
    · simp only [List.length_drop, hd]
      congr 1
      omega
  | bin op a b iha ihb =>
    simp only [exprOK, Bool.and_eq_true] at he
    simp only [Expr.eval, iha he.1, ihb he.2]
  | tbl e ih =>
    simp only [exprOK] at he
    simp only [Expr.eval, ih he]

/-- static facts about `wf` -/
theorem wf_static (d : Nat) (st : Stmt) : ∀ (D W D' W' : List SLoc), wf d st D W = some (D', W') →
    (∀ x ∈ W, x ∈ W') ∧ (∀ x ∈ D, x ∈ D') ∧
    (∀ x ∈ D', x ∈ D ∨ (x ∈ W' ∧ x ∉ W ∧ x.2 = d)) ∧ (∀ x ∈ W', x ∈ W ∨ d ≤ x.2) := by
  induction st generalizing d with
  | skip =>
    intro D W D' W' h
    simp only [wf, Option.some.injEq, Prod.mk.injEq] at h
    obtain ⟨rfl, rfl⟩ := h
    exact ⟨fun x h => h, fun x h => h, fun x h => Or.inl h, fun x h => Or.inl h⟩
  | sc w id =>
    intro D W D' W' h
    simp only [wf] at h
    split at h
    · cases h
    · next hc =>
      simp only [Option.some.injEq, Prod.mk.injEq] at h
      obtain ⟨rfl, rfl⟩ := h
      have hc' : (id, d) ∉ W := by simpa using hc
      refine ⟨fun x h => List.mem_cons_of_mem _ h, fun x h => List.mem_cons_of_mem _ h, ?_, ?_⟩
      · intro x hx
        rcases List.mem_cons.1 hx with rfl | hx
        · exact Or.inr ⟨by simp, hc', rfl⟩
        · exact Or.inl hx
      · intro x hx
        rcases List.mem_cons.1 hx with rfl | hx
        · exact Or.inr (Nat.le_refl _)
        · exact Or.inl hx
  | seq a b iha ihb =>
    intro D W D' W' h
    simp only [wf] at h
    split at h
    · cases h
    · next D1 W1 h1 =>
      obtain ⟨a1, a2, a3, a4⟩ := iha d D W D1 W1 h1
      obtain ⟨b1, b2, b3, b4⟩ := ihb d D1 W1 D' W' h
      refine ⟨fun x h => b1 x (a1 x h), fun x h => b2 x (a2 x h), ?_, ?_⟩
      · intro x hx
        rcases b3 x hx with hx1 | ⟨h1', h2', h3'⟩
        · rcases a3 x hx1 with h | ⟨h1', h2', h3'⟩
          · exact Or.inl h
          · exact Or.inr ⟨b1 x h1', h2', h3'⟩
        · exact Or.inr ⟨h1', fun hw => h2' (a1 x hw), h3'⟩
      · intro x hx
        rcases b4 x hx with hx1 | h
        · exact a4 x hx1
        · exact Or.inr h
  | ite c t e iht ihe =>
    intro D W D' W' h
    simp only [wf] at h
    split at h
    · split at h
      · next Dt Wt De We ht he =>
        simp only [Option.some.injEq, Prod.mk.injEq] at h
        obtain ⟨rfl, rfl⟩ := h
        obtain ⟨t1, _, _, t4⟩ := iht d D W Dt Wt ht
        obtain ⟨e1, _, _, e4⟩ := ihe d D W De We he
        refine ⟨fun x h => mem_mergeW_left _ _ _ (t1 x h), fun x h => h, fun x h => Or.inl h, ?_⟩
        intro x hx
        rcases mem_mergeW _ _ _ hx with hx | hx
        · exact t4 x hx
        · exact e4 x hx
      · cases h
    · cases h
  | rep n body ih =>
    intro D W D' W' h
    simp only [wf] at h
    split at h
    · split at h
      · next Db Wb hb =>
        simp only [Option.some.injEq, Prod.mk.injEq] at h
        obtain ⟨rfl, rfl⟩ := h
        obtain ⟨b1, _, _, b4⟩ := ih (d + 1) D W Db Wb hb
        refine ⟨b1, fun x h => h, fun x h => Or.inl h, ?_⟩
        intro x hx
        rcases b4 x hx with h | h
        · exact Or.inl h
        · exact Or.inr (by omega)
      · cases h
    · cases h


theorem isBytes_drop (b : Bytes) (k : Nat) (h : IsBytes b) : IsBytes (b.drop k) :=
  fun x hx => h x (List.mem_of_mem_drop hx)
theorem isBytes_take (b : Bytes) (k : Nat) (h : IsBytes b) : IsBytes (b.take k) :=
  fun x hx => h x (List.mem_of_mem_take hx)

/-- what the induction carries for one statement at depth `d` -/
def Good (ver : Nat → Nat) (st : Stmt) (d : Nat) : Prop :=
  ∀ (D W D' W' : List SLoc) (stk : List Nat) (s0 : Store) (b : Bytes) (s1 : Store) (rest : Bytes),
    wf d st D W = some (D', W') → stk.length = d → (∀ x ∈ D, x ∈ W) → (∀ x ∈ D, x.2 ≤ d) → IsBytes b →
    rd ver st s0 stk b = some (s1, rest) →
      (∀ l, ¬ (under W' d stk l ∧ (l.1, l.2.length) ∉ W) → s1 l = s0 l) ∧
      (∀ sF : Store, (∀ l, fixedAt D d stk l ∨ (under W' d stk l ∧ (l.1, l.2.length) ∉ W) → sF l = s1 l) →
        wr ver st sF stk ++ rest = b) ∧
      IsBytes rest

theorem under_mono (X Y : List SLoc) (d : Nat) (stk : List Nat) (l : Loc) (h : ∀ x ∈ X, x ∈ Y) (hu : under X d stk l) :
    under Y d stk l := ⟨h _ hu.1, hu.2.1, hu.2.2⟩

theorem fixedAt_mem (D : List SLoc) (d stk l) (h : fixedAt D d stk l) : (l.1, l.2.length) ∈ D := h.1

/-- a location under the stack `j :: stk` (depth `d+1`) is under `stk` (depth `d`) -/
theorem under_pop (X : List SLoc) (d : Nat) (stk : List Nat) (j : Nat) (l : Loc) (_hd : stk.length = d)
    (h : under X (d + 1) (j :: stk) l) : under X d stk l := by
  obtain ⟨h1, h2, h3⟩ := h
  refine ⟨h1, by omega, ?_⟩
  have : l.2.drop (l.2.length - d) = (l.2.drop (l.2.length - (d + 1))).drop 1 := by
    rw [List.drop_drop]; congr 1; omega
  rw [this, h3]; rfl

theorem under_top (X : List SLoc) (d : Nat) (stk : List Nat) (j j' : Nat) (l : Loc)
    (h : under X (d + 1) (j :: stk) l) (h' : under X (d + 1) (j' :: stk) l) : j = j' := by
  have := h.2.2.symm.trans h'.2.2
  simpa using this

theorem fixedAt_push (D : List SLoc) (d : Nat) (stk : List Nat) (j : Nat) (l : Loc)
    (hdep : ∀ x ∈ D, x.2 ≤ d) (h : fixedAt D (d + 1) (j :: stk) l) : fixedAt D d stk l := by
  obtain ⟨h1, _, h3⟩ := h
  have hle := hdep _ h1
  simp only at hle
  refine ⟨h1, hle, ?_⟩
  have : d + 1 - l.2.length = (d - l.2.length) + 1 := by omega
  exact h3.trans (by rw [this]; rfl)

theorem fixedAt_push' (D : List SLoc) (d : Nat) (stk : List Nat) (j : Nat) (l : Loc)
    (h : fixedAt D d stk l) : fixedAt D (d + 1) (j :: stk) l := by
  obtain ⟨h1, h2, h3⟩ := h
  refine ⟨h1, by omega, ?_⟩
  have : d + 1 - l.2.length = (d - l.2.length) + 1 := by omega
  exact h3.trans (by rw [this]; rfl)

/-- the loop lemma -/
theorem loop_good (ver : Nat → Nat) (body : Stmt) (d : Nat) (hbody : Good ver body (d + 1))
    (D W Db Wb : List SLoc) (stk : List Nat) (hwf : wf (d + 1) body D W = some (Db, Wb)) (hd : stk.length = d)
    (hDW : ∀ x ∈ D, x ∈ W) (hdep : ∀ x ∈ D, x.2 ≤ d) :
    ∀ (k i : Nat) (s : Store) (b : Bytes) (s1 : Store) (rest : Bytes), IsBytes b →
      rdLoop (rd ver body) stk k i s b = some (s1, rest) →
      (∀ l, ¬ (∃ j, i ≤ j ∧ j < i + k ∧ under Wb (d + 1) (j :: stk) l ∧ (l.1, l.2.length) ∉ W) → s1 l = s l) ∧
      (∀ sF : Store, (∀ l, fixedAt D d stk l ∨
            (∃ j, i ≤ j ∧ j < i + k ∧ under Wb (d + 1) (j :: stk) l ∧ (l.1, l.2.length) ∉ W) → sF l = s1 l) →
        (List.range' i k).flatMap (fun j => wr ver body sF (j :: stk)) ++ rest = b) ∧
      IsBytes rest := by
  intro k
  induction k with
  | zero =>
    intro i s b s1 rest hb h
    simp only [rdLoop, Option.some.injEq, Prod.mk.injEq] at h
    obtain ⟨rfl, rfl⟩ := h
    exact ⟨fun _ _ => rfl, fun _ _ => by simp, hb⟩
  | succ k ih =>
    intro i s b s1 rest hb h
    simp only [rdLoop] at h
    split at h
    · cases h
    · next s' b' hstep =>
      have hdep' : ∀ x ∈ D, x.2 ≤ d + 1 := fun x hx => Nat.le_succ_of_le (hdep x hx)
      obtain ⟨bf, bx, bb⟩ := hbody D W Db Wb (i :: stk) s b s' b' hwf (by simp [hd]) hDW hdep' hb hstep
      obtain ⟨tf, tx, tb⟩ := ih (i + 1) s' b' s1 rest bb h
      refine ⟨?_, ?_, tb⟩
      · intro l hl
        rw [tf l (fun ⟨j, h1, h2, h3⟩ => hl ⟨j, by omega, by omega, h3⟩)]
        exact bf l (fun h3 => hl ⟨i, Nat.le_refl _, by omega, h3⟩)
      · intro sF hF
        rw [List.range'_succ, List.flatMap_cons, List.append_assoc]
        rw [tx sF (fun l hl => hF l (by
          rcases hl with h | ⟨j, h1, h2, h3⟩
          · exact Or.inl h
          · exact Or.inr ⟨j, by omega, by omega, h3⟩))]
        apply bx sF
        intro l hl
        -- later iterations do not touch `l`
        have hs1 : s1 l = s' l := by
          apply tf
          rintro ⟨j, h1, _, h3, h4⟩
          rcases hl with hfx | ⟨hu, _⟩
          · exact h4 (hDW _ hfx.1)
          · have := under_top Wb d stk i j l hu h3
            omega
        rw [← hs1]
        apply hF
        rcases hl with hfx | hu
        · exact Or.inl (fixedAt_push D d stk i l hdep hfx)
        · exact Or.inr ⟨i, Nat.le_refl _, by omega, hu⟩


theorem rdN_spec (w : Nat) (inp : Bytes) (v : Nat) (rest : Bytes) (hb : IsBytes inp) (h : rdN w inp = some (v, rest)) :
    leEncode w v ++ rest = inp ∧ IsBytes rest := by
  unfold rdN at h
  split at h
  · cases h
  · next hlen =>
    simp only [Option.some.injEq, Prod.mk.injEq] at h
    obtain ⟨rfl, rfl⟩ := h
    have htl : (inp.take w).length = w := by simp [List.length_take]; omega
    have := leEncode_leDecode (inp.take w) (isBytes_take inp w hb)
    rw [htl] at this
    rw [this, List.take_append_drop]
    exact ⟨rfl, isBytes_drop inp w hb⟩

theorem all_good (ver : Nat → Nat) (st : Stmt) : ∀ d, Good ver st d := by
  induction st with
  | skip =>
    intro d D W D' W' stk s0 b s1 rest hwf _ _ _ hb hrd
    simp only [rd, Option.some.injEq, Prod.mk.injEq] at hrd
    obtain ⟨rfl, rfl⟩ := hrd
    exact ⟨fun _ _ => rfl, fun _ _ => by simp [wr], hb⟩
  | sc w id =>
    intro d D W D' W' stk s0 b s1 rest hwf hd _ _ hb hrd
    simp only [wf] at hwf
    split at hwf
    · cases hwf
    · next hc =>
      simp only [Option.some.injEq, Prod.mk.injEq] at hwf
      obtain ⟨rfl, rfl⟩ := hwf
      have hc' : (id, d) ∉ W := by simpa using hc
      simp only [rd] at hrd
      split at hrd
      · cases hrd
      · next v r hv =>
        simp only [Option.some.injEq, Prod.mk.injEq] at hrd
        obtain ⟨rfl, rfl⟩ := hrd
        obtain ⟨henc, hrest⟩ := rdN_spec w b v r hb hv
        have hl : under ((id, d) :: W) d stk (id, stk) ∧ ((id, stk).1, (id, stk).2.length) ∉ W := by
          refine ⟨⟨by simp [hd], by simp [hd], by simp [hd]⟩, by simpa [hd] using hc'⟩
        refine ⟨?_, ?_, hrest⟩
        · intro l hl'
          simp only [Store.set]
          rw [if_neg]
          intro e
          exact hl' (e ▸ hl)
        · intro sF hF
          simp only [wr]
          rw [hF (id, stk) (Or.inr hl)]
          simp only [Store.set, if_true]
          exact henc
  | seq a b iha ihb =>
    intro d D W D' W' stk s0 inp s1 rest hwf hd hDW hdep hb hrd
    simp only [wf] at hwf
    split at hwf
    · cases hwf
    · next D1 W1 h1 =>
      simp only [rd] at hrd
      split at hrd
      · cases hrd
      · next sm bm hra =>
        obtain ⟨a1, a2, a3, a4⟩ := wf_static d a D W D1 W1 h1
        obtain ⟨b1, b2, b3, b4⟩ := wf_static d b D1 W1 D' W' hwf
        have hD1W1 : ∀ x ∈ D1, x ∈ W1 := by
          intro x hx
          rcases a3 x hx with h | h
          · exact a1 x (hDW x h)
          · exact h.1
        have hdep1 : ∀ x ∈ D1, x.2 ≤ d := by
          intro x hx
          rcases a3 x hx with h | h
          · exact hdep x h
          · omega
        obtain ⟨af, ax, ab⟩ := iha d D W D1 W1 stk s0 inp sm bm h1 hd hDW hdep hb hra
        obtain ⟨bf, bx, bb⟩ := ihb d D1 W1 D' W' stk sm bm s1 rest hwf hd hD1W1 hdep1 ab hrd
        refine ⟨?_, ?_, bb⟩
        · intro l hl
          rw [bf l (fun ⟨hu, hn⟩ => hl ⟨hu, fun hw => hn (a1 _ hw)⟩)]
          exact af l (fun ⟨hu, hn⟩ => hl ⟨under_mono W1 W' d stk l b1 hu, hn⟩)
        · intro sF hF
          simp only [wr, List.append_assoc]
          rw [bx sF ?_]
          · apply ax sF
            intro l hl
            -- b does not touch what a fixed or wrote
            have hs : s1 l = sm l := by
              apply bf
              rintro ⟨_, hn⟩
              rcases hl with h | h
              · exact hn (a1 _ (hDW _ h.1))
              · exact hn h.1.1
            rw [← hs]
            apply hF
            rcases hl with h | h
            · exact Or.inl h
            · exact Or.inr ⟨under_mono W1 W' d stk l b1 h.1, h.2⟩
          · intro l hl
            apply hF
            rcases hl with h | h
            · -- fixed for b: fixed before a, or written by a at this very stack
              rcases a3 _ h.1 with h' | ⟨hw1, hnw, hdd⟩
              · exact Or.inl ⟨h', h.2.1, h.2.2⟩
              · simp only at hdd
                refine Or.inr ⟨⟨b1 _ hw1, by omega, ?_⟩, hnw⟩
                have := h.2.2
                rw [hdd] at this ⊢
                simpa using this
            · exact Or.inr ⟨h.1, fun hw => h.2 (a1 _ hw)⟩
  | ite c t e iht ihe =>
    intro d D W D' W' stk s0 inp s1 rest hwf hd hDW hdep hb hrd
    simp only [wf] at hwf
    split at hwf
    · next hc =>
      split at hwf
      · next Dt Wt De We ht he =>
        simp only [Option.some.injEq, Prod.mk.injEq] at hwf
        obtain ⟨rfl, rfl⟩ := hwf
        simp only [rd] at hrd
        -- the condition has the same value in every store that agrees on the fixed locations
        have hcond : ∀ sF : Store, (∀ l, fixedAt D d stk l → sF l = s0 l) → c.eval ver sF stk = c.eval ver s0 stk :=
          fun sF h => eval_agree ver d D stk hd sF s0 h c hc
        by_cases hcv : c.eval ver s0 stk ≠ 0
        · rw [if_pos hcv] at hrd
          obtain ⟨tf, tx, tb⟩ := iht d D W Dt Wt stk s0 inp s1 rest ht hd hDW hdep hb hrd
          have hsub : ∀ x ∈ Wt, x ∈ mergeW Wt We := fun x h => mem_mergeW_left _ _ _ h
          refine ⟨?_, ?_, tb⟩
          · intro l hl
            exact tf l (fun ⟨hu, hn⟩ => hl ⟨under_mono Wt _ d stk l hsub hu, hn⟩)
          · intro sF hF
            have hfix : ∀ l, fixedAt D d stk l → sF l = s0 l := by
              intro l hl
              rw [hF l (Or.inl hl)]
              exact tf l (fun ⟨_, hn⟩ => hn (hDW _ hl.1))
            simp only [wr]
            rw [if_pos (by rw [hcond sF hfix]; exact hcv)]
            apply tx sF
            intro l hl
            apply hF
            rcases hl with h | h
            · exact Or.inl h
            · exact Or.inr ⟨under_mono Wt _ d stk l hsub h.1, h.2⟩
        · rw [if_neg hcv] at hrd
          obtain ⟨ef, ex, eb⟩ := ihe d D W De We stk s0 inp s1 rest he hd hDW hdep hb hrd
          have hsub : ∀ x ∈ We, x ∈ mergeW Wt We := fun x h => mem_mergeW_right _ _ _ h
          refine ⟨?_, ?_, eb⟩
          · intro l hl
            exact ef l (fun ⟨hu, hn⟩ => hl ⟨under_mono We _ d stk l hsub hu, hn⟩)
          · intro sF hF
            have hfix : ∀ l, fixedAt D d stk l → sF l = s0 l := by
              intro l hl
              rw [hF l (Or.inl hl)]
              exact ef l (fun ⟨_, hn⟩ => hn (hDW _ hl.1))
            simp only [wr]
            rw [if_neg (by rw [hcond sF hfix]; exact hcv)]
            apply ex sF
            intro l hl
            apply hF
            rcases hl with h | h
            · exact Or.inl h
            · exact Or.inr ⟨under_mono We _ d stk l hsub h.1, h.2⟩
      · cases hwf
    · cases hwf
  | rep n body ih =>
    intro d D W D' W' stk s0 inp s1 rest hwf hd hDW hdep hb hrd
    simp only [wf] at hwf
    split at hwf
    · next hn =>
      split at hwf
      · next Db Wb hbd =>
        simp only [Option.some.injEq, Prod.mk.injEq] at hwf
        obtain ⟨rfl, rfl⟩ := hwf
        simp only [rd] at hrd
        obtain ⟨lf, lx, lb⟩ := loop_good ver body d (ih (d + 1)) D W Db Wb stk hbd hd hDW hdep
          (n.eval ver s0 stk) 0 s0 inp s1 rest hb hrd
        refine ⟨?_, ?_, lb⟩
        · intro l hl
          apply lf
          rintro ⟨j, _, _, hu, hnw⟩
          exact hl ⟨under_pop Wb d stk j l hd hu, hnw⟩
        · intro sF hF
          have hfix : ∀ l, fixedAt D d stk l → sF l = s0 l := by
            intro l hl
            rw [hF l (Or.inl hl)]
            apply lf
            rintro ⟨j, _, _, _, hnw⟩
            exact hnw (hDW _ hl.1)
          simp only [wr]
          rw [eval_agree ver d D stk hd sF s0 hfix n hn, List.range_eq_range']
          apply lx sF
          intro l hl
          apply hF
          rcases hl with h | ⟨j, _, _, hu, hnw⟩
          · exact Or.inl h
          · exact Or.inr ⟨under_pop Wb d stk j l hd hu, hnw⟩
      · cases hwf
    · cases hwf

/-- **Reading a block and writing it back reproduces the bytes** (`wr_rd`): for every well-formed schema, every
version, every input, if the reader consumes a prefix of `b` and leaves `rest`, the writer run on the store the
reader produced emits exactly that prefix — the raw save of a loaded block is a byte-level fixed point. -/
theorem wr_rd (ver : Nat → Nat) (st : Stmt) (W' D' : List SLoc) (s0 : Store) (b : Bytes) (s1 : Store) (rest : Bytes)
    (hwf : wf 0 st [] [] = some (D', W')) (hb : IsBytes b) (hrd : rd ver st s0 [] b = some (s1, rest)) :
    wr ver st s1 [] ++ rest = b :=
  (all_good ver st 0 [] [] D' W' [] s0 b s1 rest hwf rfl (by simp) (by simp) hb hrd).2.1 s1 (fun _ _ => rfl)

/-- the reader only changes locations the schema syncs -/
theorem rd_frame (ver : Nat → Nat) (st : Stmt) (W' D' : List SLoc) (s0 : Store) (b : Bytes) (s1 : Store) (rest : Bytes)
    (hwf : wf 0 st [] [] = some (D', W')) (hb : IsBytes b) (hrd : rd ver st s0 [] b = some (s1, rest)) (l : Loc)
    (hl : (l.1, l.2.length) ∉ W') : s1 l = s0 l :=
  (all_good ver st 0 [] [] D' W' [] s0 b s1 rest hwf rfl (by simp) (by simp) hb hrd).1 l (fun h => hl h.1.1)

end Nifly.Schema

namespace Nifly.Schema
open Nifly.Wire

/-- the widths of the scalars the writer emits for store `s`, in order (the wire trace of a block) -/
def widths (ver : Nat → Nat) : Stmt → Store → List Nat → List Nat
  | .skip, _, _ => []
  | .sc w _, _, _ => [w]
  | .seq a b, s, stk => widths ver a s stk ++ widths ver b s stk
  | .ite c t e, s, stk => if c.eval ver s stk ≠ 0 then widths ver t s stk else widths ver e s stk
  | .rep n body, s, stk => (List.range (n.eval ver s stk)).flatMap fun i => widths ver body s (i :: stk)

/-- the writer emits exactly the sum of the widths it executes (the block size recorded in the header) -/
theorem wr_length (ver : Nat → Nat) (st : Stmt) (s : Store) (stk : List Nat) :
    (wr ver st s stk).length = (widths ver st s stk).sum := by
  induction st generalizing stk with
  | skip => rfl
  | sc w id => simp [wr, widths, leEncode_length]
  | seq a b iha ihb => simp [wr, widths, iha, ihb]
  | ite c t e iht ihe =>
    simp only [wr, widths]
    split
    · exact iht stk
    · exact ihe stk
  | rep n body ih =>
    simp only [wr, widths]
    induction (List.range (n.eval ver s stk)) with
    | nil => rfl
    | cons i l ihl => simp [List.flatMap_cons, ih, ihl]

/-- every scalar the writer emits for `s` fits its wire width -/
def inRange (ver : Nat → Nat) : Stmt → Store → List Nat → Prop
  | .skip, _, _ => True
  | .sc w id, s, stk => s (id, stk) < 256 ^ w
  | .seq a b, s, stk => inRange ver a s stk ∧ inRange ver b s stk
  | .ite c t e, s, stk => if c.eval ver s stk ≠ 0 then inRange ver t s stk else inRange ver e s stk
  | .rep n body, s, stk => ∀ i, i < n.eval ver s stk → inRange ver body s (i :: stk)

def Good' (ver : Nat → Nat) (st : Stmt) (d : Nat) : Prop :=
  ∀ (D W D' W' : List SLoc) (stk : List Nat) (s s0 : Store) (rest : Bytes),
    wf d st D W = some (D', W') → stk.length = d → (∀ x ∈ D, x ∈ W) → (∀ x ∈ D, x.2 ≤ d) →
    (∀ l, fixedAt D d stk l → s0 l = s l) → inRange ver st s stk →
    ∃ s1, rd ver st s0 stk (wr ver st s stk ++ rest) = some (s1, rest) ∧
      (∀ l, fixedAt D' d stk l → s1 l = s l) ∧
      (∀ l, ¬ (under W' d stk l ∧ (l.1, l.2.length) ∉ W) → s1 l = s0 l)

theorem loop_good' (ver : Nat → Nat) (body : Stmt) (d : Nat) (hbody : Good' ver body (d + 1))
    (D W Db Wb : List SLoc) (stk : List Nat) (s : Store) (hwf : wf (d + 1) body D W = some (Db, Wb)) (hd : stk.length = d)
    (hDW : ∀ x ∈ D, x ∈ W) (hdep : ∀ x ∈ D, x.2 ≤ d) :
    ∀ (k i : Nat) (s0 : Store) (rest : Bytes), (∀ l, fixedAt D d stk l → s0 l = s l) →
      (∀ j, i ≤ j → j < i + k → inRange ver body s (j :: stk)) →
      ∃ s1, rdLoop (rd ver body) stk k i s0 ((List.range' i k).flatMap (fun j => wr ver body s (j :: stk)) ++ rest) = some (s1, rest) ∧
        (∀ l, ¬ (∃ j, i ≤ j ∧ j < i + k ∧ under Wb (d + 1) (j :: stk) l ∧ (l.1, l.2.length) ∉ W) → s1 l = s0 l) := by
  intro k
  induction k with
  | zero =>
    intro i s0 rest _ _
    exact ⟨s0, by simp [rdLoop], fun _ _ => rfl⟩
  | succ k ih =>
    intro i s0 rest hs0 hin
    have hdep' : ∀ x ∈ D, x.2 ≤ d + 1 := fun x hx => Nat.le_succ_of_le (hdep x hx)
    have hfix : ∀ l, fixedAt D (d + 1) (i :: stk) l → s0 l = s l :=
      fun l hl => hs0 l (fixedAt_push D d stk i l hdep hl)
    obtain ⟨sm, hrd, _, hfr⟩ := hbody D W Db Wb (i :: stk) s s0
      ((List.range' (i + 1) k).flatMap (fun j => wr ver body s (j :: stk)) ++ rest) hwf (by simp [hd]) hDW hdep' hfix
      (hin i (Nat.le_refl _) (by omega))
    have hsm : ∀ l, fixedAt D d stk l → sm l = s l := by
      intro l hl
      rw [hfr l (fun ⟨_, hn⟩ => hn (hDW _ hl.1))]
      exact hs0 l hl
    obtain ⟨s1, hrest, hfr1⟩ := ih (i + 1) sm rest hsm (fun j h1 h2 => hin j (by omega) (by omega))
    refine ⟨s1, ?_, ?_⟩
    · rw [List.range'_succ, List.flatMap_cons, List.append_assoc]
      simp only [rdLoop, hrd]
      exact hrest
    · intro l hl
      rw [hfr1 l (fun ⟨j, h1, h2, h3⟩ => hl ⟨j, by omega, by omega, h3⟩)]
      exact hfr l (fun h3 => hl ⟨i, Nat.le_refl _, by omega, h3⟩)

theorem all_good' (ver : Nat → Nat) (st : Stmt) : ∀ d, Good' ver st d := by
  induction st with
  | skip =>
    intro d D W D' W' stk s s0 rest hwf _ _ _ hs0 _
    simp only [wf, Option.some.injEq, Prod.mk.injEq] at hwf
    obtain ⟨rfl, rfl⟩ := hwf
    exact ⟨s0, by simp [rd, wr], hs0, fun _ _ => rfl⟩
  | sc w id =>
    intro d D W D' W' stk s s0 rest hwf hd hDW _ hs0 hin
    simp only [wf] at hwf
    split at hwf
    · cases hwf
    · next hc =>
      simp only [Option.some.injEq, Prod.mk.injEq] at hwf
      obtain ⟨rfl, rfl⟩ := hwf
      have hc' : (id, d) ∉ W := by simpa using hc
      simp only [inRange] at hin
      refine ⟨s0.set (id, stk) (s (id, stk)), ?_, ?_, ?_⟩
      · simp only [rd, wr, rdN_enc w _ hin rest]
      · intro l hl
        simp only [Store.set]
        split
        · next e => rw [e]
        · next hne =>
          rcases List.mem_cons.1 hl.1 with e | hmem
          · exfalso
            apply hne
            have h1 : l.1 = id := by simpa using congrArg Prod.fst e
            have h2 : l.2.length = d := by simpa using congrArg Prod.snd e
            have h3 := hl.2.2
            rw [h2, Nat.sub_self, List.drop_zero] at h3
            exact Prod.ext h1 h3
          · exact hs0 l ⟨hmem, hl.2.1, hl.2.2⟩
      · intro l hl
        simp only [Store.set]
        rw [if_neg]
        intro e
        apply hl
        subst e
        exact ⟨⟨by simp [hd], by simp [hd], by simp [hd]⟩, by simpa [hd] using hc'⟩
  | seq a b iha ihb =>
    intro d D W D' W' stk s s0 rest hwf hd hDW hdep hs0 hin
    simp only [wf] at hwf
    split at hwf
    · cases hwf
    · next D1 W1 h1 =>
      obtain ⟨a1, a2, a3, a4⟩ := wf_static d a D W D1 W1 h1
      obtain ⟨b1, _, _, _⟩ := wf_static d b D1 W1 D' W' hwf
      have hD1W1 : ∀ x ∈ D1, x ∈ W1 := by
        intro x hx
        rcases a3 x hx with h | h
        · exact a1 x (hDW x h)
        · exact h.1
      have hdep1 : ∀ x ∈ D1, x.2 ≤ d := by
        intro x hx
        rcases a3 x hx with h | h
        · exact hdep x h
        · omega
      simp only [inRange] at hin
      obtain ⟨sm, hra, hfa, hframe_a⟩ := iha d D W D1 W1 stk s s0 (wr ver b s stk ++ rest) h1 hd hDW hdep hs0 hin.1
      obtain ⟨s1, hrb, hfb, hframe_b⟩ := ihb d D1 W1 D' W' stk s sm rest hwf hd hD1W1 hdep1 hfa hin.2
      refine ⟨s1, ?_, hfb, ?_⟩
      · simp only [rd, wr, List.append_assoc, hra]
        exact hrb
      · intro l hl
        rw [hframe_b l (fun ⟨hu, hn⟩ => hl ⟨hu, fun hw => hn (a1 _ hw)⟩)]
        exact hframe_a l (fun ⟨hu, hn⟩ => hl ⟨under_mono W1 W' d stk l b1 hu, hn⟩)
  | ite c t e iht ihe =>
    intro d D W D' W' stk s s0 rest hwf hd hDW hdep hs0 hin
    simp only [wf] at hwf
    split at hwf
    · next hc =>
      split at hwf
      · next Dt Wt De We ht he =>
        simp only [Option.some.injEq, Prod.mk.injEq] at hwf
        obtain ⟨rfl, rfl⟩ := hwf
        have hcond : c.eval ver s0 stk = c.eval ver s stk := eval_agree ver d D stk hd s0 s hs0 c hc
        simp only [inRange] at hin
        by_cases hcv : c.eval ver s stk ≠ 0
        · rw [if_pos hcv] at hin
          obtain ⟨s1, hr, _, hfr⟩ := iht d D W Dt Wt stk s s0 rest ht hd hDW hdep hs0 hin
          have hsub : ∀ x ∈ Wt, x ∈ mergeW Wt We := fun x h => mem_mergeW_left _ _ _ h
          have hfr' : ∀ l, ¬ (under (mergeW Wt We) d stk l ∧ (l.1, l.2.length) ∉ W) → s1 l = s0 l :=
            fun l hl => hfr l (fun ⟨hu, hn⟩ => hl ⟨under_mono Wt _ d stk l hsub hu, hn⟩)
          refine ⟨s1, ?_, ?_, hfr'⟩
          · simp only [rd, wr]
            rw [if_pos (by rw [hcond]; exact hcv), if_pos hcv]
            exact hr
          · intro l hl
            rw [hfr' l (fun ⟨_, hn⟩ => hn (hDW _ hl.1))]
            exact hs0 l hl
        · rw [if_neg hcv] at hin
          obtain ⟨s1, hr, _, hfr⟩ := ihe d D W De We stk s s0 rest he hd hDW hdep hs0 hin
          have hsub : ∀ x ∈ We, x ∈ mergeW Wt We := fun x h => mem_mergeW_right _ _ _ h
          have hfr' : ∀ l, ¬ (under (mergeW Wt We) d stk l ∧ (l.1, l.2.length) ∉ W) → s1 l = s0 l :=
            fun l hl => hfr l (fun ⟨hu, hn⟩ => hl ⟨under_mono We _ d stk l hsub hu, hn⟩)
          refine ⟨s1, ?_, ?_, hfr'⟩
          · simp only [rd, wr]
            rw [if_neg (by rw [hcond]; exact hcv), if_neg hcv]
            exact hr
          · intro l hl
            rw [hfr' l (fun ⟨_, hn⟩ => hn (hDW _ hl.1))]
            exact hs0 l hl
      · cases hwf
    · cases hwf
  | rep n body ih =>
    intro d D W D' W' stk s s0 rest hwf hd hDW hdep hs0 hin
    simp only [wf] at hwf
    split at hwf
    · next hn =>
      split at hwf
      · next Db Wb hbd =>
        simp only [Option.some.injEq, Prod.mk.injEq] at hwf
        obtain ⟨rfl, rfl⟩ := hwf
        have hcnt : n.eval ver s0 stk = n.eval ver s stk := eval_agree ver d D stk hd s0 s hs0 n hn
        simp only [inRange] at hin
        obtain ⟨s1, hr, hfr⟩ := loop_good' ver body d (ih (d + 1)) D W Db Wb stk s hbd hd hDW hdep
          (n.eval ver s stk) 0 s0 rest hs0 (fun j _ h2 => hin j (by omega))
        have hfr' : ∀ l, ¬ (under Wb d stk l ∧ (l.1, l.2.length) ∉ W) → s1 l = s0 l := by
          intro l hl
          apply hfr
          rintro ⟨j, _, _, hu, hnw⟩
          exact hl ⟨under_pop Wb d stk j l hd hu, hnw⟩
        refine ⟨s1, ?_, ?_, hfr'⟩
        · simp only [rd, wr]
          rw [hcnt, List.range_eq_range']
          exact hr
        · intro l hl
          rw [hfr' l (fun ⟨_, hnw⟩ => hnw (hDW _ hl.1))]
          exact hs0 l hl
      · cases hwf
    · cases hwf

/-- **What the writer emits, the reader accepts and consumes exactly** (`rd_wr`): for a well-formed schema and a store whose
scalars fit their widths, the reader run on the writer's output followed by anything stops exactly at the end of that
output; and the store it produces writes the same bytes again. -/
theorem rd_wr (ver : Nat → Nat) (st : Stmt) (D' W' : List SLoc) (s s0 : Store) (rest : Bytes)
    (hwf : wf 0 st [] [] = some (D', W')) (hin : inRange ver st s []) :
    ∃ s1, rd ver st s0 [] (wr ver st s [] ++ rest) = some (s1, rest) :=
  let ⟨s1, h, _, _⟩ := all_good' ver st 0 [] [] D' W' [] s s0 rest hwf rfl (by simp) (by simp)
    (fun l hl => by cases hl.1) hin
  ⟨s1, h⟩


theorem wr_isBytes (ver : Nat → Nat) (st : Stmt) (s : Store) (stk : List Nat) : IsBytes (wr ver st s stk) := by
  induction st generalizing stk with
  | skip => intro x hx; simp [wr] at hx
  | sc w id => exact leEncode_isBytes w _
  | seq a b iha ihb =>
    intro x hx
    simp only [wr, List.mem_append] at hx
    rcases hx with h | h
    · exact iha stk x h
    · exact ihb stk x h
  | ite c t e iht ihe =>
    simp only [wr]
    split
    · exact iht stk
    · exact ihe stk
  | rep n body ih =>
    intro x hx
    simp only [wr, List.mem_flatMap] at hx
    obtain ⟨i, _, hi⟩ := hx
    exact ih (i :: stk) x hi

/-- both directions together: the store read back from the writer's output writes the same bytes -/
theorem rd_wr_same (ver : Nat → Nat) (st : Stmt) (D' W' : List SLoc) (s s0 : Store)
    (hwf : wf 0 st [] [] = some (D', W')) (hin : inRange ver st s []) :
    ∃ s1, rd ver st s0 [] (wr ver st s []) = some (s1, []) ∧ wr ver st s1 [] = wr ver st s [] := by
  obtain ⟨s1, h⟩ := rd_wr ver st D' W' s s0 [] hwf hin
  rw [List.append_nil] at h
  refine ⟨s1, h, ?_⟩
  have := wr_rd ver st W' D' s0 (wr ver st s []) s1 [] hwf (wr_isBytes ver st s []) h
  simpa using this

end Nifly.Schema
