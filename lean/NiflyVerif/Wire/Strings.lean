/-
Header string table: `AddOrFindStringId`, `UpdateHeaderStrings`, `UpdateMaxStringLength`
(src/BasicTypes.cpp). A string reference is `(index?, text)`; `none` = NIF_NPOS.
-/
namespace Nifly.Wire

abbrev Str := List Nat

/-- `AddOrFindStringId(str, addEmpty)` : (new table, returned id) -/
def addOrFind (tbl : List Str) (s : Str) (addEmpty : Bool) : List Str × Option Nat :=
  let i := tbl.idxOf s
  if i < tbl.length then (tbl, some i)
  else if !addEmpty && s.isEmpty then (tbl, none)
  else (tbl ++ [s], some tbl.length)

/-- the loop of `UpdateHeaderStrings` over the enumerated string references of all blocks, in order:
each reference gets the index of its text (`addEmpty` iff it had an index before) -/
def updateRefs : List Str → List (Option Nat × Str) → List Str × List (Option Nat × Str)
  | tbl, [] => (tbl, [])
  | tbl, (idx, s) :: rs =>
    let (tbl', id) := addOrFind tbl s idx.isSome
    let (tbl'', rs') := updateRefs tbl' rs
    (tbl'', (id, s) :: rs')

/-- `UpdateHeaderStrings(hasUnknown)`: the table is cleared first unless unknown blocks are present -/
def updateHeaderStrings (hasUnknown : Bool) (tbl : List Str) (refs : List (Option Nat × Str)) :
    List Str × List (Option Nat × Str) :=
  updateRefs (if hasUnknown then tbl else []) refs

/-- `UpdateMaxStringLength` -/
def maxLen (tbl : List Str) : Nat := tbl.foldl (fun m s => max m s.length) 0

theorem addOrFind_prefix (tbl : List Str) (s : Str) (a : Bool) : tbl <+: (addOrFind tbl s a).1 := by
  unfold addOrFind
  simp only
  split
  · exact List.prefix_refl _
  · split
    · exact List.prefix_refl _
    · exact List.prefix_append _ _

theorem addOrFind_nodup (tbl : List Str) (s : Str) (a : Bool) (h : tbl.Nodup) : (addOrFind tbl s a).1.Nodup := by
  unfold addOrFind
  simp only
  split
  · exact h
  · rename_i hi
    split
    · exact h
    · have hn : s ∉ tbl := fun hm => hi (List.idxOf_lt_length_of_mem hm)
      exact List.nodup_append.mpr ⟨h, by simp, by
        intro a ha c hc; simp at hc; subst hc; intro he; subst he; exact hn ha⟩

/-- the returned index designates the text (or is NPOS only for an empty text without a previous index) -/
theorem addOrFind_id (tbl : List Str) (s : Str) (a : Bool) :
    match (addOrFind tbl s a).2 with
    | some i => (addOrFind tbl s a).1[i]? = some s
    | none => s = [] ∧ a = false := by
  by_cases hi : tbl.idxOf s < tbl.length
  · have : addOrFind tbl s a = (tbl, some (tbl.idxOf s)) := by simp [addOrFind, hi]
    rw [this]
    simp only
    rw [List.getElem?_eq_getElem hi]; exact congrArg some (List.getElem_idxOf hi)
  · by_cases hc : (!a && s.isEmpty) = true
    · have : addOrFind tbl s a = (tbl, none) := by simp [addOrFind, hi, hc]
      rw [this]
      simp only [Bool.and_eq_true, Bool.not_eq_true', List.isEmpty_iff] at hc
      exact ⟨hc.2, hc.1⟩
    · have : addOrFind tbl s a = (tbl ++ [s], some tbl.length) := by simp [addOrFind, hi, hc]
      rw [this]
      simp

theorem updateRefs_prefix (tbl : List Str) (refs : List (Option Nat × Str)) : tbl <+: (updateRefs tbl refs).1 := by
  induction refs generalizing tbl with
  | nil => exact List.prefix_refl _
  | cons r rs ih =>
    obtain ⟨idx, s⟩ := r
    simp only [updateRefs]
    exact List.IsPrefix.trans (addOrFind_prefix tbl s idx.isSome) (ih _)

theorem updateRefs_nodup (tbl : List Str) (refs : List (Option Nat × Str)) (h : tbl.Nodup) : (updateRefs tbl refs).1.Nodup := by
  induction refs generalizing tbl with
  | nil => exact h
  | cons r rs ih =>
    obtain ⟨idx, s⟩ := r
    simp only [updateRefs]
    exact ih _ (addOrFind_nodup tbl s idx.isSome h)

/-- every reference ends up empty or with an index inside the final table that designates its text -/
theorem updateRefs_valid (tbl : List Str) (refs : List (Option Nat × Str)) :
    ∀ r ∈ (updateRefs tbl refs).2, match r.1 with
      | some i => (updateRefs tbl refs).1[i]? = some r.2
      | none => r.2 = [] := by
  induction refs generalizing tbl with
  | nil => intro r hr; simp [updateRefs] at hr
  | cons r0 rs ih =>
    obtain ⟨idx, s⟩ := r0
    intro r hr
    simp only [updateRefs, List.mem_cons] at hr
    rcases hr with h | h
    · subst h
      have hid := addOrFind_id tbl s idx.isSome
      have hpre := updateRefs_prefix (addOrFind tbl s idx.isSome).1 rs
      simp only [updateRefs]
      cases hi : (addOrFind tbl s idx.isSome).2 with
      | none => rw [hi] at hid; exact hid.1
      | some i =>
        rw [hi] at hid
        simp only at hid ⊢
        obtain ⟨t, ht⟩ := hpre
        rw [← ht]
        have hlt : i < (addOrFind tbl s idx.isSome).1.length := (List.getElem?_eq_some_iff.mp hid).1
        rw [List.getElem?_append_left hlt]; exact hid
    · simp only [updateRefs]
      exact ih _ r h

theorem maxLen_ge (tbl : List Str) : ∀ s ∈ tbl, s.length ≤ maxLen tbl := by
  unfold maxLen
  have key : ∀ (l : List Str) (m : Nat), m ≤ l.foldl (fun m s => max m s.length) m ∧
      ∀ s ∈ l, s.length ≤ l.foldl (fun m s => max m s.length) m := by
    intro l
    induction l with
    | nil => intro m; simp
    | cons a l ih =>
      intro m
      simp only [List.foldl_cons]
      obtain ⟨h1, h2⟩ := ih (max m a.length)
      refine ⟨by omega, ?_⟩
      intro s hs
      rcases List.mem_cons.mp hs with h | h
      · subst h; omega
      · exact h2 s h
  exact (key tbl 0).2

theorem foldl_max_attained (l : List Str) (m : Nat) :
    l.foldl (fun m s => max m s.length) m = m ∨ ∃ s ∈ l, s.length = l.foldl (fun m s => max m s.length) m := by
  induction l generalizing m with
  | nil => left; rfl
  | cons a l ih =>
    simp only [List.foldl_cons]
    rcases ih (max m a.length) with h | ⟨s, hs, he⟩
    · rw [h]
      by_cases hm : a.length ≤ m
      · left; omega
      · right; exact ⟨a, by simp, by omega⟩
    · right; exact ⟨s, by simp [hs], he⟩

/-- the recorded maximum is attained by some string of a non-empty table -/
theorem maxLen_attained (tbl : List Str) (h : tbl ≠ []) : ∃ s ∈ tbl, s.length = maxLen tbl := by
  rcases foldl_max_attained tbl 0 with h0 | h1
  · cases tbl with
    | nil => exact absurd rfl h
    | cons a l =>
      refine ⟨a, by simp, ?_⟩
      have := maxLen_ge (a :: l) a (by simp)
      unfold maxLen at this ⊢
      omega
  · exact h1

end Nifly.Wire
