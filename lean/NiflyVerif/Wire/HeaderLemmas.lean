import NiflyVerif.Wire.Header
/-! Helper lemmas for C07/C03/C01 header theorems. -/
namespace Nifly.Wire

/-- a header whose fields fit their wire widths and whose tables have the lengths the counts promise -/
structure HeaderWF (h : Header) : Prop where
  line : ∀ x ∈ h.verLine, x ≠ 10
  file : h.file < 256 ^ 4
  endian : h.endian < 256 ^ 1
  endianDflt : hasEndian h.file = false → h.endian = 1
  user : h.user < 256 ^ 4
  userDflt : hasUser h.file = false → h.user = 0
  numBlocks : h.numBlocks < 256 ^ 4
  stream : h.stream < 256 ^ 4
  unk : h.unkInt1 < 256 ^ 4
  creator : h.creator.length + 1 < 256 ∧ ∀ x ∈ h.creator, x ≠ 0
  export1 : h.export1.length + 1 < 256 ∧ ∀ x ∈ h.export1, x ≠ 0
  export2 : h.export2.length + 1 < 256 ∧ ∀ x ∈ h.export2, x ≠ 0
  export3 : h.export3.length + 1 < 256 ∧ ∀ x ∈ h.export3, x ≠ 0
  bethDflt : isBethesda h.file h.user = false → h.stream = 0 ∧ h.creator = [] ∧ h.export1 = [] ∧ h.export2 = []
  unkDflt : (isBethesda h.file h.user && decide (h.stream > 130)) = false → h.unkInt1 = 0
  exp3Dflt : (isBethesda h.file h.user && h.stream == 130) = false → h.export3 = []
  types : h.types.length < 256 ^ 2 ∧ ∀ t ∈ h.types, t.length < 256 ^ 4 ∧ ∀ x ∈ t, x ≠ 0
  tidx : h.tidx.length = (if hasTypes h.file then h.numBlocks else 0) ∧ ∀ t ∈ h.tidx, t < 256 ^ 2
  typesDflt : hasTypes h.file = false → h.types = []
  sizes : h.sizes.length = (if hasSizes h.file then h.numBlocks else 0) ∧ ∀ s ∈ h.sizes, s < 256 ^ 4
  strings : h.strings.length < 256 ^ 4 ∧ ∀ t ∈ h.strings, t.length < 256 ^ 4 ∧ ∀ x ∈ t, x ≠ 0
  maxStr : h.maxStrLen < 256 ^ 4
  stringsDflt : hasStrings h.file = false → h.strings = [] ∧ h.maxStrLen = 0
  groups : h.groups.length < 256 ^ 4 ∧ ∀ g ∈ h.groups, g < 256 ^ 4
  groupsDflt : hasGroups h.file = false → h.groups = []

theorem rdLine_enc (l rest : Bytes) (h : ∀ x ∈ l, x ≠ 10) : rdLine (l ++ [10] ++ rest) = some (l, rest) := by
  unfold rdLine
  have h1 : (l ++ [10] ++ rest).takeWhile (· != 10) = l := by
    rw [List.append_assoc, List.takeWhile_append]
    have : l.takeWhile (· != 10) = l := takeWhile_all _ l (fun x hx => by simpa using h x hx)
    simp [this]
  simp only [h1]
  simp

theorem rdOpt_true (p : Bytes → Option (α × Bytes)) (d : α) (inp : Bytes) : rdOpt true p d inp = p inp := rfl
theorem rdOpt_false (p : Bytes → Option (α × Bytes)) (d : α) (inp : Bytes) : rdOpt false p d inp = some (d, inp) := rfl

theorem rdList_N (w : Nat) (l : List Nat) (hl : ∀ a ∈ l, a < 256 ^ w) (rest : Bytes) :
    rdList (rdN w) l.length ((l.map (leEncode w)).flatten ++ rest) = some (l, rest) :=
  rdList_enc (rdN w) (leEncode w) (· < 256 ^ w) (fun a r ha => rdN_enc w a ha r) l hl rest

theorem rdList_Str (l : List Bytes) (hl : ∀ t ∈ l, t.length < 256 ^ 4 ∧ ∀ x ∈ t, x ≠ 0) (rest : Bytes) :
    rdList (rdStr 4) l.length ((l.map (encStr 4)).flatten ++ rest) = some (l, rest) :=
  rdList_enc (rdStr 4) (encStr 4) (fun t => t.length < 256 ^ 4 ∧ ∀ x ∈ t, x ≠ 0)
    (fun a r ha => rdStr_enc 4 a r ha.1 ha.2) l hl rest

theorem splitBlocks_flatten (bs : List Bytes) (rest : Bytes) :
    splitBlocks (bs.map List.length) (bs.flatten ++ rest) = some (bs, rest) := by
  induction bs with
  | nil => rfl
  | cons b bs ih =>
    simp only [List.map_cons, List.flatten_cons, List.append_assoc, splitBlocks, rdBytes_enc, ih]

end Nifly.Wire

namespace Nifly.Wire

theorem rdOpt_enc (c : Bool) (p : Bytes → Option (α × Bytes)) (d v : α) (enc r : Bytes)
    (h1 : c = true → p (enc ++ r) = some (v, r)) (h2 : c = false → v = d) :
    rdOpt c p d ((if c = true then enc else []) ++ r) = some (v, r) := by
  cases c with
  | true => simpa [rdOpt] using h1 rfl
  | false => simp [rdOpt, h2 rfl]

theorem decBeth_enc (h : Header) (wf : HeaderWF h) (rest : Bytes) :
    decBeth (isBethesda h.file h.user) ((if isBethesda h.file h.user = true then encBeth h else []) ++ rest) =
      some ((h.stream, h.creator, h.unkInt1, h.export1, h.export2, h.export3), rest) := by
  cases hb : isBethesda h.file h.user with
  | false =>
    obtain ⟨d1, d2, d3, d4⟩ := wf.bethDflt hb
    have d5 := wf.unkDflt (by simp [hb])
    have d6 := wf.exp3Dflt (by simp [hb])
    simp [decBeth, rdOpt, d1, d2, d3, d4, d5, d6]
  | true =>
    simp only [if_true, encBeth, List.append_assoc, decBeth, rdOpt_true, Bool.true_and]
    rw [rdN_enc 4 h.stream wf.stream]
    simp only [Option.bind_some]
    rw [rdStr_encNul h.creator _ wf.creator.1 wf.creator.2]
    simp only [Option.bind_some]
    have hu := rdOpt_enc (decide (h.stream > 130)) (rdN 4) 0 h.unkInt1 (leEncode 4 h.unkInt1)
      (encStrNul h.export1 ++ (encStrNul h.export2 ++ ((if (h.stream == 130) = true then encStrNul h.export3 else []) ++ rest)))
      (fun _ => rdN_enc 4 _ wf.unk _) (fun hc => wf.unkDflt (by simp [hb, hc]))
    simp only [decide_eq_true_eq] at hu
    rw [hu]
    simp only [Option.bind_some]
    rw [rdStr_encNul h.export1 _ wf.export1.1 wf.export1.2]
    simp only [Option.bind_some]
    rw [rdStr_encNul h.export2 _ wf.export2.1 wf.export2.2]
    simp only [Option.bind_some]
    have he := rdOpt_enc (h.stream == 130) (rdStr 1) [] h.export3 (encStrNul h.export3) rest
      (fun _ => rdStr_encNul _ _ wf.export3.1 wf.export3.2) (fun hc => wf.exp3Dflt (by simp [hb, hc]))
    rw [he]
    rfl

theorem decTypes_enc (h : Header) (wf : HeaderWF h) (r : Bytes) :
    decTypes h.file h.numBlocks ((if hasTypes h.file = true then
        leEncode 2 h.types.length ++ ((h.types.map (encStr 4)).flatten ++ (h.tidx.map (leEncode 2)).flatten) else []) ++ r) =
      some ((h.types, h.tidx), r) := by
  unfold decTypes
  cases hc : hasTypes h.file with
  | false =>
    have e1 := wf.typesDflt hc
    have e2 : h.tidx = [] := by have := wf.tidx.1; simp [hc] at this; exact this
    simp [rdOpt, e1, e2]
  | true =>
    have hl : h.tidx.length = h.numBlocks := by have := wf.tidx.1; simpa [hc] using this
    simp only [if_true, rdOpt_true, List.append_assoc]
    rw [rdN_enc 2 _ wf.types.1]
    simp only [Option.bind_some]
    rw [rdList_Str h.types wf.types.2]
    simp only [Option.bind_some]
    rw [← hl, rdList_N 2 h.tidx wf.tidx.2]
    rfl

theorem decSizes_enc (h : Header) (wf : HeaderWF h) (r : Bytes) :
    decSizes h.file h.numBlocks ((if hasSizes h.file = true then (h.sizes.map (leEncode 4)).flatten else []) ++ r) =
      some (h.sizes, r) := by
  unfold decSizes
  cases hc : hasSizes h.file with
  | false =>
    have : h.sizes = [] := by have := wf.sizes.1; simp [hc] at this; exact this
    simp [rdOpt, this]
  | true =>
    have hl : h.sizes.length = h.numBlocks := by have := wf.sizes.1; simpa [hc] using this
    simp only [if_true, rdOpt_true]
    rw [← hl, rdList_N 4 h.sizes wf.sizes.2]

theorem decStrings_enc (h : Header) (wf : HeaderWF h) (r : Bytes) :
    decStrings h.file ((if hasStrings h.file = true then
        leEncode 4 h.strings.length ++ (leEncode 4 h.maxStrLen ++ (h.strings.map (encStr 4)).flatten) else []) ++ r) =
      some ((h.strings, h.maxStrLen), r) := by
  unfold decStrings
  cases hc : hasStrings h.file with
  | false =>
    obtain ⟨e1, e2⟩ := wf.stringsDflt hc
    simp [rdOpt, e1, e2]
  | true =>
    simp only [if_true, rdOpt_true, List.append_assoc]
    rw [rdN_enc 4 _ wf.strings.1]
    simp only [Option.bind_some]
    rw [rdN_enc 4 _ wf.maxStr]
    simp only [Option.bind_some]
    rw [rdList_Str h.strings wf.strings.2]
    rfl

theorem decGroups_enc (h : Header) (wf : HeaderWF h) (r : Bytes) :
    decGroups h.file ((if hasGroups h.file = true then
        leEncode 4 h.groups.length ++ (h.groups.map (leEncode 4)).flatten else []) ++ r) = some (h.groups, r) := by
  unfold decGroups
  cases hc : hasGroups h.file with
  | false => simp [rdOpt, wf.groupsDflt hc]
  | true =>
    simp only [if_true, rdOpt_true, List.append_assoc]
    rw [rdN_enc 4 _ wf.groups.1]
    simp only [Option.bind_some]
    rw [rdList_N 4 h.groups wf.groups.2]

theorem decTables_enc (h : Header) (wf : HeaderWF h) (rest : Bytes) :
    decTables h.file h.numBlocks (encTables h ++ rest) =
      some ((h.types, h.tidx, h.sizes, h.strings, h.maxStrLen, h.groups), rest) := by
  unfold decTables encTables
  simp only [List.append_assoc]
  rw [decTypes_enc h wf]
  simp only [Option.bind_some]
  rw [decSizes_enc h wf]
  simp only [Option.bind_some]
  rw [decStrings_enc h wf]
  simp only [Option.bind_some]
  rw [decGroups_enc h wf]
  rfl

/-- **Header codec round trip**: reading what `Put` wrote gives back the header (and leaves the rest) -/
theorem decHeader_encHeader (h : Header) (wf : HeaderWF h) (rest : Bytes) :
    decHeader (encHeader h ++ rest) = some (h, rest) := by
  unfold decHeader encHeader
  simp only [List.append_assoc]
  have hline := rdLine_enc h.verLine (leEncode 4 h.file ++ ((if hasEndian h.file = true then leEncode 1 h.endian else []) ++
    ((if hasUser h.file = true then leEncode 4 h.user else []) ++ (leEncode 4 h.numBlocks ++
    ((if isBethesda h.file h.user = true then encBeth h else []) ++ (encTables h ++ rest)))))) wf.line
  simp only [List.append_assoc] at hline
  rw [hline]
  simp only [Option.bind_some]
  rw [rdN_enc 4 _ wf.file]
  simp only [Option.bind_some]
  rw [rdOpt_enc (hasEndian h.file) (rdN 1) 1 h.endian (leEncode 1 h.endian) _ (fun _ => rdN_enc 1 _ wf.endian _) wf.endianDflt]
  simp only [Option.bind_some]
  rw [rdOpt_enc (hasUser h.file) (rdN 4) 0 h.user (leEncode 4 h.user) _ (fun _ => rdN_enc 4 _ wf.user _) wf.userDflt]
  simp only [Option.bind_some]
  rw [rdN_enc 4 _ wf.numBlocks]
  simp only [Option.bind_some]
  rw [decBeth_enc h wf]
  simp only [Option.bind_some]
  rw [decTables_enc h wf]
  rfl

end Nifly.Wire
