import NiflyVerif.Wire.Bytes
/-
Model of the NIF header codec `NiHeader::Get` / `NiHeader::Put` (src/BasicTypes.cpp) for the versions
the loader accepts (file version > 3.1, no NDS, no embedded data block), and of the file layout
header ++ blocks ++ footer that `NifFile::Save` writes. This decoder shares no code with the library:
it is the "independent reader" of C03/C07.
-/
namespace Nifly.Wire

structure Header where
  verLine : Bytes                 -- text before the first '\n'
  file : Nat
  endian : Nat := 1               -- only stored for file >= 20.0.0.3
  user : Nat := 0                 -- only stored for file >= 10.0.1.8
  numBlocks : Nat
  stream : Nat := 0               -- Bethesda only
  creator : Bytes := []
  unkInt1 : Nat := 0              -- stream > 130
  export1 : Bytes := []
  export2 : Bytes := []
  export3 : Bytes := []           -- stream == 130
  types : List Bytes := []        -- file >= 5.0.0.1
  tidx : List Nat := []
  sizes : List Nat := []          -- file >= 20.2.0.5
  strings : List Bytes := []      -- file >= 20.1.0.1
  maxStrLen : Nat := 0
  groups : List Nat := []         -- file >= 5.0.0.6
  deriving Repr, DecidableEq

def V (a b c d : Nat) : Nat := a * 16777216 + b * 65536 + c * 256 + d

/-- `NiVersion::IsOB` -/
def isOB (file user : Nat) : Bool :=
  ((file == V 10 1 0 106 || file == V 10 2 0 0) && user ≥ 3 && user < 11) ||
  (file == V 20 0 0 4 && (user == 10 || user == 11)) || (file == V 20 0 0 5 && user == 11)

/-- `NiVersion::IsBethesda` -/
def isBethesda (file user : Nat) : Bool := (file == V 20 2 0 7 && user ≥ 11) || isOB file user

def hasEndian (file : Nat) : Bool := file ≥ V 20 0 0 3
def hasUser (file : Nat) : Bool := file ≥ V 10 0 1 8
def hasTypes (file : Nat) : Bool := file ≥ V 5 0 0 1
def hasSizes (file : Nat) : Bool := file ≥ V 20 2 0 5
def hasStrings (file : Nat) : Bool := file ≥ V 20 1 0 1
def hasGroups (file : Nat) : Bool := file ≥ V 5 0 0 6

def encBeth (h : Header) : Bytes :=
  leEncode 4 h.stream ++ (encStrNul h.creator ++ ((if h.stream > 130 then leEncode 4 h.unkInt1 else []) ++
    (encStrNul h.export1 ++ (encStrNul h.export2 ++ (if h.stream == 130 then encStrNul h.export3 else [])))))

def encTables (h : Header) : Bytes :=
  (if hasTypes h.file then
     leEncode 2 h.types.length ++ ((h.types.map (encStr 4)).flatten ++ (h.tidx.map (leEncode 2)).flatten) else []) ++
  ((if hasSizes h.file then (h.sizes.map (leEncode 4)).flatten else []) ++
  ((if hasStrings h.file then
     leEncode 4 h.strings.length ++ (leEncode 4 h.maxStrLen ++ (h.strings.map (encStr 4)).flatten) else []) ++
  (if hasGroups h.file then leEncode 4 h.groups.length ++ (h.groups.map (leEncode 4)).flatten else [])))

/-- `NiHeader::Put` -/
def encHeader (h : Header) : Bytes :=
  h.verLine ++ [10] ++ (leEncode 4 h.file ++
  ((if hasEndian h.file then leEncode 1 h.endian else []) ++
  ((if hasUser h.file then leEncode 4 h.user else []) ++
  (leEncode 4 h.numBlocks ++
  ((if isBethesda h.file h.user then encBeth h else []) ++ encTables h)))))

/-- the text line up to (not including) the first '\n' -/
def rdLine (inp : Bytes) : Option (Bytes × Bytes) :=
  let l := inp.takeWhile (· != 10)
  match inp.drop l.length with
  | _ :: r => some (l, r)
  | [] => none

def rdOpt (c : Bool) (p : Bytes → Option (α × Bytes)) (dflt : α) (inp : Bytes) : Option (α × Bytes) :=
  if c then p inp else some (dflt, inp)

/-- Bethesda export block (stream version, creator / export strings) -/
def decBeth (beth : Bool) (inp : Bytes) : Option ((Nat × Bytes × Nat × Bytes × Bytes × Bytes) × Bytes) :=
  (rdOpt beth (rdN 4) 0 inp).bind fun (stream, r) =>
  (rdOpt beth (rdStr 1) [] r).bind fun (creator, r) =>
  (rdOpt (beth && decide (stream > 130)) (rdN 4) 0 r).bind fun (unk, r) =>
  (rdOpt beth (rdStr 1) [] r).bind fun (e1, r) =>
  (rdOpt beth (rdStr 1) [] r).bind fun (e2, r) =>
  (rdOpt (beth && stream == 130) (rdStr 1) [] r).bind fun (e3, r) =>
  some ((stream, creator, unk, e1, e2, e3), r)

/-- type table (file >= 5.0.0.1): names and per-block type indices -/
def decTypes (file numBlocks : Nat) (inp : Bytes) : Option ((List Bytes × List Nat) × Bytes) :=
  (rdOpt (hasTypes file) (rdN 2) 0 inp).bind fun (nTypes, r) =>
  (rdOpt (hasTypes file) (rdList (rdStr 4) nTypes) [] r).bind fun (types, r) =>
  (rdOpt (hasTypes file) (rdList (rdN 2) numBlocks) [] r).bind fun (tidx, r) => some ((types, tidx), r)

/-- size table (file >= 20.2.0.5) -/
def decSizes (file numBlocks : Nat) (inp : Bytes) : Option (List Nat × Bytes) :=
  rdOpt (hasSizes file) (rdList (rdN 4) numBlocks) [] inp

/-- string table (file >= 20.1.0.1) -/
def decStrings (file : Nat) (inp : Bytes) : Option ((List Bytes × Nat) × Bytes) :=
  (rdOpt (hasStrings file) (rdN 4) 0 inp).bind fun (nStr, r) =>
  (rdOpt (hasStrings file) (rdN 4) 0 r).bind fun (mx, r) =>
  (rdOpt (hasStrings file) (rdList (rdStr 4) nStr) [] r).bind fun (strings, r) => some ((strings, mx), r)

/-- group sizes (file >= 5.0.0.6) -/
def decGroups (file : Nat) (inp : Bytes) : Option (List Nat × Bytes) :=
  (rdOpt (hasGroups file) (rdN 4) 0 inp).bind fun (n, r) => rdOpt (hasGroups file) (rdList (rdN 4) n) [] r

/-- type table, size table, string table, groups -/
def decTables (file numBlocks : Nat) (inp : Bytes) :
    Option ((List Bytes × List Nat × List Nat × List Bytes × Nat × List Nat) × Bytes) :=
  (decTypes file numBlocks inp).bind fun ((types, tidx), r) =>
  (decSizes file numBlocks r).bind fun (sizes, r) =>
  (decStrings file r).bind fun ((strings, maxStrLen), r) =>
  (decGroups file r).bind fun (groups, r) =>
  some ((types, tidx, sizes, strings, maxStrLen, groups), r)

/-- `NiHeader::Get` -/
def decHeader (inp : Bytes) : Option (Header × Bytes) :=
  (rdLine inp).bind fun (verLine, r) =>
  (rdN 4 r).bind fun (file, r) =>
  (rdOpt (hasEndian file) (rdN 1) 1 r).bind fun (endian, r) =>
  (rdOpt (hasUser file) (rdN 4) 0 r).bind fun (user, r) =>
  (rdN 4 r).bind fun (numBlocks, r) =>
  (decBeth (isBethesda file user) r).bind fun ((stream, creator, unkInt1, export1, export2, export3), r) =>
  (decTables file numBlocks r).bind fun ((types, tidx, sizes, strings, maxStrLen, groups), r) =>
  some ({ verLine, file, endian, user, numBlocks, stream, creator, unkInt1, export1, export2, export3,
          types, tidx, sizes, strings, maxStrLen, groups }, r)

/-! ### file layout -/

/-- footer written by `Save`: the two 32-bit words 1, 0 -/
def footer : Bytes := leEncode 4 1 ++ leEncode 4 0

/-- split the bytes after the header into blocks using the header's size table -/
def splitBlocks : List Nat → Bytes → Option (List Bytes × Bytes)
  | [], inp => some ([], inp)
  | s :: ss, inp => match rdBytes s inp with
    | none => none
    | some (b, r) => match splitBlocks ss r with
      | none => none
      | some (bs, r') => some (b :: bs, r')

/-- an independent reader that trusts only the header tables: decode the header, walk the size
table, and require that exactly the 8-byte footer is left -/
def walkFile (file : Bytes) : Option (Header × List Bytes) :=
  match decHeader file with
  | none => none
  | some (h, r) =>
    if !hasSizes h.file then none else
    match splitBlocks h.sizes r with
    | none => none
    | some (bs, rest) => if rest = footer then some (h, bs) else none

end Nifly.Wire
