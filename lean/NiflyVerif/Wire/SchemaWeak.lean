import NiflyVerif.Wire.Schema
/-
The weaker discipline that suffices for the *fixed point* direction (`bytes → store → bytes`): every location is synced at
most once on a path, and a condition or count only reads locations that may have been synced *before* it (so nothing
writes them afterwards).  Unlike `wf` it does not ask that the locations read were synced on every path, and it lets a
loop read the elements an earlier loop transferred.
-/
namespace Nifly.Schema
open Nifly.Wire

def exprOKw (d : Nat) (W : List SLoc) : Expr → Bool
  | .lit _ => true
  | .ver _ => true
  | .var id up => decide (up ≤ d) && W.contains (id, d - up)
  | .bin _ a b => exprOKw d W a && exprOKw d W b
  | .tbl e => exprOKw d W e

def wfw (d : Nat) : Stmt → List SLoc → Option (List SLoc)
  | .skip, W => some W
  | .sc _ id, W => if W.contains (id, d) then none else some ((id, d) :: W)
  | .seq a b, W => match wfw d a W with
    | none => none
    | some W1 => wfw d b W1
  | .ite c t e, W =>
    if exprOKw d W c then
      match wfw d t W, wfw d e W with
      | some Wt, some We => some (mergeW Wt We)
      | _, _ => none
    else none
  | .rep n body, W =>
    if exprOKw d W n then wfw (d + 1) body W else none

/-- `l` carries a static name of `W` and lies on the branch of the current stack: above it (an outer location the
expressions here can name) or below it (an element of an array some earlier loop transferred) -/
def frozen (W : List SLoc) (d : Nat) (stk : List Nat) (l : Loc) : Prop :=
  (l.1, l.2.length) ∈ W ∧
    ((l.2.length ≤ d ∧ l.2 = stk.drop (d - l.2.length)) ∨ (d ≤ l.2.length ∧ l.2.drop (l.2.length - d) = stk))

theorem eval_agree_w (ver : Nat → Nat) (d : Nat) (W : List SLoc) (stk : List Nat) (hd : stk.length = d) (s t : Store)
    (h : ∀ l, frozen W d stk l → s l = t l) (e : Expr) (he : exprOKw d W e = true) :
    e.eval ver s stk = e.eval ver t stk := by
  induction e with
  | lit n => rfl
  | ver k => rfl
  | var id up =>
    simp only [exprOKw, Bool.and_eq_true, decide_eq_true_eq, List.contains_eq_mem] at he
    simp only [Expr.eval]
    apply h
    refine ⟨?_, Or.inl ⟨?_, ?_⟩⟩
    · simp only [List.length_drop, hd]; simpa using he.2
    · simp only [List.length_drop, hd]; omega
    · simp only [List.length_drop, hd]
      congr 1
      omega
  | bin op a b iha ihb =>
    simp only [exprOKw, Bool.and_eq_true] at he
    simp only [Expr.eval, iha he.1, ihb he.2]
  | tbl e ih =>
    simp only [exprOKw] at he
    simp only [Expr.eval, ih he]

theorem wfw_static (d : Nat) (st : Stmt) : ∀ (W W' : List SLoc), wfw d st W = some W' →
    (∀ x ∈ W, x ∈ W') ∧ (∀ x ∈ W', x ∈ W ∨ d ≤ x.2) := by
  induction st generalizing d with
  | skip =>
    intro W W' h
    simp only [wfw, Option.some.injEq] at h
    subst h
    exact ⟨fun x h => h, fun x h => Or.inl h⟩
  | sc w id =>
    intro W W' h
    simp only [wfw] at h
    split at h
    · cases h
    · simp only [Option.some.injEq] at h
      subst h
      refine ⟨fun x h => List.mem_cons_of_mem _ h, ?_⟩
      intro x hx
      rcases List.mem_cons.1 hx with rfl | hx
      · exact Or.inr (Nat.le_refl _)
      · exact Or.inl hx
  | seq a b iha ihb =>
    intro W W' h
    simp only [wfw] at h
    split at h
    · cases h
    · next W1 h1 =>
      obtain ⟨a1, a2⟩ := iha d W W1 h1
      obtain ⟨b1, b2⟩ := ihb d W1 W' h
      refine ⟨fun x h => b1 x (a1 x h), ?_⟩
      intro x hx
      rcases b2 x hx with hx1 | h
      · exact a2 x hx1
      · exact Or.inr h
  | ite c t e iht ihe =>
    intro W W' h
    simp only [wfw] at h
    split at h
    · split at h
      · next Wt We ht he =>
        simp only [Option.some.injEq] at h
        subst h
        obtain ⟨t1, t2⟩ := iht d W Wt ht
        obtain ⟨_, e2⟩ := ihe d W We he
        refine ⟨fun x h => mem_mergeW_left _ _ _ (t1 x h), ?_⟩
        intro x hx
        rcases mem_mergeW _ _ _ hx with hx | hx
        · exact t2 x hx
        · exact e2 x hx
      · cases h
    · cases h
  | rep n body ih =>
    intro W W' h
    simp only [wfw] at h
    split at h
    · obtain ⟨b1, b2⟩ := ih (d + 1) W W' h
      refine ⟨b1, ?_⟩
      intro x hx
      rcases b2 x hx with h | h
      · exact Or.inl h
      · exact Or.inr (by omega)
    · cases h

theorem frozen_push (W : List SLoc) (d : Nat) (stk : List Nat) (j : Nat) (l : Loc)
    (h : frozen W (d + 1) (j :: stk) l) : frozen W d stk l := by
  obtain ⟨h1, h2⟩ := h
  refine ⟨h1, ?_⟩
  rcases h2 with ⟨ha, hb⟩ | ⟨ha, hb⟩
  · by_cases hle : l.2.length ≤ d
    · left
      refine ⟨hle, ?_⟩
      have : d + 1 - l.2.length = (d - l.2.length) + 1 := by omega
      exact hb.trans (by rw [this]; rfl)
    · right
      have hlen : l.2.length = d + 1 := by omega
      refine ⟨by omega, ?_⟩
      rw [hlen, Nat.sub_self, List.drop_zero] at hb
      have hl : (j :: stk).length = d + 1 := by rw [← hb]; exact hlen
      rw [hb, hl, show d + 1 - d = 1 by omega]
      rfl
  · right
    refine ⟨by omega, ?_⟩
    have : l.2.drop (l.2.length - d) = (l.2.drop (l.2.length - (d + 1))).drop 1 := by
      rw [List.drop_drop]; congr 1; omega
    rw [this, hb]; rfl

/-- new writes of a statement are `under` the stack; an entry of `W' \ W` that is frozen w.r.t. the stack is such a write -/
theorem frozen_new_under (W W' : List SLoc) (d : Nat) (stk : List Nat) (l : Loc)
    (hnew : ∀ x ∈ W', x ∈ W ∨ d ≤ x.2) (h : frozen W' d stk l) :
    frozen W d stk l ∨ (under W' d stk l ∧ (l.1, l.2.length) ∉ W) := by
  by_cases hw : (l.1, l.2.length) ∈ W
  · exact Or.inl ⟨hw, h.2⟩
  · right
    have hd : d ≤ l.2.length := by
      rcases hnew _ h.1 with h' | h'
      · exact absurd h' hw
      · exact h'
    refine ⟨⟨h.1, hd, ?_⟩, hw⟩
    rcases h.2 with ⟨ha, hb⟩ | ⟨_, hb⟩
    · have : l.2.length = d := by omega
      rw [this, Nat.sub_self, List.drop_zero]
      rw [hb, this, Nat.sub_self, List.drop_zero]
    · exact hb

def GoodW (ver : Nat → Nat) (st : Stmt) (d : Nat) : Prop :=
  ∀ (W W' : List SLoc) (stk : List Nat) (s0 : Store) (b : Bytes) (s1 : Store) (rest : Bytes),
    wfw d st W = some W' → stk.length = d → IsBytes b →
    rd ver st s0 stk b = some (s1, rest) →
      (∀ l, ¬ (under W' d stk l ∧ (l.1, l.2.length) ∉ W) → s1 l = s0 l) ∧
      (∀ sF : Store, (∀ l, frozen W d stk l ∨ (under W' d stk l ∧ (l.1, l.2.length) ∉ W) → sF l = s1 l) →
        wr ver st sF stk ++ rest = b) ∧
      IsBytes rest

theorem loop_goodW (ver : Nat → Nat) (body : Stmt) (d : Nat) (hbody : GoodW ver body (d + 1))
    (W Wb : List SLoc) (stk : List Nat) (hwf : wfw (d + 1) body W = some Wb) (hd : stk.length = d) :
    ∀ (k i : Nat) (s : Store) (b : Bytes) (s1 : Store) (rest : Bytes), IsBytes b →
      rdLoop (rd ver body) stk k i s b = some (s1, rest) →
      (∀ l, ¬ (∃ j, i ≤ j ∧ j < i + k ∧ under Wb (d + 1) (j :: stk) l ∧ (l.1, l.2.length) ∉ W) → s1 l = s l) ∧
      (∀ sF : Store, (∀ l, frozen W d stk l ∨
            (∃ j, i ≤ j ∧ j < i + k ∧ under Wb (d + 1) (j :: stk) l ∧ (l.1, l.2.length) ∉ W) → sF l = s1 l) →
        (List.range' i k).flatMap (fun j => wr ver body sF (j :: stk)) ++ rest = b) ∧
      IsBytes rest := by
  intro k
  induction k with
  | zero =>
    intro i s b s1 rest hb h
    simp only [rdLoop, Option.some.injEq, Prod.mk.injEq] at h
    obtain ⟨rfl, rfl⟩ := h
    exact ⟨fun _ _ => rfl, fun _ _ => by simp, hb⟩
  | succ k ih =>
    intro i s b s1 rest hb h
    simp only [rdLoop] at h
    split at h
    · cases h
    · next s' b' hstep =>
      obtain ⟨bf, bx, bb⟩ := hbody W Wb (i :: stk) s b s' b' hwf (by simp [hd]) hb hstep
      obtain ⟨tf, tx, tb⟩ := ih (i + 1) s' b' s1 rest bb h
      refine ⟨?_, ?_, tb⟩
      · intro l hl
        rw [tf l (fun ⟨j, h1, h2, h3⟩ => hl ⟨j, by omega, by omega, h3⟩)]
        exact bf l (fun h3 => hl ⟨i, Nat.le_refl _, by omega, h3⟩)
      · intro sF hF
        rw [List.range'_succ, List.flatMap_cons, List.append_assoc]
        rw [tx sF (fun l hl => hF l (by
          rcases hl with h | ⟨j, h1, h2, h3⟩
          · exact Or.inl h
          · exact Or.inr ⟨j, by omega, by omega, h3⟩))]
        apply bx sF
        intro l hl
        have hs1 : s1 l = s' l := by
          apply tf
          rintro ⟨j, h1, _, h3, h4⟩
          rcases hl with hfx | ⟨hu, _⟩
          · exact h4 hfx.1
          · have := under_top Wb d stk i j l hu h3
            omega
        rw [← hs1]
        apply hF
        rcases hl with hfx | hu
        · exact Or.inl (frozen_push W d stk i l hfx)
        · exact Or.inr ⟨i, Nat.le_refl _, by omega, hu⟩

theorem all_goodW (ver : Nat → Nat) (st : Stmt) : ∀ d, GoodW ver st d := by
  induction st with
  | skip =>
    intro d W W' stk s0 b s1 rest hwf _ hb hrd
    simp only [rd, Option.some.injEq, Prod.mk.injEq] at hrd
    obtain ⟨rfl, rfl⟩ := hrd
    exact ⟨fun _ _ => rfl, fun _ _ => by simp [wr], hb⟩
  | sc w id =>
    intro d W W' stk s0 b s1 rest hwf hd hb hrd
    simp only [wfw] at hwf
    split at hwf
    · cases hwf
    · next hc =>
      simp only [Option.some.injEq] at hwf
      subst hwf
      have hc' : (id, d) ∉ W := by simpa using hc
      simp only [rd] at hrd
      split at hrd
      · cases hrd
      · next v r hv =>
        simp only [Option.some.injEq, Prod.mk.injEq] at hrd
        obtain ⟨rfl, rfl⟩ := hrd
        obtain ⟨henc, hrest⟩ := rdN_spec w b v r hb hv
        have hl : under ((id, d) :: W) d stk (id, stk) ∧ ((id, stk).1, (id, stk).2.length) ∉ W := by
          refine ⟨⟨by simp [hd], by simp [hd], by simp [hd]⟩, by simpa [hd] using hc'⟩
        refine ⟨?_, ?_, hrest⟩
        · intro l hl'
          simp only [Store.set]
          rw [if_neg]
          intro e
          exact hl' (e ▸ hl)
        · intro sF hF
          simp only [wr]
          rw [hF (id, stk) (Or.inr hl)]
          simp only [Store.set, if_true]
          exact henc
  | seq a b iha ihb =>
    intro d W W' stk s0 inp s1 rest hwf hd hb hrd
    simp only [wfw] at hwf
    split at hwf
    · cases hwf
    · next W1 h1 =>
      simp only [rd] at hrd
      split at hrd
      · cases hrd
      · next sm bm hra =>
        obtain ⟨a1, a2⟩ := wfw_static d a W W1 h1
        obtain ⟨b1, _⟩ := wfw_static d b W1 W' hwf
        obtain ⟨af, ax, ab⟩ := iha d W W1 stk s0 inp sm bm h1 hd hb hra
        obtain ⟨bf, bx, bb⟩ := ihb d W1 W' stk sm bm s1 rest hwf hd ab hrd
        refine ⟨?_, ?_, bb⟩
        · intro l hl
          rw [bf l (fun ⟨hu, hn⟩ => hl ⟨hu, fun hw => hn (a1 _ hw)⟩)]
          exact af l (fun ⟨hu, hn⟩ => hl ⟨under_mono W1 W' d stk l b1 hu, hn⟩)
        · intro sF hF
          simp only [wr, List.append_assoc]
          rw [bx sF ?_]
          · apply ax sF
            intro l hl
            have hs : s1 l = sm l := by
              apply bf
              rintro ⟨_, hn⟩
              rcases hl with h | h
              · exact hn (a1 _ h.1)
              · exact hn h.1.1
            rw [← hs]
            apply hF
            rcases hl with h | h
            · exact Or.inl h
            · exact Or.inr ⟨under_mono W1 W' d stk l b1 h.1, h.2⟩
          · intro l hl
            apply hF
            rcases hl with h | h
            · rcases frozen_new_under W W1 d stk l a2 h with h' | h'
              · exact Or.inl h'
              · exact Or.inr ⟨under_mono W1 W' d stk l b1 h'.1, h'.2⟩
            · exact Or.inr ⟨h.1, fun hw => h.2 (a1 _ hw)⟩
  | ite c t e iht ihe =>
    intro d W W' stk s0 inp s1 rest hwf hd hb hrd
    simp only [wfw] at hwf
    split at hwf
    · next hc =>
      split at hwf
      · next Wt We ht he =>
        simp only [Option.some.injEq] at hwf
        subst hwf
        simp only [rd] at hrd
        have hcond : ∀ sF : Store, (∀ l, frozen W d stk l → sF l = s0 l) → c.eval ver sF stk = c.eval ver s0 stk :=
          fun sF h => eval_agree_w ver d W stk hd sF s0 h c hc
        by_cases hcv : c.eval ver s0 stk ≠ 0
        · rw [if_pos hcv] at hrd
          obtain ⟨tf, tx, tb⟩ := iht d W Wt stk s0 inp s1 rest ht hd hb hrd
          have hsub : ∀ x ∈ Wt, x ∈ mergeW Wt We := fun x h => mem_mergeW_left _ _ _ h
          refine ⟨?_, ?_, tb⟩
          · intro l hl
            exact tf l (fun ⟨hu, hn⟩ => hl ⟨under_mono Wt _ d stk l hsub hu, hn⟩)
          · intro sF hF
            have hfix : ∀ l, frozen W d stk l → sF l = s0 l := by
              intro l hl
              rw [hF l (Or.inl hl)]
              exact tf l (fun ⟨_, hn⟩ => hn hl.1)
            simp only [wr]
            rw [if_pos (by rw [hcond sF hfix]; exact hcv)]
            apply tx sF
            intro l hl
            apply hF
            rcases hl with h | h
            · exact Or.inl h
            · exact Or.inr ⟨under_mono Wt _ d stk l hsub h.1, h.2⟩
        · rw [if_neg hcv] at hrd
          obtain ⟨ef, ex, eb⟩ := ihe d W We stk s0 inp s1 rest he hd hb hrd
          have hsub : ∀ x ∈ We, x ∈ mergeW Wt We := fun x h => mem_mergeW_right _ _ _ h
          refine ⟨?_, ?_, eb⟩
          · intro l hl
            exact ef l (fun ⟨hu, hn⟩ => hl ⟨under_mono We _ d stk l hsub hu, hn⟩)
          · intro sF hF
            have hfix : ∀ l, frozen W d stk l → sF l = s0 l := by
              intro l hl
              rw [hF l (Or.inl hl)]
              exact ef l (fun ⟨_, hn⟩ => hn hl.1)
            simp only [wr]
            rw [if_neg (by rw [hcond sF hfix]; exact hcv)]
            apply ex sF
            intro l hl
            apply hF
            rcases hl with h | h
            · exact Or.inl h
            · exact Or.inr ⟨under_mono We _ d stk l hsub h.1, h.2⟩
      · cases hwf
    · cases hwf
  | rep n body ih =>
    intro d W W' stk s0 inp s1 rest hwf hd hb hrd
    simp only [wfw] at hwf
    split at hwf
    · next hn =>
      simp only [rd] at hrd
      obtain ⟨lf, lx, lb⟩ := loop_goodW ver body d (ih (d + 1)) W W' stk hwf hd
        (n.eval ver s0 stk) 0 s0 inp s1 rest hb hrd
      refine ⟨?_, ?_, lb⟩
      · intro l hl
        apply lf
        rintro ⟨j, _, _, hu, hnw⟩
        exact hl ⟨under_pop W' d stk j l hd hu, hnw⟩
      · intro sF hF
        have hfix : ∀ l, frozen W d stk l → sF l = s0 l := by
          intro l hl
          rw [hF l (Or.inl hl)]
          apply lf
          rintro ⟨j, _, _, _, hnw⟩
          exact hnw hl.1
        simp only [wr]
        rw [eval_agree_w ver d W stk hd sF s0 hfix n hn, List.range_eq_range']
        apply lx sF
        intro l hl
        apply hF
        rcases hl with h | ⟨j, _, _, hu, hnw⟩
        · exact Or.inl h
        · exact Or.inr ⟨under_pop W' d stk j l hd hu, hnw⟩
    · cases hwf

/-- **Fixed point under the weak discipline**: single assignment and "conditions and counts only read what may have been
transferred before them" are enough for re-encoding to reproduce the bytes. -/
theorem wr_rd_weak (ver : Nat → Nat) (st : Stmt) (W' : List SLoc) (s0 : Store) (b : Bytes) (s1 : Store) (rest : Bytes)
    (hwf : wfw 0 st [] = some W') (hb : IsBytes b) (hrd : rd ver st s0 [] b = some (s1, rest)) :
    wr ver st s1 [] ++ rest = b :=
  (all_goodW ver st 0 [] W' [] s0 b s1 rest hwf rfl hb hrd).2.1 s1 (fun _ _ => rfl)

end Nifly.Schema
