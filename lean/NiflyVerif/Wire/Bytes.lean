/-
Byte strings, little-endian integers and the primitive read/write pairs of the NIF wire format
(NiIStream::operator>> / NiOStream::operator<<, NiString::Read/Write). Bytes are `Nat`s < 256.
-/
namespace Nifly.Wire

abbrev Bytes := List Nat

def IsBytes (b : Bytes) : Prop := ∀ x ∈ b, x < 256

/-- little-endian encoding of `n` in `w` bytes (the low `w` bytes of `n`) -/
def leEncode : Nat → Nat → Bytes
  | 0, _ => []
  | w + 1, n => (n % 256) :: leEncode w (n / 256)

/-- little-endian value of a byte string -/
def leDecode : Bytes → Nat
  | [] => 0
  | b :: bs => b + 256 * leDecode bs

theorem leEncode_length (w n : Nat) : (leEncode w n).length = w := by
  induction w generalizing n with
  | zero => rfl
  | succ w ih => simp [leEncode, ih]

theorem leEncode_isBytes (w n : Nat) : IsBytes (leEncode w n) := by
  induction w generalizing n with
  | zero => intro x hx; simp [leEncode] at hx
  | succ w ih =>
    intro x hx
    simp only [leEncode, List.mem_cons] at hx
    rcases hx with h | h
    · subst h; exact Nat.mod_lt _ (by decide)
    · exact ih _ x h

theorem leDecode_leEncode (w n : Nat) (h : n < 256 ^ w) : leDecode (leEncode w n) = n := by
  induction w generalizing n with
  | zero => simp at h; subst h; rfl
  | succ w ih =>
    simp only [leEncode, leDecode]
    have : n / 256 < 256 ^ w := by
      rw [Nat.div_lt_iff_lt_mul (by decide)]; rw [Nat.pow_succ] at h; exact h
    rw [ih _ this]
    omega

theorem leDecode_lt (b : Bytes) (hb : IsBytes b) : leDecode b < 256 ^ b.length := by
  induction b with
  | nil => simp [leDecode]
  | cons x xs ih =>
    have hx : x < 256 := hb x (by simp)
    have := ih (fun y hy => hb y (by simp [hy]))
    simp only [leDecode, List.length_cons, Nat.pow_succ]
    omega

theorem leEncode_leDecode (b : Bytes) (hb : IsBytes b) : leEncode b.length (leDecode b) = b := by
  induction b with
  | nil => rfl
  | cons x xs ih =>
    have hx : x < 256 := hb x (by simp)
    have ih' := ih (fun y hy => hb y (by simp [hy]))
    simp only [List.length_cons, leEncode, leDecode]
    have h1 : (x + 256 * leDecode xs) % 256 = x := by omega
    have h2 : (x + 256 * leDecode xs) / 256 = leDecode xs := by omega
    rw [h1, h2, ih']

/-- **C16 core**: a little-endian integer read across a truncation point (the iostream copies the
bytes that exist, the rest of the zero-initialised variable stays zero) never exceeds the value the
full file holds. -/
theorem leDecode_take_le (b : Bytes) (k : Nat) : leDecode (b.take k) ≤ leDecode b := by
  induction b generalizing k with
  | nil => simp [leDecode]
  | cons x xs ih =>
    cases k with
    | zero => simp [leDecode]
    | succ k => simp only [List.take_succ_cons, leDecode]; have := ih k; omega

/-! ### reader: `Bytes → Option (value × rest)`; `none` = the input ends early -/

def rdN (w : Nat) (inp : Bytes) : Option (Nat × Bytes) :=
  if inp.length < w then none else some (leDecode (inp.take w), inp.drop w)

theorem rdN_enc (w n : Nat) (h : n < 256 ^ w) (rest : Bytes) : rdN w (leEncode w n ++ rest) = some (n, rest) := by
  unfold rdN
  have hl := leEncode_length w n
  simp only [List.length_append, hl]
  have : ¬ (w + rest.length < w) := by omega
  simp only [this, if_false]
  rw [List.take_left' hl, List.drop_left' hl, leDecode_leEncode w n h]

/-- raw bytes -/
def rdBytes (k : Nat) (inp : Bytes) : Option (Bytes × Bytes) :=
  if inp.length < k then none else some (inp.take k, inp.drop k)

theorem rdBytes_enc (b rest : Bytes) : rdBytes b.length (b ++ rest) = some (b, rest) := by
  unfold rdBytes
  simp only [List.length_append]
  have : ¬ (b.length + rest.length < b.length) := by omega
  simp [this]

/-- `NiString::Write(stream, szSize)` without null output: `szSize`-byte length, then the text -/
def encStr (szw : Nat) (s : Bytes) : Bytes := leEncode szw s.length ++ s

/-- `NiString::Read(stream, szSize)`: the text is cut at the first NUL (`str = buf.get()`) -/
def cutNul (s : Bytes) : Bytes := s.takeWhile (· != 0)

def rdStr (szw : Nat) (inp : Bytes) : Option (Bytes × Bytes) :=
  match rdN szw inp with
  | none => none
  | some (n, r) => match rdBytes n r with
    | none => none
    | some (s, r') => some (cutNul s, r')

theorem takeWhile_all (p : Nat → Bool) (s : Bytes) (h : ∀ x ∈ s, p x = true) : s.takeWhile p = s := by
  induction s with
  | nil => rfl
  | cons a l ih =>
    simp only [List.takeWhile_cons, h a (by simp), if_true]
    rw [ih (fun x hx => h x (by simp [hx]))]

theorem cutNul_id (s : Bytes) (h : ∀ x ∈ s, x ≠ 0) : cutNul s = s :=
  takeWhile_all _ s (fun x hx => by simpa using h x hx)

theorem rdStr_enc (szw : Nat) (s rest : Bytes) (hl : s.length < 256 ^ szw) (hn : ∀ x ∈ s, x ≠ 0) :
    rdStr szw (encStr szw s ++ rest) = some (s, rest) := by
  unfold rdStr encStr
  rw [List.append_assoc, rdN_enc szw s.length hl]
  simp only [rdBytes_enc, cutNul_id s hn]

/-- `NiString::Write(stream, 1)` with `nullOutput` (header export strings): the length byte counts the
trailing NUL, which is written after the text -/
def encStrNul (s : Bytes) : Bytes := leEncode 1 (s.length + 1) ++ s ++ [0]

theorem rdStr_encNul (s rest : Bytes) (hl : s.length + 1 < 256) (hn : ∀ x ∈ s, x ≠ 0) :
    rdStr 1 (encStrNul s ++ rest) = some (s, rest) := by
  unfold rdStr encStrNul
  rw [List.append_assoc, List.append_assoc, rdN_enc 1 (s.length + 1) (by simpa using hl)]
  have : rdBytes (s.length + 1) (s ++ ([0] ++ rest)) = some (s ++ [0], rest) := by
    have := rdBytes_enc (s ++ [0]) rest
    simpa using this
  simp only [this]
  congr 2
  unfold cutNul
  rw [List.takeWhile_append]
  have h1 : s.takeWhile (· != 0) = s := takeWhile_all _ s (fun x hx => by simpa using hn x hx)
  simp [h1]

/-- a list of `k` items read by `p` -/
def rdList (p : Bytes → Option (α × Bytes)) : Nat → Bytes → Option (List α × Bytes)
  | 0, inp => some ([], inp)
  | k + 1, inp => match p inp with
    | none => none
    | some (a, r) => match rdList p k r with
      | none => none
      | some (as, r') => some (a :: as, r')

theorem rdList_enc (p : Bytes → Option (α × Bytes)) (enc : α → Bytes) (ok : α → Prop)
    (h : ∀ a rest, ok a → p (enc a ++ rest) = some (a, rest)) (l : List α) (hl : ∀ a ∈ l, ok a) (rest : Bytes) :
    rdList p l.length ((l.map enc).flatten ++ rest) = some (l, rest) := by
  induction l with
  | nil => rfl
  | cons a as ih =>
    simp only [List.length_cons, List.map_cons, List.flatten_cons, List.append_assoc, rdList]
    rw [h a _ (hl a (by simp))]
    simp only [ih (fun b hb => hl b (by simp [hb]))]

end Nifly.Wire
