import NiflyVerif.TexPath
/-! Helper lemmas for C19 (property theorems are in `Props/C19.lean`). -/
namespace Nifly.TexPath

/-- no forward slash and no two adjacent backslashes -/
def okSep : Str → Bool
  | [] => true
  | [c] => c != 47
  | a :: b :: r => a != 47 && !(a == 92 && b == 92) && okSep (b :: r)

theorem okSep_tail {a : Nat} {l : Str} (h : okSep (a :: l) = true) : okSep l = true := by
  cases l with
  | nil => rfl
  | cons b r => simp only [okSep, Bool.and_eq_true] at h; exact h.2

theorem okSep_cons {a : Nat} {l : Str} (h : okSep l = true) (ha : a ≠ 47) (hh : a = 92 → l.head? ≠ some 92) :
    okSep (a :: l) = true := by
  cases l with
  | nil => simp [okSep, ha]
  | cons b r =>
    simp only [okSep, Bool.and_eq_true, h, and_true]
    refine ⟨by simpa using ha, ?_⟩
    by_cases h92 : a = 92
    · have := hh h92; simp at this; simp [h92, this]
    · simp [h92]

theorem collapse_head (s : Str) : ∀ c, (collapse s).head? = some c → c ≠ 47 := by
  intro c
  cases s with
  | nil => simp [collapse]
  | cons a cs =>
    simp only [collapse]
    split
    · split <;> (simp; intro h; omega)
    · rename_i hs
      simp only [List.head?_cons, Option.some.injEq]
      intro h; subst h
      simp [isSep] at hs; omega

theorem okSep_collapse (s : Str) : okSep (collapse s) = true := by
  induction s with
  | nil => rfl
  | cons a cs ih =>
    simp only [collapse]
    split
    · split
      · rename_i r heq
        rw [heq] at ih
        exact ih
      · rename_i r hne
        apply okSep_cons ih (by omega)
        intro _ hh
        cases hc : collapse cs with
        | nil => simp [hc] at hh
        | cons x xs => rw [hc] at hh; simp at hh; subst hh; exact hne xs hc
    · rename_i hs
      apply okSep_cons ih
      · simp [isSep] at hs; omega
      · intro h; simp [isSep, h] at hs

theorem collapse_of_okSep (s : Str) (h : okSep s = true) : collapse s = s := by
  induction s with
  | nil => rfl
  | cons a cs ih =>
    have ht := okSep_tail h
    simp only [collapse, ih ht]
    by_cases hs : isSep a = true
    · simp only [hs, if_true]
      cases cs with
      | nil =>
        simp [okSep] at h; simp [isSep] at hs
        have : a = 92 := by omega
        subst this; rfl
      | cons b r =>
        simp only [okSep, Bool.and_eq_true] at h
        simp [isSep] at hs
        have h47 := h.1.1; simp at h47
        have ha : a = 92 := by omega
        subst ha
        have hb : b ≠ 92 := by have := h.1.2; simpa using this
        split
        · rename_i r' heq
          simp at heq; exact absurd heq.1 hb
        · rfl
    · simp [hs]

theorem okSep_drop (s : Str) (n : Nat) (h : okSep s = true) : okSep (s.drop n) = true := by
  induction n generalizing s with
  | zero => simpa
  | succ n ih =>
    cases s with
    | nil => rfl
    | cons a l => simpa using ih l (okSep_tail h)

theorem okSep_dropWhile (p : Nat → Bool) (s : Str) (h : okSep s = true) : okSep (s.dropWhile p) = true := by
  induction s with
  | nil => rfl
  | cons a l ih =>
    simp only [List.dropWhile_cons]
    split
    · exact ih (okSep_tail h)
    · exact h

theorem cutFirst_suffix (s r : Str) (h : cutFirst s = some r) : ∃ n, r = s.drop n := by
  induction s with
  | nil => simp [cutFirst] at h
  | cons c cs ih =>
    simp only [cutFirst] at h
    split at h
    · exact ⟨bsTexturesBs.length, by simpa using h.symm⟩
    · split at h
      · simp at h
      · obtain ⟨n, hn⟩ := ih h
        exact ⟨n + 1, by simpa using hn⟩

theorem startsWithCI_head {s p : Str} {a : Nat} (h : startsWithCI s (a :: p) = true) :
    ∃ c cs, s = c :: cs ∧ lower c = lower a := by
  cases s with
  | nil => simp [startsWithCI] at h
  | cons c cs =>
    simp only [startsWithCI, Bool.and_eq_true, beq_iff_eq] at h
    exact ⟨c, cs, rfl, h.1⟩

theorem startsWithCI_append (p t : Str) : startsWithCI (p ++ t) p = true := by
  induction p with
  | nil => cases t <;> rfl
  | cons a p ih => simp [startsWithCI, ih]

/-! ### last element bookkeeping -/

def lastOk (s : Str) : Prop := ∀ c, s.getLast? = some c → isSpace c = false

theorem lastOk_drop (s : Str) (n : Nat) (h : lastOk s) : lastOk (s.drop n) := by
  intro c hc
  by_cases hn : n < s.length
  · rw [List.getLast?_drop] at hc
    simp only [show ¬ s.length ≤ n by omega, if_false] at hc
    exact h c hc
  · rw [List.drop_of_length_le (by omega)] at hc; simp at hc

theorem dropWhile_eq_drop (p : Nat → Bool) (s : Str) : ∃ n, s.dropWhile p = s.drop n := by
  induction s with
  | nil => exact ⟨0, rfl⟩
  | cons a l ih =>
    simp only [List.dropWhile_cons]
    split
    · obtain ⟨n, hn⟩ := ih; exact ⟨n + 1, by simpa using hn⟩
    · exact ⟨0, rfl⟩

theorem collapse_ne_nil (s : Str) (h : s ≠ []) : collapse s ≠ [] := by
  cases s with
  | nil => exact absurd rfl h
  | cons a cs =>
    simp only [collapse]
    split
    · split <;> simp
    · simp

theorem collapse_getLast (s : Str) (h : lastOk s) : lastOk (collapse s) := by
  induction s with
  | nil => exact h
  | cons a cs ih =>
    intro c hc
    by_cases hcs : cs = []
    · subst hcs
      simp only [collapse] at hc
      split at hc
      · simp at hc; subst hc; decide
      · simp at hc; subst hc; exact h a (by simp)
    · have hl : lastOk cs := by
        intro d hd
        apply h d
        rw [List.getLast?_cons_of_ne_nil hcs]; exact hd
      have hne := collapse_ne_nil cs hcs
      have ih' := ih hl
      simp only [collapse] at hc
      split at hc
      · split at hc
        · rename_i r heq
          rw [heq] at ih'
          exact ih' c hc
        · rename_i r _
          rw [List.getLast?_cons_of_ne_nil hne] at hc
          exact ih' c hc
      · rw [List.getLast?_cons_of_ne_nil hne] at hc
        exact ih' c hc

theorem trim_props (s : Str) : (∀ c, (trim s).head? = some c → isSpace c = false) ∧ lastOk (trim s) := by
  unfold trim
  constructor
  · intro c hc
    rw [List.head?_reverse] at hc
    -- the head of the trimmed string is an element the first dropWhile stopped at, or we never get there
    generalize hd : s.dropWhile isSpace = d at hc
    have hhead : ∀ x, d.head? = some x → isSpace x = false := by
      intro x hx
      rw [← hd] at hx
      have := List.head?_dropWhile_not isSpace s
      rw [hx] at this
      simpa using this
    -- dropping from the reversed end keeps the head unless everything is dropped
    obtain ⟨n, hn⟩ := dropWhile_eq_drop isSpace d.reverse
    rw [hn] at hc
    rw [List.getLast?_drop] at hc
    split at hc
    · simp at hc
    · rw [List.getLast?_reverse] at hc
      exact hhead c hc
  · intro c hc
    rw [List.getLast?_reverse] at hc
    have := List.head?_dropWhile_not isSpace (s.dropWhile isSpace).reverse
    rw [hc] at this
    simpa using this

theorem trim_id (s : Str) (hh : ∀ c, s.head? = some c → isSpace c = false) (hl : lastOk s) : trim s = s := by
  unfold trim
  have h1 : s.dropWhile isSpace = s := by
    cases s with
    | nil => rfl
    | cons a l => have := hh a rfl; simp [List.dropWhile_cons, this]
  rw [h1]
  have h2 : s.reverse.dropWhile isSpace = s.reverse := by
    cases hr : s.reverse with
    | nil => rfl
    | cons a l =>
      have : s.getLast? = some a := by rw [← List.head?_reverse, hr]; rfl
      have := hl a this
      simp [List.dropWhile_cons, this]
  rw [h2, List.reverse_reverse]

end Nifly.TexPath
