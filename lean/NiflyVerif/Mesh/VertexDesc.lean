/-
C13 — `VertexDesc` (include/VertexData.hpp), `BSTriShape::CalcDataSizes` and the per-vertex byte layout of
`BSTriShape::Sync` (src/Geometry.cpp).
-/
namespace Nifly.Mesh

/-! ### the 64-bit descriptor (as a `Nat` below 2^64) -/
def mask64 : Nat := 2 ^ 64 - 1
def convert (flag : Nat) : Nat := (flag <<< 44) &&& mask64
def setFlag (d flag : Nat) : Nat := d ||| convert flag
def removeFlag (d flag : Nat) : Nat := d &&& (mask64 ^^^ convert flag)
def hasFlag (d flag : Nat) : Bool := ((d >>> 44) &&& flag) != 0
def getFlags (d : Nat) : Nat := (d &&& 0xFFFFFF0000000000) >>> 44 &&& 0xFFFF
def setSize (d size : Nat) : Nat := (d &&& 0xFFFFFFFFFFFFFFF0) ||| (size >>> 2)
def getAttributeOffset (d attr : Nat) : Nat := (d >>> (4 * attr + 2)) &&& 0x3C
def setAttributeOffset (d attr offset : Nat) : Nat :=
  if attr = 0 then d else ((offset <<< (4 * attr + 2)) &&& mask64) ||| (d &&& (mask64 ^^^ (15 <<< (4 * attr + 4))))
def clearAttributeOffsets (d : Nat) : Nat := d &&& 0xFFFFFF0000000000

/-- the nine single-bit vertex flags and the full-precision flag -/
def allFlags : List Nat := [1, 2, 4, 8, 16, 32, 64, 128, 256, 0x400]

/-! ### sizes -/
structure VF where
  vertex : Bool
  uv : Bool
  uv2 : Bool
  normal : Bool
  tangent : Bool
  colors : Bool
  skinned : Bool
  eye : Bool
  fullPrec : Bool        -- `IsFullPrecision() || stream == 100`
  deriving DecidableEq, Repr

/-- `CalcDataSizes`: attribute sizes in 4-byte units, in attribute order -/
def attrSizes (f : VF) : List Nat :=
  [ if f.vertex then (if f.fullPrec then 4 else 2) else 0,   -- VA_POSITION
    if f.uv then 1 else 0,                                    -- VA_TEXCOORD0
    if f.uv2 then 1 else 0,                                   -- VA_TEXCOORD1
    if f.normal then 1 else 0,                                -- VA_NORMAL
    if f.normal && f.tangent then 1 else 0,                   -- VA_BINORMAL
    if f.colors then 1 else 0,                                -- VA_COLOR
    if f.skinned then 3 else 0,                               -- VA_SKINNING
    0,                                                        -- VA_LANDDATA
    if f.eye then 1 else 0 ]                                  -- VA_EYEDATA

def vertexSize (f : VF) : Nat := 4 * (attrSizes f).sum

/-- bytes `BSTriShape::Sync` transfers per vertex (no extra floats) -/
def bytesPerVertex (f : VF) : Nat :=
  (if f.vertex then (if f.fullPrec then 16 else 8) else 0) + (if f.uv then 4 else 0) +
  (if f.normal then 4 + (if f.tangent then 4 else 0) else 0) + (if f.colors then 4 else 0) +
  (if f.skinned then 12 else 0) + (if f.eye then 4 else 0)

/-- `dataSize = vertexSize * numVertices + 6 * numTriangles` -/
def dataSize (f : VF) (nv nt : Nat) : Nat := vertexSize f * nv + 6 * nt

def allVF : List VF :=
  let b := [false, true]
  b.flatMap fun v => b.flatMap fun u => b.flatMap fun u2 => b.flatMap fun n => b.flatMap fun t =>
  b.flatMap fun c => b.flatMap fun s => b.flatMap fun e => b.map fun fp => ⟨v, u, u2, n, t, c, s, e, fp⟩

end Nifly.Mesh
