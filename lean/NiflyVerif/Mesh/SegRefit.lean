/-
C09 / C17 — model of the segment re-fit of `BSSubIndexTriShape::notifyVerticesDelete` (src/Geometry.cpp): after the
triangles that used a deleted vertex are gone (`deletedTris`, the indices of the removed triangles in the old list,
sorted in descending order by `BSTriShape::notifyVerticesDelete`), every segment and sub-segment loses the removed
triangles that lay in its range, and the ranges are made contiguous again.

Ranges are in triangle units here (`startIndex / 3`); the re-alignment multiplies by 3 again.
-/
namespace Nifly.SegRefit

/-- `for (auto& id : deletedTris) if (n > 0 && id >= s && id < s + n) n--;` -/
def shrink (s n : Nat) (ids : List Nat) : Nat :=
  ids.foldl (fun n id => if 0 < n ∧ s ≤ id ∧ id < s + n then n - 1 else n) n

/-- how many of `ids` lie in `[s, s + n)` -/
def inRange (s n : Nat) (ids : List Nat) : Nat := (ids.filter fun id => decide (s ≤ id ∧ id < s + n)).length

structure Sub where
  start : Nat        -- `startIndex` (index units = 3 × triangle)
  n : Nat            -- `numPrimitives`
  deriving DecidableEq, Repr, Inhabited

structure Seg where
  start : Nat
  n : Nat
  subs : List Sub
  deriving DecidableEq, Repr, Inhabited

def shrinkSub (ids : List Nat) (s : Sub) : Sub := { s with n := shrink (s.start / 3) s.n ids }

def shrinkSeg (ids : List Nat) (g : Seg) : Seg :=
  { g with n := shrink (g.start / 3) g.n ids, subs := g.subs.map (shrinkSub ids) }

/-- `nextSubSegment.startIndex = subSegment.startIndex + subSegment.numPrimitives * 3` along the list -/
def alignSubs (start : Nat) : List Sub → List Sub
  | [] => []
  | s :: ss => { s with start := start } :: alignSubs (start + s.n * 3) ss

def subTotal (ss : List Sub) : Nat := (ss.map (·.n)).sum

/-- the segment's own triangles come first, then its sub-segments one after the other -/
def alignSeg (start : Nat) (g : Seg) : Seg :=
  let tot := subTotal g.subs
  { g with start := start,
           subs := alignSubs (if g.n > tot then start + (g.n - tot) * 3 else start) g.subs }

def alignSegs (start : Nat) : List Seg → List Seg
  | [] => []
  | g :: gs => alignSeg start g :: alignSegs (start + g.n * 3) gs

/-- the whole re-fit; the first segment keeps its start -/
def refit (segs : List Seg) (ids : List Nat) : List Seg :=
  match segs with
  | [] => []
  | g :: _ => alignSegs g.start (segs.map (shrinkSeg ids))

/-! ### counting -/

theorem inRange_nil (s n : Nat) : inRange s n [] = 0 := rfl

theorem inRange_cons (s n a : Nat) (ids : List Nat) :
    inRange s n (a :: ids) = (if s ≤ a ∧ a < s + n then 1 else 0) + inRange s n ids := by
  unfold inRange
  by_cases h : s ≤ a ∧ a < s + n
  · simp [h]; omega
  · simp [h]

/-- counting in adjacent ranges adds up -/
theorem inRange_split (s a b : Nat) (ids : List Nat) :
    inRange s (a + b) ids = inRange s a ids + inRange (s + a) b ids := by
  induction ids with
  | nil => rfl
  | cons x xs ih =>
    rw [inRange_cons, inRange_cons, inRange_cons, ih]
    by_cases h1 : s ≤ x ∧ x < s + a
    · have h2 : s ≤ x ∧ x < s + (a + b) := by omega
      have h3 : ¬ (s + a ≤ x ∧ x < s + a + b) := by omega
      rw [if_pos h1, if_pos h2, if_neg h3]; omega
    · by_cases h3 : s + a ≤ x ∧ x < s + a + b
      · have h2 : s ≤ x ∧ x < s + (a + b) := by omega
        rw [if_neg h1, if_pos h2, if_pos h3]; omega
      · have h2 : ¬ (s ≤ x ∧ x < s + (a + b)) := by omega
        rw [if_neg h1, if_neg h2, if_neg h3]; omega

theorem inRange_all (T : Nat) (ids : List Nat) (h : ∀ x ∈ ids, x < T) : inRange 0 T ids = ids.length := by
  unfold inRange
  rw [List.filter_eq_self.2]
  intro x hx
  have := h x hx
  simp; omega

/-- a range that contains none of the later ids can be widened or narrowed freely above them -/
theorem inRange_below (s n m a : Nat) (ids : List Nat) (hlt : ∀ x ∈ ids, x < a) (hn : a ≤ s + n) (hm : a ≤ s + m) :
    inRange s n ids = inRange s m ids := by
  unfold inRange
  congr 1
  apply List.filter_congr
  intro x hx
  have := hlt x hx
  simp only [decide_eq_decide]
  omega

/-- **The decrement loop counts exactly the removed triangles of the range** when the ids come in strictly descending
order (the order `BSTriShape::notifyVerticesDelete` sorts them into): nothing is counted twice and nothing is missed,
although the bound the loop tests against shrinks while it runs. -/
theorem shrink_add (s : Nat) (ids : List Nat) (hd : ids.Pairwise (· > ·)) :
    ∀ n, shrink s n ids + inRange s n ids = n := by
  induction ids with
  | nil => intro n; simp [shrink, inRange]
  | cons a ids ih =>
    intro n
    have hlt : ∀ x ∈ ids, x < a := fun x hx => (List.pairwise_cons.1 hd).1 x hx
    have ih' := ih (List.pairwise_cons.1 hd).2
    rw [inRange_cons]
    by_cases h : s ≤ a ∧ a < s + n
    · have hc : 0 < n ∧ s ≤ a ∧ a < s + n := by omega
      have hstep : shrink s n (a :: ids) = shrink s (n - 1) ids := by
        simp only [shrink, List.foldl_cons, hc, and_self, if_true]
      rw [hstep, if_pos h]
      have hsame : inRange s n ids = inRange s (n - 1) ids :=
        inRange_below s n (n - 1) a ids hlt (by omega) (by omega)
      rw [hsame]
      have := ih' (n - 1)
      omega
    · have hc : ¬ (0 < n ∧ s ≤ a ∧ a < s + n) := by omega
      have hstep : shrink s n (a :: ids) = shrink s n ids := by
        simp only [shrink, List.foldl_cons, hc, if_false]
      rw [hstep, if_neg h]
      have := ih' n
      omega

theorem shrink_le (s n : Nat) (ids : List Nat) : shrink s n ids ≤ n := by
  induction ids generalizing n with
  | nil => simp [shrink]
  | cons a ids ih =>
    simp only [shrink, List.foldl_cons]
    split
    · exact Nat.le_trans (ih (n - 1)) (Nat.sub_le n 1)
    · exact ih n

/-! ### alignment -/

/-- ranges follow one another without gap or overlap, starting at `start` (index units) -/
def SubsContig : Nat → List Sub → Prop
  | _, [] => True
  | start, s :: ss => s.start = start ∧ SubsContig (start + s.n * 3) ss

def SegsContig : Nat → List Seg → Prop
  | _, [] => True
  | start, g :: gs => g.start = start ∧ SegsContig (start + g.n * 3) gs

theorem alignSubs_contig (start : Nat) (ss : List Sub) : SubsContig start (alignSubs start ss) := by
  induction ss generalizing start with
  | nil => trivial
  | cons s ss ih => exact ⟨rfl, ih _⟩

theorem alignSubs_n (start : Nat) (ss : List Sub) : (alignSubs start ss).map (·.n) = ss.map (·.n) := by
  induction ss generalizing start with
  | nil => rfl
  | cons s ss ih => simp [alignSubs, ih]

theorem alignSegs_contig (start : Nat) (gs : List Seg) : SegsContig start (alignSegs start gs) := by
  induction gs generalizing start with
  | nil => trivial
  | cons g gs ih => exact ⟨rfl, ih _⟩

theorem alignSegs_n (start : Nat) (gs : List Seg) : (alignSegs start gs).map (·.n) = gs.map (·.n) := by
  induction gs generalizing start with
  | nil => rfl
  | cons g gs ih => simp [alignSegs, alignSeg, ih]

/-- segments tile `[t, …)` in triangle units: each starts (in index units) at 3 × the running triangle offset -/
def Tiles : Nat → List Seg → Prop
  | _, [] => True
  | t, g :: gs => g.start = 3 * t ∧ Tiles (t + g.n) gs

def total (gs : List Seg) : Nat := (gs.map (·.n)).sum

/-- what the decrement loops remove from a tiling is what lies in the tiled interval -/
theorem shrink_total (ids : List Nat) (hd : ids.Pairwise (· > ·)) (gs : List Seg) (t : Nat) (ht : Tiles t gs) :
    total (gs.map (shrinkSeg ids)) + inRange t (total gs) ids = total gs := by
  induction gs generalizing t with
  | nil => simp [total, inRange]
  | cons g gs ih =>
    obtain ⟨hs, hrest⟩ := ht
    have h1 := shrink_add (g.start / 3) ids hd g.n
    have hst : g.start / 3 = t := by omega
    rw [hst] at h1
    have h2 := ih (t + g.n) hrest
    have hsplit := inRange_split t g.n (total gs) ids
    simp only [total, List.map_cons, List.sum_cons, shrinkSeg] at *
    rw [hst]
    omega

end Nifly.SegRefit
