import NiflyVerif.Util.IndexOps
/-
C10 — skin partition bookkeeping of src/Skin.cpp: `GenerateTrueTrianglesFromTriParts`,
`GenerateVertexMapFromTrueTriangles`, `GenerateMappedTrianglesFromTrueTrianglesAndVertexMap`,
`GenerateTrueTrianglesFromMappedTriangles`, `Triangle::rot`.
-/
namespace Nifly.Mesh
open Nifly.Util

/-- `Triangle::rot`: rotate so that the smallest index comes first (orientation kept) -/
def rot (t : Tri) : Tri :=
  if t.p2 < t.p1 ∧ t.p2 < t.p3 then ⟨t.p2, t.p3, t.p1⟩
  else if t.p3 < t.p1 then ⟨t.p3, t.p1, t.p2⟩ else t

/-- `GenerateTrueTrianglesFromTriParts`: partition `p` receives, in order, the shape triangles labelled `p`;
labels that are negative or ≥ the partition count put the triangle nowhere -/
def trueFromTriParts (nparts : Nat) (tris : List Tri) (labels : List Int) : List (List Tri) :=
  (List.range nparts).map fun (p : Nat) => ((tris.zip labels).filter fun tl => tl.2 == (p : Int)).map (·.1)

/-- `GenerateVertexMapFromTrueTriangles`: the used vertices in ascending order -/
def vertexMapOf (tris : List Tri) : List Nat :=
  (List.range (maxTriIndex tris + 1)).filter fun v => tris.any fun t => t.p1 == v || t.p2 == v || t.p3 == v

/-- `GenerateMappedTrianglesFromTrueTrianglesAndVertexMap` -/
def mappedFromTrue (vmap : List Nat) (tris : List Tri) : List Tri :=
  let inv : List Int := (List.range (vmap.getLastD 0 + 1)).map fun v => ((vmap.idxOf v : Nat) : Int)
  -- slots of vertices that are not in the map stay 0 in the C++ (zero-initialised); idxOf gives vmap.length there,
  -- which never matters for triangles whose corners are all in the map
  ((applyMap inv tris).1).map rot

/-- `GenerateTrueTrianglesFromMappedTriangles` -/
def trueFromMapped (vmap : List Nat) (tris : List Tri) : List Tri :=
  ((applyMap (vmap.map fun (v : Nat) => (v : Int)) tris).1).map rot

end Nifly.Mesh
