import NiflyVerif.Mesh.DeleteLemmas
import NiflyVerif.Props.C18
/-
C09 — model of `NiSkinPartition::notifyVerticesDelete` (src/Skin.cpp) on one partition, composed from the index
utilities of C18: the positions of the partition's vertex map whose vertex is deleted are collected
(`vertexMapDelList`), erased from the vertex map and from the per-partition-vertex arrays (weights, bone indices), the
remaining vertex map is composed with the collapse map of the shape's vertices, and the triangles are re-indexed —
true triangles (SSE, unmapped) through the shape's collapse map, mapped triangles (LE/OB) through the collapse map of
the positions of the vertex map.
-/
namespace Nifly.Mesh
open Nifly.Util

structure SkinPart (β : Type) where
  vmap : List Nat        -- `vertexMap`
  weights : List β       -- `vertexWeights` / `boneIndices`: one opaque entry per partition vertex
  tris : List Tri        -- `triangles` (indices into `vmap` when mapped, shape vertex indices otherwise)
  deriving Repr

/-- `for (i …) if (indexCollapse[vertexMap[i]] == -1) vertexMapDelList.push_back(i);` -/
def delFrom (P : α → Bool) : Nat → List α → List Nat
  | _, [] => []
  | si, v :: vs => if P v then si :: delFrom P (si + 1) vs else delFrom P (si + 1) vs

def deleted (cm : List Int) (v : Nat) : Bool := cm[v]? == some (-1)

def deletePart (mapped : Bool) (mapSize : Nat) (idx : List Nat) (p : SkinPart β) : SkinPart β :=
  let cm := collapseMap idx mapSize
  let del := delFrom (deleted cm) 0 p.vmap
  { vmap := (erase p.vmap del).map fun v => castU16 (cm.getD v 0),
    weights := erase p.weights del,
    tris := if mapped then (applyMap (collapseMap del p.vmap.length) p.tris).1 else (applyMap cm p.tris).1 }

/-! ### the deletion list -/

theorem delFrom_ge (P : α → Bool) (si : Nat) (xs : List α) : ∀ j ∈ delFrom P si xs, si ≤ j := by
  induction xs generalizing si with
  | nil => intro j hj; simp [delFrom] at hj
  | cons v vs ih =>
    intro j hj
    simp only [delFrom] at hj
    split at hj
    · rcases List.mem_cons.1 hj with rfl | h
      · exact Nat.le_refl _
      · have := ih (si + 1) j h; omega
    · have := ih (si + 1) j hj; omega

theorem delFrom_asc (P : α → Bool) (si : Nat) (xs : List α) : Asc (delFrom P si xs) := by
  induction xs generalizing si with
  | nil => simp [delFrom, Asc]
  | cons v vs ih =>
    simp only [delFrom]
    split
    · refine List.pairwise_cons.2 ⟨?_, ih (si + 1)⟩
      intro j hj
      have := delFrom_ge P (si + 1) vs j hj
      omega
    · exact ih (si + 1)

/-- erasing the collected positions keeps exactly the entries that do not satisfy the predicate — for the list the
positions were collected from and for any array that runs parallel to it -/
theorem eraseSpecFrom_delFrom (P : α → Bool) (xs : List α) (ys : List γ) (hl : xs.length = ys.length) :
    ∀ (si : Nat) (L : List Nat), (∀ j, si ≤ j → (j ∈ L ↔ j ∈ delFrom P si xs)) →
      eraseSpecFrom si ys L = ((xs.zip ys).filter fun p => !P p.1).map (·.2) := by
  induction xs generalizing ys with
  | nil =>
    intro si L _
    have : ys = [] := List.length_eq_zero_iff.1 hl.symm
    subst this
    simp [eraseSpecFrom]
  | cons v vs ih =>
    intro si L hL
    cases ys with
    | nil => simp at hl
    | cons y ys =>
      have hl' : vs.length = ys.length := by simpa using hl
      have htail : ∀ j, si + 1 ≤ j → (j ∈ L ↔ j ∈ delFrom P (si + 1) vs) := by
        intro j hj
        rw [hL j (by omega)]
        simp only [delFrom]
        split
        · constructor
          · intro h
            rcases List.mem_cons.1 h with rfl | h
            · omega
            · exact h
          · exact fun h => List.mem_cons_of_mem _ h
        · rfl
      have hhead : si ∈ L ↔ P v = true := by
        rw [hL si (Nat.le_refl _)]
        simp only [delFrom]
        split
        · rename_i hp; simp [hp]
        · rename_i hp
          constructor
          · intro h; have := delFrom_ge P (si + 1) vs si h; omega
          · intro h; exact absurd h hp
      simp only [eraseSpecFrom, List.zip_cons_cons, List.filter_cons]
      by_cases hp : P v = true
      · rw [if_pos (hhead.2 hp)]
        simp only [hp, Bool.not_true, Bool.false_eq_true, if_false]
        exact ih ys hl' (si + 1) L htail
      · have hn : si ∉ L := fun h => hp (hhead.1 h)
        rw [if_neg hn]
        have : (!P v) = true := by simpa using hp
        simp only [this, if_true, List.map_cons]
        rw [ih ys hl' (si + 1) L htail]

theorem erase_delFrom (P : α → Bool) (xs : List α) (ys : List γ) (hl : xs.length = ys.length) :
    erase ys (delFrom P 0 xs) = ((xs.zip ys).filter fun p => !P p.1).map (·.2) := by
  rw [erase_eq_spec ys _ (delFrom_asc P 0 xs)]
  exact eraseSpecFrom_delFrom P xs ys hl 0 _ (fun _ _ => Iff.rfl)

theorem erase_delFrom_self (P : α → Bool) (xs : List α) :
    erase xs (delFrom P 0 xs) = xs.filter fun v => !P v := by
  rw [erase_delFrom P xs xs rfl]
  induction xs with
  | nil => rfl
  | cons v vs ih =>
    simp only [List.zip_cons_cons, List.filter_cons]
    by_cases hp : P v = true
    · simp only [hp, Bool.not_true, Bool.false_eq_true, if_false]; exact ih
    · have : (!P v) = true := by simpa using hp
      simp only [this, if_true, List.map_cons, ih]

end Nifly.Mesh
