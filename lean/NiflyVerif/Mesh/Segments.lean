/-
C17 — FO4 segmentation: `BSSubIndexTriShape::SetSegmentation` / `GetSegmentation` (src/Geometry.cpp).
A segmentation info is a list of segments `(partID, [sub partIDs])`; `labels` gives one label per triangle
(`-1` = unassigned).
-/
namespace Nifly.Mesh

abbrev SegInfo := List (Nat × List Nat)

/-- partition ids in the order `SetSegmentation` numbers them: segment, its sub-segments, next segment, … -/
def preorder (inf : SegInfo) : List Nat := inf.flatMap fun s => s.1 :: s.2

/-- `oldToNewPartIDs[label]`; an unassigned triangle (-1) keeps the zero-initialised value 0.
`none` = the label does not occur in `inf` (the C++ indexes `oldToNewPartIDs` out of range or reads a slot that was
never assigned) -/
def relabel1 (inf : SegInfo) (l : Int) : Option Nat :=
  if l < 0 then some 0 else
    let i := (preorder inf).idxOf l.toNat
    if i < (preorder inf).length then some i else none

def relabel (inf : SegInfo) (labels : List Int) : Option (List Nat) := labels.mapM (relabel1 inf)

/-- number of triangles with a (new) label below `p` = index of the first triangle of partition `p` after sorting -/
def cntLess (labels : List Nat) (p : Nat) : Nat := (labels.filter (· < p)).length
def cntEq (labels : List Nat) (p : Nat) : Nat := (labels.filter (· == p)).length

/-- stable sort of the triangle indices by label: bucket after bucket, original order inside a bucket -/
def sortedIndices (labels : List Nat) (nparts : Nat) : List Nat :=
  (List.range nparts).flatMap fun p => (List.range labels.length).filter fun i => labels.getD i 0 == p

structure Seg where
  start : Nat            -- startIndex (in triangle points, i.e. 3 × first triangle)
  num : Nat              -- numPrimitives
  subs : List (Nat × Nat)  -- (startIndex, numPrimitives) of the sub-segments
  deriving Repr, DecidableEq

/-- the segment table built by `SetSegmentation` from the new labels -/
def buildSegs (labels : List Nat) : SegInfo → Nat → List Seg
  | [], _ => []
  | (_, subs) :: rest, base =>
    let c := subs.length
    { start := 3 * cntLess labels base,
      num := cntLess labels (base + c + 1) - cntLess labels base,
      subs := (List.range c).map fun j => (3 * cntLess labels (base + 1 + j), cntEq labels (base + 1 + j)) }
      :: buildSegs labels rest (base + c + 1)

/-- `SetSegmentation`: (order in which the old triangles are stored, segment table); `none` = label outside `inf` -/
def setSegmentation (inf : SegInfo) (labels : List Int) : Option (List Nat × List Seg) :=
  match relabel inf labels with
  | none => none
  | some l => some (sortedIndices l (preorder inf).length, buildSegs l inf 0)

/-- `GetSegmentation`: paint every segment's range with its id, then every sub-segment's range with its id -/
def paint (a : List Int) (start num : Nat) (v : Int) : List Int :=
  a.mapIdx fun i x => if start ≤ i ∧ i < start + num then v else x

def getLabels (segs : List Seg) (nt : Nat) : List Int :=
  let rec go (segs : List Seg) (pid : Nat) (a : List Int) : List Int :=
    match segs with
    | [] => a
    | s :: rest =>
      let a := paint a (s.start / 3) s.num pid
      let r := s.subs.foldl (fun (st : List Int × Nat) sub => (paint st.1 (sub.1 / 3) sub.2 st.2, st.2 + 1)) (a, pid + 1)
      go rest r.2 r.1
  go segs 0 (List.replicate nt (-1))

end Nifly.Mesh
