import NiflyVerif.Util.IndexLemmas
/-
C09 — vertex deletion on a triangle-list shape (`BSTriShape::notifyVerticesDelete`,
`NiGeometryData`/`NiTriShapeData::notifyVerticesDelete`, the per-bone weight lists of `NiSkinData` and the
LOCKEDNORM list in `DeleteVertsForShape`), composed from the index utilities of C18.
-/
namespace Nifly.Mesh
open Nifly.Util

/-- result of deleting the vertices `idx` from a shape with `nv` vertices and triangle list `tris`:
(surviving old vertex ids in their new order, new triangle list, positions of the removed triangles) -/
def deleteVerts (nv : Nat) (tris : List Tri) (idx : List Nat) : List Nat × List Tri × List Nat :=
  let surv := erase (List.range nv) idx
  let cm := collapseMap idx nv
  let r := applyMap cm tris
  (surv, r.1, r.2)

/-- a per-vertex attribute array after the deletion -/
def deleteAttr (a : List α) (idx : List Nat) : List α := erase a idx

/-- `NiSkinData::notifyVerticesDelete` on one bone's (vertex, weight) list: entries of deleted vertices are
dropped, the others re-indexed through the collapse map (`mapSize = highest deleted + 1`; larger indices shift
down by the number of deleted vertices) -/
def deleteWeights (w : List (Nat × β)) (idx : List Nat) : List (Nat × β) :=
  match idx.getLast? with
  | none => w
  | some hi =>
    let cm := collapseMap idx (hi + 1)
    w.filterMap fun (v, x) =>
      if v > hi then some (v - idx.length, x)
      else match cm[v]? with
        | some c => if c < 0 then none else some (c.toNat, x)
        | none => some (v, x)

end Nifly.Mesh
