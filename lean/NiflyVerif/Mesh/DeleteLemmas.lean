import NiflyVerif.Mesh.Delete
/-! Helper lemmas for C09 -/
namespace Nifly.Mesh
open Nifly.Util

/-- a strictly ascending list of naturals within `[a, b)` has at most `b - a` elements -/
theorem asc_length_le (l : List Nat) (a b : Nat) (hasc : Asc l) (h : ∀ x ∈ l, a ≤ x ∧ x < b) : l.length ≤ b - a := by
  induction l generalizing a with
  | nil => simp
  | cons x xs ih =>
    have hx := h x (by simp)
    have hlt : ∀ y ∈ xs, x < y := (List.pairwise_cons.mp hasc).1
    have := ih (x + 1) (List.pairwise_cons.mp hasc).2 (fun y hy => ⟨hlt y hy, (h y (by simp [hy])).2⟩)
    simp only [List.length_cons]
    omega

/-- rank of a surviving position among the survivors -/
def rank (idx : List Nat) (p : Nat) : Nat := p - (idx.filter (· < p)).length

theorem filter_split_length (idx : List Nat) (p : Nat) (hp : p ∉ idx) :
    (idx.filter (· < p)).length + (idx.filter (p < ·)).length = idx.length := by
  induction idx with
  | nil => rfl
  | cons a l ih =>
    have hne : a ≠ p := fun h => hp (by simp [h])
    have := ih (fun h => hp (by simp [h]))
    simp only [List.filter_cons, List.length_cons]
    by_cases h1 : a < p
    · have h2 : ¬ (p < a) := by omega
      simp [h1, h2]; omega
    · have h2 : p < a := by omega
      simp [h1, h2]; omega

/-- **the new index of a survivor is in range**: with `k` distinct deleted positions below `nv`, a surviving
position `p < nv` gets an index below `nv - k` -/
theorem rank_lt (idx : List Nat) (nv p : Nat) (hasc : Asc idx) (hin : ∀ i ∈ idx, i < nv) (hp : p < nv) (hn : p ∉ idx) :
    rank idx p < nv - idx.length ∧ idx.length < nv + 1 := by
  have hsplit := filter_split_length idx p hn
  have hgt : (idx.filter (p < ·)).length ≤ nv - (p + 1) := by
    apply asc_length_le _ (p + 1) nv (hasc.filter _)
    intro x hx
    have := List.mem_filter.mp hx
    have h2 := hin x this.1
    simp at this; omega
  have hlt : (idx.filter (· < p)).length ≤ p - 0 := by
    apply asc_length_le _ 0 p (hasc.filter _)
    intro x hx
    have := List.mem_filter.mp hx
    simp at this; omega
  unfold rank
  omega

theorem collapseSpec_get (idx : List Nat) (n p : Nat) (hp : p < n) :
    (collapseSpec idx n)[p]? = some (if p ∈ idx then (-1 : Int) else ((rank idx p : Nat) : Int)) := by
  unfold collapseSpec rank
  rw [List.getElem?_map, List.getElem?_range hp]
  rfl

theorem collapseSpec_get_none (idx : List Nat) (n p : Nat) (hp : n ≤ p) : (collapseSpec idx n)[p]? = none := by
  unfold collapseSpec
  rw [List.getElem?_map, List.getElem?_eq_none (by simpa using hp)]
  rfl

theorem eraseSpecFrom_range (s n : Nat) (idx : List Nat) :
    eraseSpecFrom s (List.range' s n) idx = (List.range' s n).filter (fun i => !decide (i ∈ idx)) := by
  induction n generalizing s with
  | zero => rfl
  | succ n ih =>
    simp only [List.range'_succ, eraseSpecFrom, List.filter_cons]
    by_cases h : s ∈ idx
    · simp [h, ih]
    · simp [h, ih]

end Nifly.Mesh
