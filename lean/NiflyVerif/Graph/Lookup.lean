/-
C15 — the two mechanisms that are meant to absorb damaged references:

* `NiHeader::GetBlock<T>(ref)` (include/BasicTypes.hpp:1027-1089): range check, then `dynamic_cast<T*>`;
* traversals that carry a visited set (`GetTree`, `SetSortIndices`, `SortCollision`'s in-progress set,
  `GetNodeTransformToGlobal` after its repair): a block index is expanded only the first time it is met.

`visit` is the common shape of those traversals: a work list of block indices, each either out of range / already
visited (dropped) or new (marked, then its references are pushed).  Its termination is proved by Lean's termination
checker from the lexicographic measure (blocks still allowed to be marked, work list length) — for *every* reference
function `kids`, cyclic or not.
-/
namespace Nifly.Lookup

structure Blk where
  ty : Nat
  refs : List (Option Nat)
  deriving DecidableEq, Repr

/-- `GetBlock<T>(index)`: `isT` is the set of dynamic types `dynamic_cast<T*>` accepts; `none` = NIF_NPOS -/
def getBlock (blocks : List Blk) (isT : Nat → Bool) (r : Option Nat) : Option Blk :=
  r.bind fun i => (blocks[i]?).filter fun b => isT b.ty

theorem getBlock_some (blocks : List Blk) (isT) (r) (b : Blk) (h : getBlock blocks isT r = some b) :
    ∃ i, r = some i ∧ i < blocks.length ∧ blocks[i]? = some b ∧ isT b.ty = true := by
  unfold getBlock at h
  cases r with
  | none => simp at h
  | some i =>
    simp only [Option.bind_some] at h
    cases hb : blocks[i]? with
    | none => rw [hb] at h; simp at h
    | some b' =>
      rw [hb] at h
      simp only [Option.filter_some] at h
      split at h
      · next ht =>
        cases h
        have hi : i < blocks.length := by
          rcases Nat.lt_or_ge i blocks.length with h | h
          · exact h
          · rw [List.getElem?_eq_none h] at hb; cases hb
        exact ⟨i, rfl, hi, hb, ht⟩
      · cases h

/-- damaged references are answered with "no block": empty, out of range, or a block of the wrong type -/
theorem getBlock_none_of_bad (blocks : List Blk) (isT) (r : Option Nat)
    (h : r = none ∨ (∃ i, r = some i ∧ blocks.length ≤ i) ∨ (∃ i b, r = some i ∧ blocks[i]? = some b ∧ isT b.ty = false)) :
    getBlock blocks isT r = none := by
  unfold getBlock
  rcases h with rfl | ⟨i, rfl, hi⟩ | ⟨i, b, rfl, hb, ht⟩
  · rfl
  · simp [List.getElem?_eq_none hi]
  · simp [hb, ht]

/-- visited-set traversal; `budget` = how many more blocks may be marked (the callers start with the block count) -/
def visit (kids : Nat → List Nat) (n : Nat) : Nat → List Nat → List Nat → List Nat
  | _, [], vis => vis
  | 0, _ :: _, vis => vis
  | budget + 1, x :: st, vis =>
    if x < n ∧ x ∉ vis then visit kids n budget (kids x ++ st) (vis ++ [x])
    else visit kids n (budget + 1) st vis
termination_by budget st _ => (budget, st.length)

/-- each block is expanded at most once -/
theorem visit_nodup (kids : Nat → List Nat) (n budget : Nat) (st vis : List Nat) (h : vis.Nodup) :
    (visit kids n budget st vis).Nodup := by
  fun_induction visit kids n budget st vis with
  | case1 => exact h
  | case2 => exact h
  | case3 budget x st vis hx ih =>
    apply ih
    rw [List.nodup_append]
    refine ⟨h, by simp, ?_⟩
    intro a ha b hb
    simp only [List.mem_singleton] at hb
    subst hb
    intro e
    exact hx.2 (e ▸ ha)
  | case4 budget x st vis hx ih => exact ih h

/-- only blocks that exist are ever expanded -/
theorem visit_bounded (kids : Nat → List Nat) (n budget : Nat) (st vis : List Nat) (h : ∀ v ∈ vis, v < n) :
    ∀ v ∈ visit kids n budget st vis, v < n := by
  fun_induction visit kids n budget st vis with
  | case1 => exact h
  | case2 => exact h
  | case3 budget x st vis hx ih =>
    apply ih
    intro v hv
    rcases List.mem_append.1 hv with hv | hv
    · exact h v hv
    · simp only [List.mem_singleton] at hv
      subst hv
      exact hx.1
  | case4 budget x st vis hx ih => exact ih h

/-- what was visited stays visited, in order -/
theorem visit_prefix (kids : Nat → List Nat) (n budget : Nat) (st vis : List Nat) :
    ∃ t, visit kids n budget st vis = vis ++ t := by
  fun_induction visit kids n budget st vis with
  | case1 => exact ⟨[], by simp⟩
  | case2 => exact ⟨[], by simp⟩
  | case3 budget x st vis hx ih =>
    obtain ⟨t, ht⟩ := ih
    exact ⟨x :: t, by rw [ht]; simp⟩
  | case4 budget x st vis hx ih => exact ih

end Nifly.Lookup
