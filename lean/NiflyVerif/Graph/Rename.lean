/-
C12 — model of `NifFile::RenameDuplicateShapes` (src/NifFile.cpp:2287-2346) for one parent node whose children are
all shapes: the first shape is skipped; every later shape whose name occurs more than once among the siblings is
renamed to `name ++ "_" ++ counter`, the counter being advanced until *no* sibling carries the candidate.

`renameAbs` abstracts the candidate search to any function returning a name not among the siblings; `renameExact`
is the executable model with the library's counter discipline (strings), used for the differential run.
-/
namespace Nifly.Rename

/-- abstract version over any type of names: `fresh sibs x` is a name that no sibling currently has -/
def renameFrom [DecidableEq α] (fresh : List α → α → α) : List α → List α → List α
  | before, [] => before
  | before, x :: rest =>
    if (before ++ x :: rest).count x > 1 then renameFrom fresh (before ++ [fresh (before ++ x :: rest) x]) rest
    else renameFrom fresh (before ++ [x]) rest

def renameAbs [DecidableEq α] (fresh : List α → α → α) : List α → List α
  | [] => []
  | first :: rest => renameFrom fresh [first] rest

theorem renameFrom_nodup [DecidableEq α] (fresh : List α → α → α) (hf : ∀ l x, fresh l x ∉ l)
    (before rest : List α) (hb : before.Nodup) : (renameFrom fresh before rest).Nodup := by
  induction rest generalizing before with
  | nil => exact hb
  | cons x rest ih =>
    unfold renameFrom
    split
    · apply ih
      rw [List.nodup_append]
      refine ⟨hb, by simp, ?_⟩
      intro a ha b hb'
      simp only [List.mem_singleton] at hb'
      subst hb'
      intro e
      exact hf (before ++ x :: rest) x (by rw [← e]; exact List.mem_append_left _ ha)
    · next hc =>
      apply ih
      rw [List.nodup_append]
      refine ⟨hb, by simp, ?_⟩
      intro a ha b hb'
      simp only [List.mem_singleton] at hb'
      subst hb'
      intro e
      subst e
      -- `a` occurs in `before` and at its own position: at least twice
      apply hc
      rw [List.count_append]
      have h1 : 0 < before.count a := List.count_pos_iff.2 ha
      have h2 : 0 < (a :: rest).count a := List.count_pos_iff.2 (by simp)
      omega

/-- **Sibling shapes end up with pairwise distinct names**, whatever the names were. -/
theorem renameAbs_nodup [DecidableEq α] (fresh : List α → α → α) (hf : ∀ l x, fresh l x ∉ l) (l : List α) :
    (renameAbs fresh l).Nodup := by
  cases l with
  | nil => exact List.nodup_nil
  | cons a l => exact renameFrom_nodup fresh hf [a] l (by simp)

theorem renameFrom_length [DecidableEq α] (fresh : List α → α → α) (before rest : List α) :
    (renameFrom fresh before rest).length = before.length + rest.length := by
  induction rest generalizing before with
  | nil => simp [renameFrom]
  | cons x rest ih =>
    unfold renameFrom
    split <;> (rw [ih]; simp; omega)

/-- names that were unique are left alone -/
theorem renameFrom_id_of_nodup [DecidableEq α] (fresh : List α → α → α) (before rest : List α)
    (h : (before ++ rest).Nodup) : renameFrom fresh before rest = before ++ rest := by
  induction rest generalizing before with
  | nil => simp [renameFrom]
  | cons x rest ih =>
    unfold renameFrom
    have hc : (before ++ x :: rest).count x ≤ 1 := List.nodup_iff_count.1 h x
    rw [if_neg (by omega)]
    rw [ih (before ++ [x]) (by simpa using h)]
    simp

theorem renameAbs_id_of_nodup [DecidableEq α] (fresh : List α → α → α) (l : List α) (h : l.Nodup) :
    renameAbs fresh l = l := by
  cases l with
  | nil => rfl
  | cons a l => exact renameFrom_id_of_nodup fresh [a] l h

/-! ### executable model with the library's counter discipline -/

/-- first counter `k ≥ start` (within `fuel` tries) for which `accept (name ++ "_" ++ k)` -/
def search (accept : String → Bool) (name : String) : Nat → Nat → Option Nat
  | 0, _ => none
  | fuel + 1, k => if accept (name ++ "_" ++ toString k) then some k else search accept name fuel (k + 1)

/-- `strict = true`: a candidate is accepted when no sibling has it (the repaired code); `false`: when at most one has
it (the code before the repair) -/
def renameExactFrom (strict : Bool) : Nat → List String → List String → List String
  | _, before, [] => before
  | dupCount, before, x :: rest =>
    let sibs := before ++ x :: rest
    if x ≠ "" ∧ sibs.count x > 1 then
      match search (fun c => if strict then sibs.count c == 0 else sibs.count c ≤ 1) x (sibs.length + 2) dupCount with
      | some k => renameExactFrom strict (k + 1) (before ++ [x ++ "_" ++ toString k]) rest
      | none => renameExactFrom strict dupCount (before ++ [x]) rest
    else renameExactFrom strict dupCount (before ++ [x]) rest

def renameExact (strict : Bool) : List String → List String
  | [] => []
  | first :: rest => renameExactFrom strict 1 [first] rest

end Nifly.Rename
