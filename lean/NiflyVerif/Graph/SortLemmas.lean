import NiflyVerif.Graph.Sort
/-! Helper lemmas for C04 -/
namespace Nifly.Graph

theorem assign_prefix (v : Visited) (i : Nat) : v <+: assign v i := by
  unfold assign; split
  · exact List.prefix_refl _
  · exact List.prefix_append _ _

theorem assign_nodup (v : Visited) (i : Nat) (h : v.Nodup) : (assign v i).Nodup := by
  unfold assign; split
  · exact h
  · rename_i hi
    exact List.nodup_append.mpr ⟨h, by simp, by
      intro a ha c hc; simp at hc; subst hc; intro he; subst he; exact hi ha⟩

theorem mem_assign (v : Visited) (i j : Nat) : j ∈ assign v i ↔ j ∈ v ∨ j = i := by
  unfold assign; split
  · rename_i hi
    constructor
    · exact fun h => Or.inl h
    · rintro (h | h)
      · exact h
      · subst h; exact hi
  · simp

theorem foldl_assign_nodup (l : List Nat) (v : Visited) (h : v.Nodup) : (l.foldl assign v).Nodup := by
  induction l generalizing v with
  | nil => exact h
  | cons a l ih => exact ih _ (assign_nodup v a h)

theorem mem_foldl_assign (l : List Nat) (v : Visited) (j : Nat) : j ∈ l.foldl assign v ↔ j ∈ v ∨ j ∈ l := by
  induction l generalizing v with
  | nil => simp
  | cons a l ih =>
    simp only [List.foldl_cons, ih, mem_assign, List.mem_cons]
    constructor
    · rintro ((h | h) | h)
      · exact Or.inl h
      · exact Or.inr (Or.inl h)
      · exact Or.inr (Or.inr h)
    · rintro (h | h | h)
      · exact Or.inl (Or.inl h)
      · exact Or.inl (Or.inr h)
      · exact Or.inr h

theorem foldl_assign_prefix (l : List Nat) (v : Visited) : v <+: l.foldl assign v := by
  induction l generalizing v with
  | nil => exact List.prefix_refl _
  | cons a l ih => exact List.IsPrefix.trans (assign_prefix v a) (ih _)

/-- positions in a duplicate-free list enumerate `0 .. length-1` -/
theorem map_idxOf_self (v : List Nat) (h : v.Nodup) : v.map (fun i => v.idxOf i) = List.range v.length := by
  apply List.ext_getElem
  · simp
  · intro k h1 h2
    simp only [List.getElem_map, List.getElem_range]
    exact h.idxOf_getElem k (by simpa using h1)

theorem mem_applyShapeOrder (shapes order : List Nat) (j : Nat) : j ∈ applyShapeOrder shapes order ↔ j ∈ shapes := by
  unfold applyShapeOrder
  split
  · rename_i h
    exact (List.isPerm_iff.mp h).mem_iff
  · exact Iff.rfl

theorem count_applyShapeOrder (shapes order : List Nat) (j : Nat) :
    (applyShapeOrder shapes order).count j = shapes.count j := by
  unfold applyShapeOrder
  split
  · rename_i h
    exact (List.isPerm_iff.mp h).count_eq j
  · rfl

/-- the "add missing others" loop -/
def othersStep (kind : Nat → Kind) (first : List Nat) (acc : List Nat) (i : Nat) : List Nat :=
  if i ∈ first ++ acc || kind i == .missing then acc else acc ++ [i]

theorem others_mono (kind : Nat → Kind) (first l acc : List Nat) (j : Nat) (hj : j ∈ acc) :
    j ∈ l.foldl (othersStep kind first) acc := by
  induction l generalizing acc with
  | nil => exact hj
  | cons a l ih =>
    simp only [List.foldl_cons]
    apply ih
    unfold othersStep; split
    · exact hj
    · exact List.mem_append_left _ hj

theorem others_mem (kind : Nat → Kind) (first l acc : List Nat) (j : Nat) (hj : j ∈ l) (hk : kind j ≠ .missing) :
    j ∈ first ++ l.foldl (othersStep kind first) acc := by
  induction l generalizing acc with
  | nil => simp at hj
  | cons a l ih =>
    simp only [List.foldl_cons]
    rcases List.mem_cons.mp hj with h | h
    · subst h
      by_cases hin : j ∈ first ++ acc
      · rcases List.mem_append.mp hin with h1 | h1
        · exact List.mem_append_left _ h1
        · apply List.mem_append_right
          apply others_mono
          unfold othersStep; simp [hin]; exact h1
      · apply List.mem_append_right
        apply others_mono
        have : (kind j == Kind.missing) = false := by simpa using hk
        unfold othersStep
        simp only [hin, this, decide_false, Bool.or_self, Bool.false_eq_true, if_false]
        simp
    · exact ih _ h

theorem others_sub (kind : Nat → Kind) (first l acc : List Nat) (j : Nat)
    (hj : j ∈ l.foldl (othersStep kind first) acc) : j ∈ acc ∨ j ∈ l := by
  induction l generalizing acc with
  | nil => exact Or.inl hj
  | cons a l ih =>
    simp only [List.foldl_cons] at hj
    rcases ih _ hj with h | h
    · unfold othersStep at h
      split at h
      · exact Or.inl h
      · rcases List.mem_append.mp h with h1 | h1
        · exact Or.inl h1
        · simp at h1; subst h1; exact Or.inr (by simp)
    · exact Or.inr (by simp [h])

end Nifly.Graph
