import NiflyVerif.Graph.HeaderLemmas
/-!
C06 — referent tracking across *sequences* of deletions (helper lemmas; the property theorems are in `Props/C06.lean`).

`cut D v` is the view `v` with the logical blocks `D` removed and every reference that designated one of them cleared.
A single deletion is `cut [uid]`, and cuts compose, so every composite operation that is a sequence of deletions
(`DeleteBlockByType`, `DeleteUnreferencedBlocks`) is a cut.
-/
namespace Nifly.Graph
open Hdr

abbrev View := List (Nat × Nat × List (Option Nat))

/-- a reference after the logical blocks `D` are gone -/
def clear (D : List Nat) (r : Option Nat) : Option Nat :=
  match r with
  | none => none
  | some u => if u ∈ D then none else some u

def cut (D : List Nat) (v : View) : View :=
  (v.filter fun x => !D.contains x.1).map fun x => (x.1, x.2.1, x.2.2.map (clear D))

theorem clear_clear (D₁ D₂ : List Nat) (r : Option Nat) : clear D₂ (clear D₁ r) = clear (D₁ ++ D₂) r := by
  cases r with
  | none => rfl
  | some u =>
    by_cases h1 : u ∈ D₁
    · simp [clear, h1]
    · by_cases h2 : u ∈ D₂ <;> simp [clear, h1, h2]

theorem cut_nil (v : View) : cut [] v = v := by
  unfold cut
  have hfl : (v.filter fun x => !([] : List Nat).contains x.1) = v := by
    rw [List.filter_eq_self]; intro x _; simp
  rw [hfl]
  conv => rhs; rw [← List.map_id v]
  apply List.map_congr_left
  intro x _
  have : x.2.2.map (clear []) = x.2.2 := by
    conv => rhs; rw [← List.map_id x.2.2]
    apply List.map_congr_left
    intro r _
    cases r <;> simp [clear]
  simp [this]

theorem cut_cut (D₁ D₂ : List Nat) (v : View) : cut D₂ (cut D₁ v) = cut (D₁ ++ D₂) v := by
  unfold cut
  rw [List.filter_map, List.map_map, List.filter_filter]
  have hf : (v.filter fun x => (((fun x : Nat × Nat × List (Option Nat) => !D₂.contains x.1) ∘
      fun x : Nat × Nat × List (Option Nat) => (x.1, x.2.1, x.2.2.map (clear D₁))) x && !D₁.contains x.1)) =
      v.filter fun x => !(D₁ ++ D₂).contains x.1 := by
    apply List.filter_congr
    intro x _
    simp only [Function.comp, List.contains_eq_mem, List.mem_append]
    by_cases h1 : x.1 ∈ D₁ <;> by_cases h2 : x.1 ∈ D₂ <;> simp [h1, h2]
  rw [hf]
  apply List.map_congr_left
  intro x _
  simp only [Function.comp, List.map_map, Prod.mk.injEq, true_and]
  apply List.map_congr_left
  intro r _
  exact clear_clear D₁ D₂ r

/-- in a list without duplicate keys, erasing position `i` is filtering out its key -/
theorem eraseIdx_eq_filter_key {α : Type} (key : α → Nat) (l : List α) (i : Nat) (hi : i < l.length)
    (hnd : (l.map key).Nodup) : l.eraseIdx i = l.filter fun x => key x != key l[i] := by
  induction l generalizing i with
  | nil => simp at hi
  | cons a l ih =>
    simp only [List.map_cons, List.nodup_cons] at hnd
    cases i with
    | zero =>
      simp only [List.eraseIdx_cons_zero, List.getElem_cons_zero, List.filter_cons, bne_self_eq_false, Bool.false_eq_true, if_false]
      symm
      rw [List.filter_eq_self]
      intro x hx
      have : key x ≠ key a := fun e => hnd.1 (e ▸ List.mem_map_of_mem hx)
      simpa using this
    | succ i =>
      have hi' : i < l.length := by simpa using hi
      have hne : key a ≠ key l[i] := fun e => hnd.1 (e ▸ List.mem_map_of_mem (List.getElem_mem hi'))
      simp only [List.eraseIdx_cons_succ, List.getElem_cons_succ, List.filter_cons]
      have : (key a != key l[i]) = true := by simpa using hne
      rw [if_pos this, ih i hi' hnd.2]

theorem view_uids (h : Hdr) : (view h).map (·.1) = h.blocks.map (·.uid) := by
  unfold view
  simp [List.map_map, Function.comp]

end Nifly.Graph
