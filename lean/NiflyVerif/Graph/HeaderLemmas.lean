import NiflyVerif.Graph.Header
/-! Helper lemmas for C06 (property theorems are in `Props/C06.lean`). -/
namespace Nifly.Graph
open Hdr

/-- header/blocks consistency the property demands -/
structure Inv (h : Hdr) : Prop where
  /-- per-block type indices are in range and name the block's type (also: same length) -/
  naming : h.tidx.map (fun t => h.types[t]?) = h.blocks.map (fun b => some b.ty)
  sizes_len : h.hasSizes = true → h.sizes.length = h.blocks.length
  types_nodup : h.types.Nodup
  /-- no unused type name -/
  types_used : ∀ t, t < h.types.length → t ∈ h.tidx
  /-- no two slots hold the same block -/
  uids_nodup : (h.blocks.map (·.uid)).Nodup
  /-- every reference is empty or designates an existing block -/
  refs_ok : ∀ b ∈ h.blocks, ∀ j, some j ∈ b.refs → j < h.blocks.length

theorem Inv.len_tidx {h : Hdr} (hi : Inv h) : h.tidx.length = h.blocks.length := by
  have := congrArg List.length hi.naming
  simpa using this

/-! ### list helpers -/

theorem map_eraseIdx (f : α → β) (l : List α) (i : Nat) : (l.map f).eraseIdx i = (l.eraseIdx i).map f := by
  simp [List.eraseIdx_eq_take_drop_succ, List.map_take, List.map_drop]


theorem getElem?_eraseIdx_shift (l : List α) (i j : Nat) (hne : j ≠ i) :
    (l.eraseIdx i)[if j > i then j - 1 else j]? = l[j]? := by
  rw [List.getElem?_eraseIdx]
  by_cases h : j > i
  · have h2 : ¬ (j - 1 < i) := by omega
    have h3 : j - 1 + 1 = j := by omega
    simp [h, h2, h3]
  · have h2 : j < i := by omega
    simp [h, h2]

theorem mem_eraseIdx_of_ne {l : List Nat} {i : Nat} {a : Nat} (ha : a ∈ l) (hne : l[i]? ≠ some a) :
    a ∈ l.eraseIdx i := by
  obtain ⟨k, hk, rfl⟩ := List.getElem_of_mem ha
  have hki : k ≠ i := by
    intro h; subst h; exact hne (List.getElem?_eq_getElem hk)
  have := getElem?_eraseIdx_shift l i k hki
  rw [List.getElem?_eq_getElem hk] at this
  exact List.mem_of_getElem? this

theorem count_eraseIdx_ge (l : List Nat) (i a : Nat) : l.count a ≤ (l.eraseIdx i).count a + 1 := by
  by_cases hi : i < l.length
  · have h1 : l = l.take i ++ l[i] :: l.drop (i + 1) := by
      rw [← List.drop_eq_getElem_cons hi, List.take_append_drop]
    rw [List.eraseIdx_eq_take_drop_succ]
    conv => lhs; rw [h1]
    simp only [List.count_append, List.count_cons]
    split <;> omega
  · rw [List.eraseIdx_of_length_le (by omega)]; omega

theorem mem_eraseIdx_of_count {l : List Nat} {i : Nat} {a : Nat} (hc : 2 ≤ l.count a) : a ∈ l.eraseIdx i := by
  have := count_eraseIdx_ge l i a
  exact List.count_pos_iff.mp (by omega)

/-! ### references after a deletion -/

theorem deref_adj (bs : List Blk) (i : Nat) (hi : i < bs.length) (hnd : (bs.map (·.uid)).Nodup)
    (r : Option Nat) (hr : ∀ j, r = some j → j < bs.length) :
    deref ((bs.eraseIdx i).map (adjBlk i)) (adjRef i r) =
      (if deref bs r = some bs[i].uid then none else deref bs r) := by
  cases r with
  | none => simp [adjRef, deref]
  | some j =>
    have hj := hr j rfl
    unfold adjRef
    by_cases hji : j = i
    · subst hji; simp [deref, List.getElem?_eq_getElem hi]
    · have huid : bs[j].uid ≠ bs[i].uid := by
        intro he
        have h1 : (bs.map (·.uid))[j]'(by simpa using hj) = (bs.map (·.uid))[i]'(by simpa using hi) := by simpa using he
        exact hji ((List.getElem_inj hnd).mp h1)
      have hsh := getElem?_eraseIdx_shift bs i j hji
      simp only [hji, if_false]
      have : deref ((bs.eraseIdx i).map (adjBlk i)) (some (if j > i then j - 1 else j)) = some bs[j].uid := by
        simp only [deref, Option.bind_some, List.getElem?_map, hsh, List.getElem?_eq_getElem hj, Option.map_some]
        rfl
      have h2 : deref bs (some j) = some bs[j].uid := by simp [deref, List.getElem?_eq_getElem hj]
      rw [h2]
      by_cases hgt : j > i
      · simp only [hgt, if_true] at this ⊢; rw [this]; simp [huid]
      · simp only [hgt, if_false] at this ⊢; rw [this]; simp [huid]

end Nifly.Graph

namespace Nifly.Graph
open Hdr

theorem exists_other_of_count {l : List Nat} {a : Nat} (hc : 2 ≤ l.count a) (i : Nat) :
    ∃ j, j ≠ i ∧ l[j]? = some a := by
  have hm : a ∈ l.eraseIdx i := mem_eraseIdx_of_count hc
  obtain ⟨k, hk, hka⟩ := List.getElem_of_mem hm
  have hk' : (l.eraseIdx i)[k]? = some a := by rw [List.getElem?_eq_getElem hk, hka]
  rw [List.getElem?_eraseIdx] at hk'
  by_cases h : k < i
  · simp only [h, if_true] at hk'; exact ⟨k, by omega, hk'⟩
  · simp only [h, if_false] at hk'; exact ⟨k + 1, by omega, hk'⟩

theorem count_eraseIdx_self (l : List Nat) (i : Nat) (hi : i < l.length) (a : Nat) (ha : l[i] = a) :
    l.count a = (l.eraseIdx i).count a + 1 := by
  have h1 : l = l.take i ++ a :: l.drop (i + 1) := by
    rw [← ha, ← List.drop_eq_getElem_cons hi, List.take_append_drop]
  rw [List.eraseIdx_eq_take_drop_succ]
  conv => lhs; rw [h1]
  simp [List.count_append]
  omega

theorem count_one_ne {l : List Nat} {i : Nat} (hi : i < l.length) (hc : l.count l[i] < 2) (j : Nat) (hj : j < l.length)
    (hne : j ≠ i) : l[j] ≠ l[i] := by
  intro he
  have hmem : l[i] ∈ l.eraseIdx i := by
    have := getElem?_eraseIdx_shift l i j hne
    rw [List.getElem?_eq_getElem hj, he] at this
    exact List.mem_of_getElem? this
  have hpos : 0 < (l.eraseIdx i).count l[i] := List.count_pos_iff.mpr hmem
  have := count_eraseIdx_self l i hi l[i] rfl
  omega

/-- what `dropType` guarantees about every position other than the one being removed/replaced -/
theorem dropType_core (types tidx : List Nat) (i : Nat) (hi : i < tidx.length)
    (hin : ∀ t ∈ tidx, t < types.length) (hnd : types.Nodup) (hused : ∀ t, t < types.length → t ∈ tidx) :
    (dropType types tidx tidx[i]).2.length = tidx.length ∧
    (∀ j, j ≠ i → j < tidx.length →
      ((dropType types tidx tidx[i]).2[j]?).bind (fun t => (dropType types tidx tidx[i]).1[t]?) =
        (tidx[j]?).bind (fun t => types[t]?)) ∧
    (dropType types tidx tidx[i]).1.Nodup ∧
    (∀ t, t < (dropType types tidx tidx[i]).1.length → ∃ j, j ≠ i ∧ (dropType types tidx tidx[i]).2[j]? = some t) ∧
    (∀ t ∈ (dropType types tidx tidx[i]).1, t ∈ types) := by
  unfold dropType
  by_cases hc : tidx.count tidx[i] < 2
  · simp only [hc, if_true, List.length_map, true_and]
    have htid : tidx[i] < types.length := hin _ (List.getElem_mem hi)
    refine ⟨?_, ?_, ?_, ?_⟩
    · intro j hji hj
      have hne := count_one_ne hi hc j hj hji
      simp only [List.getElem?_map, List.getElem?_eq_getElem hj, Option.map_some, Option.bind_some]
      exact getElem?_eraseIdx_shift types tidx[i] tidx[j] hne
    · exact hnd.sublist (List.eraseIdx_sublist _ _)
    · intro t ht
      rw [List.length_eraseIdx_of_lt htid] at ht
      let x := if t < tidx[i] then t else t + 1
      have hx : x < types.length := by simp only [x]; split <;> omega
      have hxne : x ≠ tidx[i] := by simp only [x]; split <;> omega
      obtain ⟨j, hj, hjx⟩ := List.getElem_of_mem (hused x hx)
      refine ⟨j, ?_, ?_⟩
      · intro h; subst h; exact hxne hjx.symm
      · simp only [List.getElem?_map, List.getElem?_eq_getElem hj, Option.map_some, hjx, Option.some.injEq]
        simp only [x]; split <;> split <;> omega
    · intro t ht; exact (List.eraseIdx_sublist _ _).subset ht
  · simp only [hc, if_false, true_and]
    refine ⟨fun _ _ _ => trivial, hnd, ?_, fun _ h => h⟩
    intro t ht
    by_cases htt : t = tidx[i]
    · subst htt; exact exists_other_of_count (by omega) i
    · obtain ⟨j, hj, hjx⟩ := List.getElem_of_mem (hused t ht)
      refine ⟨j, ?_, by rw [List.getElem?_eq_getElem hj, hjx]⟩
      intro h; subst h; exact htt hjx.symm

theorem Inv.tidx_in_range {h : Hdr} (hi : Inv h) : ∀ t ∈ h.tidx, t < h.types.length := by
  intro t ht
  obtain ⟨k, hk, rfl⟩ := List.getElem_of_mem ht
  have := congrArg (fun l => l[k]?) hi.naming
  simp only [List.getElem?_map, List.getElem?_eq_getElem hk, Option.map_some] at this
  have hk' : k < h.blocks.length := by rw [← hi.len_tidx]; exact hk
  rw [List.getElem?_eq_getElem hk'] at this
  simp only [Option.map_some, Option.some.injEq] at this
  exact (List.getElem?_eq_some_iff.mp this).1

/-- list extensionality through `getElem?` for two mapped lists of equal length -/
theorem map_eq_of_getElem? {l₁ : List α} {l₂ : List β} {f : α → γ} {g : β → γ}
    (h : ∀ k : Nat, (l₁[k]?).map f = (l₂[k]?).map g) : l₁.map f = l₂.map g := by
  apply List.ext_getElem?
  intro k; simp only [List.getElem?_map]; exact h k

end Nifly.Graph

namespace Nifly.Graph
open Hdr

theorem addOrFind_spec (types : List Nat) (t : Nat) (hnd : types.Nodup) :
    (addOrFindType types t).1[(addOrFindType types t).2]? = some t ∧ (addOrFindType types t).1.Nodup ∧
    (∀ k, k < types.length → (addOrFindType types t).1[k]? = types[k]?) ∧
    (∀ k, k < (addOrFindType types t).1.length → k < types.length ∨ k = (addOrFindType types t).2) := by
  unfold addOrFindType
  by_cases hnew : types.idxOf t = types.length
  · have hnot : t ∉ types := by
      intro hm; have := List.idxOf_lt_length_iff.mpr hm; omega
    simp only [hnew, if_true]
    refine ⟨by simp, ?_, ?_, ?_⟩
    · exact List.nodup_append.mpr ⟨hnd, by simp, by
        intro a ha c hc; simp at hc; subst hc; intro he; subst he; exact hnot ha⟩
    · intro k hk; exact List.getElem?_append_left hk
    · intro k hk; simp at hk; omega
  · have hlt : types.idxOf t < types.length := by
      have := List.idxOf_le_length (a := t) (l := types); omega
    simp only [hnew, if_false]
    refine ⟨?_, hnd, fun _ _ => trivial, fun k hk => Or.inl hk⟩
    rw [List.getElem?_eq_getElem hlt]; simp

end Nifly.Graph

namespace Nifly.Graph
open Hdr

/-! ### reordering -/

structure IsPerm (p : List Nat) : Prop where
  nodup : p.Nodup
  lt : ∀ k ∈ p, k < p.length
  onto : ∀ k, k < p.length → k ∈ p

theorem isPerm_iff (p : List Nat) : isPerm p = true ↔ IsPerm p := by
  unfold isPerm
  simp only [Bool.and_eq_true, decide_eq_true_eq, List.all_eq_true, List.mem_range, List.contains_iff_mem]
  constructor
  · rintro ⟨⟨a, b⟩, c⟩; exact ⟨a, fun k hk => by simpa using b k hk, c⟩
  · rintro ⟨a, b, c⟩; exact ⟨⟨a, fun k hk => by simpa using b k hk⟩, c⟩

theorem permute_getElem? (p : List Nat) (l : List α) (hp : IsPerm p) (hl : p.length = l.length) (k : Nat) :
    (permute p l)[k]? = if k < l.length then l[p.idxOf k]? else none := by
  unfold permute
  cases l with
  | nil => simp
  | cons d ds =>
    simp only [List.getElem?_map]
    by_cases hk : k < (d :: ds).length
    · have hidx : p.idxOf k < (d :: ds).length := by
        rw [← hl]; exact List.idxOf_lt_length_of_mem (hp.onto k (by omega))
      rw [List.getElem?_range hk]
      simp only [Option.map_some, hk, if_true, List.getD_eq_getElem?_getD]
      rw [List.getElem?_eq_getElem hidx]; rfl
    · rw [List.getElem?_eq_none (by simpa using hk)]; simp only [Option.map_none, hk, if_false]

theorem permute_length (p : List Nat) (l : List α) : (permute p l).length = l.length := by
  unfold permute; cases l <;> simp

/-- the element that was at `j` is at `p[j]` afterwards -/
theorem permute_at (p : List Nat) (l : List α) (hp : IsPerm p) (hl : p.length = l.length) (j : Nat) (hj : j < p.length) :
    (permute p l)[p[j]]? = l[j]? := by
  rw [permute_getElem? p l hp hl]
  have : p[j] < l.length := by rw [← hl]; exact hp.lt _ (List.getElem_mem hj)
  simp only [this, if_true]
  rw [hp.nodup.idxOf_getElem j hj]

theorem permute_map (p : List Nat) (l : List α) (f : α → β) : (permute p l).map f = permute p (l.map f) := by
  unfold permute
  cases l with
  | nil => rfl
  | cons d ds =>
    simp only [List.map_cons, List.map_map, List.length_cons, List.length_map]
    apply List.map_congr_left
    intro k _
    simp only [Function.comp, List.getD_eq_getElem?_getD]
    rw [← List.map_cons, List.getElem?_map]
    cases (d :: ds)[List.idxOf k p]? <;> rfl

theorem permute_mem (p : List Nat) (l : List α) (hp : IsPerm p) (hl : p.length = l.length) (x : α) (hx : x ∈ l) :
    x ∈ permute p l := by
  obtain ⟨j, hj, rfl⟩ := List.getElem_of_mem hx
  have := permute_at p l hp hl j (by omega)
  rw [List.getElem?_eq_getElem hj] at this
  exact List.mem_of_getElem? this

theorem permute_mem' (p : List Nat) (l : List α) (hp : IsPerm p) (hl : p.length = l.length) (x : α) (hx : x ∈ permute p l) :
    x ∈ l := by
  obtain ⟨k, hk, rfl⟩ := List.getElem_of_mem hx
  have h1 := permute_getElem? p l hp hl k
  rw [permute_length] at hk
  simp only [hk, if_true] at h1
  rw [List.getElem?_eq_getElem (by rw [permute_length]; exact hk)] at h1
  exact List.mem_of_getElem? h1.symm

theorem permute_nodup (p : List Nat) (l : List Nat) (hp : IsPerm p) (hl : p.length = l.length) (hnd : l.Nodup) :
    (permute p l).Nodup := by
  rw [List.nodup_iff_pairwise_ne, List.pairwise_iff_getElem]
  intro a b ha hb hab he
  rw [permute_length] at ha hb
  have h1 := permute_getElem? p l hp hl a
  have h2 := permute_getElem? p l hp hl b
  simp only [ha, hb, if_true] at h1 h2
  rw [List.getElem?_eq_getElem (by rw [permute_length]; exact ha)] at h1
  rw [List.getElem?_eq_getElem (by rw [permute_length]; exact hb)] at h2
  have ia : p.idxOf a < l.length := by rw [← hl]; exact List.idxOf_lt_length_of_mem (hp.onto a (by omega))
  have ib : p.idxOf b < l.length := by rw [← hl]; exact List.idxOf_lt_length_of_mem (hp.onto b (by omega))
  rw [List.getElem?_eq_getElem ia] at h1
  rw [List.getElem?_eq_getElem ib] at h2
  simp only [Option.some.injEq] at h1 h2
  have : l[p.idxOf a] = l[p.idxOf b] := by rw [← h1, ← h2, he]
  have hidx := (List.getElem_inj hnd).mp this
  have ea : p[p.idxOf a]? = some a := by
    rw [List.getElem?_eq_getElem (by omega)]; exact congrArg some (List.getElem_idxOf (by omega))
  have eb : p[p.idxOf b]? = some b := by
    rw [List.getElem?_eq_getElem (by omega)]; exact congrArg some (List.getElem_idxOf (by omega))
  rw [hidx, eb] at ea
  simp at ea
  omega

end Nifly.Graph
