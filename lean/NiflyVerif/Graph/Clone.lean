/-
C14 — model of `NifFile::CloneChildren` (src/NifFile.cpp:1272-1317): the block tree below a cloned shape is cloned
child by child into the destination header (`AddBlock` appends), each child reference of the clone is re-assigned
to the index of the new block, pointers that designate the old parent are re-bound to the new parent, and the
procedure recurses.  References that do not resolve in the source are left as they are.

`fuel` bounds the recursion (the C++ recursion is unbounded on a cyclic child graph; running out of fuel is the
model's picture of that and returns the work done so far).
-/
namespace Nifly.Clone

structure Blk where
  ty : Nat
  payload : Nat
  kids : List (Option Nat)     -- child references (`none` = NIF_NPOS)
  ptrs : List (Option Nat)     -- pointers (up-references)
  deriving DecidableEq, Repr, Inhabited

/-- `for (auto& p : ptrs) if (p->index == parentOldId) p->index = parentNewId;` (only when `parentOldId != NIF_NPOS`) -/
def rebind (c : Blk) (pOld pNew : Option Nat) : Blk :=
  match pOld with
  | none => c
  | some po => { c with ptrs := c.ptrs.map fun p => if p = some po then pNew else p }

/-- the loop over the child references `ks` of one block; returns the destination and the re-assigned references -/
def cloneKids : Nat → List Blk → List Blk → List (Option Nat) → Option Nat → Option Nat →
    List Blk × List (Option Nat)
  | 0, _, dest, ks, _, _ => (dest, ks)
  | _ + 1, _, dest, [], _, _ => (dest, [])
  | f + 1, src, dest, r :: rs, pOld, pNew =>
    match r.bind (src[·]?) with
    | none =>
      let res := cloneKids f src dest rs pOld pNew
      (res.1, r :: res.2)
    | some c =>
      let destId := dest.length
      let c1 := rebind c pOld pNew
      let pO := if pOld.isSome then pOld else r
      let pN := if pOld.isSome then pNew else some destId
      let sub := cloneKids f src (dest ++ [c1]) c1.kids pO pN
      let d3 := sub.1.set destId { c1 with kids := sub.2 }
      let res := cloneKids f src d3 rs pOld pNew
      (res.1, some destId :: res.2)

/-- `CloneChildren(block, srcNif)` for a block `b` that is already in the destination at index `at` -/
def cloneChildren (fuel : Nat) (src dest : List Blk) (i : Nat) : List Blk :=
  match dest[i]? with
  | none => dest
  | some b =>
    let res := cloneKids fuel src dest b.kids none none
    res.1.set i { b with kids := res.2 }

theorem set_prefix_ge (l t : List Blk) (i : Nat) (b : Blk) (h : l.length ≤ i) :
    ∃ t', (l ++ t).set i b = l ++ t' ∧ t'.length = t.length := by
  refine ⟨t.set (i - l.length) b, ?_, by simp⟩
  rw [List.set_append_right _ _ h]

/-- **The destination's previous content is untouched**: cloning only appends blocks. -/
theorem cloneKids_prefix (f : Nat) (src dest : List Blk) (ks : List (Option Nat)) (pO pN : Option Nat) :
    ∃ t, (cloneKids f src dest ks pO pN).1 = dest ++ t := by
  induction f generalizing dest ks pO pN with
  | zero => exact ⟨[], by simp [cloneKids]⟩
  | succ f ih =>
    cases ks with
    | nil => exact ⟨[], by simp [cloneKids]⟩
    | cons r rs =>
      simp only [cloneKids]
      split
      · exact ih dest rs pO pN
      · next c hc =>
        simp only
        obtain ⟨t1, h1⟩ := ih (dest ++ [rebind c pO pN]) (rebind c pO pN).kids
          (if pO.isSome then pO else r) (if pO.isSome then pN else some dest.length)
        rw [h1]
        obtain ⟨t2, h2, _⟩ := set_prefix_ge dest ([rebind c pO pN] ++ t1) dest.length
          { rebind c pO pN with kids := (cloneKids f src (dest ++ [rebind c pO pN]) (rebind c pO pN).kids
              (if pO.isSome then pO else r) (if pO.isSome then pN else some dest.length)).2 } (Nat.le_refl _)
        rw [List.append_assoc, h2]
        obtain ⟨t3, h3⟩ := ih (dest ++ t2) rs pO pN
        rw [h3]
        exact ⟨t2 ++ t3, by simp⟩

theorem cloneKids_length_le (f : Nat) (src dest : List Blk) (ks) (pO pN) :
    dest.length ≤ (cloneKids f src dest ks pO pN).1.length := by
  obtain ⟨t, h⟩ := cloneKids_prefix f src dest ks pO pN
  rw [h]; simp

/-- a reference is *settled* in `d` when it is empty, resolves in `d`, or was already dangling in the source -/
def settled (src d : List Blk) (k : Option Nat) : Prop :=
  match k with
  | none => True
  | some j => j < d.length ∨ src[j]? = none

theorem settled_mono (src d d' : List Blk) (k) (h : d.length ≤ d'.length) (hs : settled src d k) :
    settled src d' k := by
  cases k with
  | none => trivial
  | some j =>
    rcases hs with hs | hs
    · exact Or.inl (by omega)
    · exact Or.inr hs

/-- **Every re-assigned reference resolves in the destination** (or never resolved in the source), provided the
fuel sufficed (`fuelOK`: the run did not stop in the `0` case with references left). -/
def fuelOK : Nat → List Blk → List Blk → List (Option Nat) → Option Nat → Option Nat → Bool
  | 0, _, _, ks, _, _ => ks.isEmpty
  | _ + 1, _, _, [], _, _ => true
  | f + 1, src, dest, r :: rs, pOld, pNew =>
    match r.bind (src[·]?) with
    | none => fuelOK f src dest rs pOld pNew
    | some c =>
      let destId := dest.length
      let c1 := rebind c pOld pNew
      let pO := if pOld.isSome then pOld else r
      let pN := if pOld.isSome then pNew else some destId
      let sub := cloneKids f src (dest ++ [c1]) c1.kids pO pN
      let d3 := sub.1.set destId { c1 with kids := sub.2 }
      fuelOK f src (dest ++ [c1]) c1.kids pO pN && fuelOK f src d3 rs pOld pNew

theorem cloneKids_settled (f : Nat) (src dest : List Blk) (ks : List (Option Nat)) (pO pN : Option Nat)
    (hf : fuelOK f src dest ks pO pN = true) :
    ∀ k ∈ (cloneKids f src dest ks pO pN).2, settled src (cloneKids f src dest ks pO pN).1 k := by
  induction f generalizing dest ks pO pN with
  | zero =>
    simp only [fuelOK, List.isEmpty_iff] at hf
    subst hf
    intro k hk
    simp [cloneKids] at hk
  | succ f ih =>
    cases ks with
    | nil => intro k hk; simp [cloneKids] at hk
    | cons r rs =>
      simp only [cloneKids]
      simp only [fuelOK] at hf
      split
      · next hnone =>
        rw [hnone] at hf
        intro k hk
        simp only [List.mem_cons] at hk
        rcases hk with rfl | hk
        · cases k with
          | none => trivial
          | some j =>
            right
            simpa using hnone
        · exact ih dest rs pO pN hf k hk
      · next c hc =>
        rw [hc] at hf
        simp only [Bool.and_eq_true] at hf ⊢
        intro k hk
        simp only [List.mem_cons] at hk
        rcases hk with rfl | hk
        · left
          have h1 := cloneKids_length_le f src (dest ++ [rebind c pO pN]) (rebind c pO pN).kids
            (if pO.isSome then pO else r) (if pO.isSome then pN else some dest.length)
          have h2 := cloneKids_length_le f src
            ((cloneKids f src (dest ++ [rebind c pO pN]) (rebind c pO pN).kids
              (if pO.isSome then pO else r) (if pO.isSome then pN else some dest.length)).1.set dest.length
              { rebind c pO pN with kids := (cloneKids f src (dest ++ [rebind c pO pN]) (rebind c pO pN).kids
                (if pO.isSome then pO else r) (if pO.isSome then pN else some dest.length)).2 }) rs pO pN
          simp only [List.length_set, List.length_append, List.length_cons, List.length_nil] at h1 h2
          omega
        · exact ih _ rs pO pN hf.2 k hk

theorem rebind_ty (c : Blk) (pO pN) : (rebind c pO pN).ty = c.ty ∧ (rebind c pO pN).payload = c.payload ∧
    (rebind c pO pN).kids = c.kids := by
  unfold rebind; split <;> simp

/-- **The clone of a child carries the child's content**: position by position, a reference that resolved to block
`c` of the source is re-assigned to a destination block with `c`'s type and payload. -/
theorem cloneKids_content (f : Nat) (src dest : List Blk) (ks : List (Option Nat)) (pO pN : Option Nat)
    (hf : fuelOK f src dest ks pO pN = true) (p i : Nat) (c : Blk) (hk : ks[p]? = some (some i)) (hc : src[i]? = some c) :
    ∃ j b, (cloneKids f src dest ks pO pN).2[p]? = some (some j) ∧ dest.length ≤ j ∧
      (cloneKids f src dest ks pO pN).1[j]? = some b ∧ b.ty = c.ty ∧ b.payload = c.payload := by
  induction f generalizing dest ks pO pN p with
  | zero =>
    simp only [fuelOK, List.isEmpty_iff] at hf
    subst hf
    simp at hk
  | succ f ih =>
    cases ks with
    | nil => simp at hk
    | cons r rs =>
      simp only [cloneKids]
      simp only [fuelOK] at hf
      split
      · next hnone =>
        rw [hnone] at hf
        cases p with
        | zero =>
          simp only [List.getElem?_cons_zero, Option.some.injEq] at hk
          subst hk
          simp [hc] at hnone
        | succ p =>
          simp only [List.getElem?_cons_succ] at hk ⊢
          exact ih dest rs pO pN hf p hk
      · next c0 hc0 =>
        rw [hc0] at hf
        simp only [Bool.and_eq_true] at hf ⊢
        cases p with
        | zero =>
          simp only [List.getElem?_cons_zero, Option.some.injEq] at hk
          subst hk
          simp only [Option.bind_some, hc, Option.some.injEq] at hc0
          subst hc0
          refine ⟨dest.length, ?b, rfl, Nat.le_refl _, ?h, ?t1, ?t2⟩
          case h =>
            -- the block written at `destId` survives the rest of the loop (later work only appends)
            obtain ⟨t, ht⟩ := cloneKids_prefix f src
              ((cloneKids f src (dest ++ [rebind c pO pN]) (rebind c pO pN).kids
                (if pO.isSome then pO else some i) (if pO.isSome then pN else some dest.length)).1.set dest.length
                { rebind c pO pN with kids := (cloneKids f src (dest ++ [rebind c pO pN]) (rebind c pO pN).kids
                  (if pO.isSome then pO else some i) (if pO.isSome then pN else some dest.length)).2 }) rs pO pN
            rw [ht]
            have hlen := cloneKids_length_le f src (dest ++ [rebind c pO pN]) (rebind c pO pN).kids
              (if pO.isSome then pO else some i) (if pO.isSome then pN else some dest.length)
            simp only [List.length_append, List.length_cons, List.length_nil] at hlen
            rw [List.getElem?_append_left (by simp only [List.length_set]; omega)]
            rw [List.getElem?_set_self (by omega)]
          case t1 => exact (rebind_ty c pO pN).1
          case t2 => exact (rebind_ty c pO pN).2.1
        | succ p =>
          simp only [List.getElem?_cons_succ] at hk ⊢
          obtain ⟨j, b, h1, h2, h3⟩ := ih _ rs pO pN hf.2 p hk
          refine ⟨j, b, h1, ?_, h3⟩
          have hlen := cloneKids_length_le f src (dest ++ [rebind c0 pO pN]) (rebind c0 pO pN).kids
            (if pO.isSome then pO else r) (if pO.isSome then pN else some dest.length)
          simp only [List.length_set, List.length_append, List.length_cons, List.length_nil] at h2 hlen
          omega

/-- **Every reference of every appended block resolves** (or never resolved in the source): not only the re-assigned
references of the block being processed, but those of all blocks the recursion added below it. -/
theorem cloneKids_all_settled (f : Nat) (src dest : List Blk) (ks : List (Option Nat)) (pO pN : Option Nat)
    (hf : fuelOK f src dest ks pO pN = true) :
    ∀ idx b, dest.length ≤ idx → (cloneKids f src dest ks pO pN).1[idx]? = some b →
      ∀ k ∈ b.kids, settled src (cloneKids f src dest ks pO pN).1 k := by
  induction f generalizing dest ks pO pN with
  | zero =>
    intro idx b hidx hb
    simp only [cloneKids] at hb
    have : idx < dest.length := by
      rcases Nat.lt_or_ge idx dest.length with h | h
      · exact h
      · rw [List.getElem?_eq_none h] at hb; cases hb
    omega
  | succ f ih =>
    cases ks with
    | nil =>
      intro idx b hidx hb
      simp only [cloneKids] at hb
      have : idx < dest.length := by
        rcases Nat.lt_or_ge idx dest.length with h | h
        · exact h
        · rw [List.getElem?_eq_none h] at hb; cases hb
      omega
    | cons r rs =>
      simp only [cloneKids]
      simp only [fuelOK] at hf
      split
      · next hnone =>
        rw [hnone] at hf
        exact ih dest rs pO pN hf
      · next c hc =>
        rw [hc] at hf
        simp only [Bool.and_eq_true] at hf ⊢
        -- abbreviations
        generalize hsub : cloneKids f src (dest ++ [rebind c pO pN]) (rebind c pO pN).kids
          (if pO.isSome then pO else r) (if pO.isSome then pN else some dest.length) = sub at hf ⊢
        have hsubSet := cloneKids_settled f src (dest ++ [rebind c pO pN]) (rebind c pO pN).kids
          (if pO.isSome then pO else r) (if pO.isSome then pN else some dest.length) hf.1
        have hsubAll := ih (dest ++ [rebind c pO pN]) (rebind c pO pN).kids
          (if pO.isSome then pO else r) (if pO.isSome then pN else some dest.length) hf.1
        have hsubLen := cloneKids_length_le f src (dest ++ [rebind c pO pN]) (rebind c pO pN).kids
          (if pO.isSome then pO else r) (if pO.isSome then pN else some dest.length)
        rw [hsub] at hsubSet hsubAll hsubLen
        simp only [List.length_append, List.length_cons, List.length_nil] at hsubLen
        generalize hd3 : sub.1.set dest.length { rebind c pO pN with kids := sub.2 } = d3 at hf ⊢
        have hd3len : d3.length = sub.1.length := by rw [← hd3]; simp
        -- all blocks of d3 from dest.length on are settled w.r.t. d3
        have hd3All : ∀ idx b, dest.length ≤ idx → d3[idx]? = some b → ∀ k ∈ b.kids, settled src d3 k := by
          intro idx b hidx hb k hk
          rw [← hd3] at hb
          by_cases he : idx = dest.length
          · subst he
            rw [List.getElem?_set_self (by omega)] at hb
            cases hb
            exact settled_mono src sub.1 d3 k (by omega) (hsubSet k hk)
          · rw [List.getElem?_set_ne (by omega)] at hb
            exact settled_mono src sub.1 d3 k (by omega)
              (hsubAll idx b (by simp only [List.length_append, List.length_cons, List.length_nil]; omega) hb k hk)
        have hresAll := ih d3 rs pO pN hf.2
        have hresLen := cloneKids_length_le f src d3 rs pO pN
        obtain ⟨t, ht⟩ := cloneKids_prefix f src d3 rs pO pN
        intro idx b hidx hb k hk
        by_cases hlt : idx < d3.length
        · -- an older block: unchanged by the rest of the loop
          rw [ht, List.getElem?_append_left hlt] at hb
          exact settled_mono src d3 _ k hresLen (hd3All idx b hidx hb k hk)
        · exact hresAll idx b (by omega) hb k hk

end Nifly.Clone
