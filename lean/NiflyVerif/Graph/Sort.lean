/-
C04 — the block sorter of `NifFile::PrettySortBlocks` / `SetShapeOrder` (src/NifFile.cpp).

Two things are modelled exactly:
* the *index assignment discipline*: every write `newIndices[i] = newIndex++` in the sorter (in `SetSortIndices`,
  in `SortCollision`, in the final leftover loop) is guarded by "i not visited yet" and marks i visited. Whatever the
  traversal order is, the sorter therefore performs a sequence of *attempted* assignments; `assign` is one attempt.
* the child-list rebuild of `SortGraph` (nodes first, then shapes — optionally in an explicit order on the root —,
  then everything else once, then the empty references).
-/
namespace Nifly.Graph

/-- the visited blocks in the order they were assigned: the k-th one receives new index `base + k` -/
abbrev Visited := List Nat

/-- one guarded assignment attempt -/
def assign (v : Visited) (i : Nat) : Visited := if i ∈ v then v else v ++ [i]

/-- a traversal = any sequence of attempts on valid block indices; the leftover loop then attempts 0..n-1 in order -/
def sortVisited (n : Nat) (trace : List Nat) : Visited := (trace ++ List.range n).foldl assign []

/-- `newIndices` as the sorter leaves it: position in the visited order (plus the starting value of `newIndex`) -/
def newIndexOf (base : Nat) (v : Visited) (i : Nat) : Nat := base + v.idxOf i

/-! ### SortGraph: rebuilding a node's child list -/

inductive Kind where
  | node (hasChildren : Bool)   -- an NiNode (with / without children)
  | shape                       -- an NiShape
  | other                       -- any other existing block
  | missing                     -- index out of range (no block)
  deriving DecidableEq, Repr

/-- explicit order of the root's shapes: applied only when it is a permutation of the root's shape children
(after the repair of KNOWN_FINDINGS C04/6429597; before, only the lengths were compared) -/
def applyShapeOrder (shapes order : List Nat) : List Nat :=
  if order.isPerm shapes then order else shapes

/-- `SortGraph`'s new child list. `kind i` classifies child index `i`; `none` = NIF_NPOS.
`obFo3` selects the Oblivion/FO3 variant (only nodes that have children go first). -/
def rebuildChildren (kind : Nat → Kind) (obFo3 isRoot : Bool) (order : List Nat) (children : List (Option Nat)) :
    List (Option Nat) :=
  let idx := children.filterMap id
  let nodes := idx.filter fun i => match kind i with
    | .node hc => !obFo3 || hc
    | _ => false
  let shapes := idx.filter fun i => kind i == .shape
  let shapes := if isRoot then applyShapeOrder shapes order else shapes
  let first := nodes ++ shapes
  -- "add missing others": every index not yet listed whose block exists, once
  let others := idx.foldl (fun acc i => if i ∈ first ++ acc || kind i == .missing then acc else acc ++ [i]) ([] : List Nat)
  (first ++ others).map some ++ children.filter (· == none)

end Nifly.Graph
