import NiflyVerif.Generated.RefTables
/-!
C05 — evaluator over the regenerated reference tables: which reference / string members a class
serialises (its own `Sync` and those of the classes before it in the Get/Put chain) and which its
enumerators report (the nearest override, plus the base enumerators that override actually calls).
-/
namespace Nifly.Generated

/-- class ids are positions in the table (id = index + 1) -/
def lvlOf (c : Nat) : Option Lvl :=
  match levels[c - 1]? with
  | some l => if l.cls == c then some l else none
  | none => none

/-- file versions the loader accepts (`NiVersion::IsOB/IsFO3/…/IsSpecial`): 10.0.1.0, 10.1.0.106, 10.2.0.0,
20.0.0.4, 20.0.0.5, 20.2.0.7 -/
def supportedFiles : List Nat := [0x0A000100, 0x0A01006A, 0x0A020000, 0x14000004, 0x14000005, 0x14020007]
/-- of those, the ones whose strings live in the header string table (>= 20.1.0.3) -/
def stringTableFiles : List Nat := supportedFiles.filter (· ≥ 0x14010003)

/-- a member guarded by `lo ≤ File() < hi` can be serialised in one of the given versions -/
def active (files : List Nat) (e : Nat × Nat × Nat) : Bool := files.any fun v => e.2.1 ≤ v && v < e.2.2

/-- everything serialised by class `c`: own level and all levels below it in the chain -/
def syncedFull (sel : Lvl → List (Nat × Nat × Nat)) : Nat → Nat → List (Nat × Nat × Nat)
  | 0, _ => []
  | fuel + 1, c =>
    match lvlOf c with
    | none => []
    | some l => sel l ++ (if l.base == 0 then [] else syncedFull sel fuel l.base)

/-- what enumerator `sel` of class `c` reports: the nearest override in the chain; an override reports what it
inserts plus whatever the base enumerators it calls report -/
def enumFull (sel : Lvl → Option (List Nat × List Nat)) : Nat → Nat → List Nat
  | 0, _ => []
  | fuel + 1, c =>
    match lvlOf c with
    | none => []
    | some l =>
      match sel l with
      | some (ins, calls) => ins ++ calls.flatMap (enumFull sel fuel)
      | none => if l.base == 0 then [] else enumFull sel fuel l.base

def fuel : Nat := 24

/-- class `c` enumerates every block reference it serialises -/
def refsCovered (c : Nat) : Bool :=
  let en := enumFull (·.refEnum) fuel c ++ enumFull (·.ptrEnum) fuel c
  ((syncedFull (·.syncedRef) fuel c).filter (active supportedFiles)).all (en.contains ·.1)

/-- class `c` enumerates every string reference it serialises -/
def strsCovered (c : Nat) : Bool :=
  let en := enumFull (·.strEnum) fuel c
  ((syncedFull (·.syncedStr) fuel c).filter (active stringTableFiles)).all (en.contains ·.1)

/-- for messages: the serialised members of `c` that no enumerator reports -/
def missingRefs (c : Nat) : List String :=
  let en := enumFull (·.refEnum) fuel c ++ enumFull (·.ptrEnum) fuel c
  (((syncedFull (·.syncedRef) fuel c).filter (active supportedFiles)).filter (!en.contains ·.1)).map (pathNames.getD ·.1 "?")
def missingStrs (c : Nat) : List String :=
  let en := enumFull (·.strEnum) fuel c
  (((syncedFull (·.syncedStr) fuel c).filter (active stringTableFiles)).filter (!en.contains ·.1)).map (pathNames.getD ·.1 "?")

/-- the chain below `c` is shorter than the fuel (so `syncedFull`/`enumFull` are not cut off) -/
def chainDepth : Nat → Nat → Nat
  | 0, _ => 0
  | f + 1, c => match lvlOf c with
    | none => 0
    | some l => if l.base == 0 then 1 else 1 + chainDepth f l.base

end Nifly.Generated
