/-
C11 — model of `NifFile::CopyFrom` (src/NifFile.cpp:96-127): every block is cloned by its copy constructor
(member-wise: a shape's cached raw pointer to its geometry block is copied verbatim), the header is re-pointed at
the new block vector and `LinkGeomData` re-links the caches: a shape whose `dataRef` designates a block of the
type its `SetGeomData` accepts gets the address of *that block of the copy*; any other shape keeps what it had.

Objects live in a heap of addresses; a file owns the addresses of its blocks.  `ty` is the dynamic type, `acc g d`
says a shape of type `g` accepts a data block of type `d` (the `dynamic_cast` in `SetGeomData`).
-/
namespace Nifly.Copy

local notation "Addr" => Nat

structure Obj where
  ty : Nat
  dataRef : Option Nat       -- block index; `none` = NIF_NPOS
  cache : Option Addr        -- `shapeData` / `stripsData` / … raw pointer
  payload : Nat              -- everything else (copied by value)
  deriving DecidableEq, Repr

structure World where
  heap : Addr → Option Obj
  next : Addr                -- allocation frontier: every live address is below it

/-- the object `LinkGeomData` leaves at index `i` of the copy whose blocks start at address `base` -/
def linked (acc : Nat → Nat → Bool) (src : Nat → Option Obj) (n base : Nat) (o : Obj) : Obj :=
  match o.dataRef with
  | some d =>
    if d < n then
      match src d with
      | some od => if acc o.ty od.ty then { o with cache := some (base + d) } else o
      | none => o
    else o
  | none => o

/-- `CopyFrom`: the copy of the file with block addresses `A`, and its block addresses -/
def copyFrom (acc : Nat → Nat → Bool) (w : World) (A : List Addr) : World × List Addr :=
  let n := A.length
  let src : Nat → Option Obj := fun i => (A[i]?).bind w.heap
  ({ heap := fun a => if w.next ≤ a ∧ a < w.next + n
                      then (src (a - w.next)).map (linked acc src n w.next) else w.heap a,
     next := w.next + n },
   (List.range n).map (w.next + ·))

/-- every live object is below the frontier, and the file's blocks are live -/
def WF (w : World) (A : List Addr) : Prop :=
  (∀ a, w.next ≤ a → w.heap a = none) ∧ (∀ a ∈ A, a < w.next)

/-- content of an object apart from its cache -/
def strip (o : Obj) : Nat × Option Nat × Nat := (o.ty, o.dataRef, o.payload)

/-- shape `o` can be re-linked inside a file whose block types are given by `src` -/
def linkable (acc : Nat → Nat → Bool) (src : Nat → Option Obj) (n : Nat) (o : Obj) : Prop :=
  ∃ d od, o.dataRef = some d ∧ d < n ∧ src d = some od ∧ acc o.ty od.ty = true

theorem strip_linked (acc src n base o) : strip (linked acc src n base o) = strip o := by
  unfold linked
  split
  · split
    · split
      · split <;> rfl
      · rfl
    · rfl
  · rfl

theorem linked_cache_of_linkable (acc src n base o) (h : linkable acc src n o) :
    ∃ d, d < n ∧ o.dataRef = some d ∧ (linked acc src n base o).cache = some (base + d) := by
  obtain ⟨d, od, h1, h2, h3, h4⟩ := h
  refine ⟨d, h2, h1, ?_⟩
  unfold linked
  simp [h1, h2, h3, h4]

theorem linked_cache_of_not (acc src n base o) (h : ¬ linkable acc src n o) :
    (linked acc src n base o).cache = o.cache := by
  unfold linked
  split
  · next d hd =>
    split
    · next hlt =>
      split
      · next od hod =>
        split
        · next hacc => exact absurd ⟨d, od, hd, hlt, hod, hacc⟩ h
        · rfl
      · rfl
    · rfl
  · rfl

section
variable (acc : Nat → Nat → Bool) (w : World) (A : List Addr)

theorem copy_blocks : (copyFrom acc w A).2 = (List.range A.length).map (w.next + ·) := rfl

/-- the copy's blocks are fresh addresses: none of them belongs to the source (or to anything allocated before) -/
theorem copy_fresh (hw : WF w A) : ∀ b ∈ (copyFrom acc w A).2, w.next ≤ b ∧ b ∉ A := by
  intro b hb
  rw [copy_blocks] at hb
  obtain ⟨i, _, rfl⟩ := List.mem_map.1 hb
  show w.next ≤ w.next + i ∧ w.next + i ∉ A
  refine ⟨by omega, fun h => ?_⟩
  have := hw.2 _ h
  omega

theorem copy_nodup : (copyFrom acc w A).2.Nodup := by
  rw [copy_blocks]
  rw [List.nodup_iff_pairwise_ne, List.pairwise_map]
  exact (List.nodup_iff_pairwise_ne.1 List.nodup_range).imp (fun h e => h (by omega))

/-- nothing that existed before is touched: the source file and every other model stay as they were -/
theorem copy_preserves_old (a : Addr) (h : a < w.next) : (copyFrom acc w A).1.heap a = w.heap a := by
  simp only [copyFrom]
  rw [if_neg (by omega)]

/-- the object at index `i` of the copy -/
theorem copy_get (i : Nat) (h : i < A.length) :
    (copyFrom acc w A).1.heap (w.next + i) =
      ((A[i]?).bind w.heap).map (linked acc (fun j => (A[j]?).bind w.heap) A.length w.next) := by
  simp only [copyFrom]
  rw [if_pos (by omega)]
  congr 2
  all_goals (try omega)
  · congr 1; omega

/-- block for block the copy has the content of the source (everything but the cached pointer) -/
theorem copy_content (i : Nat) (h : i < A.length) :
    ((copyFrom acc w A).1.heap (w.next + i)).map strip = ((A[i]?).bind w.heap).map strip := by
  rw [copy_get acc w A i h]
  cases (A[i]?).bind w.heap with
  | none => rfl
  | some o => simp [strip_linked]

/-- a re-linkable shape of the copy points at the copy's own block `dataRef` -/
theorem copy_cache_own (i : Nat) (h : i < A.length) (o : Obj) (ho : (A[i]?).bind w.heap = some o)
    (hl : linkable acc (fun j => (A[j]?).bind w.heap) A.length o) :
    ∃ d o', d < A.length ∧ o.dataRef = some d ∧ (copyFrom acc w A).1.heap (w.next + i) = some o' ∧
      o'.cache = some (w.next + d) ∧ w.next + d ∈ (copyFrom acc w A).2 := by
  obtain ⟨d, hd, hdr, hc⟩ := linked_cache_of_linkable acc _ A.length w.next o hl
  refine ⟨d, _, hd, hdr, ?_, hc, ?_⟩
  · rw [copy_get acc w A i h, ho]; rfl
  · rw [copy_blocks]
    exact List.mem_map.2 ⟨d, List.mem_range.2 hd, rfl⟩

/-- a shape that cannot be re-linked keeps the pointer of its source verbatim — if that pointer is not null the
copy reaches into the source model (the hole the `if (geomData)` guard leaves) -/
theorem copy_cache_verbatim (i : Nat) (h : i < A.length) (o : Obj) (ho : (A[i]?).bind w.heap = some o)
    (hl : ¬ linkable acc (fun j => (A[j]?).bind w.heap) A.length o) :
    ∃ o', (copyFrom acc w A).1.heap (w.next + i) = some o' ∧ o'.cache = o.cache := by
  refine ⟨_, ?_, linked_cache_of_not acc _ A.length w.next o hl⟩
  rw [copy_get acc w A i h, ho]; rfl

/-- source files in which every cached pointer belongs to a re-linkable shape (what `Load`, `Create` and every
API edit that sets a data reference establish) -/
def WellLinked : Prop :=
  ∀ (i : Nat) (o : Obj), (A[i]?).bind w.heap = some o → o.cache ≠ none →
    linkable acc (fun j => (A[j]?).bind w.heap) A.length o

/-- **No shared state.** From a well-linked source, every pointer held by a block of the copy designates a block
of the copy. -/
theorem copy_closed (hl : WellLinked acc w A) (i : Nat) (h : i < A.length) (o' : Obj)
    (ho' : (copyFrom acc w A).1.heap (w.next + i) = some o') (c : Addr) (hc : o'.cache = some c) :
    c ∈ (copyFrom acc w A).2 := by
  rw [copy_get acc w A i h] at ho'
  cases hs : (A[i]?).bind w.heap with
  | none => rw [hs] at ho'; cases ho'
  | some o =>
    rw [hs] at ho'
    simp only [Option.map_some, Option.some.injEq] at ho'
    by_cases hk : linkable acc (fun j => (A[j]?).bind w.heap) A.length o
    · obtain ⟨d, hd, _, hcache⟩ := linked_cache_of_linkable acc _ A.length w.next o hk
      rw [ho'] at hcache
      rw [hcache] at hc
      cases hc
      rw [copy_blocks]
      exact List.mem_map.2 ⟨d, List.mem_range.2 hd, rfl⟩
    · have hv := linked_cache_of_not acc _ A.length w.next o hk
      rw [ho'] at hv
      have : o.cache ≠ none := by rw [← hv, hc]; simp
      exact absurd (hl i o hs this) hk

end

/-! ### independence: writes and destruction -/

/-- overwrite the object at one address (any edit of one block) -/
def write (w : World) (a : Addr) (o : Obj) : World := { w with heap := fun b => if b = a then some o else w.heap b }

/-- destroy a model: its blocks are freed -/
def free (w : World) (F : List Addr) : World := { w with heap := fun b => if b ∈ F then none else w.heap b }

/-- what a model answers: its blocks' contents, with cached pointers resolved to block indices (`none` when the
pointer designates nothing the model owns — reading through it is then undefined behaviour) -/
def view (w : World) (F : List Addr) : List (Option (Nat × Option Nat × Nat × Option (Option Nat))) :=
  F.map fun a => (w.heap a).map fun o =>
    (o.ty, o.dataRef, o.payload, o.cache.map fun c => if c ∈ F then some (F.idxOf c) else none)

theorem view_write_other (w : World) (F : List Addr) (a : Addr) (o : Obj) (h : a ∉ F) :
    view (write w a o) F = view w F := by
  unfold view write
  apply List.map_congr_left
  intro b hb
  have : b ≠ a := fun e => h (e ▸ hb)
  simp [this]

theorem view_free_other (w : World) (F G : List Addr) (h : ∀ a ∈ F, a ∉ G) :
    view (free w G) F = view w F := by
  unfold view free
  apply List.map_congr_left
  intro b hb
  simp [h b hb]

/-- **Independence of the source.** Editing any block of the copy, or destroying the copy, changes nothing the
source answers. -/
theorem source_independent (acc) (w : World) (A : List Addr) (hw : WF w A) :
    let r := copyFrom acc w A
    view r.1 A = view w A ∧
    (∀ b ∈ r.2, ∀ o, view (write r.1 b o) A = view r.1 A) ∧
    view (free r.1 r.2) A = view r.1 A := by
  refine ⟨?_, ?_, ?_⟩
  · unfold view
    apply List.map_congr_left
    intro a ha
    rw [copy_preserves_old acc w A a (hw.2 a ha)]
  · intro b hb o
    exact view_write_other _ _ _ _ (copy_fresh acc w A hw b hb).2
  · apply view_free_other
    intro a ha hmem
    exact (copy_fresh acc w A hw a hmem).2 ha

/-- **Independence of the copy.** Editing any block of the source, or destroying the source, changes nothing the
copy answers (its view never mentions an address of the source, by `copy_closed`). -/
theorem copy_independent (acc) (w : World) (A : List Addr) (hw : WF w A) :
    let r := copyFrom acc w A
    (∀ a ∈ A, ∀ o, view (write r.1 a o) r.2 = view r.1 r.2) ∧ view (free r.1 A) r.2 = view r.1 r.2 := by
  refine ⟨?_, ?_⟩
  · intro a ha o
    apply view_write_other
    intro hmem
    exact (copy_fresh acc w A hw a hmem).2 ha
  · apply view_free_other
    intro b hb
    exact (copy_fresh acc w A hw b hb).2

end Nifly.Copy
