/-
C06 — model of the block table of `NiHeader` (src/BasicTypes.cpp:219-354, 549-562;
include/BasicTypes.hpp:1118-1140).

A block is `(uid, type name, reference slots)`.  `uid` is a logical identity that no operation
touches; it is how the theorems say "the same logical block".  A reference slot is `none`
(`NIF_NPOS`) or `some index`.  Undefined behaviour of the C++ (`blockTypeIndices[blockId]` out of
range, `SetBlockOrder` with a non-permutation) is the explicit result `none`.
-/
namespace Nifly.Graph

structure Blk where
  uid : Nat
  ty : Nat
  refs : List (Option Nat)
  deriving DecidableEq, Repr, Inhabited

structure Hdr where
  blocks : List Blk := []
  types : List Nat := []          -- block type names (abstract ids), `blockTypes`
  tidx : List Nat := []           -- `blockTypeIndices`
  sizes : List Nat := []          -- `blockSizes` (only maintained when `hasSizes`)
  hasSizes : Bool := true         -- `version.File() >= V20_2_0_5`
  deriving Repr, Inhabited

namespace Hdr

def n (h : Hdr) : Nat := h.blocks.length

/-- `AddOrFindBlockTypeId` -/
def addOrFindType (types : List Nat) (t : Nat) : List Nat × Nat :=
  let id := types.idxOf t
  (if id = types.length then types ++ [t] else types, id)

/-- `AddBlock` -/
def add (h : Hdr) (b : Blk) : Hdr :=
  let (types', id) := addOrFindType h.types b.ty
  { h with blocks := h.blocks ++ [b], types := types', tidx := h.tidx ++ [id],
           sizes := if h.hasSizes then h.sizes ++ [0] else h.sizes }

/-- type-table part of `DeleteBlock`/`ReplaceBlock`: drop the type entry when the block is the
last one of its type and shift the larger indices down. -/
def dropType (types tidx : List Nat) (tid : Nat) : List Nat × List Nat :=
  if tidx.count tid < 2 then (types.eraseIdx tid, tidx.map fun x => if x > tid then x - 1 else x)
  else (types, tidx)

/-- `BlockDeleted` on one reference -/
def adjRef (i : Nat) : Option Nat → Option Nat
  | none => none
  | some j => if j = i then none else if j > i then some (j - 1) else some j

def adjBlk (i : Nat) (b : Blk) : Blk := { b with refs := b.refs.map (adjRef i) }

/-- `DeleteBlock(blockId)` for `blockId ≠ NIF_NPOS`; `none` = out-of-range access in the C++ -/
def delete (h : Hdr) (i : Nat) : Option Hdr :=
  if i ≥ h.blocks.length ∨ i ≥ h.tidx.length then none else
  let tid := h.tidx.getD i 0
  let (types', tidx') := dropType h.types h.tidx tid
  some { h with blocks := (h.blocks.eraseIdx i).map (adjBlk i), types := types', tidx := tidx'.eraseIdx i,
                sizes := if h.hasSizes then h.sizes.eraseIdx i else h.sizes }

/-- `ReplaceBlock(oldBlockId, newBlock)` for `oldBlockId ≠ NIF_NPOS` -/
def replace (h : Hdr) (i : Nat) (b : Blk) : Option Hdr :=
  if i ≥ h.blocks.length ∨ i ≥ h.tidx.length then none else
  let tid := h.tidx.getD i 0
  let (types1, tidx1) := dropType h.types h.tidx tid
  let (types2, id) := addOrFindType types1 b.ty
  some { h with blocks := h.blocks.set i b, types := types2, tidx := tidx1.set i id,
                sizes := if h.hasSizes then h.sizes.set i 0 else h.sizes }

/-- `p` is a permutation of `0..p.length-1` (stated redundantly as injective, in range and onto, so
that no counting argument is needed in proofs). -/
def isPerm (p : List Nat) : Bool :=
  decide p.Nodup && p.all (· < p.length) && (List.range p.length).all (p.contains ·)

/-- position `k` of the new order receives the old element `i` with `p[i] = k` -/
def permute (p : List Nat) (l : List α) : List α :=
  match l with
  | [] => []
  | d :: _ => (List.range l.length).map fun k => l.getD (p.idxOf k) d

def mapRef (p : List Nat) : Option Nat → Option Nat
  | none => none
  | some j => if j < p.length then some (p.getD j 0) else some j

/-- `SetBlockOrder(newOrder)` -/
def setOrder (h : Hdr) (p : List Nat) : Option Hdr :=
  if p.length ≠ h.blocks.length then some h
  else if !isPerm p then none
  else some { h with
    blocks := (permute p h.blocks).map fun b => { b with refs := b.refs.map (mapRef p) },
    tidx := permute p h.tidx,
    sizes := if h.hasSizes then permute p h.sizes else h.sizes }

/-- `IsBlockReferenced(blockId)` (child refs and ptrs) -/
def isReferenced (h : Hdr) (i : Nat) : Bool :=
  h.blocks.any fun b => b.refs.any (· == some i)

/-- `DeleteBlockByType(name, orphanedOnly)` -/
def deleteByType (h : Hdr) (t : Nat) (orphanedOnly : Bool) : Option Hdr :=
  let tid := h.types.idxOf t
  if tid = h.types.length then some h else
  let indices := (List.range h.blocks.length).filter fun i => h.tidx.getD i 0 == tid
  indices.reverse.foldlM (fun (g : Hdr) i => if !orphanedOnly || !g.isReferenced i then g.delete i else some g) h

/-- `DeleteUnreferencedBlocks<NiObject>(rootId)`; the recursion deletes one block per level, so
`fuel = numBlocks` is always enough (theorem `prune_fuel`). Second component: deletion count. -/
def prune : Nat → Hdr → Nat → Nat → Option (Hdr × Nat)
  | 0, h, _, c => some (h, c)
  | f + 1, h, root, c =>
    match (List.range h.blocks.length).find? fun i => i != root && !h.isReferenced i with
    | none => some (h, c)
    | some i => match h.delete i with
      | none => none
      | some h' => prune f h' (if root > i then root - 1 else root) (c + 1)

end Hdr

inductive Op where
  | add (b : Blk)
  | delete (i : Option Nat)          -- `none` = NIF_NPOS
  | replace (i : Option Nat) (b : Blk)
  | setOrder (p : List Nat)
  | deleteByType (t : Nat) (orphanedOnly : Bool)
  | prune (root : Option Nat)
  deriving Repr

def step (h : Hdr) : Op → Option Hdr
  | .add b => some (h.add b)
  | .delete none => some h
  | .delete (some i) => h.delete i
  | .replace none _ => some h
  | .replace (some i) b => h.replace i b
  | .setOrder p => h.setOrder p
  | .deleteByType t o => h.deleteByType t o
  | .prune none => some h
  | .prune (some r) => (Hdr.prune h.blocks.length h r 0).map (·.1)

def run (h : Hdr) : List Op → Option Hdr
  | [] => some h
  | op :: ops => (step h op).bind fun h' => run h' ops

/-! ### the abstract view the property talks about: who references whom, by logical identity -/

/-- logical block a slot designates (`none`: empty or dangling) -/
def deref (bs : List Blk) (r : Option Nat) : Option Nat := r.bind fun j => bs[j]?.map (·.uid)

/-- `(uid, type name, designated uids)` per block, in file order -/
def view (h : Hdr) : List (Nat × Nat × List (Option Nat)) :=
  h.blocks.map fun b => (b.uid, b.ty, b.refs.map (deref h.blocks))

end Nifly.Graph
