/-
C20 — transform algebra of include/Object3d.hpp / src/Object3d.cpp, transcribed over an arbitrary
scalar type `K` (so the same definitions are *executed* on `Rat` by the driver and *proved about*
for every field in `NiflyXform/C20.lean`). No Mathlib here.
-/
namespace Nifly.Xform

variable {K : Type} [Add K] [Sub K] [Mul K] [Div K] [Neg K] [Zero K] [One K]

structure Vec3 (K : Type) where
  x : K
  y : K
  z : K
  deriving DecidableEq, Repr

structure Mat3 (K : Type) where
  m00 : K
  m01 : K
  m02 : K
  m10 : K
  m11 : K
  m12 : K
  m20 : K
  m21 : K
  m22 : K
  deriving DecidableEq, Repr

namespace Vec3
def add (a b : Vec3 K) : Vec3 K := ⟨a.x + b.x, a.y + b.y, a.z + b.z⟩
def smul (f : K) (a : Vec3 K) : Vec3 K := ⟨a.x * f, a.y * f, a.z * f⟩      -- `Vector3 * float`, `float * Vector3`
def neg (a : Vec3 K) : Vec3 K := ⟨-a.x, -a.y, -a.z⟩
def dot (a b : Vec3 K) : K := a.x * b.x + a.y * b.y + a.z * b.z
end Vec3

namespace Mat3
def one : Mat3 K := ⟨1, 0, 0, 0, 1, 0, 0, 0, 1⟩

/-- `Matrix3::operator*(const Matrix3&)` -/
def mul (a o : Mat3 K) : Mat3 K :=
  ⟨a.m00 * o.m00 + a.m01 * o.m10 + a.m02 * o.m20,
   a.m00 * o.m01 + a.m01 * o.m11 + a.m02 * o.m21,
   a.m00 * o.m02 + a.m01 * o.m12 + a.m02 * o.m22,
   a.m10 * o.m00 + a.m11 * o.m10 + a.m12 * o.m20,
   a.m10 * o.m01 + a.m11 * o.m11 + a.m12 * o.m21,
   a.m10 * o.m02 + a.m11 * o.m12 + a.m12 * o.m22,
   a.m20 * o.m00 + a.m21 * o.m10 + a.m22 * o.m20,
   a.m20 * o.m01 + a.m21 * o.m11 + a.m22 * o.m21,
   a.m20 * o.m02 + a.m21 * o.m12 + a.m22 * o.m22⟩

/-- `Matrix3::operator*(const Vector3&)` -/
def mulVec (a : Mat3 K) (v : Vec3 K) : Vec3 K :=
  ⟨a.m00 * v.x + a.m01 * v.y + a.m02 * v.z,
   a.m10 * v.x + a.m11 * v.y + a.m12 * v.z,
   a.m20 * v.x + a.m21 * v.y + a.m22 * v.z⟩

def transpose (a : Mat3 K) : Mat3 K := ⟨a.m00, a.m10, a.m20, a.m01, a.m11, a.m21, a.m02, a.m12, a.m22⟩

/-- `Matrix3::Determinant` -/
def det (a : Mat3 K) : K :=
  a.m00 * (a.m11 * a.m22 - a.m12 * a.m21) + a.m01 * (a.m12 * a.m20 - a.m10 * a.m22)
    + a.m02 * (a.m10 * a.m21 - a.m11 * a.m20)

/-- `Matrix3::Invert` (the result when `det ≠ 0`) -/
def inv (a : Mat3 K) : Mat3 K :=
  let idet := 1 / a.det
  ⟨(a.m11 * a.m22 - a.m12 * a.m21) * idet,
   (a.m21 * a.m02 - a.m22 * a.m01) * idet,
   (a.m01 * a.m12 - a.m02 * a.m11) * idet,
   (a.m12 * a.m20 - a.m10 * a.m22) * idet,
   (a.m22 * a.m00 - a.m20 * a.m02) * idet,
   (a.m02 * a.m10 - a.m00 * a.m12) * idet,
   (a.m10 * a.m21 - a.m11 * a.m20) * idet,
   (a.m20 * a.m01 - a.m21 * a.m00) * idet,
   (a.m00 * a.m11 - a.m01 * a.m10) * idet⟩

/-- the matrix `RotVecToMat` builds from the unit axis `n`, `c = cos angle`, `s = sin angle` and
`omc` ("one minus cos", computed by either branch) -/
def rodrigues (n : Vec3 K) (c s omc : K) : Mat3 K :=
  ⟨n.x * n.x * omc + c, n.x * n.y * omc + n.z * s, n.z * n.x * omc - n.y * s,
   n.x * n.y * omc - n.z * s, n.y * n.y * omc + c, n.y * n.z * omc + n.x * s,
   n.z * n.x * omc + n.y * s, n.y * n.z * omc - n.x * s, n.z * n.z * omc + c⟩
end Mat3

/-- `MatTransform` -/
structure Xf (K : Type) where
  t : Vec3 K
  r : Mat3 K
  s : K
  deriving DecidableEq, Repr

namespace Xf
def id : Xf K := ⟨⟨0, 0, 0⟩, Mat3.one, 1⟩
/-- `ApplyTransform` : translation + rotation * (pos * scale) -/
def apply (a : Xf K) (p : Vec3 K) : Vec3 K := a.t.add (a.r.mulVec (p.smul a.s))
/-- `InverseTransform` -/
def inverse (a : Xf K) : Xf K :=
  let ir := a.r.inv
  let is := 1 / a.s
  ⟨(ir.mulVec a.t).smul (-is), ir, is⟩
/-- `ComposeTransforms` -/
def compose (a o : Xf K) : Xf K :=
  ⟨a.t.add (a.r.mulVec (o.t.smul a.s)), a.r.mul o.r, a.s * o.s⟩
/-- `ToMatrix` : the 3x4 upper part of the row-major Matrix4 (last row is 0 0 0 1) -/
def toMatrixRows (a : Xf K) : List (List K) :=
  [[a.r.m00 * a.s, a.r.m01 * a.s, a.r.m02 * a.s, a.t.x],
   [a.r.m10 * a.s, a.r.m11 * a.s, a.r.m12 * a.s, a.t.y],
   [a.r.m20 * a.s, a.r.m21 * a.s, a.r.m22 * a.s, a.t.z]]
end Xf

/-- `Matrix4::operator*(const Vector3&)` on the rows above -/
def rowsMulVec (rows : List (List K)) (v : Vec3 K) : List K :=
  rows.map fun r => match r with
    | [a, b, c, d] => a * v.x + b * v.y + c * v.z + d
    | _ => 0

/-! ### Matrix4 (row-major array of 16) -/
abbrev Mat4 (K : Type) := Fin 16 → K

namespace Mat4
def one : Mat4 K := fun i => if i.val % 5 = 0 then 1 else 0
/-- `operator*=` / `operator*` -/
def mul (a r : Mat4 K) : Mat4 K := fun i =>
  let n : Nat := i.val / 4 * 4
  let c : Nat := i.val % 4
  have h1 : n < 16 := by omega
  have h2 : n + 1 < 16 := by omega
  have h3 : n + 2 < 16 := by omega
  have h4 : n + 3 < 16 := by omega
  have c1 : c < 16 := by omega
  have c2 : c + 4 < 16 := by omega
  have c3 : c + 8 < 16 := by omega
  have c4 : c + 12 < 16 := by omega
  a ⟨n, h1⟩ * r ⟨c, c1⟩ + a ⟨n + 1, h2⟩ * r ⟨c + 4, c2⟩ + a ⟨n + 2, h3⟩ * r ⟨c + 8, c3⟩ + a ⟨n + 3, h4⟩ * r ⟨c + 12, c4⟩
def smul (a : Mat4 K) (f : K) : Mat4 K := fun i => a i * f
/-- `Det` exactly as written -/
def det (m : Mat4 K) : K :=
  let A := m 0 * ((m 5 * m 10 * m 15 + m 6 * m 11 * m 13 + m 7 * m 9 * m 14) - (m 7 * m 10 * m 13 + m 6 * m 9 * m 15 + m 5 * m 11 * m 14))
  let B := m 1 * ((m 4 * m 10 * m 15 + m 6 * m 11 * m 12 + m 7 * m 8 * m 14) - (m 7 * m 10 * m 12 + m 6 * m 8 * m 15 + m 4 * m 11 * m 14))
  let C := m 2 * ((m 4 * m 9 * m 15 + m 5 * m 11 * m 12 + m 7 * m 8 * m 13) - (m 7 * m 9 * m 12 + m 5 * m 8 * m 15 + m 4 * m 11 * m 13))
  let D := m 3 * ((m 4 * m 9 * m 14 + m 5 * m 10 * m 12 + m 6 * m 8 * m 13) - (m 6 * m 9 * m 12 + m 5 * m 8 * m 14 + m 4 * m 10 * m 13))
  A - B + C - D
/-- the three row/column indices other than `r` -/
def others (r : Nat) : List Nat := [0, 1, 2, 3].filter (· ≠ r)
/-- `Get33(minor, i, j)` followed by `Det33(minor)` -/
def minorDet (m : Mat4 K) (i j : Nat) : K :=
  let g (a b : Nat) : K := if h : 4 * a + b < 16 then m ⟨4 * a + b, h⟩ else 0
  match others i, others j with
  | [r0, r1, r2], [c0, c1, c2] =>
    let t0 := g r0 c0; let t1 := g r0 c1; let t2 := g r0 c2
    let t3 := g r1 c0; let t4 := g r1 c1; let t5 := g r1 c2
    let t6 := g r2 c0; let t7 := g r2 c1; let t8 := g r2 c2
    (t0 * t4 * t8 + t1 * t5 * t6 + t2 * t3 * t7) - (t2 * t4 * t6 + t1 * t3 * t8 + t0 * t5 * t7)
  | _, _ => 0
/-- `Adjoint`: entry `[i + 4 j]` = ± minor(i, j) -/
def adjoint (m : Mat4 K) : Mat4 K := fun k =>
  let i := k.val % 4
  let j := k.val / 4
  if (i % 2 = 1) != (j % 2 = 1) then -(minorDet m i j) else minorDet m i j
/-- `Inverse` (when `det ≠ 0`) -/
def inverse (m : Mat4 K) : Mat4 K := (adjoint m).smul (1 / det m)
end Mat4

/-! ### averages and medians -/
def sumList (l : List K) : K := l.foldl (· + ·) 0

/-- `CalcMedianOfFloats` on a sorted copy (`nth_element` selects the same order statistics) -/
def medianSorted (sorted : List K) : K :=
  let n := sorted.length
  if n = 0 then 0
  else if n % 2 = 1 then sorted.getD (n / 2) 0
  else (sorted.getD (n / 2) 0 + sorted.getD (n / 2 - 1) 0) / (1 + 1)

end Nifly.Xform
