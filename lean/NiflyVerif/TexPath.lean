/-
C19 — model of the texture path clean-up lambda of `NifFile::TrimTexturePaths`
(src/NifFile.cpp) over byte strings (`List Nat`, each element < 256).

The six std::regex calls are modelled by what they compute under libstdc++ / the "C" locale
(our reading of the regexes is part of the trusted base and is checked by the differential run):
  1. `trim_whitespace`                         C-locale isspace: 9..13 and 32
  2. `[/\\]+` -> `\`                           every maximal run of separators becomes one backslash
  3. `^(?!textures\\).*?\\textures\\` (icase)  unless the string starts with `textures\`, cut through the first
                                               `\textures\`, provided no line terminator precedes it (`.` stops at \n, \r)
  4. `^\\+` -> ``                              leading backslashes removed
  5. `^(?!^textures\\)` -> `textures\` (icase) prefix added unless present (not for OB / "special" versions)
  6. `^(?!^Data\\)` -> `Data\` (icase)         terrain only
`is_relative_path` is `true` for every string without a leading '/', which after step 2 is every string.
-/
namespace Nifly.TexPath

abbrev Str := List Nat

def isSpace (c : Nat) : Bool := c == 32 || (9 ≤ c && c ≤ 13)
def isSep (c : Nat) : Bool := c == 47 || c == 92
def lower (c : Nat) : Nat := if 65 ≤ c ∧ c ≤ 90 then c + 32 else c
def isLineTerm (c : Nat) : Bool := c == 10 || c == 13

def trim (s : Str) : Str := ((s.dropWhile isSpace).reverse.dropWhile isSpace).reverse

/-- step 2 -/
def collapse : Str → Str
  | [] => []
  | c :: cs =>
    if isSep c then
      match collapse cs with
      | 92 :: r => 92 :: r          -- the run continues: still one backslash
      | r => 92 :: r
    else c :: collapse cs

/-- case-insensitive (ASCII) prefix test -/
def startsWithCI : Str → Str → Bool
  | _, [] => true
  | [], _ :: _ => false
  | c :: cs, p :: ps => lower c == lower p && startsWithCI cs ps

/-- `textures\` -/
def texturesBs : Str := [116, 101, 120, 116, 117, 114, 101, 115, 92]
/-- `\textures\` -/
def bsTexturesBs : Str := 92 :: texturesBs
/-- `Data\` -/
def dataBs : Str := [68, 97, 116, 97, 92]

/-- what is left after cutting through the first `\textures\`, scanning from the current
position; `none` when there is none or a line terminator comes first -/
def cutFirst : Str → Option Str
  | [] => none
  | c :: cs =>
    if startsWithCI (c :: cs) bsTexturesBs then some ((c :: cs).drop bsTexturesBs.length)
    else if isLineTerm c then none
    else cutFirst cs

/-- step 3 -/
def stripToTextures (s : Str) : Str :=
  if startsWithCI s texturesBs then s else (cutFirst s).getD s

/-- step 4 -/
def stripLeadingBs (s : Str) : Str := s.dropWhile (· == 92)

/-- steps 5 and 6 (a zero-width match at the start; also matches in an empty subject) -/
def addPrefix (p s : Str) : Str := if startsWithCI s p then s else p ++ s

structure Cfg where
  /-- `IsOB() || IsSpecial()`: no `textures\` prefix is added -/
  noTexPrefix : Bool
  terrain : Bool

def clean (cfg : Cfg) (s : Str) : Str :=
  if s.isEmpty then s else
  let t := trim s
  if t.isEmpty then t else
  let t := stripLeadingBs (stripToTextures (collapse t))
  let t := if cfg.noTexPrefix then t else addPrefix texturesBs t
  if cfg.terrain then addPrefix dataBs t else t

end Nifly.TexPath
