import Driver.Proto
import NiflyVerif.Wire.Header
namespace Driver.Files
open Nifly.Wire Driver

def readBytes (path : String) : IO Bytes := do
  let b ← IO.FS.readBinFile path
  return b.toList.map (·.toNat)

def str (b : Bytes) : String := String.ofList (b.map fun n => Char.ofNat n)

def hash (b : Bytes) : Nat := b.foldl (fun h x => (h * 1000003 + x + 1) % 18446744073709551557) 7

/-- c07.walk <path> [<traceFile>] : decode + walk with the Lean reader and judge the header tables -/
def walk (args : List String) : IO String := do
  match args with
  | path :: rest =>
    let bytes ← readBytes path
    match decHeader bytes with
    | none => return "fail header-does-not-decode"
    | some (h, r) =>
      let hdrLen := bytes.length - r.length
      let mut problems : List String := []
      if hasTypes h.file then
        if h.tidx.length != h.numBlocks then problems := problems ++ ["type-index-count"]
        if h.tidx.any (· ≥ h.types.length) then problems := problems ++ ["type-index-out-of-range"]
        if (List.range h.types.length).any (fun t => !h.tidx.contains t) then problems := problems ++ ["unused-type"]
        if h.types.eraseDups.length != h.types.length then problems := problems ++ ["duplicate-type"]
      let mut blocksInfo := "-"
      let mut walked := "n/a"
      if hasSizes h.file then
        match splitBlocks h.sizes r with
        | none => problems := problems ++ ["size-table-runs-past-eof"]
        | some (bs, tail) =>
          if tail != footer then problems := problems ++ [s!"walk-does-not-land-on-footer(rest={tail.length})"]
          walked := "ok"
          blocksInfo := ",".intercalate (bs.map fun b => s!"{b.length}:{hash b}")
          -- string index fields (offsets from the writer's trace, relative to the start of the file)
          match rest with
          | tr :: _ =>
            let t ← IO.FS.readFile tr
            for line in t.splitOn "\n" do
              match line.splitOn " " with
              | [tag, off, sz] =>
                let o := off.toNat!
                let v := leDecode ((bytes.drop o).take sz.toNat!)
                if o ≥ hdrLen then
                  if tag == "S" && hasStrings h.file && h.file ≥ V 20 1 0 3 then
                    if v != 4294967295 && v ≥ h.strings.length then problems := problems ++ [s!"string-index-out-of-range@{o}={v}"]
              | _ => pure ()
          | [] => pure ()
      if hasStrings h.file then
        let mx := h.strings.foldl (fun m s => max m s.length) 0
        if mx != h.maxStrLen then problems := problems ++ [s!"max-string-length({h.maxStrLen}≠{mx})"]
      let dupStr := h.strings.eraseDups.length != h.strings.length
      let types := ",".intercalate (h.types.map str)
      let seq := ",".intercalate (h.tidx.map fun t => str (h.types.getD t []))
      let ok := if problems.isEmpty then "ok" else "fail"
      return s!"{ok} file={h.file} user={h.user} stream={h.stream} n={h.numBlocks} hdr={hdrLen} walk={walked} dupstrings={dupStr} nstr={h.strings.length} problems={problems} types={types} seq={seq} blocks={blocksInfo} strhash={hash (h.strings.map hash)}"
  | _ => return "bad-op"

/-- c03.compare <in> <out> <unknownType,...> -/
def compareUnknown (args : List String) : IO String := do
  match args with
  | [pin, pout, tys] =>
    let bi ← readBytes pin
    let bo ← readBytes pout
    -- the input's footer is whatever the producing tool wrote (root count + root list); the library's output must end in (1, 0)
    let walkIn : Option (Header × List Bytes) := match decHeader bi with
      | none => none
      | some (h, r) => if !hasSizes h.file then none else (splitBlocks h.sizes r).map fun (bs, _) => (h, bs)
    match walkIn, walkFile bo with
    | some (hi, bsi), some (ho, bso) =>
      let unk := tys.splitOn ","
      let tyOf (h : Header) (i : Nat) := str (h.types.getD (h.tidx.getD i 0) [])
      let mut problems : List String := []
      if hi.numBlocks != ho.numBlocks then problems := problems ++ ["block-count-changed"]
      for i in List.range hi.numBlocks do
        if tyOf hi i != tyOf ho i then problems := problems ++ [s!"type-at-{i}-changed({tyOf hi i}->{tyOf ho i})"]
        if unk.contains (tyOf hi i) then
          if bsi.getD i [] != bso.getD i [] then problems := problems ++ [s!"unknown-payload-{i}-changed"]
          if hi.sizes.getD i 0 != ho.sizes.getD i 0 then problems := problems ++ [s!"unknown-size-{i}-changed"]
      if !(hi.strings.isPrefixOf ho.strings) then problems := problems ++ ["string-table-not-extended-in-place"]
      return (if problems.isEmpty then "ok" else "fail") ++ s!" n={hi.numBlocks} unknown={(List.range hi.numBlocks).filter (fun i => unk.contains (tyOf hi i)) |>.length} strings={hi.strings.length}->{ho.strings.length} problems={problems}"
    | _, _ => return "fail cannot-walk"
  | _ => return "bad-op"

/-- bytes.eq <a> <b> : byte-identical? with first difference -/
def bytesEq (args : List String) : IO String := do
  match args with
  | [a, b] =>
    let x ← IO.FS.readBinFile a
    let y ← IO.FS.readBinFile b
    if x == y then return s!"same {x.size}"
    else
      let n := min x.size y.size
      let mut i := 0
      while i < n && x.get! i == y.get! i do i := i + 1
      return s!"differ at {i} sizes {x.size} {y.size}"
  | _ => return "bad-op"

def ioHandlers : List (String × (List String → IO String)) := [
  ("c07.walk", walk), ("c03.compare", compareUnknown), ("bytes.eq", bytesEq)
]
end Driver.Files
