import Driver.Proto
import NiflyVerif.Graph.Sort
namespace Driver.C04
open Nifly.Graph Driver

/-- c04.rebuild <obFo3 0/1> <isRoot 0/1> <order: idx list or -> <children: idx,x,...> <kinds: N,n,S,O,M,x,...>
    children are given as small integers (positions in the caller's numbering); prints the rebuilt list -/
def rebuild (a : List String) : String :=
  match a with
  | [ob, root, order, ch, ks] =>
    let children : List (Option Nat) := if ch == "-" then [] else (ch.splitOn ",").map fun t => if t == "x" then none else t.toNat?
    let kinds := if ks == "-" then [] else ks.splitOn ","
    let tbl : List (Nat × Kind) := (children.zip kinds).filterMap fun (c, k) => match c with
      | none => none
      | some i => some (i, if k == "N" then Kind.node true else if k == "n" then Kind.node false else if k == "S" then Kind.shape
                        else if k == "O" then Kind.other else Kind.missing)
    let kind (i : Nat) : Kind := match tbl.find? (·.1 == i) with | some (_, k) => k | none => Kind.missing
    let r := rebuildChildren kind (ob == "1") (root == "1") (parseNatList order) children
    if r.isEmpty then "-" else ",".intercalate (r.map fun | none => "x" | some i => toString i)
  | _ => "bad-op"

def handlers : List (String × Handler) := [("c04.rebuild", rebuild)]
end Driver.C04
