import Driver.Proto
import NiflyVerif.Graph.Header
namespace Driver.C06
open Nifly.Graph Driver

/-- type names are interned: the model only needs equality of names -/
abbrev Names := List String

def intern (ns : Names) (s : String) : Names × Nat :=
  let i := ns.idxOf s
  if i = ns.length then (ns ++ [s], i) else (ns, i)

def parseRefs (s : String) : List (Option Nat) :=
  if s == "-" || s == "" then [] else (s.splitOn ",").map fun t => if t == "x" then none else t.toNat?

def parseIdx (s : String) : Option Nat := if s == "x" then none else s.toNat?

def showRefs (l : List (Option Nat)) : String :=
  showNatList ((l.filterMap id).mergeSort (· ≤ ·))

def showState (ns : Names) (h : Hdr) : String :=
  let nm (t : Nat) := ns.getD t "?"
  let types := if h.types.isEmpty then "-" else ",".intercalate (h.types.map nm)
  let sizes := if h.hasSizes then showNatList h.sizes else "none"
  let blocks := if h.blocks.isEmpty then "-" else
    ";".intercalate (h.blocks.map fun b => s!"{b.uid}/{nm b.ty}/{showRefs b.refs}")
  s!"N={h.blocks.length} T={types} I={showNatList h.tidx} S={sizes} B={blocks}"

/-- parse `N=.. T=.. I=.. S=.. B=..` (as printed by the harness) -/
def parseState (ns : Names) (s : String) : Names × Hdr := Id.run do
  let mut ns := ns
  let mut h : Hdr := {}
  for f in s.splitOn " " do
    if f.startsWith "T=" then
      let v := (f.drop 2).toString
      if v != "-" then
        for t in v.splitOn "," do
          let (ns', i) := intern ns t
          ns := ns'
          h := { h with types := h.types ++ [i] }
    else if f.startsWith "I=" then
      h := { h with tidx := parseNatList (f.drop 2).toString }
    else if f.startsWith "S=" then
      let v := (f.drop 2).toString
      if v == "none" then h := { h with hasSizes := false } else h := { h with sizes := parseNatList v }
    else if f.startsWith "B=" then
      let v := (f.drop 2).toString
      if v != "-" then
        for bs in v.splitOn ";" do
          match bs.splitOn "/" with
          | [u, t, r] =>
            let (ns', i) := intern ns t
            ns := ns'
            h := { h with blocks := h.blocks ++ [{ uid := u.toNat!, ty := i, refs := parseRefs r }] }
          | _ => pure ()
  return (ns, h)

def parseOp (ns : Names) (s : String) : Names × Option Op :=
  match s.splitOn ":" with
  | ["add", u, t, r] => let (ns', i) := intern ns t; (ns', some (.add { uid := u.toNat!, ty := i, refs := parseRefs r }))
  | ["del", i] => (ns, some (.delete (parseIdx i)))
  | ["rep", i, u, t, r] =>
    let (ns', k) := intern ns t; (ns', some (.replace (parseIdx i) { uid := u.toNat!, ty := k, refs := parseRefs r }))
  | ["ord", p] => (ns, some (.setOrder (parseNatList p)))
  | ["dbt", t, o] => let (ns', i) := intern ns (t.replace "~~" "::"); (ns', some (.deleteByType i (o == "1")))
  | ["prune", r] => (ns, some (.prune (parseIdx r)))
  | _ => (ns, none)

def runLine (src : String) (ops : String) : String := Id.run do
  let mut ns : Names := []
  let mut h : Hdr := {}
  if src == "new:ob" then h := { h with hasSizes := false }
  else if src.startsWith "state:" then
    let (ns', h') := parseState ns (((src.drop 6).toString).replace "~" " ")
    ns := ns'; h := h'
  let mut out := showState ns h
  if ops != "-" then
    for o in ops.splitOn "|" do
      let (ns', op) := parseOp ns o
      ns := ns'
      match op with
      | none => return "bad-op"
      | some op =>
        match step h op with
        | none => return "ub"
        | some h' => h := h'; out := out ++ " # " ++ showState ns h
  return out ++ (if h.blocks.isEmpty then " # reload=skip" else " # reload=ok")

def handlers : List (String × Handler) := [
  ("c06.run", fun a => match a with
    | [src, ops] => runLine src ops
    | [src] => runLine src "-"
    | _ => "bad-op")
]
end Driver.C06
