import Driver.Proto
import NiflyVerif.Util.IndexOps
namespace Driver.C18
open Nifly.Util Driver

def toTris : List Nat → List Tri
  | a :: b :: c :: r => ⟨a, b, c⟩ :: toTris r
  | _ => []
def showTris (t : List Tri) : String := showNatList (t.flatMap fun x => [x.p1, x.p2, x.p3])

def showSlots (l : List (Option Int)) : String :=
  if l.isEmpty then "-" else ",".intercalate (l.map fun | none => "_" | some x => toString x)

/-- keys visited in ascending order, later writes win (std::map semantics) -/
def mapKeys (keys : List Int) (im : List Int) (off : Int) : List (Int × Int) :=
  let ins (acc : List (Int × Int)) (kv : Int × Int) := (acc.filter (·.1 ≠ kv.1)) ++ [kv]
  let r := keys.foldl (fun acc k => match mapKey im off k with
    | none => acc | some k' => ins acc (k', k)) []
  r.mergeSort (fun a b => a.1 ≤ b.1)

def handlers : List (String × Handler) := [
  ("c18.erase", fun a => match a with
    | [v, idx] => showIntList (erase (parseIntList v) (parseNatList idx)) | _ => "bad-op"),
  ("c18.insert", fun a => match a with
    | [v, idx] => let (r, o) := insert (parseIntList v) (parseNatList idx)
                  if o then "oob" else showSlots r
    | _ => "bad-op"),
  ("c18.collapse", fun a => match a with
    | [idx, n] => showIntList (collapseMap (parseNatList idx) n.toNat!) | _ => "bad-op"),
  ("c18.expand", fun a => match a with
    | [idx, n] => showIntList (expandMap (parseNatList idx) n.toNat!) | _ => "bad-op"),
  ("c18.applymap", fun a => match a with
    | [t, m] => let (r, d) := applyMap (parseIntList m) (toTris (parseNatList t))
                showTris r ++ " " ++ showNatList d
    | _ => "bad-op"),
  ("c18.strips", fun a => match a with
    | [s] => showTris (stripsToTris (parseNatListList s)) | _ => "bad-op"),
  ("c18.maxtri", fun a => match a with
    | [t] => toString (maxTriIndex (toTris (parseNatList t))) | _ => "bad-op"),
  ("c18.mapkeys", fun a => match a with
    | [k, m, off] => showIntList ((mapKeys ((parseIntList k).mergeSort (· ≤ ·)).eraseDups (parseIntList m) off.toInt!).flatMap
        fun (a, b) => [a, b])
    | _ => "bad-op")
]
end Driver.C18
