import Driver.Proto
import NiflyVerif.Graph.Lookup
namespace Driver.C15
open Nifly.Lookup Driver

/-- c15.tree <root|-1> <n> <adj rows i,j,..;…> -> the order in which the visited-set traversal expands blocks -/
def handlers : List (String × Handler) := [
  ("c15.tree", fun a => match a with
    | [root, n, adj] =>
      let rows : List (List Int) := (adj.splitOn ";").map fun r => if r == "-" then [] else parseIntList r
      let nb := n.toNat!
      let kids : Nat → List Nat := fun i => (rows.getD i []).filterMap fun x => if x < 0 then none else some x.toNat
      match root.toInt? with
      | some r => if r < 0 then "-" else showNatList (visit kids nb nb [r.toNat] [])
      | none => "bad-op"
    | _ => "bad-op")
]
end Driver.C15
