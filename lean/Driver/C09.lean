import Driver.Proto
import Driver.C18
import NiflyVerif.Mesh.Delete
import NiflyVerif.Mesh.PartDelete
namespace Driver.C09
open Nifly.Util Nifly.Mesh Driver

/-- c09.delete <nv> <tris p1.p2.p3,...> <idx> -> survivors tris deleted -/
def parseTris (s : String) : List Tri :=
  if s == "-" then [] else (s.splitOn ",").filterMap fun t => match t.splitOn "." with
    | [a, b, c] => some ⟨a.toNat!, b.toNat!, c.toNat!⟩
    | _ => none
def showTrisDot (t : List Tri) : String :=
  if t.isEmpty then "-" else ",".intercalate (t.map fun x => s!"{x.p1}.{x.p2}.{x.p3}")

def handlers : List (String × Handler) := [
  ("c09.delete", fun a => match a with
    | [nv, tris, idx] =>
      let (s, t, d) := deleteVerts nv.toNat! (parseTris tris) (parseNatList idx)
      showNatList s ++ " " ++ showTrisDot t ++ " " ++ showNatList d
    | _ => "bad-op"),
  ("c09.weights", fun a => match a with
    | [w, idx] =>
      let ws : List (Nat × Nat) := if w == "-" then [] else (w.splitOn ",").map fun x => (x.toNat!, 0)
      showNatList ((deleteWeights ws (parseNatList idx)).map (·.1))
    | _ => "bad-op"),
  -- c09.part <mapped 0|1> <mapSize> <idx> <vertex map> <tris> -> new vertex map, surviving positions, new triangles
  ("c09.part", fun a => match a with
    | [m, ms, idx, vm, tris] =>
      let vmap := parseNatList vm
      let p : SkinPart Nat := { vmap := vmap, weights := List.range vmap.length, tris := parseTris tris }
      let q := deletePart (m == "1") ms.toNat! (parseNatList idx) p
      showNatList q.vmap ++ " " ++ showNatList q.weights ++ " " ++ showTrisDot q.tris
    | _ => "bad-op")
]
end Driver.C09
