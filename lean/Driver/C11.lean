import Driver.Proto
import NiflyVerif.Graph.Copy
namespace Driver.C11
open Nifly.Copy Driver

/-- c11.copy <acc pairs g:d,g:d | -> <blocks ty,dataRef,cacheIdx;…>  ->  per block of the copy where its cached
pointer lands: `n` null, `o<i>` own block i, `s<i>` block i of the source -/
def handlers : List (String × Handler) := [
  ("c11.copy", fun a => match a with
    | [accS, blocksS] =>
      let pairs : List (Nat × Nat) := if accS == "-" then [] else (accS.splitOn ",").map fun p =>
        match p.splitOn ":" with | [g, d] => (g.toNat!, d.toNat!) | _ => (0, 0)
      let acc : Nat → Nat → Bool := fun g d => pairs.contains (g, d)
      let descr : List (List Int) := (blocksS.splitOn ";").map parseIntList
      let n := descr.length
      -- source blocks at addresses 100 … 100+n-1
      let A := (List.range n).map (100 + ·)
      let objs : List Obj := descr.map fun d => match d with
        | [ty, dr, c] => ⟨ty.toNat, if dr < 0 then none else some dr.toNat, if c < 0 then none else some (100 + c.toNat), 0⟩
        | _ => ⟨0, none, none, 0⟩
      let w : World := ⟨fun a => if 100 ≤ a ∧ a < 100 + n then objs[a - 100]? else none, 100 + n⟩
      let r := copyFrom acc w A
      " ".intercalate (r.2.map fun b => match r.1.heap b with
        | some o => match o.cache with
          | none => "n"
          | some c => if c ∈ r.2 then s!"o{r.2.idxOf c}" else if c ∈ A then s!"s{A.idxOf c}" else "x"
        | none => "?")
    | _ => "bad-op")
]
end Driver.C11
