import Driver.C18
import Driver.C06
import Driver.C19
import Driver.C20
import Driver.Files
import Driver.C04
import Driver.C09
import Driver.C17
import Driver.C11
import Driver.C12
import Driver.C14
import Driver.C15
import Driver.C17Refit
import Driver.C16
import Driver.Schema
/-! `nvdriver`: reads one command per line on stdin, prints one observation line per command.
Command names may carry type suffixes (`c18.erase.u16`): the model is width-agnostic, so the
longest registered prefix decides. -/
open Driver

def allHandlers : List (String × Handler) := C18.handlers ++ C06.handlers ++ C19.handlers ++ C20.handlers ++ C04.handlers ++ C09.handlers ++ C17.handlers ++ C11.handlers ++ C12.handlers ++ C14.handlers ++ C15.handlers ++ C16.handlers ++ C17Refit.handlers

def findHandler (name : String) : Option Handler :=
  let cands := allHandlers.filter fun (n, _) => name == n || name.startsWith (n ++ ".")
  match cands.mergeSort (fun a b => a.1.length ≥ b.1.length) with
  | (_, h) :: _ => some h
  | [] => none

partial def loop (hin : IO.FS.Stream) (hout : IO.FS.Stream) : IO Unit := do
  let line ← hin.getLine
  if line.isEmpty then return ()
  let l := line.trimAscii.toString
  if l.isEmpty then hout.putStrLn "" else
    match l.splitOn " " with
    | cmd :: args =>
      match (Files.ioHandlers ++ SchemaWalk.ioHandlers).find? (·.1 == cmd) with
      | some (_, h) =>
        let r ← (try h args catch e => pure s!"io-error {e}")
        hout.putStrLn r
      | none =>
      match findHandler cmd with
      | some h => hout.putStrLn (h args)
      | none => hout.putStrLn "bad-op"
    | [] => hout.putStrLn ""
  loop hin hout

def main : IO Unit := do
  let hin ← IO.getStdin
  let hout ← IO.getStdout
  loop hin hout
  hout.flush
