import Driver.Proto
import NiflyVerif.Mesh.SegRefit
namespace Driver.C17Refit
open Nifly.SegRefit Driver

/-- "start:n:subStart.subN,subStart.subN;…" ("-" = no segments; third field "-" = no sub-segments) -/
def parseSegs (s : String) : Option (List Seg) :=
  if s == "-" then some [] else
  (s.splitOn ";").mapM fun g =>
    match g.splitOn ":" with
    | [a, b, c] =>
      let subs : Option (List Sub) := if c == "-" then some [] else
        (c.splitOn ",").mapM fun x => match x.splitOn "." with
          | [p, q] => (p.toNat?).bind fun p' => (q.toNat?).map fun q' => ({ start := p', n := q' } : Sub)
          | _ => none
      (a.toNat?).bind fun a' => (b.toNat?).bind fun b' => subs.map fun ss => ({ start := a', n := b', subs := ss } : Seg)
    | _ => none

def showSegs (l : List Seg) : String :=
  if l.isEmpty then "-" else ";".intercalate (l.map fun g =>
    s!"{g.start}:{g.n}:" ++ (if g.subs.isEmpty then "-" else ",".intercalate (g.subs.map fun s => s!"{s.start}.{s.n}")))

/-- c17.refit <segs> <deleted triangle ids> -> the re-fitted segments -/
def handlers : List (String × Handler) := [
  ("c17.refit", fun a => match a with
    | [segs, ids] =>
      match parseSegs segs with
      | some gs => showSegs (refit gs (parseNatList ids))
      | none => "bad-op"
    | _ => "bad-op")
]
end Driver.C17Refit
