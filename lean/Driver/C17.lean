import Driver.Proto
import NiflyVerif.Mesh.Segments
namespace Driver.C17
open Nifly.Mesh Driver

def parseInf (s : String) : SegInfo :=
  if s == "-" then [] else (s.splitOn ";").map fun seg => match seg.splitOn ":" with
    | [p] => (p.toNat!, [])
    | [p, subs] => (p.toNat!, if subs == "" then [] else (subs.splitOn ",").map String.toNat!)
    | _ => (0, [])

/-- c17.set <inf> <labels> -> order | segment table | labels read back -/
def handlers : List (String × Handler) := [
  ("c17.set", fun a => match a with
    | [inf, labels] =>
      let l := parseIntList labels
      match setSegmentation (parseInf inf) l with
      | none => "ub"
      | some (order, segs) =>
        let tbl := "|".intercalate (segs.map fun s => s!"{s.start},{s.num}:" ++ ";".intercalate (s.subs.map fun x => s!"{x.1},{x.2}"))
        showNatList order ++ " " ++ (if tbl == "" then "-" else tbl) ++ " " ++ showIntList (getLabels segs l.length)
    | _ => "bad-op")
]
end Driver.C17
