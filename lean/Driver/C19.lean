import Driver.Proto
import NiflyVerif.TexPath
namespace Driver.C19
open Nifly.TexPath Driver

def hexVal (c : Char) : Nat :=
  if c.isDigit then c.toNat - 48 else if 'a' ≤ c && c ≤ 'f' then c.toNat - 87 else c.toNat - 55

def unhex (s : String) : List Nat :=
  if s == "-" then [] else
  let rec go : List Char → List Nat
    | a :: b :: r => (hexVal a * 16 + hexVal b) :: go r
    | _ => []
  go s.toList

def hexDigit (n : Nat) : Char := if n < 10 then Char.ofNat (48 + n) else Char.ofNat (87 + n)
def hex (l : List Nat) : String :=
  if l.isEmpty then "-" else String.ofList (l.flatMap fun b => [hexDigit (b / 16), hexDigit (b % 16)])

def handlers : List (String × Handler) := [
  -- c19.clean <noTexPrefix 0/1> <terrain 0/1> <hex>  ->  hex(clean s) hex(clean (clean s))
  ("c19.clean", fun a => match a with
    | [o, t, h] =>
      let cfg : Cfg := ⟨o == "1", t == "1"⟩
      let r := clean cfg (unhex h)
      hex r ++ " " ++ hex (clean cfg r)
    | _ => "bad-op")
]
end Driver.C19
