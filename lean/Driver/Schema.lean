import Driver.Proto
import Driver.Files
import NiflyVerif.Generated.Schemas
namespace Driver.SchemaWalk
open Nifly.Wire Nifly.Schema Nifly.Generated Driver Driver.Files

def cum (ws : List Nat) : List Nat := (ws.foldl (fun (acc : List Nat × Nat) w => (acc.1 ++ [acc.2 + w], acc.2 + w)) ([], 0)).1

/-- c01.schema <path> <fullTraceFile|-> <versionName> : decode every block whose (type, version) has a generated schema with
the Lean reader; per block: the schema must consume exactly the block, re-encoding the decoded store must give the block's bytes
back, and the scalar boundaries must agree with the library's own transfer trace. -/
def walk (args : List String) : IO String := do
  match args with
  | [path, tracePath, vname] =>
    let bytes ← readBytes path
    match decHeader bytes with
    | none => return "fail header-does-not-decode"
    | some (h, r) =>
      let hdrLen := bytes.length - r.length
      -- environment: only table lookups survive specialisation; `ver (1000 + i)` = length of header string i
      let ver : Nat → Nat := fun k => if k ≥ 1000 then (h.strings.getD (k - 1000) []).length else 0
      let evs ← if tracePath == "-" then pure [] else do
        let t ← IO.FS.readFile tracePath
        pure ((t.splitOn "\n").filterMap fun line => match line.splitOn " " with
          | [_, off, sz] => some (off.toNat!, sz.toNat!)
          | _ => none)
      let tyOf (i : Nat) := str (h.types.getD (h.tidx.getD i 0) [])
      let mut problems : List String := []
      let mut ok := 0
      let mut noSchema := 0
      let mut okTypes : List String := []
      let sized := hasSizes h.file
      let mut rest := r
      let mut pos := hdrLen
      let mut stopped := false
      for i in List.range h.numBlocks do
        if stopped then continue
        let ty := tyOf i
        let size := h.sizes.getD i 0
        let found : Option Stmt :=
          match schemaIndex.find? (fun e => e.1 == ty && e.2.1 == vname) with
          | some (_, _, si) => some (schemas.getD si .skip)
          | none => match schemaIndexWeak.find? (fun e => e.1 == ty && e.2.1 == vname) with
            | some (_, _, si) => some (schemasWeak.getD si .skip)
            | none => none
        match found with
        | none =>
          noSchema := noSchema + 1
          if sized then
            rest := rest.drop size
            pos := pos + size
          else stopped := true      -- without a size table an unmodelled block cannot be skipped
        | some st =>
          let input := if sized then rest.take size else rest
          match rd ver st (fun _ => 0) [] input with
          | none =>
            problems := problems ++ [s!"{ty}#{i}:schema-runs-past-the-block"]
            if sized then
              rest := rest.drop size
              pos := pos + size
            else stopped := true
          | some (s1, left) =>
            let consumed := input.length - left.length
            if sized && left.length != 0 then problems := problems ++ [s!"{ty}#{i}:schema-consumes-{consumed}-of-{size}"]
            else
              let back := wr ver st s1 []
              if back != input.take consumed then problems := problems ++ [s!"{ty}#{i}:re-encoding-differs"]
              else
                -- boundaries: the library's trace inside this block against the model's widths
                let mine := cum (widths ver st s1 [])
                let theirs := (evs.filter fun e => e.2 > 0 && e.1 ≥ pos && e.1 < pos + consumed).map fun e => e.1 + e.2 - pos
                if tracePath != "-" && !(theirs.all (mine.contains ·)) && !(mine.all (theirs.contains ·)) then
                  problems := problems ++ [s!"{ty}#{i}:field-boundaries-differ"]
                else
                  ok := ok + 1
                  if !okTypes.contains ty then okTypes := okTypes ++ [ty]
            rest := rest.drop (if sized then size else consumed)
            pos := pos + (if sized then size else consumed)
      let verdict := if problems.isEmpty then "ok" else "fail"
      return s!"{verdict} n={h.numBlocks} decoded={ok} noschema={noSchema} problems={problems.take 6} types={",".intercalate okTypes}"
  | _ => return "bad-op"

def ioHandlers : List (String × (List String → IO String)) := [("c01.schema", walk)]
end Driver.SchemaWalk
