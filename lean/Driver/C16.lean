import Driver.Proto
import NiflyVerif.Wire.Truncated
namespace Driver.C16
open Nifly.Wire Driver

def hexVal (c : Char) : Nat :=
  if c.isDigit then c.toNat - '0'.toNat else if 'a' ≤ c ∧ c ≤ 'f' then c.toNat - 'a'.toNat + 10 else c.toNat - 'A'.toNat + 10

def hexBytes (s : String) : List Nat :=
  let rec go : List Char → List Nat
    | a :: b :: rest => (hexVal a * 16 + hexVal b) :: go rest
    | _ => []
  go s.toList

/-- c16.read <hexbytes|-> <cut> <w,w,...> -> values read by the truncated-stream model, and its failed flag -/
def handlers : List (String × Handler) := [
  ("c16.read", fun a => match a with
    | [hex, cut, ws] =>
      let bytes := if hex == "-" then [] else hexBytes hex
      let s0 : In := { rest := bytes.take cut.toNat! }
      let r := (parseNatList ws).foldl (fun (acc : List Nat × In) w =>
        let x := rdInto w (List.replicate w 0) acc.2
        (acc.1 ++ [x.1], x.2)) ([], s0)
      showNatList r.1 ++ " " ++ (if r.2.failed then "failed" else "good")
    | _ => "bad-op")
]
end Driver.C16
