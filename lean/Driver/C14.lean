import Driver.Proto
import NiflyVerif.Graph.Clone
namespace Driver.C14
open Nifly.Clone Driver

def parseRefs (s : String) : List (Option Nat) :=
  if s == "-" || s == "" then [] else (s.splitOn ",").map fun x =>
    match x.toInt? with
    | some i => if i < 0 then none else some i.toNat
    | none => none

def showRefs (l : List (Option Nat)) : String :=
  if l.isEmpty then "-" else ",".intercalate (l.map fun | some i => toString i | none => "-1")

def parseBlk (row : String) : Option Blk :=
  match row.splitOn ";" with
  | [t, k, p] => t.toNat?.map fun ty => { ty := ty, payload := 0, kids := parseRefs k, ptrs := parseRefs p }
  | _ => none

def showBlk (b : Blk) : String := s!"{b.ty};{showRefs b.kids};{showRefs b.ptrs}"

/-- c14.clone <n0> <root> <src rows ty;kids;ptrs|…> -> the blocks `cloneChildren` leaves from index n0 on, when the clone of
source block `root` is appended to a destination of n0 childless blocks -/
def handlers : List (String × Handler) := [
  ("c14.clone", fun a => match a with
    | [n0, root, rows] =>
      match n0.toNat?, root.toNat?, (rows.splitOn "|").mapM parseBlk with
      | some n, some r, some src =>
        match src[r]? with
        | some b =>
          let dest := List.replicate n ({ ty := 0, payload := 0, kids := [], ptrs := [] } : Blk) ++ [b]
          let out := cloneChildren 1000000 src dest n
          "|".intercalate ((out.drop n).map showBlk)
        | none => "bad-op"
      | _, _, _ => "bad-op"
    | _ => "bad-op")
]
end Driver.C14
