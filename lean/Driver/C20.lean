import Driver.Proto
import NiflyVerif.Xform.Defs
namespace Driver.C20
open Nifly.Xform Driver

def parseRat (s : String) : Rat :=
  match s.splitOn "/" with
  | [n] => (n.toInt!.toNat : Int) |> fun _ => (n.toInt! : Rat)
  | [n, d] => (n.toInt! : Rat) / (d.toInt! : Rat)
  | _ => 0

def rats (s : String) : List Rat := if s == "-" then [] else (s.splitOn ",").map parseRat

def showRat (r : Rat) : String := s!"{r.num}/{r.den}"
def showRats (l : List Rat) : String := if l.isEmpty then "-" else ",".intercalate (l.map showRat)

def g (l : List Rat) (i : Nat) : Rat := l.getD i 0
def mat3At (l : List Rat) (o : Nat) : Mat3 Rat :=
  ⟨g l o, g l (o+1), g l (o+2), g l (o+3), g l (o+4), g l (o+5), g l (o+6), g l (o+7), g l (o+8)⟩
def xfOf (l : List Rat) : Xf Rat := ⟨⟨g l 0, g l 1, g l 2⟩, mat3At l 3, g l 12⟩
def m3l (m : Mat3 Rat) : List Rat := [m.m00, m.m01, m.m02, m.m10, m.m11, m.m12, m.m20, m.m21, m.m22]
def xfl (t : Xf Rat) : List Rat := [t.t.x, t.t.y, t.t.z] ++ m3l t.r ++ [t.s]
def v3l (v : Vec3 Rat) : List Rat := [v.x, v.y, v.z]
def vecOf (l : List Rat) : Vec3 Rat := ⟨g l 0, g l 1, g l 2⟩

def handlers : List (String × Handler) := [
  ("c20.compose", fun a => match a with
    | [x, y] => showRats (xfl ((xfOf (rats x)).compose (xfOf (rats y)))) | _ => "bad-op"),
  ("c20.inverse", fun a => match a with
    | [x] => let t := xfOf (rats x); if t.r.det = 0 || t.s = 0 then "singular" else showRats (xfl t.inverse) | _ => "bad-op"),
  ("c20.apply", fun a => match a with
    | [x, v] => showRats (v3l ((xfOf (rats x)).apply (vecOf (rats v)))) | _ => "bad-op"),
  ("c20.tomatrix", fun a => match a with
    | [x, v] => let t := xfOf (rats x)
                showRats (t.toMatrixRows.flatten ++ [0, 0, 0, 1]) ++ " " ++ showRats (rowsMulVec t.toMatrixRows (vecOf (rats v)))
    | _ => "bad-op"),
  ("c20.mat3inv", fun a => match a with
    | [x] => let m := mat3At (rats x) 0
             if m.det = 0 then "singular" else showRats (m3l m.inv) ++ " " ++ showRat m.det
    | _ => "bad-op"),
  ("c20.rodrigues", fun a => match a with
    | [n, c, s, o] => showRats (m3l (Mat3.rodrigues (vecOf (rats n)) (parseRat c) (parseRat s) (parseRat o))) | _ => "bad-op"),
  ("c20.mat4mul", fun a => match a with
    | [x, y] => let l := rats x
                let r := rats y
                let m : Mat4 Rat := fun i => g l i.val
                let n : Mat4 Rat := fun i => g r i.val
                showRats ((List.finRange 16).map (Mat4.mul m n))
    | _ => "bad-op"),
  ("c20.mat4inv", fun a => match a with
    | [x] => let l := rats x
             let m : Mat4 Rat := fun i => g l i.val
             if Mat4.det m = 0 then "singular" else
             showRats ((List.finRange 16).map (Mat4.inverse m)) ++ " " ++ showRat (Mat4.det m)
    | _ => "bad-op")
]
end Driver.C20
