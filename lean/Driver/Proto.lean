/-! Line protocol helpers shared by all driver commands (mirror of harness/harness.hpp). -/
namespace Driver

def splitOn (s : String) (sep : String) : List String := s.splitOn sep

def parseInt? (s : String) : Option Int := s.toInt?

/-- "-" = empty list, otherwise comma separated integers -/
def parseIntList (s : String) : List Int :=
  if s == "-" || s == "" then [] else (s.splitOn ",").filterMap String.toInt?

def parseNatList (s : String) : List Nat := (parseIntList s).map Int.toNat

/-- ";"-separated list of lists, "." = empty -/
def parseNatListList (s : String) : List (List Nat) :=
  if s == "." || s == "" then [] else (s.splitOn ";").map parseNatList

def showIntList (l : List Int) : String :=
  if l.isEmpty then "-" else ",".intercalate (l.map toString)

def showNatList (l : List Nat) : String :=
  if l.isEmpty then "-" else ",".intercalate (l.map toString)

abbrev Handler := List String → String

end Driver
