import Driver.Proto
import NiflyVerif.Graph.Rename
namespace Driver.C12
open Nifly.Rename Driver

/-- c12.rename <name,name,...>  (`~` = empty name) -> names after duplicate resolution -/
def handlers : List (String × Handler) := [
  ("c12.rename", fun a => match a with
    | [names] =>
      let l := (names.splitOn ",").map fun n => if n == "~" then "" else n
      ",".intercalate ((renameExact true l).map fun n => if n == "" then "~" else n)
    | _ => "bad-op")
]
end Driver.C12
