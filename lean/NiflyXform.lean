import NiflyXform.C20
