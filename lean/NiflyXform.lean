import NiflyXform.C20
import NiflyXform.C13
