import Lean
/-! Axiom audit: `lake env lean --run audit/Audit.lean <Module> [<Module> …]`
prints one line per theorem declared in the given modules:
`THEOREM <name> AXIOMS <comma separated axioms or ->`. -/
open Lean

abbrev EnvM := StateM Environment
instance : MonadEnv EnvM := ⟨get, modify⟩

def main (args : List String) : IO UInt32 := do
  initSearchPath (← findSysroot)
  let mods := args.map (·.toName)
  let env ← importModules (mods.map fun m => { module := m }).toArray {} (trustLevel := 1024) (loadExts := false)
  let mut bad := 0
  for m in mods do
    match env.getModuleIdx? m with
    | none => IO.eprintln s!"module {m} not found"; bad := bad + 1
    | some idx =>
      let names := env.header.moduleData[idx.toNat]!.constNames
      for n in names do
        if n.isInternal then continue
        match env.find? n with
        | some (.thmInfo _) =>
          let axs := ((collectAxioms n : EnvM (Array Name)).run' env).toList.map toString
          IO.println s!"THEOREM {n} AXIOMS {if axs.isEmpty then "-" else ",".intercalate axs}"
        | _ => pure ()
  return (if bad == 0 then 0 else 1)
