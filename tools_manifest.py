#!/usr/bin/env python3
"""Regenerates MANIFEST.json from the table below (kept in one place so it stays valid)."""
import json, os
HERE = os.path.dirname(os.path.abspath(__file__))
ALL = [f"C{i:02d}" for i in range(1, 21)]
# id -> (text, level_note, technique, design_ref)
CLAIMED = json.load(open(os.path.join(HERE, "manifest_claims.json")))
checks = []
for pid in ALL:
    if pid not in CLAIMED:
        continue
    c = CLAIMED[pid]
    checks.append(dict(
        property_id=pid,
        quick_cmd=f"./check {pid} --tier quick",
        thorough_cmd=f"./check {pid} --tier thorough",
        evidence_file=f"/verif/evidence/{pid}.json",
        replay_cmd_template=f"./check {pid} --replay {{path}}",
        engine="lean+harness",
        level_claimed=dict(category="proof", text=c["text"], design_ref=c.get("design_ref", "DESIGN.md §7 " + pid)),
        level_note=c["level_note"],
        technique=c["technique"]))
na = [dict(property_id=p, reason=CLAIMED.get("_not_applicable", {}).get(p, "check not built yet in this round (planned, see DESIGN.md §7); not claimed")) for p in ALL if p not in CLAIMED]
man = dict(
    version=1,
    setup_cmd="./check --setup",
    hooks=dict(guard="NIFLY_VERIF",
               enable="checks compile /repo/src/*.cpp with -DNIFLY_VERIF (plus ASan/UBSan) into /verif/.cache and link them with /verif/harness/*.cpp",
               baseline_off_cmd="cmake -G Ninja -S /repo -B /repo/_build && cmake --build /repo/_build && ctest --test-dir /repo/_build -j8 --timeout 900",
               source_commits=CLAIMED.get("_hook_commits", []),
               add_only=True),
    engines=[
        dict(name="lean", path="/verif/lean", serves_properties=[c["property_id"] for c in checks],
             kind_free_text="Lean 4 library NiflyVerif (models + theorems, core only), NiflyXform (Mathlib single modules), executable driver nvdriver"),
        dict(name="harness", path="/verif/harness", serves_properties=[c["property_id"] for c in checks],
             kind_free_text="C++17 line-protocol harness linked against /repo's sources (ASan+UBSan, -DNIFLY_VERIF)"),
        dict(name="translator", path="/verif/translator", serves_properties=[p for p in CLAIMED.get("_translator", [])],
             kind_free_text="python3 + clang++-14 JSON AST: regenerates Lean tables from the C++ source on every run"),
    ],
    checks=checks,
    not_applicable=na,
    notes="Every check: lake build of the property's theorem module + axiom audit + correspondence run of the Lean model's executable definitions against the real library + property oracle on the implementation's outputs. See DESIGN.md.")
json.dump(man, open(os.path.join(HERE, "MANIFEST.json"), "w"), indent=1)
print("checks:", [c["property_id"] for c in checks])
