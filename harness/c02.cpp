// C02 (and C11): a read-only query battery over a whole model, and repeated saves of one in-memory object.
#include "gen.hpp"
#include "harness.hpp"
#include "shapeobs.hpp"
#include <sstream>

using namespace nifly;
using namespace vh;

namespace vh {
// every read-only query we know, as (key, value) pairs
std::vector<std::pair<std::string, std::string>> battery(NifFile& nif, bool walkParents) {
	std::vector<std::pair<std::string, std::string>> q;
	if (getenv("VH_NOBAT"))
		return q;
	NiHeader& hdr = nif.GetHeader();
	q.emplace_back("valid", std::to_string(nif.IsValid()) + "/" + std::to_string(nif.HasUnknown()) + "/" + std::to_string(nif.IsTerrain()));
	q.emplace_back("numBlocks", std::to_string(hdr.GetNumBlocks()));
	std::string types;
	for (uint32_t i = 0; i < hdr.GetNumBlocks(); ++i) {
		auto b = hdr.GetBlock<NiObject>(i);
		types += std::string(b ? b->GetBlockName() : "null") + ",";
		if (b) {
			std::set<NiRef*> refs;
			b->GetChildRefs(refs);
			b->GetPtrs(refs);
			std::vector<long long> t;
			// empty entries of reference arrays are "no reference": arrays that do not keep them drop them while writing
			// (CleanInvalidRefs), which is not a change of what the block references
			for (auto r : refs)
				if (r->index != NIF_NPOS)
					t.push_back(static_cast<long long>(r->index));
			std::sort(t.begin(), t.end());
			std::vector<NiStringRef*> srefs;
			b->GetStringRefs(srefs);
			std::string ss;
			for (auto s : srefs)
				ss += hexEncode(s->get()) + ",";
			q.emplace_back("block" + std::to_string(i), showList(t) + "/" + ss);
			if (auto av = dynamic_cast<NiAVObject*>(b)) {
				const MatTransform& tr = av->GetTransformToParent();
				q.emplace_back("av" + std::to_string(i), std::to_string(av->flags) + "/" + fhex(tr.translation.x) + fhex(tr.translation.y) + fhex(tr.translation.z) + fhex(tr.scale));
			}
		}
	}
	q.emplace_back("types", types);
	auto root = nif.GetRootNode();
	q.emplace_back("root", std::to_string(static_cast<long long>(nif.GetBlockID(root) == NIF_NPOS ? -1 : static_cast<long long>(nif.GetBlockID(root)))));
	std::string nodes;
	for (auto n : nif.GetNodes()) {
		MatTransform t;
		// generated graphs carry arbitrary references; a parent cycle makes this accessor loop (see C15), so it is only
		// asked on graphs that came from a file or the API
		if (walkParents)
			nif.GetNodeTransformToGlobal(n->name.get(), t);
		else
			t = n->GetTransformToParent();
		nodes += hexEncode(n->name.get()) + ":" + fhex(t.translation.x) + fhex(t.translation.y) + fhex(t.translation.z) + fhex(t.scale) + "/" + std::to_string(n->flags) + ",";
	}
	q.emplace_back("nodes", nodes);
	std::vector<NiObject*> tree;
	nif.GetTree(tree);
	std::string ts;
	for (auto o : tree)
		ts += std::to_string(nif.GetBlockID(o)) + ",";
	q.emplace_back("tree", ts);
	size_t k = 0;
	for (auto s : nif.GetShapes()) {
		std::string key = "shape" + std::to_string(k++);
		q.emplace_back(key + ".name", hexEncode(s->name.get()));
		// generated instances carry arbitrary counts and indices (segment records, partitions, …) that the accessors below
		// are not specified for; on those only the block-level answers above are compared
		if (!walkParents)
			continue;
		q.emplace_back(key + ".obs", observeShape(nif, s));
		std::string tex;
		for (uint32_t i = 0; i < 10; ++i) {
			std::string t;
			uint32_t r = nif.GetTextureSlot(s, t, i);
			tex += std::to_string(r) + ":" + hexEncode(t) + ",";
		}
		q.emplace_back(key + ".tex", tex);
		auto shader = nif.GetShader(s);
		q.emplace_back(key + ".shader", shader ? std::string(shader->GetBlockName()) + "/" + std::to_string(shader->GetShaderType()) + "/" + std::to_string(shader->IsSkinned()) : "none");
		auto parent = nif.GetParentNode(s);
		q.emplace_back(key + ".parent", parent ? hexEncode(parent->name.get()) : "none");
		BoundingSphere b = s->GetBounds();
		q.emplace_back(key + ".bounds", fhex(b.center.x) + fhex(b.center.y) + fhex(b.center.z) + fhex(b.radius));
		std::vector<Vector3> tg, bt;
		q.emplace_back(key + ".bintan", nif.GetBinaryTangentData(s, &tg, &bt) ? v3s(tg) + "/" + v3s(bt) : "none");
		q.emplace_back(key + ".alpha", nif.GetAlphaProperty(s) ? "yes" : "no");
		if (auto tsd = dynamic_cast<NiTriShapeData*>(s->GetGeomData())) {
			std::string mgs;
			for (auto& mg : tsd->GetMatchGroups()) {
				for (auto m : mg.matches)
					mgs += std::to_string(m) + ".";
				mgs += ",";
			}
			q.emplace_back(key + ".matchgroups", mgs);
		}
	}
	return q;
}

std::string diffBattery(const std::vector<std::pair<std::string, std::string>>& a, const std::vector<std::pair<std::string, std::string>>& b) {
	if (a.size() != b.size())
		return "number-of-answers " + std::to_string(a.size()) + "->" + std::to_string(b.size());
	for (size_t i = 0; i < a.size(); ++i) {
		if (a[i].first != b[i].first)
			return "key " + a[i].first + "->" + b[i].first;
		if (a[i].second != b[i].second) {
			// for shape observations name the first differing field
			if (a[i].first.find(".obs") != std::string::npos) {
				auto fa = split(a[i].second, ' '), fb = split(b[i].second, ' ');
				for (size_t k = 0; k < std::min(fa.size(), fb.size()); ++k)
					if (fa[k] != fb[k])
						return a[i].first + ":" + fa[k].substr(0, fa[k].find('=')) + " " + fa[k].substr(0, 60) + " -> " + fb[k].substr(0, 60);
			}
			return a[i].first + " " + a[i].second.substr(0, 80) + " -> " + b[i].second.substr(0, 80);
		}
	}
	return "";
}
} // namespace vh

namespace vh {
NiShape* buildMesh(NifFile& nif, const std::vector<std::string>& f);
void skinMesh(NifFile& nif, NiShape* shape, int nbones, uint64_t seed, int maxInfl);
// arbitrary (not half-exact) positions and UVs on every shape, tangents where the shape has normals and UVs
void perturb(NifFile& nif, uint64_t seed) {
	Rng rng(seed);
	for (auto s : nif.GetShapes()) {
		std::vector<Vector3> v;
		if (nif.GetVertsForShape(s, v) && !v.empty()) {
			for (auto& p : v) {
				p.x += float(rng.below(100000)) / 77777.0f;
				p.y -= float(rng.below(100000)) / 33333.0f;
				p.z += float(rng.below(100000)) / 91919.0f;
			}
			nif.SetVertsForShape(s, v);
		}
		std::vector<Vector2> uv;
		if (nif.GetUvsForShape(s, uv) && !uv.empty()) {
			for (auto& p : uv) {
				p.u = float(rng.below(100000)) / 99991.0f;
				p.v = float(rng.below(100000)) / 99991.0f;
			}
			nif.SetUvsForShape(s, uv);
		}
		if (s->HasNormals() && s->HasUVs() && rng.below(3) != 0)
			nif.CalcTangentsForShape(s);
		if (auto tsd = dynamic_cast<NiTriShapeData*>(s->GetGeomData())) {
			if (s->GetNumVertices() >= 2 && rng.below(2) == 0) {
				MatchGroup mg;
				mg.count = 2;
				mg.matches = {0, 1};
				tsd->SetMatchGroups({mg});
			}
		}
	}
}
} // namespace vh
namespace vh {
// generated instances can be unloadable (a reader fault on arbitrary counts is C15/C16 matter): generation + load are
// probed in a child of their own; "ok" for other sources
std::string probeSynth(const std::string& src) {
	if (src.rfind("synth:", 0) != 0)
		return "ok";
	return forked([&]() -> std::string {
		auto f = split(src, ':');
		size_t nf = f.size();
		if (nf < 6)
			return std::string("bad-source");
		std::string ty = f[1];
		for (size_t k = 2; k + 4 < nf; ++k)
			ty += ":" + f[k];
		NifFile tmp, nif;
		if (!synthModel(tmp, ty, f[nf - 4], std::stoull(f[nf - 3]), std::stoi(f[nf - 2]), static_cast<uint32_t>(std::stoul(f[nf - 1]))))
			return std::string("unknown-type");
		std::stringstream ss(std::ios::in | std::ios::out | std::ios::binary);
		NifSaveOptions so;
		so.optimize = so.sortBlocks = false;
		if (tmp.Save(ss, so) != 0)
			return std::string("save-failed");
		ss.seekg(0);
		return std::string(nif.Load(ss) == 0 ? "ok" : "load-failed");
	}, 60);
}
} // namespace vh
namespace {
NifSaveOptions so0(const std::string& mode) {
	NifSaveOptions so;
	so.optimize = so.sortBlocks = mode == "default";
	return so;
}
// the property compares outputs "after canonical string-table renumbering": a save that reorders blocks numbers the string
// table of the *next* save differently. Canonical form = the file re-read and written raw by a fresh object (the string
// table is then rebuilt in block order).
std::string canon(const std::string& bytes) {
	std::stringstream in(bytes, std::ios::in | std::ios::binary);
	NifFile x;
	if (x.Load(in) != 0)
		return std::string("unloadable:") + bytes;
	std::stringstream o(std::ios::in | std::ios::out | std::ios::binary);
	NifSaveOptions raw;
	raw.optimize = raw.sortBlocks = false;
	x.Save(o, raw);
	return o.str();
}
bool sameUpToStrings(const std::string& x, const std::string& y) {
	return x == y || (x.size() == y.size() && canon(x) == canon(y));
}
uint64_t h64(const std::string& s) {
	uint64_t h = 1469598103934665603ull;
	for (unsigned char c : s) {
		h ^= c;
		h *= 1099511628211ull;
	}
	return h;
}
// c02.run <load:path | synth:type:ver:seed:n:maxc | mesh:...> <raw|default> [edit:<seed>:<n>]
std::string run(const Args& a) {
	{
		std::string probe = probeSynth(a[1]);
		if (probe != "ok")
			return "unloadable-synth " + probe;
	}
	return forked([&]() -> std::string {
		NifFile nif;
		auto f = split(a[1], ':');
		if (f[0] == "load") {
			if (nif.Load(f[1]) != 0)
				return std::string("load-failed");
		}
		else if (f[0] == "synth") {
			NifFile tmp;
			// the type name may contain "::": the last four fields are version, seed, count, maxCount
			size_t nf = f.size();
			if (nf < 6)
				return std::string("bad-source");
			std::string ty = f[1];
			for (size_t k = 2; k + 4 < nf; ++k)
				ty += ":" + f[k];
			if (!synthModel(tmp, ty, f[nf - 4], std::stoull(f[nf - 3]), std::stoi(f[nf - 2]), static_cast<uint32_t>(std::stoul(f[nf - 1]))))
				return std::string("unknown-type");
			std::stringstream ss(std::ios::in | std::ios::out | std::ios::binary);
			NifSaveOptions so;
			so.optimize = false;
			so.sortBlocks = false;
			if (tmp.Save(ss, so) != 0)
				return std::string("save-failed");
			ss.seekg(0);
			if (nif.Load(ss) != 0)
				return std::string("load-failed");
		}
		else if (f[0] == "mesh") {
			// mesh:<ver>:<nv>:<nt>:<seed>:<flags>[:<nbones>]   flags n c as in buildMesh, k = skinned
			NiShape* s = buildMesh(nif, f);
			if (!s)
				return std::string("no-shape");
			if (f.size() > 6 && std::stoi(f[6]) > 0) {
				skinMesh(nif, s, std::stoi(f[6]), std::stoull(f[4]) + 1, 4);
				nif.UpdateSkinPartitions(s);
			}
		}
		else
			return std::string("bad-source");
		for (size_t k = 3; k < a.size(); ++k) {
			auto e = split(a[k], ':');
			if (e[0] == "perturb")
				perturb(nif, std::stoull(e[1]));
			if (e[0] == "hiflags")
				for (auto n : nif.GetNodes())
					n->flags |= 0x80000u;
		}
		NifSaveOptions so;
		so.optimize = so.sortBlocks = a[2] == "default";
		std::string out;
		std::vector<std::string> saves;
		bool wp = f[0] != "synth";
		bool interleave = false;
		for (size_t k = 3; k < a.size(); ++k)
			interleave = interleave || a[k] == "interleave";
		auto stripParts = [&]() {
			int n = 0;
			for (uint32_t i = 0; i < nif.GetHeader().GetNumBlocks(); ++i)
				if (auto sp = nif.GetHeader().GetBlock<NiSkinPartition>(i))
					for (auto& p : sp->partitions)
						n += p.numStrips > 0 ? 1 : 0;
			return n;
		};
		if (interleave) {
			// saves interleaved with read-only queries, no warm-up: save, queries, save, queries, save
			std::vector<std::string> sv;
			int strips0 = stripParts();
			for (int k = 0; k < 3; ++k) {
				std::stringstream ss(std::ios::in | std::ios::out | std::ios::binary);
				if (nif.Save(ss, so0(a[2])) != 0)
					return std::string("save-failed-") + std::to_string(k);
				sv.push_back(ss.str());
				battery(nif, wp);
			}
			std::string o = "interleaved sizes=" + std::to_string(sv[0].size()) + "," + std::to_string(sv[1].size()) + "," + std::to_string(sv[2].size());
			o += std::string(" same12=") + (sameUpToStrings(sv[0], sv[1]) ? "1" : "0") + " same23=" + (sameUpToStrings(sv[1], sv[2]) ? "1" : "0");
			o += " strips=" + std::to_string(strips0) + "/" + std::to_string(stripParts());
			return o;
		}
		battery(nif, wp); // warm-up: some queries build caches (true triangles, raw vertex copies) on first use
		auto q0 = battery(nif, wp);
		std::string qdiff;
		for (int k = 0; k < 3; ++k) {
			std::stringstream ss(std::ios::in | std::ios::out | std::ios::binary);
			if (nif.Save(ss, so) != 0)
				return std::string("save-failed-") + std::to_string(k);
			saves.push_back(ss.str());
			auto q = battery(nif, wp);
			// a default save may reorder/prune on the first save: the battery is compared from the first saved state on
			if (k == 0 && a[2] == "default")
				q0 = q;
			// Oblivion keeps tangents in a NiBinaryExtraData block that FinalizeData materialises on the first save of a model
			// whose tangents were computed in memory: block numbering legitimately changes once; the logical answers
			// (shapes, nodes, textures, flags by name) are still compared with the state before the save
			// (the same holds when the block exists already and the tangents were recomputed in memory: the first save brings
			// the block up to date, so what the block holds is not compared across that save)
			if (k == 0 && a[2] != "default" && nif.GetHeader().GetVersion().IsOB()) {
				auto logical = [](const std::vector<std::pair<std::string, std::string>>& v) {
					std::vector<std::pair<std::string, std::string>> r;
					for (auto& e : v)
						if ((e.first.rfind("shape", 0) == 0 && e.first.find(".bintan") == std::string::npos) || e.first == "nodes" || e.first == "valid")
							r.push_back(e);
					return r;
				};
				std::string d0 = diffBattery(logical(q0), logical(q));
				if (!d0.empty() && qdiff.empty())
					qdiff = "after-save1(logical): " + d0;
				q0 = q;
			}
			std::string d = diffBattery(q0, q);
			if (!d.empty() && qdiff.empty())
				qdiff = "after-save" + std::to_string(k + 1) + ": " + d;
		}
		out = "sizes=" + std::to_string(saves[0].size()) + "," + std::to_string(saves[1].size()) + "," + std::to_string(saves[2].size());
		// the property compares outputs "after canonical string-table renumbering": a save that reorders blocks numbers the
		// string table of the *next* save differently. Canonical form = the file re-read and written raw by a fresh object
		// (the string table is then rebuilt in block order).
		std::string renum;
		bool eq[2];
		for (int k = 0; k < 2; ++k) {
			eq[k] = saves[k] == saves[k + 1];
			if (!eq[k] && saves[k].size() == saves[k + 1].size() && canon(saves[k]) == canon(saves[k + 1])) {
				eq[k] = true; // equal up to string numbering
				renum += std::to_string(k + 1);
			}
		}
		if (!renum.empty())
			out += " renumbered=" + renum;
		out += std::string(" same12=") + (eq[0] ? "1" : "0") + " same23=" + (eq[1] ? "1" : "0");
		if (!eq[0] || !eq[1]) {
			const std::string &x = !eq[0] ? saves[0] : saves[1], &y = !eq[0] ? saves[1] : saves[2];
			size_t i = 0;
			while (i < x.size() && i < y.size() && x[i] == y[i])
				++i;
			out += " firstdiff=" + std::to_string(i);
		}
		out += " queries=" + (qdiff.empty() ? std::string("same") : "CHANGED " + qdiff);
		out += " h=" + std::to_string(h64(saves[0]));
		return out;
	}, 120);
}
Reg r1("c02.run", run);
} // namespace
