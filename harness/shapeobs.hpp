// Canonical observation of one shape through the public API plus the raw index structures the properties talk about.
// Floats are printed as IEEE-754 bit patterns. Used by C09 C10 C12 C13 C14 C17.
#pragma once
#include "NifFile.hpp"
#include "harness.hpp"
#include <cstring>
#include <sstream>

namespace vh {
inline std::string fhex(float f) {
	uint32_t u;
	std::memcpy(&u, &f, 4);
	char b[16];
	snprintf(b, sizeof b, "%08x", u);
	return b;
}
inline std::string v3s(const std::vector<nifly::Vector3>& v) {
	std::string o;
	for (auto& x : v)
		o += fhex(x.x) + fhex(x.y) + fhex(x.z) + ",";
	return o.empty() ? "-" : o.substr(0, o.size() - 1);
}
inline std::string triS(const std::vector<nifly::Triangle>& t) {
	std::ostringstream o;
	for (size_t i = 0; i < t.size(); ++i)
		o << (i ? "," : "") << t[i].p1 << "." << t[i].p2 << "." << t[i].p3;
	return t.empty() ? "-" : o.str();
}

// key=value fields separated by ' '
inline std::string observeShape(nifly::NifFile& nif, nifly::NiShape* shape, bool full = true) {
	using namespace nifly;
	std::ostringstream o;
	NiHeader& hdr = nif.GetHeader();
	o << "type=" << shape->GetBlockName() << " nv=" << shape->GetNumVertices() << " nt=" << shape->GetNumTriangles();
	std::vector<Vector3> verts;
	nif.GetVertsForShape(shape, verts);
	o << " V=" << v3s(verts);
	std::vector<Vector2> uvs;
	if (nif.GetUvsForShape(shape, uvs)) {
		std::string s;
		for (auto& u : uvs)
			s += fhex(u.u) + fhex(u.v) + ",";
		o << " UV=" << (s.empty() ? "-" : s.substr(0, s.size() - 1));
	}
	else
		o << " UV=none";
	if (auto n = nif.GetNormalsForShape(shape))
		o << " N=" << v3s(*n);
	else
		o << " N=none";
	std::vector<Color4> cols;
	if (nif.GetColorsForShape(shape, cols)) {
		std::string s;
		for (auto& c : cols)
			s += fhex(c.r) + fhex(c.g) + fhex(c.b) + fhex(c.a) + ",";
		o << " C=" << (s.empty() ? "-" : s.substr(0, s.size() - 1));
	}
	else
		o << " C=none";
	std::vector<Vector3> tg, bt;
	o << " TG=" << (nif.GetTangentsForShape(shape, tg) ? v3s(tg) : "none");
	o << " BT=" << (nif.GetBitangentsForShape(shape, bt) ? v3s(bt) : "none");
	std::vector<Triangle> tris;
	shape->GetTriangles(tris);
	o << " T=" << triS(tris);
	// strips of NiTriStripsData
	if (auto sd = hdr.GetBlock<NiTriStripsData>(shape->DataRef())) {
		o << " STRIPS=";
		for (size_t i = 0; i < sd->stripsInfo.points.size(); ++i)
			o << (i ? ";" : "") << showList(sd->stripsInfo.points[i]);
		if (sd->stripsInfo.points.empty())
			o << ".";
	}
	if (!full)
		return o.str();
	// skin: bones and weights
	std::vector<std::string> bones;
	nif.GetShapeBoneList(shape, bones);
	o << " BONES=";
	for (size_t i = 0; i < bones.size(); ++i)
		o << (i ? "," : "") << hexEncode(bones[i]);
	if (bones.empty())
		o << "-";
	o << " W=";
	for (uint32_t b = 0; b < bones.size(); ++b) {
		std::unordered_map<uint16_t, float> w;
		nif.GetShapeBoneWeights(shape, b, w);
		std::vector<std::pair<uint16_t, float>> ws(w.begin(), w.end());
		std::sort(ws.begin(), ws.end());
		o << (b ? ";" : "");
		for (size_t i = 0; i < ws.size(); ++i)
			o << (i ? "," : "") << ws[i].first << ":" << fhex(ws[i].second);
		if (ws.empty())
			o << "-";
	}
	if (bones.empty())
		o << "-";
	// raw skin data / partition structures
	auto skinInst = hdr.GetBlock<NiSkinInstance>(shape->SkinInstanceRef());
	if (skinInst) {
		if (auto sd = hdr.GetBlock(skinInst->dataRef)) {
			o << " SKINDATA=";
			for (size_t b = 0; b < sd->bones.size(); ++b) {
				o << (b ? ";" : "") << sd->bones[b].numVertices << "/";
				for (size_t i = 0; i < sd->bones[b].vertexWeights.size(); ++i)
					o << (i ? "," : "") << sd->bones[b].vertexWeights[i].index;
			}
			if (sd->bones.empty())
				o << "-";
		}
		if (auto sp = hdr.GetBlock(skinInst->skinPartitionRef)) {
			o << " PARTS=" << sp->numPartitions << "/" << sp->partitions.size() << "/" << (sp->bMappedIndices ? 1 : 0) << "/" << sp->numVertices << "/" << sp->vertData.size();
			for (auto& p : sp->partitions) {
				o << "|" << p.numVertices << "/" << p.numTriangles << "/" << p.numBones << "/" << p.numStrips << "/" << p.numWeightsPerVertex << "/"
				  << (p.hasVertexMap ? 1 : 0) << (p.hasVertexWeights ? 1 : 0) << (p.hasFaces ? 1 : 0) << (p.hasBoneIndices ? 1 : 0) << "/" << showList(p.vertexMap) << "/"
				  << showList(p.bones) << "/" << triS(p.triangles) << "/" << triS(p.trueTriangles) << "/" << p.vertexWeights.size() << "/" << p.boneIndices.size()
				  << "/";
				for (size_t i = 0; i < p.strips.size(); ++i)
					o << (i ? ";" : "") << showList(p.strips[i]);
				o << "/";
				for (size_t i = 0; i < p.vertexWeights.size(); ++i)
					o << (i ? "," : "") << fhex(p.vertexWeights[i].w1) << fhex(p.vertexWeights[i].w2) << fhex(p.vertexWeights[i].w3) << fhex(p.vertexWeights[i].w4);
				o << "/";
				for (size_t i = 0; i < p.boneIndices.size(); ++i)
					o << (i ? "," : "") << int(p.boneIndices[i].i1) << "." << int(p.boneIndices[i].i2) << "." << int(p.boneIndices[i].i3) << "." << int(p.boneIndices[i].i4);
			}
		}
		if (auto bsd = dynamic_cast<BSDismemberSkinInstance*>(skinInst)) {
			o << " DISMEMBER=";
			for (size_t i = 0; i < bsd->partitions.size(); ++i)
				o << (i ? "," : "") << bsd->partitions[i].flags << ":" << bsd->partitions[i].partID;
			if (bsd->partitions.empty())
				o << "-";
		}
	}
	// per-triangle partition labels through the API
	{
		NiVector<BSDismemberSkinInstance::PartitionInfo> pinfo;
		std::vector<int> triParts;
		if (nif.GetShapePartitions(shape, pinfo, triParts))
			o << " TRIPARTS=" << pinfo.size() << "/" << showList(triParts);
	}
	// segments
	{
		NifSegmentationInfo inf;
		std::vector<int> triParts;
		if (NifFile::GetShapeSegments(shape, inf, triParts)) {
			o << " SEGS=";
			for (size_t i = 0; i < inf.segs.size(); ++i) {
				o << (i ? ";" : "") << inf.segs[i].partID << ":";
				for (size_t j = 0; j < inf.segs[i].subs.size(); ++j)
					o << (j ? "," : "") << inf.segs[i].subs[j].partID;
			}
			if (inf.segs.empty())
				o << "-";
			o << " SEGTRI=" << showList(triParts);
		}
		if (auto sits = dynamic_cast<BSSubIndexTriShape*>(shape)) {
			auto& seg = sits->VerifSegmentation();
			o << " RAWSEG=" << seg.numPrimitives << "/" << seg.numSegments << "/" << seg.numTotalSegments;
			for (auto& s : seg.segments) {
				o << "|" << s.startIndex << "," << s.numPrimitives << "," << s.parentArrayIndex << "," << s.numSubSegments << ":";
				for (size_t j = 0; j < s.subSegments.size(); ++j)
					o << (j ? ";" : "") << s.subSegments[j].startIndex << "," << s.subSegments[j].numPrimitives << "," << s.subSegments[j].arrayIndex;
			}
		}
	}
	// LOCKEDNORM
	for (auto& er : shape->extraDataRefs) {
		auto ie = hdr.GetBlock<NiIntegersExtraData>(er);
		if (ie && ie->name == "LOCKEDNORM") {
			std::vector<long long> v;
			for (uint32_t i = 0; i < ie->integersData.size(); ++i)
				v.push_back(ie->integersData[i]);
			o << " LOCKEDNORM=" << showList(v);
		}
	}
	return o.str();
}
} // namespace vh
