// C14: CloneShape within one model, into a fresh model, into another loaded model; repeated; under ASan.
#include "gen.hpp"
#include "harness.hpp"
#include "shapeobs.hpp"
#include <array>
#include <cmath>
#include <sstream>

using namespace nifly;
using namespace vh;

namespace vh {
std::vector<std::pair<std::string, std::string>> battery(NifFile& nif, bool walkParents);
std::string diffBattery(const std::vector<std::pair<std::string, std::string>>& a, const std::vector<std::pair<std::string, std::string>>& b);
NiShape* buildMesh(NifFile& nif, const std::vector<std::string>& f);
void skinMesh(NifFile& nif, NiShape* shape, int nbones, uint64_t seed, int maxInfl);
void perturb(NifFile& nif, uint64_t seed);
} // namespace vh

namespace {
std::string saveRaw(NifFile& nif) {
	std::stringstream ss(std::ios::in | std::ios::out | std::ios::binary);
	NifSaveOptions so;
	so.optimize = so.sortBlocks = false;
	if (nif.Save(ss, so) != 0)
		return "save-failed";
	return ss.str();
}

// shader / texture answers of a shape
std::string shaderObs(NifFile& nif, NiShape* s) {
	std::string o;
	for (uint32_t i = 0; i < 10; ++i) {
		std::string t;
		uint32_t r = nif.GetTextureSlot(s, t, i);
		o += std::to_string(r) + ":" + hexEncode(t) + ",";
	}
	auto shader = nif.GetShader(s);
	o += shader ? std::string("/") + shader->GetBlockName() + "/" + std::to_string(shader->GetShaderType()) + "/" + std::to_string(shader->IsSkinned()) + "/" + std::to_string(shader->IsModelSpace()) : "/none";
	o += nif.GetAlphaProperty(s) ? "/alpha" : "/noalpha";
	return o;
}

// what a pointer designates: the block type, and for nodes (bones, skeleton roots — found again by name in the destination)
// the name as well
std::string nodeLabel(NiObject* t) {
	if (auto n = dynamic_cast<NiNode*>(t))
		return std::string(t->GetBlockName()) + ":" + hexEncode(n->name.get());
	return t->GetBlockName();
}

// parallel walk of the block trees below two shapes: same types, same number of references, every reference resolves
// returns "" or the first discrepancy
std::string walkPair(NifFile& S, NiObject* a, NifFile& D, NiObject* b, int depth, std::set<NiObject*>& seen) {
	if (depth > 30 || !seen.insert(b).second)
		return "";
	if (std::string(a->GetBlockName()) != b->GetBlockName())
		return std::string("type ") + a->GetBlockName() + " vs " + b->GetBlockName();
	std::vector<uint32_t> ia, ib;
	a->GetChildIndices(ia);
	b->GetChildIndices(ib);
	if (ia.size() != ib.size())
		return std::string(a->GetBlockName()) + ": " + std::to_string(ia.size()) + " vs " + std::to_string(ib.size()) + " child references";
	for (size_t k = 0; k < ia.size(); ++k) {
		auto ca = S.GetHeader().GetBlock<NiObject>(ia[k]);
		auto cb = D.GetHeader().GetBlock<NiObject>(ib[k]);
		if ((ca == nullptr) != (cb == nullptr))
			return std::string(a->GetBlockName()) + ": child reference " + std::to_string(k) + " resolves in one model only";
		if (ib[k] != NIF_NPOS && !cb)
			return std::string(b->GetBlockName()) + ": child reference " + std::to_string(k) + " = " + std::to_string(ib[k]) + " does not resolve in the destination";
		if (ca) {
			std::string r = walkPair(S, ca, D, cb, depth + 1, seen);
			if (!r.empty())
				return r;
		}
	}
	// pointers: each must resolve in the destination to a block of the type the source's pointer designates
	std::set<NiPtr*> pa, pb;
	a->GetPtrs(pa);
	b->GetPtrs(pb);
	std::vector<std::string> ta, tb;
	for (auto p : pa) {
		auto t = S.GetHeader().GetBlock<NiObject>(p->index);
		ta.push_back(p->index == NIF_NPOS ? "empty" : (t ? t->GetBlockName() : "dangling"));
	}
	for (auto p : pb) {
		auto t = D.GetHeader().GetBlock<NiObject>(p->index);
		tb.push_back(p->index == NIF_NPOS ? "empty" : (t ? t->GetBlockName() : "dangling"));
	}
	// a pointer to the source's root corresponds to a pointer to the destination's root, whatever node class that is
	{
		auto ra = S.GetRootNode();
		auto rb = D.GetRootNode();
		ta.clear();
		tb.clear();
		// cloning into another model re-binds the skeleton root of the skin to that model's root node
		NiPtr* skelRoot = nullptr;
		if (&S != &D) {
			if (auto si = dynamic_cast<NiSkinInstance*>(a))
				skelRoot = &si->targetRef;
			else if (auto bi = dynamic_cast<BSSkinInstance*>(a))
				skelRoot = &bi->targetRef;
		}
		for (auto p : pa) {
			auto t = S.GetHeader().GetBlock<NiObject>(p->index);
			ta.push_back(p->index == NIF_NPOS ? "empty" : (t ? (t == ra || (p == skelRoot && rb) ? "root" : nodeLabel(t)) : "dangling"));
		}
		for (auto p : pb) {
			auto t = D.GetHeader().GetBlock<NiObject>(p->index);
			tb.push_back(p->index == NIF_NPOS ? "empty" : (t ? (t == rb ? "root" : nodeLabel(t)) : "dangling"));
		}
	}
	std::sort(ta.begin(), ta.end());
	std::sort(tb.begin(), tb.end());
	if (ta != tb) {
		std::string x, y;
		for (auto& t : ta)
			x += t + ",";
		for (auto& t : tb)
			y += t + ",";
		return std::string(a->GetBlockName()) + ": pointers designate [" + x + "] in the source, [" + y + "] in the destination";
	}
	return "";
}

bool buildSource(NifFile& nif, const std::string& src) {
	auto f = split(src, ':');
	if (f[0] == "load")
		return nif.Load(f[1]) == 0;
	if (f[0] == "mesh") {
		NiShape* s = buildMesh(nif, f);
		if (!s)
			return false;
		if (f.size() > 6 && std::stoi(f[6]) > 0) {
			skinMesh(nif, s, std::stoi(f[6]), std::stoull(f[4]) + 1, 4);
			nif.UpdateSkinPartitions(s);
			// every third seed: the skeleton root is a dedicated node below the scene root, not the scene root itself
			if (std::stoull(f[4]) % 3 == 0) {
				MatTransform t;
				auto sk = nif.AddNode("SkelRoot", t, nif.GetRootNode());
				uint32_t id = nif.GetBlockID(sk);
				auto inst = nif.GetHeader().GetBlock<NiObject>(s->SkinInstanceRef());
				if (auto si = dynamic_cast<NiSkinInstance*>(inst))
					si->targetRef.index = id;
				else if (auto bi = dynamic_cast<BSSkinInstance*>(inst))
					bi->targetRef.index = id;
			}
		}
		return true;
	}
	return false;
}

// c14.run <source> <same|fresh|load:path|mesh:…> <shapeIndex> <repeat>
std::string run(const Args& a) {
	return forked([&]() -> std::string {
		NifFile S;
		if (!buildSource(S, a[1]))
			return std::string("source-failed");
		auto shapes = S.GetShapes();
		size_t si = static_cast<size_t>(std::stoul(a[3]));
		if (si >= shapes.size())
			return std::string("no-such-shape");
		int repeat = std::stoi(a[4]);
		// settle (queries and saves finalise the model, see C02)
		battery(S, true);
		saveRaw(S);
		std::string bytesS = saveRaw(S);
		auto qS = battery(S, true);
		NifFile other;
		NifFile* D = &S;
		bool same = a[2] == "same";
		if (a[2] == "fresh") {
			other.Create(S.GetHeader().GetVersion());
			D = &other;
		}
		else if (!same) {
			if (!buildSource(other, a[2]))
				return std::string("dest-failed");
			D = &other;
			battery(other, true);
			saveRaw(other);
		}
		NiShape* src = S.GetShapes()[si];
		std::string srcObs = observeShape(S, src);
		std::string srcShader = shaderObs(S, src);
		std::vector<std::string> srcBones;
		S.GetShapeBoneList(src, srcBones);
		uint32_t nbBefore = D->GetHeader().GetNumBlocks();
		auto qDbefore = battery(*D, true);
		std::string out = "src=" + std::string(src->GetBlockName()) + " nb=" + std::to_string(nbBefore);
		std::vector<std::string> names;
		for (int r = 0; r < repeat; ++r) {
			std::string nm = "Clone" + std::to_string(r);
			NiShape* c = D->CloneShape(src, nm, same ? nullptr : &S);
			if (!c) {
				out += " clone" + std::to_string(r) + "=null";
				continue;
			}
			names.push_back(nm);
			std::string why;
			if (D->GetBlockID(c) == NIF_NPOS)
				why += "clone-not-in-destination;";
			if (c->name.get() != nm)
				why += "name;";
			std::string co = observeShape(*D, c);
			if (co != srcObs) {
				auto fa = split(srcObs, ' '), fb = split(co, ' ');
				std::string first;
				for (size_t k = 0; k < std::min(fa.size(), fb.size()) && first.empty(); ++k)
					if (fa[k] != fb[k])
						first = fa[k].substr(0, 50) + "->" + fb[k].substr(0, 50);
				why += "geometry/skin differs:" + first + ";";
			}
			if (shaderObs(*D, c) != srcShader)
				why += "shader/textures differ:" + srcShader.substr(0, 60) + "->" + shaderObs(*D, c).substr(0, 60) + ";";
			std::vector<std::string> cb;
			D->GetShapeBoneList(c, cb);
			if (cb != srcBones)
				why += "bone list differs;";
			for (auto& bn : cb)
				if (!D->FindBlockByName<NiNode>(bn))
					why += "bone " + hexEncode(bn) + " missing in destination;";
			std::set<NiObject*> seen;
			std::string w = walkPair(S, src, *D, c, 0, seen);
			if (!w.empty())
				why += "graph: " + w + ";";
			// the cached geometry pointer belongs to the destination
			if (auto g = dynamic_cast<NiGeometry*>(c) ? c->GetGeomData() : nullptr)
				if (D->GetBlockID(g) == NIF_NPOS || D->GetBlockID(g) != c->DataRef()->index)
					why += "cached geometry pointer is not the destination's data block;";
			out += " clone" + std::to_string(r) + "=" + (why.empty() ? "ok" : "BAD:" + why);
		}
		// the source is untouched
		if (!same) {
			std::string d = diffBattery(qS, battery(S, true));
			std::string bytes = saveRaw(S);
			out += std::string(" source=") + (d.empty() && bytes == bytesS ? "same" : "CHANGED:" + (d.empty() ? std::string("bytes") : d.substr(0, 100)));
		}
		else {
			std::string so = observeShape(S, S.GetShapes()[si]);
			out += std::string(" source=") + (so == srcObs && shaderObs(S, S.GetShapes()[si]) == srcShader ? "same" : "CHANGED:shape-observation");
		}
		// what the destination held before is still there and unchanged (blocks are only appended)
		{
			auto q = battery(*D, true);
			std::string lost;
			std::map<std::string, std::string> now(q.begin(), q.end());
			for (auto& e : qDbefore) {
				if (e.first.rfind("shape", 0) != 0 || e.first.find(".obs") == std::string::npos)
					continue;
				if (!now.count(e.first) || now[e.first] != e.second)
					lost = e.first;
			}
			out += std::string(" destprev=") + (lost.empty() ? "same" : "CHANGED:" + lost);
		}
		// the destination saves and reloads with the clones intact
		{
			std::string bytes = saveRaw(*D);
			std::stringstream in(bytes, std::ios::in | std::ios::binary);
			NifFile R;
			if (bytes == "save-failed" || R.Load(in) != 0)
				out += " reload=FAILED";
			else {
				std::string why;
				for (auto& nm : names) {
					auto c = R.FindBlockByName<NiShape>(nm);
					if (!c) {
						why += nm + " missing;";
						continue;
					}
					// "intact": same vertex count, positions within storage precision, same triangles as a multiset of
					// rotation-normalised index triples (saving may rotate / re-sort triangles)
					if (!same) {
						NiShape* s0 = S.GetShapes()[si];
						auto canonT = [](NiShape* sh) {
							std::vector<Triangle> t;
							sh->GetTriangles(t);
							std::vector<std::array<uint32_t, 3>> r;
							for (auto& x : t) {
								std::array<uint32_t, 3> y{x.p1, x.p2, x.p3};
								while (y[0] > y[1] || y[0] > y[2])
									std::rotate(y.begin(), y.begin() + 1, y.end());
								r.push_back(y);
							}
							std::sort(r.begin(), r.end());
							return r;
						};
						std::vector<Vector3> va, vb;
						S.GetVertsForShape(s0, va);
						R.GetVertsForShape(c, vb);
						if (va.size() != vb.size())
							why += nm + " vertex count differs after reload;";
						else
							for (size_t k = 0; k < va.size(); ++k) {
								auto close = [](float x, float y) { return std::fabs(x - y) <= 1e-3f * std::max(1.0f, std::fabs(x)); };
								if (!close(va[k].x, vb[k].x) || !close(va[k].y, vb[k].y) || !close(va[k].z, vb[k].z)) {
									why += nm + " positions differ after reload;";
									break;
								}
							}
						if (canonT(s0) != canonT(c))
							why += nm + " triangles differ after reload;";
					}
					std::vector<std::string> cb;
					R.GetShapeBoneList(c, cb);
					if (cb != srcBones)
						why += nm + " bone list differs after reload;";
				}
				out += " reload=" + (why.empty() ? std::string("ok") : "BAD:" + why);
			}
		}
		return out;
	}, 120);
}
// one block as "type;kid,kid,..;ptr,ptr,.." (kid / ptr = block index, -1 = none), kids and ptrs in the order of the block's
// own reference sets (the correspondence compares up to that order)
std::string blkRow(NiObject* b) {
	std::string r = b->GetBlockName();
	for (size_t q; (q = r.find("::")) != std::string::npos;)
		r.replace(q, 2, "~~");
	std::set<NiRef*> ks, ps;
	b->GetChildRefs(ks);
	b->GetPtrs(ps);
	auto lst = [](const std::set<NiRef*>& s) {
		std::string o;
		for (auto x : s)
			o += (o.empty() ? "" : ",") + std::to_string(x->index == NIF_NPOS ? -1 : static_cast<long long>(x->index));
		return o.empty() ? std::string("-") : o;
	};
	return r + ";" + lst(ks) + ";" + lst(ps);
}

// c14.kids <source> <blockIndex> : CloneChildren on the clone of one block of the source, added to a fresh model that already
// holds at least as many blocks as the source; answers "n0=<index of the clone> src=<rows> dest=<rows from n0 on>"
std::string kids(const Args& a) {
	return forked([&]() -> std::string {
		NifFile S;
		if (!buildSource(S, a[1]))
			return std::string("source-failed");
		NiHeader& sh = S.GetHeader();
		uint32_t bi = static_cast<uint32_t>(std::stoul(a[2]));
		auto sb = sh.GetBlock<NiObject>(bi);
		if (!sb)
			return std::string("no-such-block");
		NifFile D;
		D.Create(sh.GetVersion());
		NiHeader& dh = D.GetHeader();
		while (dh.GetNumBlocks() < sh.GetNumBlocks())
			dh.AddBlock(std::make_unique<NiNode>());
		std::string before;
		for (uint32_t i = 0; i < dh.GetNumBlocks(); ++i)
			before += blkRow(dh.GetBlock<NiObject>(i)) + "|";
		auto c = sb->Clone();
		NiObject* cp = c.get();
		uint32_t n0 = dh.AddBlock(std::move(c));
		D.CloneChildren(cp, &S);
		std::string src, dest, after;
		for (uint32_t i = 0; i < sh.GetNumBlocks(); ++i)
			src += (i ? "|" : "") + blkRow(sh.GetBlock<NiObject>(i));
		for (uint32_t i = 0; i < n0; ++i)
			after += blkRow(dh.GetBlock<NiObject>(i)) + "|";
		for (uint32_t i = n0; i < dh.GetNumBlocks(); ++i)
			dest += (i > n0 ? "|" : "") + blkRow(dh.GetBlock<NiObject>(i));
		return "n0=" + std::to_string(n0) + " root=" + std::to_string(bi) + " prev=" + (before == after ? "same" : "CHANGED") + " src=" + src + " dest=" + dest;
	}, 120);
}
// c14.nblocks <source>
std::string nblocks(const Args& a) {
	return forked([&]() -> std::string {
		NifFile S;
		if (!buildSource(S, a[1]))
			return std::string("source-failed");
		return std::to_string(S.GetHeader().GetNumBlocks());
	}, 60);
}
Reg r1("c14.run", run), r2("c14.kids", kids), r3("c14.nblocks", nblocks);
} // namespace
