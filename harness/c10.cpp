// C10: skin partitions on constructed skinned shapes (arbitrary bone counts / weights) and sample shapes.
#include "gen.hpp"
#include "harness.hpp"
#include "shapeobs.hpp"
#include <sstream>

using namespace nifly;
using namespace vh;

namespace vh {
NiShape* buildMesh(NifFile& nif, const std::vector<std::string>& f);

// adds `nbones` bone nodes and random weights (1..maxInfl influences per vertex, distinct weight values)
void skinMesh(NifFile& nif, NiShape* shape, int nbones, uint64_t seed, int maxInfl) {
	Rng rng(seed);
	nif.CreateSkinning(shape);
	std::vector<int> boneIds;
	// odd seeds: a bone hierarchy (each bone below an earlier one); even seeds: all bones directly below the root
	std::vector<NiNode*> nodes;
	for (int b = 0; b < nbones; ++b) {
		NiNode* parent = nif.GetRootNode();
		if ((seed & 1) && b > 0)
			parent = nodes[static_cast<size_t>(rng.below(static_cast<uint32_t>(b)))];
		MatTransform t;
		t.translation = Vector3(float(b), float(b % 3), 1.0f);
		auto node = nif.AddNode("Bone" + std::to_string(b), t, parent);
		nodes.push_back(node);
		boneIds.push_back(static_cast<int>(nif.GetBlockID(node)));
	}
	nif.SetShapeBoneIDList(shape, boneIds);
	uint16_t nv = shape->GetNumVertices();
	std::vector<std::unordered_map<uint16_t, float>> w(static_cast<size_t>(nbones));
	for (uint16_t v = 0; v < nv; ++v) {
		int k = 1 + static_cast<int>(rng.below(static_cast<uint32_t>(maxInfl)));
		// bones close to each other (so triangles share bones), weights k distinct multiples of 1/64
		int base = static_cast<int>(rng.below(static_cast<uint32_t>(nbones)));
		std::set<int> chosen;
		for (int j = 0; j < k && static_cast<int>(chosen.size()) < nbones; ++j)
			chosen.insert((base + static_cast<int>(rng.below(4)) + j) % nbones);
		float rest = 1.0f;
		int j = 0;
		for (int b : chosen) {
			float x = (j + 1 == static_cast<int>(chosen.size())) ? rest : float(1 + rng.below(16) + static_cast<uint32_t>(16 * (static_cast<int>(chosen.size()) - j))) / 128.0f;
			if (x > rest)
				x = rest;
			rest -= x;
			w[static_cast<size_t>(b)][v] = x;
			++j;
		}
	}
	for (int b = 0; b < nbones; ++b)
		nif.SetShapeBoneWeights(shape->name.get(), static_cast<uint32_t>(b), w[static_cast<size_t>(b)]);
	// BSTriShape keeps the weights per vertex in the shape itself (at most 4 influences)
	if (dynamic_cast<BSTriShape*>(shape)) {
		for (uint16_t v = 0; v < nv; ++v) {
			std::vector<std::pair<float, uint8_t>> inf;
			for (int b = 0; b < nbones && b < 256; ++b) {
				auto it = w[static_cast<size_t>(b)].find(v);
				if (it != w[static_cast<size_t>(b)].end() && it->second > 0.0f)
					inf.emplace_back(it->second, static_cast<uint8_t>(b));
			}
			std::sort(inf.begin(), inf.end(), [](auto& x, auto& y) { return x.first > y.first; });
			std::vector<uint8_t> ids;
			std::vector<float> ws;
			for (size_t k = 0; k < inf.size() && k < 4; ++k) {
				ids.push_back(inf[k].second);
				ws.push_back(inf[k].first);
			}
			nif.SetShapeVertWeights(shape->name.get(), v, ids, ws);
		}
	}
}
} // namespace vh

namespace {
// c10.run <load:path:<shapeIdx> | mesh:...> <nbones> <wseed> <maxInfl> <op> ...
//   ops: update | setparts:<ninfo>:<labels> | default | delparts:<idx,..> | removeempty | reload
std::string run(const Args& a) {
	return forked([&]() -> std::string {
		NifFile nif;
		auto f = split(a[1], ':');
		NiShape* shape = nullptr;
		if (f[0] == "load") {
			if (nif.Load(f[1]) != 0)
				return std::string("load-failed");
			auto shapes = nif.GetShapes();
			size_t k = static_cast<size_t>(std::stoul(f[2]));
			if (k >= shapes.size())
				return std::string("no-such-shape");
			shape = shapes[k];
		}
		else {
			shape = buildMesh(nif, f);
			if (!shape)
				return std::string("no-shape");
			skinMesh(nif, shape, std::stoi(a[2]), std::stoull(a[3]), std::stoi(a[4]));
		}
		auto ver = nif.GetHeader().GetVersion();
		std::string out = std::string("ver=") + (ver.IsOB() ? "ob" : ver.IsFO3() ? "fo3" : ver.IsSK() ? "sk" : ver.IsSSE() ? "sse" : "other") + " " + observeShape(nif, shape);
		for (size_t i = 5; i < a.size(); ++i) {
			auto op = split(a[i], ':');
			if (op[0] == "update")
				nif.UpdateSkinPartitions(shape);
			else if (op[0] == "setparts") {
				NiVector<BSDismemberSkinInstance::PartitionInfo> info;
				for (int k = 0; k < std::stoi(op[1]); ++k) {
					BSDismemberSkinInstance::PartitionInfo pi;
					pi.flags = PF_EDITOR_VISIBLE;
					pi.partID = static_cast<uint16_t>(30 + k);
					info.push_back(pi);
				}
				std::vector<int> labels;
				for (auto x : parseList(op[2]))
					labels.push_back(static_cast<int>(x));
				nif.SetShapePartitions(shape, info, labels);
			}
			else if (op[0] == "default")
				nif.SetDefaultPartition(shape);
			else if (op[0] == "delparts") {
				std::vector<uint32_t> idx;
				for (auto x : parseList(op[1]))
					idx.push_back(static_cast<uint32_t>(x));
				nif.DeletePartitions(shape, idx);
			}
			else if (op[0] == "removeempty")
				nif.RemoveEmptyPartitions(shape);
			else if (op[0] == "reload") {
				std::string name = shape->name.get();
				std::stringstream ss(std::ios::in | std::ios::out | std::ios::binary);
				NifSaveOptions so;
				so.optimize = false;
				so.sortBlocks = false;
				if (nif.Save(ss, so) != 0)
					return out + " | save-failed";
				out += " | SAVED " + observeShape(nif, shape);
				NifFile re;
				ss.seekg(0);
				if (re.Load(ss) != 0)
					return out + " | reload-failed";
				auto rs = re.FindBlockByName<NiShape>(name);
				if (!rs)
					return out + " | reload-no-shape";
				out += " | RELOADED " + observeShape(re, rs);
				continue;
			}
			out += " | " + a[i].substr(0, a[i].find(':')) + " " + observeShape(nif, shape);
		}
		return out;
	}, 60);
}
Reg r1("c10.run", run);
} // namespace
