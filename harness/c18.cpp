// C18: index utilities of include/NifUtil.hpp instantiated with the index types callers use.
#include "harness.hpp"
#include "NifUtil.hpp"
#include <map>

using namespace nifly;
using namespace vh;

namespace {
template<typename T>
std::vector<T> conv(const std::vector<long long>& v) {
	std::vector<T> o;
	for (auto x : v)
		o.push_back(static_cast<T>(x));
	return o;
}
std::vector<Triangle> toTris(const std::vector<long long>& v) {
	std::vector<Triangle> t;
	for (size_t i = 0; i + 2 < v.size(); i += 3)
		t.emplace_back(static_cast<uint16_t>(v[i]), static_cast<uint16_t>(v[i + 1]), static_cast<uint16_t>(v[i + 2]));
	return t;
}
std::string showTris(const std::vector<Triangle>& t) {
	std::vector<long long> f;
	for (auto& x : t) {
		f.push_back(x.p1);
		f.push_back(x.p2);
		f.push_back(x.p3);
	}
	return showList(f);
}

template<typename T>
std::string erase(const Args& a) {
	auto v = conv<int>(parseList(a[1]));
	auto idx = conv<T>(parseList(a[2]));
	EraseVectorIndices(v, idx);
	return showList(v);
}
template<typename T>
std::string insert(const Args& a) {
	auto v = conv<int>(parseList(a[1]));
	auto idx = conv<T>(parseList(a[2]));
	InsertVectorIndices(v, idx);
	return showList(v);
}
template<typename T1, typename T2>
std::string collapse(const Args& a) {
	auto idx = conv<T1>(parseList(a[1]));
	T2 n = static_cast<T2>(std::stoll(a[2]));
	return showList(GenerateIndexCollapseMap(idx, n));
}
template<typename T1, typename T2>
std::string expand(const Args& a) {
	auto idx = conv<T1>(parseList(a[1]));
	T2 n = static_cast<T2>(std::stoll(a[2]));
	return showList(GenerateIndexExpandMap(idx, n));
}
template<typename T1>
std::string applymap(const Args& a) {
	auto tris = toTris(parseList(a[1]));
	auto map = conv<T1>(parseList(a[2]));
	std::vector<int> del;
	ApplyMapToTriangles(tris, map, &del);
	return showTris(tris) + " " + showList(del);
}
template<typename T>
std::string strips(const Args& a) {
	std::vector<std::vector<T>> s;
	for (auto& l : parseListList(a[1]))
		s.push_back(conv<T>(l));
	return showTris(GenerateTrianglesFromStrips(s));
}
std::string maxtri(const Args& a) {
	return std::to_string(CalcMaxTriangleIndex(toTris(parseList(a[1]))));
}
std::string mapkeys(const Args& a) {
	std::map<int, int> m;
	for (auto k : parseList(a[1]))
		m[static_cast<int>(k)] = static_cast<int>(k);
	auto im = conv<int>(parseList(a[2]));
	ApplyIndexMapToMapKeys(m, im, std::stoi(a[3]));
	std::vector<long long> out;
	for (auto& kv : m) {
		out.push_back(kv.first);
		out.push_back(kv.second);
	}
	return showList(out);
}

Reg r1("c18.erase.u16", erase<uint16_t>), r2("c18.erase.u32", erase<uint32_t>), r3("c18.erase.i32", erase<int>);
Reg r4("c18.insert.u16", insert<uint16_t>), r5("c18.insert.u32", insert<uint32_t>), r6("c18.insert.i32", insert<int>);
Reg r7("c18.collapse.u16.u16", collapse<uint16_t, uint16_t>), r8("c18.collapse.u16.u64", collapse<uint16_t, size_t>),
	r9("c18.collapse.i32.i32", collapse<int, int>), r10("c18.collapse.u32.u32", collapse<uint32_t, uint32_t>);
Reg r11("c18.expand.u16.u16", expand<uint16_t, uint16_t>), r12("c18.expand.i32.i32", expand<int, int>),
	r13("c18.expand.u32.u32", expand<uint32_t, uint32_t>);
Reg r14("c18.applymap.i32", applymap<int>), r15("c18.applymap.u16", applymap<uint16_t>);
Reg r16("c18.strips.u16", strips<uint16_t>), r17("c18.strips.u32", strips<uint32_t>);
Reg r18("c18.maxtri", maxtri), r19("c18.mapkeys", mapkeys);
} // namespace
