// C04: sorting / pruning / explicit shape order on real models; graph dumped before and after by logical identity.
#include "gen.hpp"
#include "harness.hpp"
#include <sstream>

using namespace nifly;
using namespace vh;

namespace {
std::string refsOf(NiObject* b, const std::map<NiObject*, long long>& uidOfBlockAt, NiHeader& hdr) {
	std::set<NiRef*> refs;
	b->GetChildRefs(refs);
	b->GetPtrs(refs);
	std::vector<long long> t;
	for (auto r : refs) {
		if (r->IsEmpty())
			continue;
		auto tgt = hdr.GetBlock<NiObject>(r->index);
		auto it = uidOfBlockAt.find(tgt);
		t.push_back(tgt && it != uidOfBlockAt.end() ? it->second : -2 - static_cast<long long>(r->index)); // dangling: negative code
	}
	std::sort(t.begin(), t.end());
	return showList(t);
}

char kindOf(NiHeader& hdr, uint32_t idx) {
	if (auto n = hdr.GetBlock<NiNode>(idx))
		return n->childRefs.GetSize() > 0 ? 'N' : 'n';
	if (hdr.GetBlock<NiShape>(idx))
		return 'S';
	if (hdr.GetBlock<NiObject>(idx))
		return 'O';
	return 'M';
}

// one line per state: "n=<count> ; <uid>/<type>/<refs by uid>/<children by uid or x|->/<kinds>" per block, in file order
std::string dump(NifFile& nif, std::map<NiObject*, long long>& uid) {
	NiHeader& hdr = nif.GetHeader();
	std::ostringstream o;
	uint32_t n = hdr.GetNumBlocks();
	o << "n=" << n << " root=" << static_cast<long long>(nif.GetBlockID(nif.GetRootNode()) == NIF_NPOS ? -1 : static_cast<long long>(nif.GetBlockID(nif.GetRootNode())));
	for (uint32_t i = 0; i < n; ++i) {
		NiObject* b = hdr.GetBlock<NiObject>(i);
		o << " ";
		if (!b) {
			o << "null";
			continue;
		}
		o << uid[b] << "/" << b->GetBlockName() << "/" << refsOf(b, uid, hdr) << "/";
		auto node = dynamic_cast<NiNode*>(b);
		if (node) {
			std::vector<uint32_t> ch;
			node->childRefs.GetIndices(ch);
			std::string cs, ks;
			for (size_t k = 0; k < ch.size(); ++k) {
				if (k)
					cs += ",", ks += ",";
				if (ch[k] == NIF_NPOS) {
					cs += "x";
					ks += "x";
				}
				else {
					auto c = hdr.GetBlock<NiObject>(ch[k]);
					cs += c ? std::to_string(uid[c]) : "d" + std::to_string(ch[k]);
					ks += kindOf(hdr, ch[k]);
				}
			}
			o << (cs.empty() ? "-" : cs) << "/" << (ks.empty() ? "-" : ks) << "/" << (node->HasType<BSOrderedNode>() ? "ordered" : "plain");
		}
		else
			o << "././.";
	}
	return o.str();
}

// c04.run <fs-like source: load:<path> | synth:<type>:<ver>:<seed>:<n>:<maxc>> <op> [<op> ...]
//   ops: sort | opt | order:<name,name,...> | noop ;  the state is dumped before the first op and after every op
std::string run(const Args& a) {
	return forked([&]() -> std::string {
		NifFile nif;
		auto f = split(a[1], ':');
		if (f[0] == "load") {
			if (nif.Load(f[1]) != 0)
				return std::string("load-failed");
		}
		else if (f[0] == "synth") {
			if (!synthModel(nif, f[1], f[2], std::stoull(f[3]), std::stoi(f[4]), static_cast<uint32_t>(std::stoul(f[5]))))
				return std::string("unknown-type");
			// make it a loaded model (string refs resolved, geometry linked)
			std::stringstream ss(std::ios::in | std::ios::out | std::ios::binary);
			NifSaveOptions so;
			so.optimize = false;
			so.sortBlocks = false;
			if (nif.Save(ss, so) != 0)
				return std::string("save-failed");
			ss.seekg(0);
			if (nif.Load(ss) != 0)
				return std::string("load-failed");
		}
		if (nif.HasUnknown())
			return std::string("has-unknown");
		NiHeader& hdr = nif.GetHeader();
		std::map<NiObject*, long long> uid;
		for (uint32_t i = 0; i < hdr.GetNumBlocks(); ++i)
			uid[hdr.GetBlock<NiObject>(i)] = i;
		std::string names;
		for (auto s : nif.GetShapes())
			names += (names.empty() ? "" : ",") + std::to_string(nif.GetBlockID(s)) + ":" + hexEncode(s->name.get());
		std::string out = std::string("ver=") + (hdr.GetVersion().IsOB() || hdr.GetVersion().IsFO3() ? "obfo3" : "later") + " shapes=" + (names.empty() ? "-" : names)
						  + " | " + dump(nif, uid);
		for (size_t i = 2; i < a.size(); ++i) {
			if (a[i] == "swap01") {
				// move the root away from index 0 (swap blocks 0 and 1)
				uint32_t n = hdr.GetNumBlocks();
				if (n >= 2) {
					std::vector<uint32_t> p(n);
					for (uint32_t k = 0; k < n; ++k)
						p[k] = k;
					std::swap(p[0], p[1]);
					hdr.SetBlockOrder(p);
				}
			}
			else if (a[i] == "rootlast") {
				// move the root to the last index, everything else one down
				uint32_t n = hdr.GetNumBlocks();
				uint32_t r = nif.GetBlockID(nif.GetRootNode());
				if (n >= 2 && r != NIF_NPOS) {
					std::vector<uint32_t> p(n);
					for (uint32_t k = 0; k < n; ++k)
						p[k] = k < r ? k : (k == r ? n - 1 : k - 1);
					hdr.SetBlockOrder(p);
				}
			}
			else if (a[i] == "sort")
				nif.PrettySortBlocks();
			else if (a[i] == "opt")
				nif.Optimize();
			else if (a[i] == "fin")
				nif.FinalizeData();
			else if (a[i] == "save") {
				std::stringstream ss(std::ios::in | std::ios::out | std::ios::binary);
				nif.Save(ss);
			}
			else if (a[i].rfind("order:", 0) == 0) {
				std::vector<std::string> order;
				std::string spec = a[i].substr(6);
				if (spec != "-")
					for (auto& h : split(spec, ','))
						order.push_back(hexDecode(h));
				nif.SetShapeOrder(order);
			}
			out += " | " + dump(nif, uid);
		}
		return out;
	}, 30);
}
Reg r1("c04.run", run);
} // namespace
