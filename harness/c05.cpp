// C05: every block / string reference that passes through Sync (observed by the NIFLY_VERIF hook, by pointer identity)
// must be reported by the block's GetChildRefs / GetPtrs / GetStringRefs.
#include "gen.hpp"
#include "harness.hpp"
#include <sstream>

using namespace nifly;
using namespace vh;

namespace {
// c05.check <type> <ver> <seed> <maxCount>
std::string check(const Args& a) {
	return forked([&]() -> std::string {
		NiFactory* fac = NiFactoryRegister::Get().GetFactoryByName(a[1]);
		if (!fac)
			return "unknown-type";
		NifFile nif;
		nif.Create(versionByName(a[2]));
		NiHeader& hdr = nif.GetHeader();
		bool indexStrings = hdr.GetVersion().File() >= V20_1_0_3;
		Tracer tr;
		tr.mode = Tracer::Mode::Generate;
		tr.inlineStrings = !indexStrings;
		uint64_t h = std::stoull(a[3]);
		for (char c : a[1] + "/" + a[2])
			h = h * 131 + static_cast<unsigned char>(c);
		tr.rng = Rng(h);
		tr.refRange = 8;
		tr.strRange = 4;
		tr.maxCount = static_cast<uint32_t>(std::stoul(a[4]));
		std::unique_ptr<NiObject> blk = fac->Create();
		{
			std::istringstream empty;
			NiIStream is(&empty, &hdr);
			Install inst(&tr);
			blk->Get(is);
		}
		std::string miss;
		size_t nRefs = 0, nStrs = 0, nEnumR = 0, nEnumS = 0;
		auto phase = [&](const char* name) {
			std::set<void*> seenRefs, seenStrs;
			std::map<void*, uint64_t> where;
			for (auto& e : tr.events) {
				if (e.tag == 'R')
					seenRefs.insert(e.owner), where[e.owner] = e.offset;
				if (e.tag == 'S')
					seenStrs.insert(e.owner), where[e.owner] = e.offset;
			}
			// enumerate right after the transfer (writing may compact reference arrays)
			std::set<NiRef*> en;
			blk->GetChildRefs(en);
			blk->GetPtrs(en);
			std::vector<NiStringRef*> es;
			blk->GetStringRefs(es);
			std::set<void*> enS(es.begin(), es.end());
			for (auto p : seenRefs)
				if (!en.count(static_cast<NiRef*>(p)))
					miss += std::string(" ") + name + ":ref@" + std::to_string(where[p]);
			if (indexStrings)
				for (auto p : seenStrs)
					if (!enS.count(p))
						miss += std::string(" ") + name + ":str@" + std::to_string(where[p]);
			nRefs = std::max(nRefs, seenRefs.size());
			nStrs = std::max(nStrs, seenStrs.size());
			nEnumR = en.size();
			nEnumS = es.size();
		};
		phase("get");
		size_t getEvents = tr.events.size();
		tr.mode = Tracer::Mode::Trace;
		tr.reset();
		{
			std::ostringstream os(std::ios::binary);
			NiOStream ns(&os, &hdr);
			Install inst(&tr);
			blk->Put(ns);
		}
		phase("put");
		std::ostringstream o;
		o << (miss.empty() ? "ok" : "missing") << " refs=" << nRefs << " strs=" << nStrs << " enumRefs=" << nEnumR
		  << " enumStrs=" << nEnumS << " prims=" << getEvents << miss;
		return o.str();
	});
}
Reg r1("c05.check", check);
} // namespace
