// C19: texture path clean-up, observed through the public API for every slot kind.
#include "harness.hpp"
#include "NifFile.hpp"
#include <sstream>

using namespace nifly;
using namespace vh;

namespace {
NiVersion verOf(const std::string& v) {
	if (v == "ob")
		return NiVersion::getOB();
	if (v == "fo3")
		return NiVersion::getFO3();
	if (v == "sk")
		return NiVersion::getSK();
	if (v == "sse")
		return NiVersion::getSSE();
	if (v == "fo4")
		return NiVersion::getFO4();
	if (v == "fo76")
		return NiVersion::getFO76();
	if (v == "sf")
		return NiVersion::getSF();
	throw std::runtime_error("bad version");
}

// slot kinds: 1 texture set, 2 effect shader (SSE+), 3 NiSourceTexture via NiTexturingProperty
struct World {
	std::unique_ptr<NifFile> nif;
	NiShape* shape = nullptr;
};

std::unique_ptr<NifFile> build(const std::string& ver, int kind) {
	auto nif = std::make_unique<NifFile>();
	nif->Create(verOf(ver));
	std::vector<Vector3> v = {Vector3(0, 0, 0), Vector3(1, 0, 0), Vector3(0, 1, 0)};
	std::vector<Triangle> t = {Triangle(0, 1, 2)};
	std::vector<Vector2> uv = {Vector2(0, 0), Vector2(1, 0), Vector2(0, 1)};
	NiShape* shape = nif->CreateShapeFromData("S", &v, &t, &uv);
	if (!shape)
		throw std::runtime_error("no shape");
	NiHeader& hdr = nif->GetHeader();
	if (kind == 2) {
		auto fx = std::make_unique<BSEffectShaderProperty>();
		uint32_t id = hdr.AddBlock(std::move(fx));
		shape->ShaderPropertyRef()->index = id;
	}
	else if (kind == 3 || kind == 4) {
		// kind 4: the texturing property is the shape's only property (no material, no shader)
		if (kind == 4)
			nif->DeleteShader(shape);
		auto src = std::make_unique<NiSourceTexture>();
		uint32_t sid = hdr.AddBlock(std::move(src));
		auto tp = std::make_unique<NiTexturingProperty>();
		tp->textureCount = 7;
		tp->hasBaseTex = true;
		tp->baseTex.sourceRef.index = sid;
		uint32_t tid = hdr.AddBlock(std::move(tp));
		shape->propertyRefs.AddBlockRef(tid);
	}
	return nif;
}

std::map<std::string, World>& worlds() {
	static std::map<std::string, World> w;
	return w;
}

World& world(const std::string& ver, bool terrain, int kind) {
	std::string key = ver + (terrain ? ":t:" : ":n:") + std::to_string(kind);
	auto it = worlds().find(key);
	if (it != worlds().end())
		return it->second;
	auto nif = build(ver, kind);
	// the terrain flag is only set by Load
	std::stringstream ss(std::ios::in | std::ios::out | std::ios::binary);
	NifSaveOptions so;
	so.optimize = false;
	so.sortBlocks = false;
	if (nif->Save(ss, so) != 0)
		throw std::runtime_error("save failed");
	auto re = std::make_unique<NifFile>();
	NifLoadOptions lo;
	lo.isTerrain = terrain;
	ss.seekg(0);
	if (re->Load(ss, lo) != 0)
		throw std::runtime_error("load failed");
	World w;
	w.nif = std::move(re);
	auto shapes = w.nif->GetShapes();
	if (shapes.empty())
		throw std::runtime_error("no shapes after load");
	w.shape = shapes[0];
	return worlds()[key] = std::move(w);
}

void setPath(World& w, int kind, int slot, const std::string& p) {
	NiHeader& hdr = w.nif->GetHeader();
	if (kind >= 3) {
		auto tp = w.nif->GetTexturingProperty(w.shape);
		auto src = hdr.GetBlock(tp->baseTex.sourceRef);
		src->fileName.get() = p;
		return;
	}
	std::string s = p;
	w.nif->SetTextureSlot(w.shape, s, static_cast<uint32_t>(slot));
}
std::string getPath(World& w, int kind, int slot) {
	if (kind >= 3) {
		// the shape also has a shader texture set, which GetTextureSlot prefers: read the source texture block itself
		auto tp = w.nif->GetTexturingProperty(w.shape);
		auto src = tp ? w.nif->GetHeader().GetBlock(tp->baseTex.sourceRef) : nullptr;
		if (!src)
			throw std::runtime_error("no-slot");
		return src->fileName.get();
	}
	std::string out;
	if (w.nif->GetTextureSlot(w.shape, out, static_cast<uint32_t>(slot)) == 0)
		throw std::runtime_error("no-slot");
	(void) kind;
	return out;
}

// c19.trim <ver> <terrain 0/1> <kind> <slot> <hexpath> -> hex after one TrimTexturePaths, hex after a second one
std::string trim(const Args& a) {
	bool terrain = a[2] == "1";
	int kind = std::stoi(a[3]), slot = std::stoi(a[4]);
	World& w = world(a[1], terrain, kind);
	setPath(w, kind, slot, hexDecode(a[5]));
	w.nif->TrimTexturePaths();
	std::string once = getPath(w, kind, slot);
	w.nif->TrimTexturePaths();
	std::string twice = getPath(w, kind, slot);
	return hexEncode(once) + " " + hexEncode(twice);
}

// c19.load: the path is stored, the file saved raw and loaded again (clean-up at Load)
std::string load(const Args& a) {
	bool terrain = a[2] == "1";
	int kind = std::stoi(a[3]), slot = std::stoi(a[4]);
	World& w0 = world(a[1], terrain, kind);
	setPath(w0, kind, slot, hexDecode(a[5]));
	std::stringstream ss(std::ios::in | std::ios::out | std::ios::binary);
	NifSaveOptions so;
	so.optimize = false;
	so.sortBlocks = false;
	if (w0.nif->Save(ss, so) != 0)
		return "save-failed";
	NifFile re;
	NifLoadOptions lo;
	lo.isTerrain = terrain;
	ss.seekg(0);
	if (re.Load(ss, lo) != 0)
		return "load-failed";
	auto shapes = re.GetShapes();
	if (shapes.empty())
		return "no-shape";
	std::string out;
	if (kind >= 3) {
		auto tp = re.GetTexturingProperty(shapes[0]);
		auto src = tp ? re.GetHeader().GetBlock(tp->baseTex.sourceRef) : nullptr;
		if (!src)
			return "no-slot";
		return hexEncode(src->fileName.get());
	}
	if (re.GetTextureSlot(shapes[0], out, static_cast<uint32_t>(slot)) == 0)
		return "no-slot";
	return hexEncode(out);
}
Reg r1("c19.trim", trim), r2("c19.load", load);
} // namespace
