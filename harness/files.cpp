// File-level scripts on a NifFile: load / save (raw or default, optionally with a wire trace) / relabel block types.
// Used by C01 C02 C03 C07 C08.
#include "gen.hpp"
#include "harness.hpp"
#include <fstream>
#include <sstream>

using namespace nifly;
using namespace vh;

namespace vh {
// saves `nif` to `path`; with trace=true also writes `<path>.trace`: one line per block
//   <blockIndex> <payloadSize> R:<offsets,> S:<offsets,>    (offsets of block-reference / string-index fields in the payload)
int saveFile(NifFile& nif, const std::string& path, bool raw, bool trace, bool full = false) {
	NifSaveOptions so;
	so.optimize = !raw;
	so.sortBlocks = !raw;
	if (!trace)
		return nif.Save(path, so);
	Tracer tr;
	tr.mode = Tracer::Mode::Trace;
	tr.inlineStrings = nif.GetHeader().GetVersion().File() < V20_1_0_3;
	int rc;
	{
		Install inst(&tr);
		rc = nif.Save(path, so);
	}
	if (rc != 0)
		return rc;
	// the trace covers header + blocks + footer + rewritten size table; block boundaries come from the file itself
	std::ofstream t(path + ".trace");
	for (auto& e : tr.events)
		if (e.tag != '-')
			t << e.tag << " " << e.offset << " " << e.size << "\n";
	if (full) {
		// every primitive transfer: <kind char> <offset> <size> (for the schema validation of C01)
		std::ofstream tf(path + ".tracefull");
		for (auto& e : tr.events)
			tf << e.kind << " " << e.offset << " " << e.size << "\n";
	}
	return 0;
}
} // namespace vh

namespace {
// fs <op> <op> ... ; ops:
//   new:<ver>                      NifFile::Create
//   synth:<type>:<ver>:<seed>:<n>[:<maxCount>]  synthesised model
//   load:<path>[:terrain]
//   save:<path>:<raw|default>[:trace]
//   relabel:<in>:<out>:<Type1,Type2>   (byte-level: rename type names in the header of <in> to unregistered names of equal length)
// answer: status per op separated by spaces
std::string fs(const Args& a) {
	return forked([&]() -> std::string {
		NifFile nif;
		std::string out;
		for (size_t i = 1; i < a.size(); ++i) {
			auto f = split(a[i], ':');
			std::string st = "?";
			if (f[0] == "new") {
				nif.Create(versionByName(f[1]));
				st = "ok";
			}
			else if (f[0] == "synth") {
				st = synthModel(nif, f[1], f[2], std::stoull(f[3]), std::stoi(f[4]), f.size() > 5 ? static_cast<uint32_t>(std::stoul(f[5])) : 3) ? "ok" : "unknown-type";
			}
			else if (f[0] == "load") {
				NifLoadOptions lo;
				lo.isTerrain = f.size() > 2 && f[2] == "terrain";
				int rc = nif.Load(f[1], lo);
				st = rc == 0 ? std::string("ok") + (nif.HasUnknown() ? "+unknown" : "") : "load-rc" + std::to_string(rc);
			}
			else if (f[0] == "save") {
				bool raw = f[2] == "raw";
				bool full = f.size() > 3 && f[3] == "tracefull";
				bool trace = full || (f.size() > 3 && f[3] == "trace");
				int rc = saveFile(nif, f[1], raw, trace, full);
				st = rc == 0 ? "ok" : "save-rc" + std::to_string(rc);
			}
			else if (f[0] == "staleindex") {
				// staleindex:<n> : the name of up to <n> nodes other than the root becomes the empty string while its reference keeps
				// an index beyond the string table — what a node cloned from a model with a larger table and then renamed to ""
				// carries, or a reference a damaged file stored
				NiHeader& hdr = nif.GetHeader();
				int n = std::stoi(f[1]), done = 0;
				for (uint32_t i = 0; i < hdr.GetNumBlocks() && done < n; ++i) {
					auto node = hdr.GetBlock<NiNode>(i);
					if (node && node != nif.GetRootNode()) {
						node->name.get().clear();
						node->name.SetIndex(hdr.GetStringCount() + 5 + static_cast<uint32_t>(done));
						++done;
					}
				}
				st = "ok";
			}
			else if (f[0] == "stripshape") {
				// stripshape:<nstrips> : a NiTriStrips shape below the root whose NiTriStripsData holds <nstrips> strips of 3..5 points
				// (no sample file carries strip geometry)
				NiHeader& hdr = nif.GetHeader();
				int ns = std::stoi(f[1]);
				auto data = std::make_unique<NiTriStripsData>();
				std::vector<Vector3> v;
				uint16_t next = 0;
				for (int k = 0; k < ns; ++k) {
					int len = 3 + k % 3;
					std::vector<uint16_t> strip;
					for (int j = 0; j < len; ++j) {
						strip.push_back(next++);
						v.emplace_back(float(next), float(j % 2), float(k));
					}
					data->stripsInfo.points.push_back(strip);
					uint16_t l16 = static_cast<uint16_t>(len);
					data->stripsInfo.stripLengths.push_back(l16);
				}
				data->Create(hdr.GetVersion(), &v, nullptr, nullptr, nullptr);
				data->stripsInfo.hasPoints = true;
				// the shape precedes its data block, as in files written by the sorter (a prefix that ends inside the data block
				// still holds the complete shape)
				auto shapeU = std::make_unique<NiTriStrips>();
				NiTriStrips* shape = shapeU.get();
				shape->name.get() = "Strips";
				uint32_t sid = hdr.AddBlock(std::move(shapeU));
				uint32_t did = hdr.AddBlock(std::move(data));
				shape->DataRef()->index = did;
				shape->SetGeomData(hdr.GetBlock<NiGeometryData>(did));
				if (auto root = nif.GetRootNode())
					root->childRefs.AddBlockRef(sid);
				st = "ok";
			}
			else if (f[0] == "loosechain") {
				// loosechain:<n> : n nodes, each the parent of the previous one, none referenced from the scene graph,
				// stored children-before-parents
				NiHeader& hdr = nif.GetHeader();
				uint32_t prev = NIF_NPOS;
				for (int k = 0; k < std::stoi(f[1]); ++k) {
					auto n = std::make_unique<NiNode>();
					n->name.get() = "loose" + std::to_string(k);
					if (prev != NIF_NPOS)
						n->childRefs.AddBlockRef(prev);
					prev = hdr.AddBlock(std::move(n));
				}
				st = "ok";
			}
			else if (f[0] == "texprop") {
				// texprop:<hexpath> : a shape with NiTexturingProperty -> NiSourceTexture(fileName = path) plus a string extra data
				NiHeader& hdr = nif.GetHeader();
				std::vector<Vector3> v = {Vector3(0, 0, 0), Vector3(1, 0, 0), Vector3(0, 1, 0)};
				std::vector<Triangle> t = {Triangle(0, 1, 2)};
				std::vector<Vector2> uv = {Vector2(0, 0), Vector2(1, 0), Vector2(0, 1)};
				NiShape* shape = nif.CreateShapeFromData("TS", &v, &t, &uv);
				auto src = std::make_unique<NiSourceTexture>();
				src->fileName.get() = hexDecode(f[1]);
				uint32_t sid = hdr.AddBlock(std::move(src));
				auto tp = std::make_unique<NiTexturingProperty>();
				tp->textureCount = 7;
				tp->hasBaseTex = true;
				tp->baseTex.sourceRef.index = sid;
				uint32_t tid = hdr.AddBlock(std::move(tp));
				if (shape)
					shape->propertyRefs.AddBlockRef(tid);
				auto ed = std::make_unique<NiStringExtraData>();
				ed->name.get() = "tag";
				ed->stringData.get() = "payload string";
				if (nif.GetRootNode())
					nif.AssignExtraData(nif.GetRootNode(), std::move(ed));
				st = shape ? "ok" : "no-shape";
			}
			else if (f[0] == "edit") {
				// edit:<seed>:<n> : n random block-graph edits through the public API
				Rng rng(std::stoull(f[1]));
				NiHeader& hdr = nif.GetHeader();
				int n = std::stoi(f[2]);
				for (int k = 0; k < n; ++k) {
					uint32_t nb = hdr.GetNumBlocks();
					uint32_t rootId = nif.GetBlockID(nif.GetRootNode());
					switch (rng.below(6)) {
						case 0: {
							if (nb > 1) {
								uint32_t id = rng.below(nb);
								// (not a geometry data block: its shape would keep a dangling cached pointer — C06 known finding)
								if (id != rootId && !dynamic_cast<NiGeometryData*>(hdr.GetBlock<NiObject>(id)))
									hdr.DeleteBlock(id);
							}
							break;
						}
						case 1: nif.AddNode("vn" + std::to_string(rng.below(1000)), MatTransform(), nif.GetRootNode()); break;
						case 2: {
							auto ed = std::make_unique<NiStringExtraData>();
							ed->name.get() = "vs" + std::to_string(rng.below(5));
							ed->stringData.get() = "value" + std::to_string(rng.below(5));
							if (nif.GetRootNode())
								nif.AssignExtraData(nif.GetRootNode(), std::move(ed));
							break;
						}
						case 3: {
							std::vector<uint32_t> p(nb);
							for (uint32_t i = 0; i < nb; ++i)
								p[i] = i;
							for (uint32_t i = nb; i > 1; --i)
								std::swap(p[i - 1], p[rng.below(i)]);
							hdr.SetBlockOrder(p);
							break;
						}
						case 4: nif.DeleteUnreferencedBlocks(); break;
						case 5: {
							if (nb > 0) {
								uint32_t id = rng.below(nb);
								auto b = hdr.GetBlock<NiObject>(id);
								if (b && id != rootId && !dynamic_cast<NiGeometryData*>(b))
									hdr.ReplaceBlock(id, b->Clone());
							}
							break;
						}
					}
				}
				st = "ok";
			}
			else if (f[0] == "relabel") {
				std::ifstream in(f[1], std::ios::binary);
				std::string bytes((std::istreambuf_iterator<char>(in)), std::istreambuf_iterator<char>());
				size_t n = 0;
				for (auto ty : split(f[3], ',')) {
					for (size_t q; (q = ty.find("~~")) != std::string::npos;)
						ty.replace(q, 2, "::");
					// sized string: 4-byte length + text
					std::string pat(4, '\0');
					uint32_t len = static_cast<uint32_t>(ty.size());
					memcpy(&pat[0], &len, 4);
					pat += ty;
					size_t pos = bytes.find(pat);
					if (pos != std::string::npos) {
						bytes[pos + 4] = 'Z'; // first letter -> 'Z': not a registered type name
						++n;
					}
				}
				std::ofstream o(f[2], std::ios::binary);
				o.write(bytes.data(), static_cast<std::streamsize>(bytes.size()));
				st = "ok" + std::to_string(n);
			}
			out += (out.empty() ? "" : " ") + st;
		}
		return out;
	}, 60);
}
Reg r1("fs", fs);
} // namespace
