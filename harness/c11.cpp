// C11: copies of whole models (copy constructor / assignment): equality, pointer ownership, independence under edits and
// destruction, all under ASan.
#include "gen.hpp"
#include "harness.hpp"
#include "shapeobs.hpp"
#include <sstream>

using namespace nifly;
using namespace vh;

namespace vh {
std::vector<std::pair<std::string, std::string>> battery(NifFile& nif, bool walkParents);
std::string diffBattery(const std::vector<std::pair<std::string, std::string>>& a, const std::vector<std::pair<std::string, std::string>>& b);
NiShape* buildMesh(NifFile& nif, const std::vector<std::string>& f);
void skinMesh(NifFile& nif, NiShape* shape, int nbones, uint64_t seed, int maxInfl);
void perturb(NifFile& nif, uint64_t seed);
std::string probeSynth(const std::string& src);
} // namespace vh

namespace {
std::string saveRaw(NifFile& nif) {
	std::stringstream ss(std::ios::in | std::ios::out | std::ios::binary);
	NifSaveOptions so;
	so.optimize = so.sortBlocks = false;
	if (nif.Save(ss, so) != 0)
		return "save-failed";
	return ss.str();
}

// edits reaching geometry through shapes, the block graph, strings and the header
void editModel(NifFile& nif, uint64_t seed, bool geometryOnly) {
	Rng rng(seed);
	perturb(nif, seed);
	auto shapes = nif.GetShapes();
	for (auto s : shapes) {
		// write through the cached geometry pointer
		if (auto gd = s->GetGeomData()) {
			for (auto& v : gd->vertices)
				v.x += 1000.0f;
			gd->consistencyFlags = static_cast<ConsistencyType>(0x4000);
		}
		if (auto bs = dynamic_cast<BSTriShape*>(s))
			for (auto& v : bs->vertData)
				v.vert.x += 1000.0f;
		s->name.get() += "_edited";
		std::string tex = "textures\\edited.dds";
		nif.SetTextureSlot(s, tex, 0);
	}
	if (geometryOnly)
		return;
	if (!shapes.empty() && rng.below(2) == 0)
		nif.DeleteShape(shapes[rng.below(static_cast<uint32_t>(shapes.size()))]);
	nif.AddNode("EditedNode", MatTransform(), nif.GetRootNode());
	for (auto n : nif.GetNodes()) {
		n->transform.translation.x += 5.0f;
		n->name.get() += "_e";
	}
	NiHeader& hdr = nif.GetHeader();
	if (hdr.GetNumBlocks() > 2 && rng.below(2) == 0) {
		uint32_t id = 1 + rng.below(hdr.GetNumBlocks() - 1);
		// not a geometry data block: deleting one at header level leaves its shape with a dangling cached pointer inside the
		// edited model itself (the hazard recorded as the C06 known finding), which says nothing about copy independence
		if (id != nif.GetBlockID(nif.GetRootNode()) && !dynamic_cast<NiGeometryData*>(hdr.GetBlock<NiObject>(id)))
			hdr.DeleteBlock(id);
	}
	nif.PrettySortBlocks();
}

// per block: <typeName>,<dataRef or -1>,<index in `own` of the cached geometry block | -1 null | -2 not in own>,<index in `other` or -1>,<accepts>
std::string linkage(NifFile& own, NifFile* other) {
	NiHeader& hdr = own.GetHeader();
	std::string out;
	for (uint32_t i = 0; i < hdr.GetNumBlocks(); ++i) {
		auto b = hdr.GetBlock<NiObject>(i);
		out += (i ? ";" : "") + std::string(b ? b->GetBlockName() : "null");
		auto g = dynamic_cast<NiGeometry*>(b);
		if (!g) {
			out += ",-1,-1,-1,0";
			continue;
		}
		uint32_t dr = g->DataRef()->index;
		NiGeometryData* c = g->GetGeomData();
		long long ownIdx = -1, otherIdx = -1;
		if (c) {
			uint32_t id = own.GetBlockID(c);
			ownIdx = id == NIF_NPOS ? -2 : static_cast<long long>(id);
			if (other) {
				uint32_t oid = other->GetBlockID(c);
				otherIdx = oid == NIF_NPOS ? -1 : static_cast<long long>(oid);
			}
		}
		// would SetGeomData accept the block designated by dataRef? (asked of a clone, so nothing is changed)
		int acc = 0;
		auto target = hdr.GetBlock(g->DataRef());
		if (target) {
			auto clone = g->Clone();
			auto cg = dynamic_cast<NiGeometry*>(clone.get());
			NiGeometryData* before = cg->GetGeomData();
			cg->SetGeomData(target);
			acc = (cg->GetGeomData() == target && (before != target || true)) ? 1 : 0;
			if (before == target) {
				// cannot tell from the outcome: ask with a cleared cache via a differently linked probe
				cg->SetGeomData(nullptr);
				acc = 1;
			}
		}
		out += "," + std::to_string(dr == NIF_NPOS ? -1 : static_cast<long long>(dr)) + "," + std::to_string(ownIdx) + "," + std::to_string(otherIdx) + "," + std::to_string(acc);
	}
	return out;
}

// c11.run <load:path | mesh:… | synth:…> <ctor|assign|assignover|self> <editseed> [perturb:<seed>] [stale]
std::string run(const Args& a) {
	if (probeSynth(a[1]) != "ok")
		return "unloadable-synth";
	return forked([&]() -> std::string {
		auto* A = new NifFile;
		auto f = split(a[1], ':');
		bool wp = f[0] != "synth";
		if (f[0] == "load") {
			if (A->Load(f[1]) != 0)
				return std::string("load-failed");
		}
		else if (f[0] == "mesh") {
			NiShape* s = buildMesh(*A, f);
			if (!s)
				return std::string("no-shape");
			if (f.size() > 6 && std::stoi(f[6]) > 0) {
				skinMesh(*A, s, std::stoi(f[6]), std::stoull(f[4]) + 1, 4);
				A->UpdateSkinPartitions(s);
			}
		}
		else if (f[0] == "synth") {
			size_t nf = f.size();
			std::string ty = f[1];
			for (size_t k = 2; k + 4 < nf; ++k)
				ty += ":" + f[k];
			NifFile tmp;
			if (!synthModel(tmp, ty, f[nf - 4], std::stoull(f[nf - 3]), std::stoi(f[nf - 2]), static_cast<uint32_t>(std::stoul(f[nf - 1]))))
				return std::string("unknown-type");
			std::stringstream ss(std::ios::in | std::ios::out | std::ios::binary);
			NifSaveOptions so;
			so.optimize = so.sortBlocks = false;
			if (tmp.Save(ss, so) != 0)
				return std::string("save-failed");
			ss.seekg(0);
			if (A->Load(ss) != 0)
				return std::string("unloadable-synth");
		}
		else
			return std::string("bad-source");
		uint64_t eseed = std::stoull(a[3]);
		for (size_t k = 4; k < a.size(); ++k)
			if (a[k].rfind("perturb:", 0) == 0)
				perturb(*A, std::stoull(a[k].substr(8)));
		// settle: the first save finalises the model (C02); compare from then on
		// (queries first: GetShapePartitions triangulates strip partitions on first use, see C02 known finding)
		battery(*A, wp);
		std::string bytesA = saveRaw(*A);
		bytesA = saveRaw(*A);
		auto qA = battery(*A, wp);
		qA = battery(*A, wp);
		std::string out = "linkA=" + linkage(*A, nullptr);
		NifFile* B = nullptr;
		const std::string& sc = a[2];
		if (sc == "ctor")
			B = new NifFile(*A);
		else if (sc == "assign") {
			B = new NifFile;
			*B = *A;
		}
		else if (sc == "assignover") {
			B = new NifFile;
			std::vector<std::string> mf = {"mesh", A->GetHeader().GetVersion().IsSSE() ? "fo4" : "sse", "9", "7", "5", "n"};
			buildMesh(*B, mf);
			*B = *A;
		}
		else if (sc == "stale") {
			// the boundary of the model: a data reference cleared behind the API's back leaves a cache the copy cannot re-link
			for (auto s : A->GetShapes())
				if (auto g = dynamic_cast<NiGeometry*>(s)) {
					g->DataRef()->Clear();
					break;
				}
			out = "linkA=" + linkage(*A, nullptr);
			B = new NifFile(*A);
			out += " linkB=" + linkage(*B, A) + " stale-only";
			return out;
		}
		else if (sc == "self") {
			NifFile& alias = *A;
			*A = alias;
			auto q = battery(*A, wp);
			std::string d = diffBattery(qA, q);
			std::string bytes = saveRaw(*A);
			out += std::string(" self=") + (d.empty() && bytes == bytesA ? "same" : "CHANGED:" + (d.empty() ? std::string("bytes") : d));
			delete A;
			return out;
		}
		else
			return std::string("bad-scenario");
		out += " linkB=" + linkage(*B, A);
		std::string bytesB = saveRaw(*B);
		auto qB = battery(*B, wp);
		std::string d = diffBattery(qA, qB);
		out += std::string(" eqbytes=") + (bytesB == bytesA ? "1" : "0") + " eqq=" + (d.empty() ? "1" : "0:" + d.substr(0, 120));
		// saving the copy must not have touched the source
		{
			auto q = battery(*A, wp);
			std::string d2 = diffBattery(qA, q);
			if (!d2.empty())
				out += " srcAfterCopySave=CHANGED:" + d2.substr(0, 120);
		}
		// edit the copy: the source must answer and write as before
		// generated graphs carry arbitrary (self / cyclic) references for which DeleteShape is not specified: value edits only there
		editModel(*B, eseed, !wp);
		{
			auto q = battery(*A, wp);
			std::string d2 = diffBattery(qA, q);
			std::string bytes = saveRaw(*A);
			out += std::string(" srcAfterCopyEdit=") + (d2.empty() && bytes == bytesA ? "same" : "CHANGED:" + (d2.empty() ? std::string("bytes") : d2.substr(0, 120)));
		}
		// a second copy, then edit the source: the copy must answer and write as before
		auto* Cc = new NifFile(*A);
		auto qC = battery(*Cc, wp);
		std::string bytesC = saveRaw(*Cc);
		editModel(*A, eseed + 1, !wp || (eseed & 1) != 0);
		{
			auto q = battery(*Cc, wp);
			std::string d2 = diffBattery(qC, q);
			std::string bytes = saveRaw(*Cc);
			out += std::string(" cpyAfterSrcEdit=") + (d2.empty() && bytes == bytesC ? "same" : "CHANGED:" + (d2.empty() ? std::string("bytes") : d2.substr(0, 120)));
		}
		// destruction in either order; the survivor is queried, edited and saved (ASan reports any use of freed blocks)
		if (eseed & 2) {
			delete A;
			A = nullptr;
			auto q = battery(*Cc, wp);
			std::string d2 = diffBattery(qC, q);
			editModel(*Cc, eseed + 2, true);
			saveRaw(*Cc);
			out += std::string(" afterSrcDestroyed=") + (d2.empty() ? "same" : "CHANGED:" + d2.substr(0, 120));
			delete B;
			delete Cc;
		}
		else {
			delete B;
			delete Cc;
			battery(*A, wp);
			editModel(*A, eseed + 2, true);
			saveRaw(*A);
			out += " afterCopiesDestroyed=ok";
			delete A;
		}
		return out;
	}, 120);
}
Reg r1("c11.run", run);
} // namespace
