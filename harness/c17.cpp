// C17: FO4 segmentation set/get, followed by vertex deletion and save/reload.
#include "gen.hpp"
#include "harness.hpp"
#include "shapeobs.hpp"
#include <sstream>

using namespace nifly;
using namespace vh;

namespace vh {
NiShape* buildMesh(NifFile& nif, const std::vector<std::string>& f);
}

namespace {
// c17.run <load:path | mesh:...> <shapeIndex> <inf> <labels> [del:<idx,...>] [reload]
//   inf: "7:9,0;2:;4:"  (segment partID ':' sub partIDs)   labels: "9,7,-1,4"
std::string run(const Args& a) {
	return forked([&]() -> std::string {
		NifFile nif;
		auto f = split(a[1], ':');
		NiShape* shape = nullptr;
		if (f[0] == "load") {
			if (nif.Load(f[1]) != 0)
				return std::string("load-failed");
			auto shapes = nif.GetShapes();
			size_t k = static_cast<size_t>(std::stoul(a[2]));
			if (k >= shapes.size())
				return std::string("no-such-shape");
			shape = shapes[k];
		}
		else
			shape = buildMesh(nif, f);
		if (!shape)
			return std::string("no-shape");
		NifSegmentationInfo inf;
		if (a[3] != "-")
			for (auto& s : split(a[3], ';')) {
				auto p = split(s, ':');
				NifSegmentInfo si;
				si.partID = std::stoi(p[0]);
				if (p.size() > 1 && !p[1].empty())
					for (auto& x : split(p[1], ',')) {
						NifSubSegmentInfo sub;
						sub.partID = std::stoi(x);
						si.subs.push_back(sub);
					}
				inf.segs.push_back(si);
			}
		std::vector<int> labels;
		for (auto x : parseList(a[4]))
			labels.push_back(static_cast<int>(x));
		std::string out = observeShape(nif, shape);
		NifFile::SetShapeSegments(shape, inf, labels);
		out += " | " + observeShape(nif, shape);
		size_t i = 5;
		if (a.size() > i && a[i].rfind("del:", 0) == 0) {
			std::vector<uint16_t> idx;
			for (auto x : parseList(a[i].substr(4)))
				idx.push_back(static_cast<uint16_t>(x));
			nif.DeleteVertsForShape(shape, idx);
			out += " | " + observeShape(nif, shape);
			++i;
		}
		if (a.size() > i && a[i] == "reload") {
			std::string name = shape->name.get();
			std::stringstream ss(std::ios::in | std::ios::out | std::ios::binary);
			NifSaveOptions so;
			so.optimize = false;
			so.sortBlocks = false;
			if (nif.Save(ss, so) != 0)
				return out + " | save-failed";
			NifFile re;
			ss.seekg(0);
			if (re.Load(ss) != 0)
				return out + " | reload-failed";
			auto rs = re.FindBlockByName<NiShape>(name);
			if (!rs)
				return out + " | reload-no-shape";
			out += " | RELOADED " + observeShape(re, rs);
		}
		return out;
	}, 60);
}
Reg r1("c17.run", run);
} // namespace
