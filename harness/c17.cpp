// C17: FO4 segmentation set/get, followed by vertex deletion and save/reload.
#include "gen.hpp"
#include "harness.hpp"
#include "shapeobs.hpp"
#include <algorithm>
#include <sstream>

using namespace nifly;
using namespace vh;

namespace vh {
NiShape* buildMesh(NifFile& nif, const std::vector<std::string>& f);
}

namespace {
// c17.run <load:path | mesh:...> <shapeIndex> <inf> <labels> [del:<idx,...>] [reload]
//   inf: "7:9,0;2:;4:"  (segment partID ':' sub partIDs)   labels: "9,7,-1,4"
std::string run(const Args& a) {
	return forked([&]() -> std::string {
		NifFile nif;
		auto f = split(a[1], ':');
		NiShape* shape = nullptr;
		if (f[0] == "load") {
			if (nif.Load(f[1]) != 0)
				return std::string("load-failed");
			auto shapes = nif.GetShapes();
			size_t k = static_cast<size_t>(std::stoul(a[2]));
			if (k >= shapes.size())
				return std::string("no-such-shape");
			shape = shapes[k];
		}
		else
			shape = buildMesh(nif, f);
		if (!shape)
			return std::string("no-shape");
		NifSegmentationInfo inf;
		if (a[3] != "-")
			for (auto& s : split(a[3], ';')) {
				auto p = split(s, ':');
				NifSegmentInfo si;
				si.partID = std::stoi(p[0]);
				if (p.size() > 1 && !p[1].empty())
					for (auto& x : split(p[1], ',')) {
						NifSubSegmentInfo sub;
						sub.partID = std::stoi(x);
						si.subs.push_back(sub);
					}
				inf.segs.push_back(si);
			}
		std::vector<int> labels;
		for (auto x : parseList(a[4]))
			labels.push_back(static_cast<int>(x));
		std::string out = observeShape(nif, shape);
		NifFile::SetShapeSegments(shape, inf, labels);
		out += " | " + observeShape(nif, shape);
		size_t i = 5;
		if (a.size() > i && a[i].rfind("del:", 0) == 0) {
			std::vector<uint16_t> idx;
			for (auto x : parseList(a[i].substr(4)))
				idx.push_back(static_cast<uint16_t>(x));
			nif.DeleteVertsForShape(shape, idx);
			out += " | " + observeShape(nif, shape);
			++i;
		}
		if (a.size() > i && a[i] == "reload") {
			std::string name = shape->name.get();
			std::stringstream ss(std::ios::in | std::ios::out | std::ios::binary);
			NifSaveOptions so;
			so.optimize = false;
			so.sortBlocks = false;
			if (nif.Save(ss, so) != 0)
				return out + " | save-failed";
			NifFile re;
			ss.seekg(0);
			if (re.Load(ss) != 0)
				return out + " | reload-failed";
			auto rs = re.FindBlockByName<NiShape>(name);
			if (!rs)
				return out + " | reload-no-shape";
			out += " | RELOADED " + observeShape(re, rs);
		}
		return out;
	}, 60);
}
std::string segRows(const BSSubIndexTriShape::BSSITSSegmentation& sg) {
	std::string o;
	for (auto& g : sg.segments) {
		std::string subs;
		for (auto& ss : g.subSegments)
			subs += (subs.empty() ? "" : ",") + std::to_string(ss.startIndex) + "." + std::to_string(ss.numPrimitives);
		o += (o.empty() ? "" : ";") + std::to_string(g.startIndex) + ":" + std::to_string(g.numPrimitives) + ":" + (subs.empty() ? "-" : subs);
	}
	return o.empty() ? "-" : o;
}
std::string sseRows(const std::vector<BSGeometrySegmentData>& v) {
	std::string o;
	for (auto& g : v)
		o += (o.empty() ? "" : ";") + std::to_string(g.index) + ":" + std::to_string(g.numTris) + ":-";
	return o.empty() ? "-" : o;
}

// c17.refit <mesh:… | load:path> <shapeIndex> <inf> <labels> <deleted vertex indices> : the raw segment ranges before and after
// BSSubIndexTriShape::notifyVerticesDelete and the list of removed triangles it worked from
std::string refit(const Args& a) {
	return forked([&]() -> std::string {
		NifFile nif;
		auto f = split(a[1], ':');
		NiShape* shape = nullptr;
		if (f[0] == "load") {
			if (nif.Load(f[1]) != 0)
				return std::string("load-failed");
			auto shapes = nif.GetShapes();
			size_t k = static_cast<size_t>(std::stoul(a[2]));
			if (k >= shapes.size())
				return std::string("no-such-shape");
			shape = shapes[k];
		}
		else
			shape = buildMesh(nif, f);
		auto sits = dynamic_cast<BSSubIndexTriShape*>(shape);
		if (!sits)
			return std::string("not-a-subindex-shape");
		if (a[3].rfind("sseg:", 0) == 0) {
			// sseg:<k> : the SSE-style segment array (BSGeometrySegmentData), k contiguous ranges tiling the triangles
			uint32_t k = static_cast<uint32_t>(std::stoul(a[3].substr(5))), nt = sits->GetNumTriangles();
			std::vector<BSGeometrySegmentData> sd;
			uint32_t pos = 0;
			for (uint32_t j = 0; j < k; ++j) {
				BSGeometrySegmentData g;
				g.index = pos * 3;
				g.numTris = (j + 1 == k) ? nt - pos : (nt / k + (j % 2)) < (nt - pos) ? (nt / k + (j % 2)) : (nt - pos);
				pos += g.numTris;
				sd.push_back(g);
			}
			sits->SetSegments(sd);
		}
		else if (a[3] != "keep") {
			NifSegmentationInfo inf;
			if (a[3] != "-")
				for (auto& s : split(a[3], ';')) {
					auto p = split(s, ':');
					NifSegmentInfo si;
					si.partID = std::stoi(p[0]);
					if (p.size() > 1 && !p[1].empty())
						for (auto& x : split(p[1], ',')) {
							NifSubSegmentInfo sub;
							sub.partID = std::stoi(x);
							si.subs.push_back(sub);
						}
					inf.segs.push_back(si);
				}
			std::vector<int> labels;
			for (auto x : parseList(a[4]))
				labels.push_back(static_cast<int>(x));
			NifFile::SetShapeSegments(shape, inf, labels);
		}
		std::string pre = segRows(sits->VerifSegmentation()), ssePre = sseRows(sits->GetSegments());
		uint32_t ntPre = sits->GetNumTriangles();
		std::vector<uint16_t> idx;
		for (auto x : parseList(a[5]))
			idx.push_back(static_cast<uint16_t>(x));
		std::sort(idx.begin(), idx.end());
		idx.erase(std::unique(idx.begin(), idx.end()), idx.end());
		sits->notifyVerticesDelete(idx);
		std::string ids;
		for (auto t : sits->deletedTris)
			ids += (ids.empty() ? "" : ",") + std::to_string(t);
		return "nt=" + std::to_string(ntPre) + "/" + std::to_string(sits->GetNumTriangles()) + " pre=" + pre + " ids=" + (ids.empty() ? "-" : ids) + " post=" + segRows(sits->VerifSegmentation()) +
			   " ssepre=" + ssePre + " ssepost=" + sseRows(sits->GetSegments());
	}, 60);
}
Reg r1("c17.run", run), r2("c17.refit", refit);
} // namespace
