// C12: LE <-> SE conversion (NifFile::OptimizeFor): per-shape geometry / skin / shader / hierarchy before and after,
// save + reload of the converted model, and the way back.
#include "gen.hpp"
#include "harness.hpp"
#include "shapeobs.hpp"
#include <array>
#include <cmath>
#include <sstream>

using namespace nifly;
using namespace vh;

namespace vh {
NiShape* buildMesh(NifFile& nif, const std::vector<std::string>& f);
void skinMesh(NifFile& nif, NiShape* shape, int nbones, uint64_t seed, int maxInfl);
} // namespace vh

namespace {
struct ShapeObs {
	std::string name, type, shader, parent;
	std::vector<Vector3> verts;
	std::vector<std::array<uint32_t, 3>> tris; // rotation-normalised, sorted
	std::vector<Vector2> uvs;
	bool hasUV = false, hasColors = false;
	std::vector<Color4> colors;
	std::vector<std::string> bones;
	std::vector<std::map<std::string, float>> weights; // per vertex: bone name -> weight
	std::vector<bool> used;							   // vertex referenced by a triangle
};

ShapeObs observe(NifFile& nif, NiShape* s) {
	ShapeObs o;
	o.name = s->name.get();
	o.type = s->GetBlockName();
	auto sh = nif.GetShader(s);
	o.shader = sh ? sh->GetBlockName() : "none";
	auto p = nif.GetParentNode(s);
	o.parent = p ? p->name.get() : "";
	nif.GetVertsForShape(s, o.verts);
	std::vector<Triangle> t;
	s->GetTriangles(t);
	for (auto& x : t) {
		std::array<uint32_t, 3> y{x.p1, x.p2, x.p3};
		while (y[0] > y[1] || y[0] > y[2])
			std::rotate(y.begin(), y.begin() + 1, y.end());
		o.tris.push_back(y);
	}
	std::sort(o.tris.begin(), o.tris.end());
	o.hasUV = nif.GetUvsForShape(s, o.uvs);
	o.hasColors = nif.GetColorsForShape(s, o.colors);
	nif.GetShapeBoneList(s, o.bones);
	o.weights.resize(o.verts.size());
	for (uint32_t b = 0; b < o.bones.size(); ++b) {
		std::unordered_map<uint16_t, float> w;
		nif.GetShapeBoneWeights(s, b, w);
		for (auto& e : w)
			if (e.first < o.weights.size() && e.second > 0.0f)
				o.weights[e.first][o.bones[b]] += e.second;
	}
	// SSE skins may keep their weights only in the shape's vertex data (NiSkinData without vertex weights)
	bool any = false;
	for (auto& w : o.weights)
		any = any || !w.empty();
	if (!any)
		if (auto bs = dynamic_cast<BSTriShape*>(s))
			if (bs->IsSkinned())
				for (size_t v = 0; v < bs->vertData.size() && v < o.weights.size(); ++v)
					for (int k = 0; k < 4; ++k) {
						float w = bs->vertData[v].weights[k];
						uint8_t bi = bs->vertData[v].weightBones[k];
						if (w > 0.0f && bi < o.bones.size())
							o.weights[v][o.bones[bi]] += w;
					}
	any = false;
	for (auto& w : o.weights)
		any = any || !w.empty();
	if (!any) {
		// … or only in NiSkinData
		auto skinInst = nif.GetHeader().GetBlock<NiSkinInstance>(s->SkinInstanceRef());
		auto sd = skinInst ? nif.GetHeader().GetBlock(skinInst->dataRef) : nullptr;
		if (sd)
			for (size_t b = 0; b < sd->bones.size() && b < o.bones.size(); ++b)
				for (auto& sw : sd->bones[b].vertexWeights)
					if (sw.index < o.weights.size() && sw.weight > 0.0f)
						o.weights[sw.index][o.bones[b]] += sw.weight;
	}
	o.used.assign(o.verts.size(), false);
	for (auto& tr : o.tris)
		for (auto idx : tr)
			if (idx < o.used.size())
				o.used[idx] = true;
	return o;
}

std::string hierarchy(NifFile& nif) {
	std::vector<std::string> rows;
	for (auto n : nif.GetNodes()) {
		auto p = nif.GetParentNode(n);
		rows.push_back(hexEncode(n->name.get()) + "<" + (p ? hexEncode(p->name.get()) : "-"));
	}
	std::sort(rows.begin(), rows.end());
	std::string o;
	for (auto& r : rows)
		o += r + ",";
	return o;
}

// `strictUV`: UVs must agree within half precision; colours within 1/255; weights within `wtol`
std::string compare(const ShapeObs& a, const ShapeObs& b, float wtol, bool allowColorRemoval) {
	std::string why;
	if (a.verts.size() != b.verts.size())
		return "vertex count " + std::to_string(a.verts.size()) + "->" + std::to_string(b.verts.size()) + ";";
	for (size_t i = 0; i < a.verts.size(); ++i)
		if (memcmp(&a.verts[i], &b.verts[i], sizeof(Vector3)) != 0) {
			why += "position of vertex " + std::to_string(i) + " not bit-exact;";
			break;
		}
	if (a.tris != b.tris)
		why += "triangle set differs (" + std::to_string(a.tris.size()) + "->" + std::to_string(b.tris.size()) + ");";
	if (a.hasUV != b.hasUV)
		why += "texture coordinates " + std::string(b.hasUV ? "appeared" : "lost") + ";";
	else if (a.hasUV)
		for (size_t i = 0; i < std::min(a.uvs.size(), b.uvs.size()); ++i) {
			auto close = [](float x, float y) { return std::fabs(x - y) <= std::fabs(x) * 0.001f + 0.0001f; };
			if (!close(a.uvs[i].u, b.uvs[i].u) || !close(a.uvs[i].v, b.uvs[i].v)) {
				why += "texture coordinate " + std::to_string(i) + " beyond half precision;";
				break;
			}
		}
	if (a.hasColors && !b.hasColors) {
		bool allWhite = true;
		for (auto& c : a.colors)
			allWhite = allWhite && c.r == 1.0f && c.g == 1.0f && c.b == 1.0f && c.a == 1.0f;
		if (!(allowColorRemoval && allWhite))
			why += "vertex colours lost;";
	}
	else if (a.hasColors && b.hasColors)
		for (size_t i = 0; i < std::min(a.colors.size(), b.colors.size()); ++i) {
			auto close = [](float x, float y) { return std::fabs(x - y) <= 1.0f / 255.0f + 1e-6f; };
			if (!close(a.colors[i].r, b.colors[i].r) || !close(a.colors[i].g, b.colors[i].g) || !close(a.colors[i].b, b.colors[i].b) || !close(a.colors[i].a, b.colors[i].a)) {
				why += "vertex colour " + std::to_string(i) + " beyond byte precision;";
				break;
			}
		}
	if (a.bones != b.bones)
		why += "bone list differs (" + std::to_string(a.bones.size()) + "->" + std::to_string(b.bones.size()) + ");";
	else
		for (size_t i = 0; i < std::min(a.weights.size(), b.weights.size()); ++i) {
			bool bad = false;
			for (auto& e : a.weights[i]) {
				auto it = b.weights[i].find(e.first);
				float y = it == b.weights[i].end() ? 0.0f : it->second;
				if (std::fabs(e.second - y) > wtol)
					bad = true;
			}
			for (auto& e : b.weights[i])
				if (!a.weights[i].count(e.first) && e.second > wtol)
					bad = true;
			if (bad && i < a.used.size() && !a.used[i]) {
				// SSE vertex weights are taken from the skin partitions, which only hold vertices used by triangles
				if (why.find("unused-vertex-weights;") == std::string::npos)
					why += "unused-vertex-weights;";
				continue;
			}
			if (bad) {
				std::string x, y;
				for (auto& e : a.weights[i])
					x += e.first.substr(0, 12) + "=" + std::to_string(e.second) + " ";
				for (auto& e : b.weights[i])
					y += e.first.substr(0, 12) + "=" + std::to_string(e.second) + " ";
				why += "bone weights of vertex " + std::to_string(i) + " differ [" + x + "] -> [" + y + "];";
				break;
			}
		}
	if (a.shader != b.shader)
		why += "shader " + a.shader + "->" + b.shader + ";";
	if (a.parent != b.parent)
		why += "parent node differs;";
	return why;
}

bool buildSource(NifFile& nif, const std::string& src) {
	auto f = split(src, ':');
	if (f[0] == "load")
		return nif.Load(f[1]) == 0;
	if (f[0] == "mesh") {
		// mesh:<ver>:<nv>:<nt>:<seed>:<flags>:<nbones>[:<nshapes>] ; extra flag d = duplicate shape names
		NiShape* s = buildMesh(nif, f);
		if (!s)
			return false;
		std::string flags = f.size() > 5 ? f[5] : "";
		int nb = f.size() > 6 ? std::stoi(f[6]) : 0;
		if (nb > 0) {
			skinMesh(nif, s, nb, std::stoull(f[4]) + 1, 4);
			nif.UpdateSkinPartitions(s);
		}
		int extra = f.size() > 7 ? std::stoi(f[7]) : 0;
		for (int k = 0; k < extra; ++k) {
			auto c = nif.CloneShape(s, flags.find('d') != std::string::npos ? s->name.get() : "M" + std::to_string(k + 1));
			(void)c;
		}
		// flag e: the first sibling already carries the name the renamer would pick for the second ("M_1", "M", "M")
		if (flags.find('e') != std::string::npos)
			s->name.get() = s->name.get() + "_1";
		return true;
	}
	return false;
}

std::string checkAgainst(NifFile& nif, const std::vector<ShapeObs>& ref, const std::map<std::string, std::string>& rename, float wtol, bool allowColorRemoval, const char* what) {
	std::string why;
	auto shapes = nif.GetShapes();
	if (shapes.size() != ref.size())
		return std::string(what) + ": shape count " + std::to_string(ref.size()) + "->" + std::to_string(shapes.size()) + ";";
	// shapes are matched by name (saving re-sorts blocks); when names were changed (duplicates renamed) by position
	std::map<std::string, NiShape*> byName;
	bool unique = true;
	for (auto s : shapes)
		unique = byName.emplace(s->name.get(), s).second && unique;
	std::set<std::string> refNames;
	for (auto& r : ref)
		unique = refNames.insert(r.name).second && unique;
	for (auto& r : ref)
		unique = unique && byName.count(r.name);
	for (size_t i = 0; i < shapes.size(); ++i) {
		ShapeObs o = observe(nif, unique ? byName[ref[i].name] : shapes[i]);
		std::string w = compare(ref[i], o, wtol, allowColorRemoval);
		if (!w.empty())
			why += std::string(what) + " shape " + std::to_string(i) + " (" + ref[i].type + "->" + o.type + "): " + w;
	}
	// sibling shapes have distinct names
	std::map<std::string, std::set<std::string>> byParent;
	for (auto s : shapes) {
		auto p = nif.GetParentNode(s);
		std::string pn = p ? p->name.get() : "";
		if (!byParent[pn].insert(s->name.get()).second)
			why += std::string(what) + ": sibling shapes share the name " + hexEncode(s->name.get()) + ";";
	}
	return why;
}

// c12.run <source> <sse|sk> <flags hpbxs|-> 
std::string run(const Args& a) {
	return forked([&]() -> std::string {
		NifFile nif;
		if (!buildSource(nif, a[1]))
			return std::string("source-failed");
		bool toSSE = a[2] == "sse";
		NiVersion& cur = nif.GetHeader().GetVersion();
		if ((toSSE && !cur.IsSK()) || (!toSSE && !cur.IsSSE()))
			return std::string("wrong-version");
		NiVersion srcVer = cur;
		std::string fl = a.size() > 3 ? a[3] : "-";
		auto mkopt = [&](bool sse) {
			OptOptions o;
			o.targetVersion = versionByName(sse ? "sse" : "sk");
			o.headParts = fl.find('h') != std::string::npos;
			o.removeParallax = fl.find('p') != std::string::npos;
			o.calcBounds = fl.find('b') != std::string::npos;
			o.fixBSXFlags = fl.find('x') != std::string::npos;
			o.fixShaderFlags = fl.find('s') != std::string::npos;
			return o;
		};
		std::vector<ShapeObs> before;
		for (auto s : nif.GetShapes())
			before.push_back(observe(nif, s));
		std::string hBefore = hierarchy(nif);
		std::string types;
		for (auto& b : before)
			types += b.type + ",";
		OptOptions opt = mkopt(toSSE);
		OptResult r = nif.OptimizeFor(opt);
		if (r.versionMismatch)
			return std::string("version-mismatch");
		std::string why;
		const float wtol = 1.0f / 512.0f;
		why += checkAgainst(nif, before, {}, wtol, true, "converted");
		if (hierarchy(nif) != hBefore)
			why += "node hierarchy changed;";
		if (!(toSSE ? nif.GetHeader().GetVersion().IsSSE() : nif.GetHeader().GetVersion().IsSK()))
			why += "header version is not the target version;";
		// save + reload in the target version
		{
			std::stringstream ss(std::ios::in | std::ios::out | std::ios::binary);
			if (nif.Save(ss) != 0)
				why += "save failed;";
			else {
				std::string bytes = ss.str();
				std::stringstream in(bytes, std::ios::in | std::ios::binary);
				NifFile re;
				if (re.Load(in) != 0)
					why += "converted file does not reload;";
				else {
					if (!(toSSE ? re.GetHeader().GetVersion().IsSSE() : re.GetHeader().GetVersion().IsSK()))
						why += "reloaded file is not in the target version;";
					why += checkAgainst(re, before, {}, wtol, true, "reloaded");
					// partition invariants on the reloaded file: every triangle of a skinned shape carries a valid partition label
					for (auto s : re.GetShapes()) {
						NiVector<BSDismemberSkinInstance::PartitionInfo> pinfo;
						std::vector<int> tp;
						if (re.GetShapePartitions(s, pinfo, tp)) {
							if (tp.size() != s->GetNumTriangles())
								why += "reloaded: partition labels for " + std::to_string(tp.size()) + " of " + std::to_string(s->GetNumTriangles()) + " triangles;";
							for (int x : tp)
								if (x < 0 || static_cast<size_t>(x) >= pinfo.size()) {
									why += "reloaded: triangle without a valid partition;";
									break;
								}
						}
					}
				}
			}
		}
		// and back
		{
			OptOptions back = mkopt(!toSSE);
			OptResult rb = nif.OptimizeFor(back);
			if (rb.versionMismatch)
				why += "back conversion refused;";
			else
				why += checkAgainst(nif, before, {}, 2 * wtol, true, "there-and-back");
		}
		return "types=" + types + " removedColors=" + std::to_string(r.shapesVColorsRemoved.size()) + " renamed=" + std::to_string(r.dupesRenamed) + " result=" + (why.empty() ? "ok" : "BAD:" + why);
	}, 120);
}
// c12.rename <hexname,hexname,...> : sibling shapes with these names below the root; answers the names after RenameDuplicateShapes
std::string rename(const Args& a) {
	return forked([&]() -> std::string {
		NifFile nif;
		std::vector<std::string> f = {"mesh", "sk", "3", "1", "5", ""};
		NiShape* s = buildMesh(nif, f);
		if (!s)
			return std::string("no-shape");
		auto names = split(a[1], ',');
		s->name.get() = hexDecode(names[0]);
		for (size_t k = 1; k < names.size(); ++k)
			nif.CloneShape(s, hexDecode(names[k]));
		bool r = nif.RenameDuplicateShapes();
		std::string o;
		for (auto sh : nif.GetShapes())
			o += (o.empty() ? "" : ",") + hexEncode(sh->name.get());
		return o + " " + (r ? "1" : "0");
	});
}
Reg r1("c12.run", run), r2("c12.rename", rename);
} // namespace
