// C20: transform algebra and bounding spheres; floats travel as IEEE-754 bit patterns (hex words).
#include "harness.hpp"
#include "NifFile.hpp"
#include <cstring>
#include <iomanip>

using namespace nifly;
using namespace vh;

namespace {
float f32(const std::string& h) {
	uint32_t u = static_cast<uint32_t>(std::stoul(h, nullptr, 16));
	float f;
	std::memcpy(&f, &u, 4);
	return f;
}
std::vector<float> floats(const std::string& s) {
	std::vector<float> o;
	if (s == "-")
		return o;
	for (auto& t : split(s, ','))
		o.push_back(f32(t));
	return o;
}
std::string show(const std::vector<float>& v) {
	std::ostringstream o;
	for (size_t i = 0; i < v.size(); ++i) {
		uint32_t u;
		std::memcpy(&u, &v[i], 4);
		o << (i ? "," : "") << std::hex << std::setw(8) << std::setfill('0') << u;
	}
	return v.empty() ? "-" : o.str();
}
Matrix3 mat3(const std::vector<float>& f, size_t o) {
	Matrix3 m;
	for (int i = 0; i < 3; ++i)
		for (int j = 0; j < 3; ++j)
			m[i][j] = f[o + 3 * i + j];
	return m;
}
void put3(std::vector<float>& out, const Matrix3& m) {
	for (int i = 0; i < 3; ++i)
		for (int j = 0; j < 3; ++j)
			out.push_back(m[i][j]);
}
// transform = tx ty tz  r00..r22  s
MatTransform xf(const std::vector<float>& f, size_t o = 0) {
	MatTransform t;
	t.translation = Vector3(f[o], f[o + 1], f[o + 2]);
	t.rotation = mat3(f, o + 3);
	t.scale = f[o + 12];
	return t;
}
std::vector<float> unxf(const MatTransform& t) {
	std::vector<float> out = {t.translation.x, t.translation.y, t.translation.z};
	put3(out, t.rotation);
	out.push_back(t.scale);
	return out;
}
std::vector<float> v3(const Vector3& v) {
	return {v.x, v.y, v.z};
}

Reg r1("c20.compose", [](const Args& a) { return show(unxf(xf(floats(a[1])).ComposeTransforms(xf(floats(a[2]))))); });
Reg r2("c20.inverse", [](const Args& a) { return show(unxf(xf(floats(a[1])).InverseTransform())); });
Reg r3("c20.apply", [](const Args& a) {
	auto v = floats(a[2]);
	return show(v3(xf(floats(a[1])).ApplyTransform(Vector3(v[0], v[1], v[2]))));
});
Reg r4("c20.tomatrix", [](const Args& a) {
	Matrix4 m = xf(floats(a[1])).ToMatrix();
	std::vector<float> o;
	for (int i = 0; i < 16; ++i)
		o.push_back(m[i]);
	auto v = floats(a[2]);
	Vector3 mv = m * Vector3(v[0], v[1], v[2]);
	return show(o) + " " + show(v3(mv));
});
Reg r5("c20.mat3inv", [](const Args& a) {
	Matrix3 m = mat3(floats(a[1]), 0), inv;
	bool ok = m.Invert(&inv);
	std::vector<float> o;
	put3(o, inv);
	std::vector<float> p;
	put3(p, m * inv);
	return std::string(ok ? "1 " : "0 ") + show(o) + " " + show(p) + " " + show({m.Determinant()});
});
// derived laws evaluated by the implementation itself (the oracle judges the results)
Reg r6("c20.compinv", [](const Args& a) {
	MatTransform t = xf(floats(a[1]));
	return show(unxf(t.ComposeTransforms(t.InverseTransform()))) + " " + show(unxf(t.InverseTransform().ComposeTransforms(t)));
});
Reg r7("c20.applycomp", [](const Args& a) {
	MatTransform t1 = xf(floats(a[1])), t2 = xf(floats(a[2]));
	auto v = floats(a[3]);
	Vector3 p(v[0], v[1], v[2]);
	return show(v3(t1.ComposeTransforms(t2).ApplyTransform(p))) + " " + show(v3(t1.ApplyTransform(t2.ApplyTransform(p))));
});
Reg r8("c20.rotvec", [](const Args& a) {
	auto v = floats(a[1]);
	Matrix3 m = RotVecToMat(Vector3(v[0], v[1], v[2]));
	Vector3 back = RotMatToVec(m);
	Matrix3 again = RotVecToMat(back);
	std::vector<float> o, o2;
	put3(o, m);
	put3(o2, again);
	return show(o) + " " + show(v3(back)) + " " + show(o2);
});
Reg r9("c20.avg", [](const Args& a) {
	int n = std::stoi(a[1]);
	std::vector<MatTransform> ts(static_cast<size_t>(n), xf(floats(a[2])));
	return show(unxf(CalcAverageMatTransform(ts))) + " " + show(unxf(CalcMedianMatTransform(ts)));
});
Reg r10("c20.bsphere", [](const Args& a) {
	auto f = floats(a[1]);
	std::vector<Vector3> pts;
	for (size_t i = 0; i + 2 < f.size(); i += 3)
		pts.emplace_back(f[i], f[i + 1], f[i + 2]);
	BoundingSphere b(pts);
	return show({b.center.x, b.center.y, b.center.z, b.radius});
});
Reg r11("c20.mat4inv", [](const Args& a) {
	auto f = floats(a[1]);
	Matrix4 m;
	for (int i = 0; i < 16; ++i)
		m[i] = f[static_cast<size_t>(i)];
	Matrix4 inv = m.Inverse();
	Matrix4 prod = m * inv;
	std::vector<float> o, p;
	for (int i = 0; i < 16; ++i) {
		o.push_back(inv[i]);
		p.push_back(prod[i]);
	}
	return show(o) + " " + show(p) + " " + show({m.Det()});
});
// c20.bounds <ver> <verts1> <verts2>: create a shape from verts1, recompute bounds, move the vertices to verts2
// (same count), recompute bounds again
// Matrix4::operator* on its own (the model's Mat4.mul is what the inverse theorems are stated with)
Reg r13("c20.mat4mul", [](const Args& a) {
	auto f = floats(a[1]), g = floats(a[2]);
	Matrix4 m, n;
	for (int i = 0; i < 16; ++i) {
		m[i] = f[static_cast<size_t>(i)];
		n[i] = g[static_cast<size_t>(i)];
	}
	Matrix4 prod = m * n;
	Matrix4 acc = m;
	acc *= n;
	std::vector<float> p, q;
	for (int i = 0; i < 16; ++i) {
		p.push_back(prod[i]);
		q.push_back(acc[i]);
	}
	return show(p) + " " + show(q);
});
Reg r12("c20.bounds", [](const Args& a) {
	NifFile nif;
	NiVersion ver = a[1] == "sse" ? NiVersion::getSSE() : a[1] == "fo4" ? NiVersion::getFO4() : a[1] == "ob" ? NiVersion::getOB() : NiVersion::getSK();
	nif.Create(ver);
	auto f1 = floats(a[2]), f2 = floats(a[3]);
	std::vector<Vector3> v1, v2;
	for (size_t i = 0; i + 2 < f1.size(); i += 3)
		v1.emplace_back(f1[i], f1[i + 1], f1[i + 2]);
	for (size_t i = 0; i + 2 < f2.size(); i += 3)
		v2.emplace_back(f2[i], f2[i + 1], f2[i + 2]);
	std::vector<Triangle> tris;
	for (uint16_t i = 0; i + 2 < v1.size(); i += 1)
		tris.emplace_back(i, static_cast<uint16_t>(i + 1), static_cast<uint16_t>(i + 2));
	NiShape* shape = nif.CreateShapeFromData("S", &v1, &tris, nullptr);
	if (!shape)
		return std::string("no-shape");
	shape->UpdateBounds();
	BoundingSphere b1 = shape->GetBounds();
	std::vector<Vector3> got;
	nif.GetVertsForShape(shape, got);
	nif.SetVertsForShape(shape, v2);
	shape->UpdateBounds();
	BoundingSphere b2 = shape->GetBounds();
	std::vector<Vector3> got2;
	nif.GetVertsForShape(shape, got2);
	std::vector<float> g1, g2;
	for (auto& v : got) {
		g1.push_back(v.x);
		g1.push_back(v.y);
		g1.push_back(v.z);
	}
	for (auto& v : got2) {
		g2.push_back(v.x);
		g2.push_back(v.y);
		g2.push_back(v.z);
	}
	return show({b1.center.x, b1.center.y, b1.center.z, b1.radius}) + " " + show(g1) + " "
		   + show({b2.center.x, b2.center.y, b2.center.z, b2.radius}) + " " + show(g2);
});
} // namespace
