// C09: vertex deletion on real shapes of every geometry kind; complete observation before/after and after save+reload.
#include "gen.hpp"
#include "harness.hpp"
#include "shapeobs.hpp"
#include <sstream>

using namespace nifly;
using namespace vh;

namespace vh {
// mesh:<ver>:<nv>:<nt>:<seed>:<flags>  flags: n normals, c colours, s convert to strips (pre-SSE only)
NiShape* buildMesh(NifFile& nif, const std::vector<std::string>& f) {
	nif.Create(versionByName(f[1]));
	uint32_t nv = static_cast<uint32_t>(std::stoul(f[2])), nt = static_cast<uint32_t>(std::stoul(f[3]));
	Rng rng(std::stoull(f[4]));
	std::string flags = f.size() > 5 ? f[5] : "";
	std::vector<Vector3> v(nv), n(nv);
	std::vector<Vector2> uv(nv);
	for (uint32_t i = 0; i < nv; ++i) {
		// half-exact coordinates (multiples of 1/8 below 256) so that half-precision formats keep them
		v[i] = Vector3(float(rng.below(2048)) / 8.0f, float(rng.below(2048)) / 8.0f - 100.0f, float(i % 1024) / 4.0f);
		uv[i] = Vector2(float(rng.below(1024)) / 1024.0f, float(rng.below(1024)) / 1024.0f);
		n[i] = Vector3(0, 0, 1);
	}
	std::vector<Triangle> t;
	for (uint32_t k = 0; k < nt && nv >= 3; ++k) {
		uint16_t a = static_cast<uint16_t>(rng.below(nv)), b = static_cast<uint16_t>(rng.below(nv)), c = static_cast<uint16_t>(rng.below(nv));
		if (a == b || b == c || a == c) {
			a = static_cast<uint16_t>(k % nv);
			b = static_cast<uint16_t>((k + 1) % nv);
			c = static_cast<uint16_t>((k + 2) % nv);
		}
		t.emplace_back(a, b, c);
	}
	NiShape* s = nif.CreateShapeFromData("M", &v, &t, &uv, flags.find('n') != std::string::npos ? &n : nullptr);
	if (s && flags.find('c') != std::string::npos) {
		std::vector<Color4> cols(nv);
		for (uint32_t i = 0; i < nv; ++i)
			cols[i] = Color4(float(i % 5) / 4.0f, 0.5f, 1.0f, float(i % 3) / 2.0f);
		nif.SetColorsForShape(s, cols);
	}
	return s;
}
void skinMesh(NifFile& nif, NiShape* shape, int nbones, uint64_t seed, int maxInfl);
} // namespace vh

namespace {
// c09.run <load:path | mesh:...> <shapeIndex> <idx,idx,...[;idx,...]> [reload]
std::string run(const Args& a) {
	return forked([&]() -> std::string {
		NifFile nif;
		auto f = split(a[1], ':');
		NiShape* shape = nullptr;
		if (f[0] == "load") {
			if (nif.Load(f[1]) != 0)
				return std::string("load-failed");
			auto shapes = nif.GetShapes();
			size_t k = static_cast<size_t>(std::stoul(a[2]));
			if (k >= shapes.size())
				return std::string("no-such-shape");
			shape = shapes[k];
		}
		else {
			shape = buildMesh(nif, f);
			if (!shape)
				return std::string("no-shape");
			// mesh:…:<flags>:<nbones>[:<parts>] : skinned, with the partitions the bone limit gives (18 per partition for OB/FO3, 80
			// for SSE) or <parts> explicit partitions of consecutive triangles
			if (f.size() > 6 && std::stoi(f[6]) > 0) {
				skinMesh(nif, shape, std::stoi(f[6]), std::stoull(f[4]) + 1, 4);
				nif.UpdateSkinPartitions(shape);
				int parts = f.size() > 7 ? std::stoi(f[7]) : 1;
				uint32_t nt = shape->GetNumTriangles();
				if (parts > 1 && nt > 0) {
					NiVector<BSDismemberSkinInstance::PartitionInfo> info;
					for (int k = 0; k < parts; ++k) {
						BSDismemberSkinInstance::PartitionInfo pi;
						pi.flags = PF_EDITOR_VISIBLE;
						pi.partID = static_cast<uint16_t>(30 + k);
						info.push_back(pi);
					}
					std::vector<int> labels(nt);
					for (uint32_t k = 0; k < nt; ++k)
						labels[k] = static_cast<int>(static_cast<uint64_t>(k) * static_cast<uint64_t>(parts) / nt);
					nif.SetShapePartitions(shape, info, labels);
					nif.UpdateSkinPartitions(shape);
				}
			}
		}
		std::string out = observeShape(nif, shape);
		for (auto& lst : split(a[3], ';')) {
			std::vector<uint16_t> idx;
			for (auto x : parseList(lst))
				idx.push_back(static_cast<uint16_t>(x));
			bool all = nif.DeleteVertsForShape(shape, idx);
			out += std::string(" | all=") + (all ? "1 " : "0 ") + observeShape(nif, shape);
		}
		if (a.size() > 4 && a[4] == "reload") {
			std::string name = shape->name.get();
			std::stringstream ss(std::ios::in | std::ios::out | std::ios::binary);
			NifSaveOptions so;
			so.optimize = false;
			so.sortBlocks = false;
			if (nif.Save(ss, so) != 0)
				return out + " | save-failed";
			out += " | SAVED " + observeShape(nif, shape);
			NifFile re;
			ss.seekg(0);
			if (re.Load(ss) != 0)
				return out + " | reload-failed";
			auto rs = re.FindBlockByName<NiShape>(name);
			if (!rs)
				return out + " | reload-no-shape";
			out += " | RELOADED " + observeShape(re, rs);
		}
		return out;
	}, 60);
}
// c09.shapes <path> -> per shape: index:type:nv:nt
std::string shapes(const Args& a) {
	return forked([&]() -> std::string {
		NifFile nif;
		if (nif.Load(a[1]) != 0)
			return std::string("load-failed");
		std::string o;
		size_t k = 0;
		for (auto s : nif.GetShapes())
			o += (o.empty() ? "" : " ") + std::to_string(k++) + ":" + s->GetBlockName() + ":" + std::to_string(s->GetNumVertices()) + ":" + std::to_string(s->GetNumTriangles());
		return o.empty() ? "-" : o;
	});
}
Reg r1("c09.run", run), r2("c09.shapes", shapes);
} // namespace
