#include "harness.hpp"
#include <iostream>
#include <cstdlib>
#include <unistd.h>
#include <sys/wait.h>
#include <sys/resource.h>
#include <csignal>

namespace vh {
std::map<std::string, Handler>& registry() {
	static std::map<std::string, Handler> r;
	return r;
}
std::string forked(const std::function<std::string()>& fn, unsigned timeoutSec) {
	int fds[2];
	if (pipe(fds) != 0)
		return "fail pipe";
	fflush(nullptr);
	pid_t pid = fork();
	if (pid == 0) {
		close(fds[0]);
		alarm(timeoutSec);
		std::string r;
		try {
			r = fn();
		}
		catch (const std::exception& e) {
			r = std::string("exception ") + e.what();
		}
		catch (...) {
			r = "exception ?";
		}
		size_t off = 0;
		while (off < r.size()) {
			ssize_t n = ::write(fds[1], r.data() + off, r.size() - off);
			if (n <= 0)
				break;
			off += static_cast<size_t>(n);
		}
		close(fds[1]);
		_exit(0);
	}
	close(fds[1]);
	std::string out;
	char buf[65536];
	ssize_t n;
	while ((n = ::read(fds[0], buf, sizeof buf)) > 0)
		out.append(buf, static_cast<size_t>(n));
	close(fds[0]);
	int st = 0;
	waitpid(pid, &st, 0);
	if (WIFSIGNALED(st))
		return "crash signal=" + std::to_string(WTERMSIG(st));
	if (WEXITSTATUS(st) != 0)
		return "fail rc=" + std::to_string(WEXITSTATUS(st));
	return out;
}
std::string hexEncode(const std::string& b) {
	static const char* d = "0123456789abcdef";
	std::string o;
	o.reserve(b.size() * 2);
	for (unsigned char c : b) {
		o.push_back(d[c >> 4]);
		o.push_back(d[c & 15]);
	}
	return o.empty() ? "-" : o;
}
std::string hexDecode(const std::string& h) {
	std::string o;
	if (h == "-")
		return o;
	auto v = [](char c) { return c <= '9' ? c - '0' : (c | 32) - 'a' + 10; };
	for (size_t i = 0; i + 1 < h.size(); i += 2)
		o.push_back(static_cast<char>(v(h[i]) * 16 + v(h[i + 1])));
	return o;
}
} // namespace vh

int main(int, char**) {
	// no single file written by the library under test may exceed 256 MB (runaway writes of a broken build)
	struct rlimit fl = {256u << 20, 256u << 20};
	setrlimit(RLIMIT_FSIZE, &fl);
	signal(SIGXFSZ, SIG_IGN);
	std::ios::sync_with_stdio(false);
	std::string line;
	// watchdog: a command that runs longer than this many seconds is a hang (SIGALRM kills the process,
	// the runner reports the command that did not answer)
	unsigned lineTimeout = 90;
	if (const char* e = std::getenv("VH_LINE_TIMEOUT"))
		lineTimeout = static_cast<unsigned>(std::atoi(e));
	while (std::getline(std::cin, line)) {
		alarm(lineTimeout);
		if (line.empty()) {
			std::cout << "\n";
			continue;
		}
		auto args = vh::split(line, ' ');
		auto it = vh::registry().find(args[0]);
		if (it == vh::registry().end()) {
			std::cout << "bad-op" << "\n";
			continue;
		}
		std::string out;
		try {
			out = it->second(args);
		}
		catch (const std::exception& e) {
			out = std::string("exception ") + e.what();
		}
		std::cout << out << "\n";
		std::cout.flush();
	}
	return 0;
}
