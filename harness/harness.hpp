// Correspondence harness for the Lean models in /verif/lean (see DESIGN.md §2.2, tie "D").
// Line protocol: one command per input line, one observation line per command.
#pragma once
#include <cstdint>
#include <functional>
#include <map>
#include <sstream>
#include <string>
#include <vector>

namespace vh {
using Args = std::vector<std::string>;
using Handler = std::function<std::string(const Args&)>;
std::map<std::string, Handler>& registry();
struct Reg {
	Reg(const char* name, Handler h) { registry()[name] = std::move(h); }
};

inline std::vector<std::string> split(const std::string& s, char sep) {
	std::vector<std::string> out;
	std::string cur;
	for (char c : s) {
		if (c == sep) {
			out.push_back(cur);
			cur.clear();
		}
		else
			cur.push_back(c);
	}
	out.push_back(cur);
	return out;
}

// "-" = empty list, otherwise comma separated integers
inline std::vector<long long> parseList(const std::string& s) {
	std::vector<long long> out;
	if (s == "-" || s.empty())
		return out;
	for (auto& t : split(s, ','))
		out.push_back(std::stoll(t));
	return out;
}
// ";"-separated list of lists; "." = empty outer list
inline std::vector<std::vector<long long>> parseListList(const std::string& s) {
	std::vector<std::vector<long long>> out;
	if (s == "." || s.empty())
		return out;
	for (auto& t : split(s, ';'))
		out.push_back(parseList(t));
	return out;
}
template<typename T>
std::string showList(const std::vector<T>& v) {
	if (v.empty())
		return "-";
	std::ostringstream o;
	for (size_t i = 0; i < v.size(); ++i) {
		if (i)
			o << ',';
		o << static_cast<long long>(v[i]);
	}
	return o.str();
}
// runs fn in a forked child (watchdog `timeoutSec`); returns its result, or "crash signal=N" / "fail rc=N" (rc 86 = sanitizer report)
std::string forked(const std::function<std::string()>& fn, unsigned timeoutSec = 20);
std::string hexEncode(const std::string& bytes);
std::string hexDecode(const std::string& hex);
} // namespace vh
