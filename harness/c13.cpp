// C13: geometry written through the API is what is read back, in every version.
#include "gen.hpp"
#include "harness.hpp"
#include "shapeobs.hpp"
#include <sstream>

using namespace nifly;
using namespace vh;

namespace vh {
void skinMesh(NifFile& nif, NiShape* shape, int nbones, uint64_t seed, int maxInfl);
}
namespace {
std::string v2s(const std::vector<Vector2>& v) {
	std::string o;
	for (auto& x : v)
		o += fhex(x.u) + fhex(x.v) + ",";
	return o.empty() ? "-" : o.substr(0, o.size() - 1);
}
// c13.run <ver> <nv> <nt> <seed> <flags: n normals given>  -- creates a shape and exercises every setter/getter pair
std::string run(const Args& a) {
	return forked([&]() -> std::string {
		NifFile nif;
		nif.Create(versionByName(a[1]));
		uint32_t nv = static_cast<uint32_t>(std::stoul(a[2])), nt = static_cast<uint32_t>(std::stoul(a[3]));
		Rng rng(std::stoull(a[4]));
		bool withNormals = a[5].find('n') != std::string::npos;
		bool halfExact = a[5].find('h') != std::string::npos;
		std::vector<Vector3> v(nv), n(nv);
		std::vector<Vector2> uv(nv);
		auto rf = [&](float scale) { return halfExact ? float(int(rng.below(4096)) - 2048) / 16.0f : (float(rng.below(2000001)) / 1000000.0f - 1.0f) * scale; };
		for (uint32_t i = 0; i < nv; ++i) {
			v[i] = Vector3(rf(300.0f), rf(300.0f), rf(300.0f));
			uv[i] = Vector2(float(rng.below(1025)) / 1024.0f, float(rng.below(1025)) / 1024.0f);
			float a1 = float(rng.below(1000)) / 1000.0f * 6.28f, z = float(rng.below(2001)) / 1000.0f - 1.0f;
			float r = std::sqrt(std::max(0.0f, 1.0f - z * z));
			n[i] = Vector3(r * std::cos(a1), r * std::sin(a1), z);
		}
		std::vector<Triangle> t;
		uint32_t nvc = std::min<uint32_t>(nv, 65535);
		for (uint32_t k = 0; k < nt && nvc >= 3; ++k) {
			uint16_t p = static_cast<uint16_t>(rng.below(nvc)), q = static_cast<uint16_t>(rng.below(nvc)), r = static_cast<uint16_t>(rng.below(nvc));
			if (p == q || q == r || p == r) {
				p = static_cast<uint16_t>(k % nvc);
				q = static_cast<uint16_t>((k + 1) % nvc);
				r = static_cast<uint16_t>((k + 2) % nvc);
			}
			t.emplace_back(p, q, r);
		}
		NiShape* s = nif.CreateShapeFromData("M", &v, &t, &uv, withNormals ? &n : nullptr);
		if (!s)
			return std::string("no-shape");
		if (a[5].find('k') != std::string::npos) {
			// skinned: in SSE the vertex data also lives in the skin partition, which a save must refresh
			skinMesh(nif, s, 3, std::stoull(a[4]) + 5, 4);
			nif.UpdateSkinPartitions(s);
		}
		auto bstri = dynamic_cast<BSTriShape*>(s);
		std::string out = std::string("INPUT V=") + v3s(v) + " UV=" + v2s(uv) + " N=" + (withNormals ? v3s(n) : "none") + " T=" + triS(t)
						  + " fullprec=" + (bstri ? (bstri->IsFullPrecision() ? "1" : "0") : "1") + " trilimit=" + std::to_string(nif.GetTriangleLimit())
						  + " | CREATE " + observeShape(nif, s, false);
		// save + reload
		{
			std::stringstream ss(std::ios::in | std::ios::out | std::ios::binary);
			if (nif.Save(ss) != 0)
				return out + " | save-failed";
			NifFile re;
			ss.seekg(0);
			if (re.Load(ss) != 0)
				return out + " | reload-failed";
			auto rs = re.FindBlockByName<NiShape>("M");
			if (!rs)
				return out + " | reload-no-shape";
			out += " | RELOAD " + observeShape(re, rs, false);
		}
		uint16_t cnt = s->GetNumVertices();
		// setters (values per vertex count of the shape)
		std::vector<Vector3> nv3(cnt), tg(cnt), bt(cnt);
		std::vector<Vector2> nuv(cnt);
		std::vector<Color4> col(cnt);
		std::vector<float> eye(cnt);
		for (uint16_t i = 0; i < cnt; ++i) {
			nv3[i] = Vector3(rf(100.0f), rf(100.0f), rf(100.0f));
			nuv[i] = Vector2(float(rng.below(1025)) / 1024.0f, float(rng.below(1025)) / 1024.0f);
			tg[i] = Vector3(n[i].y, -n[i].x, n[i].z);
			bt[i] = Vector3(-n[i].z, n[i].y, n[i].x);
			col[i] = Color4(float(rng.below(256)) / 255.0f, float(rng.below(1001)) / 1000.0f, float(rng.below(256)) / 255.0f, float(rng.below(1001)) / 1000.0f);
			eye[i] = float(rng.below(1001)) / 1000.0f;
		}
		auto c4s = [](const std::vector<Color4>& c) {
			std::string o;
			for (auto& x : c)
				o += fhex(x.r) + fhex(x.g) + fhex(x.b) + fhex(x.a) + ",";
			return o.empty() ? std::string("-") : o.substr(0, o.size() - 1);
		};
		nif.SetVertsForShape(s, nv3);
		out += " | SET V=" + v3s(nv3) + " OBS " + observeShape(nif, s, false);
		nif.SetUvsForShape(s, nuv);
		out += " | SET UV=" + v2s(nuv) + " OBS " + observeShape(nif, s, false);
		nif.SetNormalsForShape(s, n);
		out += " | SET N=" + v3s(n) + " OBS " + observeShape(nif, s, false);
		nif.SetTangentsForShape(s, tg);
		out += " | SET TG=" + v3s(tg) + " OBS " + observeShape(nif, s, false);
		nif.SetBitangentsForShape(s, bt);
		out += " | SET BT=" + v3s(bt) + " OBS " + observeShape(nif, s, false);
		nif.SetColorsForShape(s, col);
		out += " | SET C=" + c4s(col) + " OBS " + observeShape(nif, s, false);
		if (bstri) {
			NifFile::SetEyeDataForShape(s, eye);
			std::vector<float> got;
			bool ok = NifFile::GetEyeDataForShape(s, got);
			std::string e1, e2;
			for (auto x : eye)
				e1 += fhex(x) + ",";
			for (auto x : got)
				e2 += fhex(x) + ",";
			out += " | EYE " + std::string(ok ? "1 " : "0 ") + (e1.empty() ? "-" : e1) + " " + (e2.empty() ? "-" : e2);
		}
		// bounds
		s->UpdateBounds();
		BoundingSphere b = s->GetBounds();
		out += " | BOUNDS " + fhex(b.center.x) + fhex(b.center.y) + fhex(b.center.z) + fhex(b.radius);
		// final save + reload
		{
			std::stringstream ss(std::ios::in | std::ios::out | std::ios::binary);
			if (nif.Save(ss) != 0)
				return out + " | save2-failed";
			out += " | SAVED2 " + observeShape(nif, s, false);
			NifFile re;
			ss.seekg(0);
			if (re.Load(ss) != 0)
				return out + " | reload2-failed";
			auto rs = re.FindBlockByName<NiShape>("M");
			if (!rs)
				return out + " | reload2-no-shape";
			out += " | RELOAD2 " + observeShape(re, rs, false);
		}
		// a further edit that keeps vertex count and layout (nothing forces the writer to rebuild derived buffers), third save
		{
			for (auto& p : nv3)
				p.x += 3.0f;
			nif.SetVertsForShape(s, nv3);
			std::stringstream ss(std::ios::in | std::ios::out | std::ios::binary);
			if (nif.Save(ss) != 0)
				return out + " | save3-failed";
			out += " | SAVED3 " + observeShape(nif, s, false);
			NifFile re;
			ss.seekg(0);
			if (re.Load(ss) != 0)
				return out + " | reload3-failed";
			auto rs = re.FindBlockByName<NiShape>("M");
			if (!rs)
				return out + " | reload3-no-shape";
			out += " | RELOAD3 " + observeShape(re, rs, false);
		}
		return out;
	}, 900);
}
Reg r1("c13.run", run);
} // namespace
