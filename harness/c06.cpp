// C06: operation sequences on the real NiHeader block table (through a real NifFile).
#include "harness.hpp"
#include <cstdlib>
#include "NifFile.hpp"
#include <algorithm>
#include <fstream>
#include <sstream>

using namespace nifly;
using namespace vh;

namespace {
// synthetic block kinds: how given reference slots are stored in real fields
//  NiNode / BSFadeNode      : all slots -> childRefs
//  NiStringExtraData        : no slots
//  NiSkinInstance           : slot0 dataRef, slot1 skinPartitionRef, slot2 targetRef (ptr), rest boneRefs (ptrs)
//  BSLightingShaderProperty : slot0 textureSetRef
std::unique_ptr<NiObject> makeBlock(const std::string& ty, const std::vector<uint32_t>& refs) {
	if (ty == "NiNode" || ty == "BSFadeNode") {
		std::unique_ptr<NiNode> n;
		if (ty == "NiNode")
			n = std::make_unique<NiNode>();
		else
			n = std::make_unique<BSFadeNode>();
		n->childRefs.SetKeepEmptyRefs();
		for (auto r : refs)
			n->childRefs.AddBlockRef(r);
		return n;
	}
	if (ty == "NiStringExtraData")
		return std::make_unique<NiStringExtraData>();
	if (ty == "NiSkinInstance") {
		auto s = std::make_unique<NiSkinInstance>();
		if (refs.size() > 0)
			s->dataRef.index = refs[0];
		if (refs.size() > 1)
			s->skinPartitionRef.index = refs[1];
		if (refs.size() > 2)
			s->targetRef.index = refs[2];
		s->boneRefs.SetKeepEmptyRefs();
		for (size_t i = 3; i < refs.size(); ++i)
			s->boneRefs.AddBlockRef(refs[i]);
		return s;
	}
	if (ty == "BSLightingShaderProperty") {
		auto s = std::make_unique<BSLightingShaderProperty>();
		if (refs.size() > 0)
			s->TextureSetRef()->index = refs[0];
		return s;
	}
	return nullptr;
}

std::vector<uint32_t> parseRefs(const std::string& s) {
	std::vector<uint32_t> out;
	if (s == "-" || s.empty())
		return out;
	for (auto& t : split(s, ','))
		out.push_back(t == "x" ? NIF_NPOS : static_cast<uint32_t>(std::stoul(t)));
	return out;
}
uint32_t parseIdx(const std::string& s) {
	return s == "x" ? NIF_NPOS : static_cast<uint32_t>(std::stoul(s));
}

struct World {
	NifFile nif;
	std::map<NiObject*, long long> uid;
	std::vector<std::unique_ptr<NiObject>>* blocks = nullptr;
};

std::vector<uint32_t> refTargets(NiObject* b) {
	std::set<NiRef*> refs;
	b->GetChildRefs(refs);
	b->GetPtrs(refs);
	std::vector<uint32_t> t;
	for (auto r : refs)
		if (!r->IsEmpty())
			t.push_back(r->index);
	std::sort(t.begin(), t.end());
	return t;
}

std::string dumpState(World& w) {
	NiHeader& hdr = w.nif.GetHeader();
	std::ostringstream o;
	uint32_t n = hdr.GetNumBlocks();
	o << "N=" << n << " T=";
	std::vector<long long> tidx;
	for (auto v : hdr.VerifBlockTypeIndices())
		tidx.push_back(v);
	auto& names = hdr.VerifBlockTypes();
	for (size_t i = 0; i < names.size(); ++i)
		o << (i ? "," : "") << names[i].get();
	if (names.empty())
		o << "-";
	if (hdr.VerifNumBlockTypes() != names.size())
		o << "!numBlockTypes=" << hdr.VerifNumBlockTypes();
	o << " I=" << showList(tidx) << " S=";
	if (hdr.GetVersion().File() >= V20_2_0_5) {
		std::vector<long long> sz;
		for (auto v : hdr.VerifBlockSizes())
			sz.push_back(v);
		o << showList(sz);
	}
	else
		o << "none";
	o << " B=";
	for (uint32_t i = 0; i < n; ++i) {
		NiObject* b = hdr.GetBlock<NiObject>(i);
		if (i)
			o << ";";
		if (!b) {
			o << "null";
			continue;
		}
		auto it = w.uid.find(b);
		o << (it == w.uid.end() ? -1 : it->second) << "/" << b->GetBlockName() << "/" << showList(refTargets(b));
	}
	if (n == 0)
		o << "-";
	return o.str();
}

bool initWorld(World& w, const std::string& src) {
	if (src == "new:sse")
		w.nif.Create(NiVersion::getSSE());
	else if (src == "new:ob")
		w.nif.Create(NiVersion::getOB());
	else if (src.rfind("file:", 0) == 0) {
		if (w.nif.Load(src.substr(5)) != 0)
			return false;
		NiHeader& hdr = w.nif.GetHeader();
		for (uint32_t i = 0; i < hdr.GetNumBlocks(); ++i)
			w.uid[hdr.GetBlock<NiObject>(i)] = i;
		return true;
	}
	else
		return false;
	// start from the empty model
	w.nif.GetHeader().DeleteBlock(0u);
	return true;
}

// canonical (type, refs) list used for the save/reload comparison
std::string graphSig(NifFile& nif) {
	NiHeader& hdr = nif.GetHeader();
	std::ostringstream o;
	for (uint32_t i = 0; i < hdr.GetNumBlocks(); ++i) {
		NiObject* b = hdr.GetBlock<NiObject>(i);
		o << (b ? b->GetBlockName() : "null") << "/" << (b ? showList(refTargets(b)) : "") << ";";
	}
	return o.str();
}

std::string runInner(const Args& a);
// every sequence in a child of its own (VH_C06_NOFORK=1: in this process, so that a sanitizer report reaches stderr — used to
// fetch the report of a sequence that failed)
std::string run(const Args& a) {
	if (getenv("VH_C06_NOFORK"))
		return runInner(a);
	return forked([&]() { return runInner(a); }, 60);
}
std::string runInner(const Args& a) {
	World w;
	if (!initWorld(w, a[1]))
		return "load-failed";
	NiHeader& hdr = w.nif.GetHeader();
	std::string out = dumpState(w);
	if (a.size() > 2 && a[2] != "-") {
		for (auto& opS : split(a[2], '|')) {
			auto f = split(opS, ':');
			if (f[0] == "add") {
				auto b = makeBlock(f[2], parseRefs(f[3]));
				NiObject* raw = b.get();
				hdr.AddBlock(std::move(b));
				w.uid[raw] = std::stoll(f[1]);
			}
			else if (f[0] == "del") {
				uint32_t i = parseIdx(f[1]);
				NiObject* old = hdr.GetBlock<NiObject>(i);
				hdr.DeleteBlock(i);
				w.uid.erase(old);
			}
			else if (f[0] == "rep") {
				uint32_t i = parseIdx(f[1]);
				auto b = makeBlock(f[3], parseRefs(f[4]));
				NiObject* raw = b.get();
				NiObject* old = hdr.GetBlock<NiObject>(i);
				if (i != NIF_NPOS)
					w.uid.erase(old);
				hdr.ReplaceBlock(i, std::move(b));
				if (i != NIF_NPOS)
					w.uid[raw] = std::stoll(f[2]);
			}
			else if (f[0] == "ord") {
				std::vector<uint32_t> p;
				for (auto x : parseList(f[1]))
					p.push_back(static_cast<uint32_t>(x));
				hdr.SetBlockOrder(p);
			}
			else if (f[0] == "dbt") {
				std::set<NiObject*> before;
				for (uint32_t i = 0; i < hdr.GetNumBlocks(); ++i)
					before.insert(hdr.GetBlock<NiObject>(i));
				// the type name may itself contain "::" (BSSkin::BoneData): everything between the first and the last field
				std::string ty = f[1];
				for (size_t k = 2; k + 1 < f.size(); ++k)
					ty += ":" + f[k];
				for (size_t q; (q = ty.find("~~")) != std::string::npos;)
					ty.replace(q, 2, "::");
				hdr.DeleteBlockByType(ty, f.back() == "1");
				for (uint32_t i = 0; i < hdr.GetNumBlocks(); ++i)
					before.erase(hdr.GetBlock<NiObject>(i));
				for (auto p : before)
					w.uid.erase(p);
			}
			else if (f[0] == "prune") {
				std::set<NiObject*> before;
				for (uint32_t i = 0; i < hdr.GetNumBlocks(); ++i)
					before.insert(hdr.GetBlock<NiObject>(i));
				uint32_t cnt = 0;
				hdr.DeleteUnreferencedBlocks<NiObject>(parseIdx(f[1]), &cnt);
				for (uint32_t i = 0; i < hdr.GetNumBlocks(); ++i)
					before.erase(hdr.GetBlock<NiObject>(i));
				for (auto p : before)
					w.uid.erase(p);
			}
			else
				return "bad-op";
			out += " # " + dumpState(w);
		}
	}
	// save (raw: no sort, no prune) and reload: equivalent graph
	if (hdr.GetNumBlocks() == 0)
		return out + " # reload=skip";
	NifSaveOptions so;
	so.optimize = false;
	so.sortBlocks = false;
	std::stringstream ss(std::ios::in | std::ios::out | std::ios::binary);
	if (w.nif.Save(ss, so) != 0)
		return out + " # reload=save-failed";
	std::string sigBefore = graphSig(w.nif);
	NifFile re;
	ss.seekg(0);
	if (re.Load(ss) != 0)
		return out + " # reload=load-failed";
	std::string sigAfter = graphSig(re);
	return out + (sigBefore == sigAfter ? " # reload=ok" : " # reload=diff " + sigBefore + " vs " + sigAfter);
}

std::string dump(const Args& a) {
	World w;
	if (!initWorld(w, a[1]))
		return "load-failed";
	return dumpState(w);
}

Reg r1("c06.run", run), r2("c06.dump", dump);
} // namespace
