// C16: truncation sweep. Every chosen prefix of a valid file is loaded, the result queried, saved and destroyed, under
// ASan/UBSan. One child works through a list of cut points and reports each point before it starts it, so a crash
// names its cut point and the sweep continues behind it.
#include "gen.hpp"
#include "harness.hpp"
#include "shapeobs.hpp"
#include <fstream>
#include <sstream>
#include <sys/wait.h>
#include <unistd.h>

using namespace nifly;
using namespace vh;

namespace vh {
std::vector<std::pair<std::string, std::string>> battery(NifFile& nif, bool walkParents);
std::string probeSynth(const std::string& src);
} // namespace vh

namespace {
bool sourceBytes(const std::string& src, std::string& bytes) {
	auto f = split(src, ':');
	if (f[0] == "load") {
		std::ifstream in(f[1], std::ios::binary);
		bytes.assign((std::istreambuf_iterator<char>(in)), std::istreambuf_iterator<char>());
		return !bytes.empty();
	}
	if (f[0] == "synth") {
		size_t nf = f.size();
		std::string ty = f[1];
		for (size_t k = 2; k + 4 < nf; ++k)
			ty += ":" + f[k];
		NifFile tmp;
		if (!synthModel(tmp, ty, f[nf - 4], std::stoull(f[nf - 3]), std::stoi(f[nf - 2]), static_cast<uint32_t>(std::stoul(f[nf - 1]))))
			return false;
		std::stringstream ss(std::ios::in | std::ios::out | std::ios::binary);
		NifSaveOptions so;
		so.optimize = so.sortBlocks = false;
		if (tmp.Save(ss, so) != 0)
			return false;
		bytes = ss.str();
		return true;
	}
	return false;
}

// what one cut point goes through
void onePrefix(const std::string& bytes, size_t cut, bool deep) {
	std::string pre = bytes.substr(0, cut);
	std::stringstream in(pre, std::ios::in | std::ios::binary);
	NifFile nif;
	int rc = nif.Load(in);
	(void)rc;
	// whatever was loaded can be queried, saved and destroyed
	battery(nif, deep);
	std::stringstream out(std::ios::in | std::ios::out | std::ios::binary);
	NifSaveOptions so;
	so.optimize = so.sortBlocks = false;
	nif.Save(out, so);
	NifFile copy(nif);
}

// c16.run <source> <cut,cut,...|all|stride:<n>[:<dense head bytes>]> ; answers "n=<points> size=<bytes> bad=<cut:what;...>"
std::string run(const Args& a) {
	alarm(900);
	if (probeSynth(a[1]) != "ok")
		return "unloadable-synth";
	std::string bytes;
	if (!sourceBytes(a[1], bytes))
		return "unusable-source";
	bool deep = a[1].rfind("load:", 0) == 0;
	std::vector<size_t> cuts;
	if (a[2] == "all")
		for (size_t c = 0; c < bytes.size(); ++c)
			cuts.push_back(c);
	else if (a[2].rfind("stride:", 0) == 0) {
		auto sp = split(a[2], ':');
		size_t st = std::max<size_t>(1, std::stoul(sp[1]));
		size_t head = sp.size() > 2 ? std::stoul(sp[2]) : 400;
		for (size_t c = 0; c < bytes.size(); c += st)
			cuts.push_back(c);
		// the header and the end of the file densely
		for (size_t c = 0; c < std::min<size_t>(bytes.size(), head); ++c)
			cuts.push_back(c);
		for (size_t c = bytes.size() > 64 ? bytes.size() - 64 : 0; c < bytes.size(); ++c)
			cuts.push_back(c);
		std::sort(cuts.begin(), cuts.end());
		cuts.erase(std::unique(cuts.begin(), cuts.end()), cuts.end());
	}
	else
		for (auto c : parseList(a[2]))
			if (c >= 0 && static_cast<size_t>(c) <= bytes.size())
				cuts.push_back(static_cast<size_t>(c));
	std::string bad;
	size_t next = 0, done = 0;
	int nbad = 0;
	while (next < cuts.size() && nbad < 40) {
		int fds[2];
		if (pipe(fds) != 0)
			return "fail pipe";
		fflush(nullptr);
		pid_t pid = fork();
		if (pid == 0) {
			close(fds[0]);
			for (size_t k = next; k < cuts.size(); ++k) {
				uint32_t idx = static_cast<uint32_t>(k);
				if (::write(fds[1], &idx, 4) != 4)
					_exit(3);
				alarm(20); // per cut point
				try {
					onePrefix(bytes, cuts[k], deep);
				}
				catch (const std::bad_alloc&) {
					// an allocation refused by the allocator limit is an error return, not a fault
				}
				catch (const std::length_error&) {
				}
			}
			_exit(0);
		}
		close(fds[1]);
		uint32_t last = static_cast<uint32_t>(next), idx;
		bool any = false;
		while (::read(fds[0], &idx, 4) == 4) {
			last = idx;
			any = true;
		}
		close(fds[0]);
		int st = 0;
		waitpid(pid, &st, 0);
		if (WIFEXITED(st) && WEXITSTATUS(st) == 0) {
			done += cuts.size() - next;
			next = cuts.size();
		}
		else {
			std::string what = WIFSIGNALED(st) ? (WTERMSIG(st) == SIGALRM ? "hang" : "signal" + std::to_string(WTERMSIG(st))) : "rc" + std::to_string(WEXITSTATUS(st));
			if (!any)
				return "fail child died before the first cut point (" + what + ")";
			bad += (bad.empty() ? "" : ";") + std::to_string(cuts[last]) + ":" + what;
			++nbad;
			done += last - next + 1;
			next = last + 1;
		}
	}
	return "n=" + std::to_string(done) + " size=" + std::to_string(bytes.size()) + " bad=" + (bad.empty() ? "-" : bad);
}
// c16.read <hexbytes|-> <cut> <w,w,...> : the first <cut> bytes are the stream; fields of the given widths (1,2,4,8) are read
// one after the other through NiIStream into zero-initialised variables; answers the values and whether the stream failed
std::string readFields(const Args& a) {
	std::string bytes = a[1] == "-" ? "" : hexDecode(a[1]);
	size_t cut = std::min<size_t>(std::stoul(a[2]), bytes.size());
	std::stringstream in(bytes.substr(0, cut), std::ios::in | std::ios::binary);
	NiHeader hdr;
	NiIStream stream(&in, &hdr);
	std::string out;
	for (auto w : parseList(a[3])) {
		uint64_t v = 0;
		stream.read(reinterpret_cast<char*>(&v), static_cast<std::streamsize>(w));
		out += (out.empty() ? "" : ",") + std::to_string(v);
	}
	return out + " " + (in.fail() ? "failed" : "good");
}
Reg r1("c16.run", run), r2("c16.read", readFields);
} // namespace
