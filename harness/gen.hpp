// Synthesis of populated block instances through the NIFLY_VERIF sync observer (generator mode), and wire traces.
#pragma once
#include "NifFile.hpp"
#include <cstdint>
#include <string>
#include <vector>

namespace vh {
struct Rng {
	uint64_t s;
	explicit Rng(uint64_t seed)
		: s(seed * 0x9E3779B97F4A7C15ull + 0x1234567ull) {
		next();
		next();
	}
	uint64_t next() {
		s ^= s << 13;
		s ^= s >> 7;
		s ^= s << 17;
		return s;
	}
	uint32_t below(uint32_t n) { return n ? static_cast<uint32_t>(next() % n) : 0; }
	bool chance(uint32_t num, uint32_t den) { return below(den) < num; }
};

struct Event {
	char kind;		  // b bool, i int, f float, e enum, o other, r raw, h half, l line, s cstr
	uint32_t size;	  // bytes on the wire
	uint64_t offset;  // offset from the start of the observed region
	char tag;		  // 'R' block ref index, 'S' string ref part, '-' plain
	void* owner;	  // NiRef* / NiStringRef* for tagged events
};

class Tracer : public nifly::verif::SyncObserver {
public:
	enum class Mode { Trace, Generate };
	Mode mode = Mode::Trace;
	Rng rng{1};
	uint32_t refRange = 0;	// generated block refs are NPOS or < refRange
	uint32_t strRange = 0;	// generated string indices are NPOS or < strRange
	uint32_t maxCount = 3;	// generated counts / small integers are <= maxCount
	std::vector<Event> events;
	uint64_t offset = 0;
	void* pendingRef = nullptr;
	void* pendingStr = nullptr;
	int pendingStrParts = 0;
	bool inlineStrings = false; // file version < 20.1.0.3: string refs are length + text

	void reset() {
		events.clear();
		offset = 0;
		pendingRef = pendingStr = nullptr;
		pendingStrParts = 0;
	}
	bool onPrim(void* ptr, std::streamsize size, nifly::verif::Kind kind, bool reading) override;
	bool onText(std::string* str, char* buf, std::streamsize maxCount, nifly::verif::Kind kind, bool reading) override;
	void onRef(void* ref, bool reading) override;
	void onStr(void* strRef, bool reading) override;
};

struct Install {
	explicit Install(Tracer* t) { nifly::verif::observer() = t; }
	~Install() { nifly::verif::observer() = nullptr; }
};

nifly::NiVersion versionByName(const std::string& name);
const std::vector<std::string>& versionNames();
std::vector<std::string> allTypeNames();

// Builds a model (root NiNode + `count` generated instances of `type`, each referenced from the root) in `nif`.
// Returns false if the type is unknown.
bool synthModel(nifly::NifFile& nif, const std::string& type, const std::string& ver, uint64_t seed, int count, uint32_t maxCount = 3);
} // namespace vh
