#include "gen.hpp"
#include "harness.hpp"
#include <cstring>
#include <fstream>
#include <sstream>
#include <sys/wait.h>
#include <unistd.h>

using namespace nifly;

namespace vh {
static char kindChar(verif::Kind k) {
	switch (k) {
		case verif::Kind::Bool: return 'b';
		case verif::Kind::Int: return 'i';
		case verif::Kind::Float: return 'f';
		case verif::Kind::Enum: return 'e';
		case verif::Kind::Other: return 'o';
		case verif::Kind::Raw: return 'r';
		case verif::Kind::Half: return 'h';
		case verif::Kind::Line: return 'l';
		case verif::Kind::CStr: return 's';
	}
	return '?';
}

bool Tracer::onPrim(void* ptr, std::streamsize size, verif::Kind kind, bool reading) {
	Event e{kindChar(kind), static_cast<uint32_t>(size), offset, '-', nullptr};
	bool isRef = false, isStr = false;
	if (pendingRef) {
		e.tag = 'R';
		e.owner = pendingRef;
		pendingRef = nullptr;
		isRef = true;
	}
	else if (pendingStr) {
		e.tag = 'S';
		e.owner = pendingStr;
		isStr = true;
	}
	events.push_back(e);
	offset += static_cast<uint64_t>(size);
	if (mode != Mode::Generate || !reading) {
		if (isStr) {
			// a string ref is one index (>= 20.1.0.3), or a length followed by the text (when the length is not 0)
			if (!inlineStrings)
				pendingStr = nullptr;
			else if (pendingStrParts == 0) {
				uint32_t v = 0;
				std::memcpy(&v, ptr, static_cast<size_t>(std::min<std::streamsize>(4, size)));
				if (v == 0)
					pendingStr = nullptr;
				else
					pendingStrParts = 1;
			}
			else {
				pendingStr = nullptr;
				pendingStrParts = 0;
			}
		}
		return false;
	}
	auto* p = static_cast<unsigned char*>(ptr);
	if (size <= 0 || !p)
		return true;
	std::memset(p, 0, static_cast<size_t>(size));
	auto putSmall = [&](uint64_t v) { std::memcpy(p, &v, std::min<size_t>(8, static_cast<size_t>(size))); };
	if (isRef) {
		uint32_t v = (refRange == 0 || rng.chance(1, 5)) ? NIF_NPOS : rng.below(refRange);
		std::memcpy(p, &v, std::min<size_t>(4, static_cast<size_t>(size)));
		return true;
	}
	if (isStr) {
		// index form (4 bytes) for >= 20.1.0.3; for the inline form the first part is the length, the second the text
		if (pendingStrParts == 0) {
			pendingStrParts = 1;
			uint32_t v = (strRange == 0 || rng.chance(1, 5)) ? NIF_NPOS : rng.below(strRange);
			if (inlineStrings)
				v = rng.below(4);
			std::memcpy(p, &v, std::min<size_t>(4, static_cast<size_t>(size)));
			if (!inlineStrings || v == 0)
				pendingStr = nullptr, pendingStrParts = 0;
			return true;
		}
		for (std::streamsize i = 0; i < size; ++i)
			p[i] = static_cast<unsigned char>('a' + rng.below(4));
		pendingStr = nullptr;
		pendingStrParts = 0;
		return true;
	}
	switch (kind) {
		case verif::Kind::Bool: p[0] = static_cast<unsigned char>(rng.below(2)); break;
		case verif::Kind::Enum:
		case verif::Kind::Int: putSmall(rng.below(maxCount + 1)); break;
		case verif::Kind::Float: {
			static const float vals[] = {0.0f, 1.0f, -1.0f, 0.5f, 2.0f, 0.25f, -0.75f, 10.0f};
			if (size == 4) {
				float f = vals[rng.below(8)];
				std::memcpy(p, &f, 4);
			}
			else if (size == 8) {
				double d = vals[rng.below(8)];
				std::memcpy(p, &d, 8);
			}
			break;
		}
		case verif::Kind::Half: {
			static const float vals[] = {0.0f, 1.0f, -1.0f, 0.5f, 0.25f, 2.0f};
			float f = vals[rng.below(6)];
			std::memcpy(p, &f, 4); // SyncHalf passes the float itself
			break;
		}
		default:
			if (size <= 8)
				putSmall(rng.below(maxCount + 1)); // count-like
			else
				for (std::streamsize i = 0; i < size; ++i)
					p[i] = static_cast<unsigned char>(1 + rng.below(3)); // payload bytes: never zero
			break;
	}
	return true;
}

bool Tracer::onText(std::string* str, char* buf, std::streamsize maxCount_, verif::Kind kind, bool reading) {
	uint32_t len = 0;
	if (mode == Mode::Generate && reading) {
		len = rng.below(4);
		std::string t;
		for (uint32_t i = 0; i < len; ++i)
			t.push_back(static_cast<char>('a' + rng.below(4)));
		if (str)
			*str = t;
		else if (buf && maxCount_ > 0) {
			std::strncpy(buf, t.c_str(), static_cast<size_t>(maxCount_ - 1));
			buf[maxCount_ - 1] = 0;
		}
	}
	else if (str)
		len = static_cast<uint32_t>(str->size());
	else if (buf && !reading)
		len = static_cast<uint32_t>(maxCount_);
	Event e{kindChar(kind), len + 1, offset, '-', nullptr};
	events.push_back(e);
	offset += len + 1;
	return mode == Mode::Generate && reading;
}

void Tracer::onRef(void* ref, bool) {
	pendingRef = ref;
}
void Tracer::onStr(void* strRef, bool) {
	pendingStr = strRef;
	pendingStrParts = 0;
}

static const std::vector<std::pair<std::string, NiVersion>>& versionTable() {
	static const std::vector<std::pair<std::string, NiVersion>> t = {
		{"ob", NiVersion::getOB()},
		{"ob10", NiVersion(NiFileVersion::V10_2_0_0, 10, 9)},
		{"ob20_4", NiVersion(NiFileVersion::V20_0_0_4, 11, 11)},
		{"fo3", NiVersion::getFO3()},
		{"sk", NiVersion::getSK()},
		{"sse", NiVersion::getSSE()},
		{"fo4", NiVersion::getFO4()},
		{"fo4_132", NiVersion(NiFileVersion::V20_2_0_7, 12, 132)},
		{"fo4_139", NiVersion(NiFileVersion::V20_2_0_7, 12, 139)},
		{"fo76", NiVersion::getFO76()},
		{"sf", NiVersion::getSF()},
		{"sf173", NiVersion(NiFileVersion::V20_2_0_7, 12, 173)},
	};
	return t;
}
NiVersion versionByName(const std::string& name) {
	for (auto& kv : versionTable())
		if (kv.first == name)
			return kv.second;
	throw std::runtime_error("bad version " + name);
}
const std::vector<std::string>& versionNames() {
	static std::vector<std::string> n;
	if (n.empty())
		for (auto& kv : versionTable())
			n.push_back(kv.first);
	return n;
}

namespace {
struct Peek : NiFactoryRegister {
	static const std::unordered_map<std::string, std::unique_ptr<NiFactory>>& regs(NiFactoryRegister& r) {
		return r.*(&Peek::m_registrations);
	}
};
} // namespace
std::vector<std::string> allTypeNames() {
	std::vector<std::string> n;
	for (auto& kv : Peek::regs(NiFactoryRegister::Get()))
		n.push_back(kv.first);
	std::sort(n.begin(), n.end());
	return n;
}

bool synthModel(NifFile& nif, const std::string& type, const std::string& ver, uint64_t seed, int count, uint32_t maxCount) {
	// "A+B+C": instance k is of type number k mod 3 (mixed graphs)
	std::vector<NiFactory*> facs;
	for (auto& t : split(type, '+')) {
		NiFactory* f = NiFactoryRegister::Get().GetFactoryByName(t);
		if (!f)
			return false;
		facs.push_back(f);
	}
	nif.Create(versionByName(ver));
	NiHeader& hdr = nif.GetHeader();
	const uint32_t nstr = 4;
	Tracer tr;
	tr.mode = Tracer::Mode::Generate;
	tr.inlineStrings = hdr.GetVersion().File() < V20_1_0_3;
	uint64_t h = seed;
	for (char c : type + "/" + ver)
		h = h * 131 + static_cast<unsigned char>(c);
	tr.rng = Rng(h);
	tr.refRange = static_cast<uint32_t>(count) + 1;
	tr.strRange = nstr;
	tr.maxCount = maxCount;
	auto root = hdr.GetBlock<NiNode>(0u);
	for (int k = 0; k < count; ++k) {
		std::unique_ptr<NiObject> blk = facs[static_cast<size_t>(k) % facs.size()]->Create();
		{
			std::istringstream empty;
			NiIStream is(&empty, &hdr);
			tr.reset();
			Install inst(&tr);
			blk->Get(is);
		}
		// give every enumerated string reference a text that matches its index
		std::vector<NiStringRef*> srefs;
		blk->GetStringRefs(srefs);
		for (auto r : srefs) {
			if (!tr.inlineStrings) {
				if (r->GetIndex() != NIF_NPOS)
					r->get() = "s" + std::to_string(r->GetIndex() % nstr);
				else
					r->get().clear();
			}
		}
		uint32_t id = hdr.AddBlock(std::move(blk));
		if (root)
			root->childRefs.AddBlockRef(id);
	}
	return true;
}

namespace {
// gen.types -> comma separated registered block type names
Reg r1("gen.types", [](const Args&) {
	std::string o;
	for (auto& n : allTypeNames())
		o += (o.empty() ? "" : ",") + n;
	return o;
});
Reg r2("gen.versions", [](const Args&) {
	std::string o;
	for (auto& n : versionNames())
		o += (o.empty() ? "" : ",") + n;
	return o;
});
// gen.verenv -> per version name: File,User,Stream,IsOB,IsFO3,IsSK,IsSSE,IsFO4,IsFO76,IsSF,IsSpecial (what the version
// predicates of the library answer; the schema translator specialises conditions with these)
Reg r2b("gen.verenv", [](const Args&) {
	std::string o;
	for (auto& n : versionNames()) {
		NiVersion v = versionByName(n);
		o += (o.empty() ? "" : ";") + n + ":" + std::to_string(v.File()) + "," + std::to_string(v.User()) + "," + std::to_string(v.Stream()) + ","
			 + std::to_string(v.IsOB()) + "," + std::to_string(v.IsFO3()) + "," + std::to_string(v.IsSK()) + "," + std::to_string(v.IsSSE()) + ","
			 + std::to_string(v.IsFO4()) + "," + std::to_string(v.IsFO76()) + "," + std::to_string(v.IsSF()) + "," + std::to_string(v.IsSpecial());
	}
	return o;
});
// gen.synth <type> <ver> <seed> <count> <path>: forked; writes the raw-saved synthesised file
Reg r3("gen.synth", [](const Args& a) {
	fflush(nullptr);
	pid_t pid = fork();
	if (pid == 0) {
		alarm(20);
		int rc = 3;
		try {
			NifFile nif;
			if (!synthModel(nif, a[1], a[2], std::stoull(a[3]), std::stoi(a[4])))
				_exit(4);
			NifSaveOptions so;
			so.optimize = false;
			so.sortBlocks = false;
			rc = nif.Save(a[5], so) == 0 ? 0 : 5;
		}
		catch (...) {
			rc = 6;
		}
		_exit(rc);
	}
	int st = 0;
	waitpid(pid, &st, 0);
	if (WIFSIGNALED(st))
		return std::string("crash signal=") + std::to_string(WTERMSIG(st));
	int rc = WEXITSTATUS(st);
	if (rc != 0)
		return std::string("fail rc=") + std::to_string(rc);
	std::ifstream f(a[5], std::ios::binary | std::ios::ate);
	return std::string("ok ") + std::to_string(static_cast<long long>(f.tellg()));
});
} // namespace
} // namespace vh
